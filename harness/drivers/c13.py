"""C13 -- B/IP broadcasts reach every node once; foreign registrations expire on time.   (spec/BBMD.tla)

D  TLC exhaustive on BBMD.tla for small layouts (1-3 subnets, <= 1 BBMD per subnet, ordinary nodes, 1-2 foreign
   devices, TTL 1..3 with the grace periods scaled down, unicast and directed-broadcast table entries, full and partial
   tables): every interleaving of frame deliveries, timers, one broadcast per node and instant, registration, renewal,
   stop of renewals, expiry, deletion, unregistration, Read-FDT.  Sanity: named deviations / ill-formed layouts must
   violate the invariants (vacuity).
R  TLC's state graph of a small layout is dumped and covered edge by edge; every walk is forced on the real
   BIPSimple / BIPBBMD / BIPForeign stacks (the harness owns the delivery order of the parked datagram copies).
T  seeded random layouts at the property's sizes (1..5 subnets, 0..1 BBMD per subnet, 0..3 ordinary nodes per subnet,
   0..4 foreign devices with TTL 1..300 s, full and partial tables, both mask kinds) with random histories; every
   recorded execution is validated by TLC (Trace_BBMD: conformance step by step + the C13 monitors).
   Every B/IP frame seen on the virtual IP networks is checked for "length field = datagram length" (C09) by TLC
   (Trace_BVLL `emit` records).
"""
import os, json, random, shutil, struct, collections, concurrent.futures as cf
from common import Check, Hang, watchdog, bind_source
bind_source()
import tlc, tlaval
import vtime
vt = vtime.install()
import bacpypes.core as core
from bacpypes.comm import Client, Server, ApplicationServiceElement, bind
from bacpypes.pdu import Address, LocalBroadcast, PDU, unpack_ip_addr
from bacpypes.vlan import IPNetwork, IPNode, IPRouter
from bacpypes.bvllservice import BIPSimple, BIPBBMD, BIPForeign, AnnexJCodec
from bacpypes.bvll import ReadForeignDeviceTable, DeleteForeignDeviceTableEntry

NONE = -1
EPS = 1e-5
FN = {0: "RS", 4: "FW", 5: "RG", 6: "RF", 7: "FA", 8: "DF", 9: "DB", 10: "OU", 11: "OB"}
PORT = 47808
CODE = dict(BGrace=5, FGrace=30, PGrace=30)      # seconds: what the code does / what the property allows


# ---------------------------------------------------------------------------------------------------------
# layouts
# ---------------------------------------------------------------------------------------------------------
def layout(role, subnet, bbmdof, ttl, bdt, managers):
    """1-based node ids; bdt: {bbmd: [(peer, direct)]}"""
    return dict(role=list(role), subnet=list(subnet), bbmdof=list(bbmdof), ttl=list(ttl),
                bdt={int(k): [(int(p), bool(d)) for p, d in v] for k, v in bdt.items()}, managers=list(managers))


def tla_layout(L):
    n = len(L["role"])
    q = lambda xs: "<<" + ", ".join(xs) + ">>"
    bdt = []
    for i in range(1, n + 1):
        es = L["bdt"].get(i, [])
        bdt.append("{" + ", ".join("[peer |-> %d, direct |-> %s]" % (p, "TRUE" if d else "FALSE") for p, d in es) + "}")
    return {"Role": q('"%s"' % r for r in L["role"]), "Subnet": q(map(str, L["subnet"])), "BBMDof": q(map(str, L["bbmdof"])),
            "TTL": q(map(str, L["ttl"])), "BDT": q(bdt), "Managers": "{" + ", ".join(map(str, L["managers"])) + "}"}, n


def consts(**kw):
    d = dict(Res=1, BGrace=2, FGrace=4, PGrace=3, StickyUnreg="FALSE", MaxNow=7, MaxB=1, MaxEnv=3, MaxStep=1, Reduce="TRUE")
    d.update(kw)
    return d


INVS = ["TypeOK", "OncePerNode", "NeverToOriginator", "TrueSource", "ServedAtLeastTTL", "GoneAfterGrace",
        "DeleteIsImmediate", "UnregisterWithinGrace", "RenewsBeforeExpiry", "ListedIffLive"]
MONITORS = set(INVS[1:])


def module_for(name, base, L, c, tail_lines):
    defs, n = tla_layout(L)
    body = "---- MODULE %s ----\nEXTENDS %s\n" % (name, base) + "".join("c_%s == %s\n" % kv for kv in defs.items()) + "====\n"
    cfg = "CONSTANTS\n  N = %d\n" % n + "".join("  %s <- c_%s\n" % (k, k) for k in defs) + "".join("  %s = %s\n" % kv for kv in c.items())
    cfg += "\n".join(tail_lines) + "\n"
    return {name + ".tla": body}, cfg


def run_mc(chk, name, L, c, expect=None, timeout=900, dump=None, workers=None, invs=True):
    """invs=False: only enumerate the state graph (R: the model then carries the deviation flags of the tree under test,
    with which the invariants are not expected to hold)"""
    files, cfg = module_for("MCgen_BBMD", "BBMD", L, c, ["SPECIFICATION Spec"] + ["INVARIANT " + i for i in (INVS if invs else INVS[:1])] + ["CHECK_DEADLOCK FALSE"])
    res = tlc.run_tlc("MCgen_BBMD", cfg_text=cfg, files=files, timeout=timeout, name="BBMD/" + name, dump_dot=dump, workers=workers)
    if expect is None:
        chk.tlc(res)
        if res["error_kind"]:
            tlc.machinery_failure("design model BBMD/%s violates %s\n%s" % (name, res["error"], res["output"][-3000:]))
    else:
        if res["error"] not in expect and res["error_kind"] not in ("invariant", "action_property", "property", "temporal", "assert"):
            tlc.machinery_failure("sanity: BBMD/%s should violate one of %s, got %r\n%s" % (name, expect, res["error"], res["output"][-1500:]))
        chk.extra.setdefault("sanity", []).append("BBMD/%s violates %s as expected (vacuity check)" % (name, res["error"]))
    return res


# ---------------------------------------------------------------------------------------------------------
# the rig: real B/IP stacks on vlan.IPNetwork subnets joined by a vlan.IPRouter
# ---------------------------------------------------------------------------------------------------------
class ParkNode(IPNode):
    """An IPNode whose upward hand-off is owned by the harness: vlan.Network.process_pdu (the library's code) decides
    who receives a datagram and makes the copy; the copy is parked until the harness delivers it (one Rx step)."""

    def response(self, pdu):
        self.rig.park(self, pdu)

    def deliver(self, pdu):
        IPNode.response(self, pdu)


class Mux(Client, Server):
    """stands where UDPMultiplexer stands: Address <-> (host, port) tuples between AnnexJCodec and the IP node"""

    def __init__(self, addr, lan, rig, nid):
        Client.__init__(self)
        Server.__init__(self)
        self.address = addr
        self.node = ParkNode(addr, lan)
        self.node.rig, self.node.nid = rig, nid
        bind(self, self.node)

    def indication(self, pdu):
        if pdu.pduDestination.addrType == Address.localBroadcastAddr:
            dest = self.address.addrBroadcastTuple
        elif pdu.pduDestination.addrType == Address.localStationAddr:
            dest = unpack_ip_addr(pdu.pduDestination.addrAddr)
        else:
            raise RuntimeError("invalid destination address type")
        self.request(PDU(pdu, source=self.address.addrTuple, destination=dest))

    def confirmation(self, pdu):
        dest = LocalBroadcast() if pdu.pduDestination == self.address.addrBroadcastTuple else Address(pdu.pduDestination)
        self.response(PDU(pdu, source=Address(pdu.pduSource), destination=dest))


class NetLayer(Client):
    """what sits on top of a B/IP layer: records every PDU handed up (payload identity, shown source)"""

    def __init__(self, rig, nid):
        Client.__init__(self)
        self.rig, self.nid = rig, nid

    def confirmation(self, pdu):
        self.rig.handed_up(self.nid, pdu)


class Mgmt(ApplicationServiceElement):
    """management application on the B/IP service access point: sends Read-FDT / Delete-FDT-Entry, records replies"""

    def __init__(self, rig, nid):
        ApplicationServiceElement.__init__(self)
        self.rig, self.nid = rig, nid

    def confirmation(self, pdu):
        self.rig.sap_up(self.nid, pdu)

    def indication(self, pdu):
        self.rig.sap_up(self.nid, pdu)


def ip_of(subnet, host):
    return "10.0.%d.%d" % (subnet, host)


def parse_bvll(data):
    """independent reader of a B/IP frame (Annex J.2), only to observe"""
    b = bytes(data)
    f = dict(ok=len(b) >= 4 and b[0] == 0x81, fn=None, len_ok=False, orig=None, npdu=b"", arg=0, tab=[])
    if not f["ok"]:
        return f
    f["fn"] = FN.get(b[1], "?%d" % b[1])
    f["len_ok"] = struct.unpack(">H", b[2:4])[0] == len(b)
    body = b[4:]
    if b[1] == 4:
        f["orig"] = (".".join(str(x) for x in body[0:4]), struct.unpack(">H", body[4:6])[0])
        f["npdu"] = body[6:]
    elif b[1] in (9, 10, 11):
        f["npdu"] = body
    elif b[1] in (0, 5):
        f["arg"] = struct.unpack(">H", body[0:2])[0]
    elif b[1] == 8:
        f["arg"] = (".".join(str(x) for x in body[0:4]), struct.unpack(">H", body[4:6])[0])
    elif b[1] == 7:
        for i in range(0, len(body) - 9, 10):
            e = body[i:i + 10]
            f["tab"].append(((".".join(str(x) for x in e[0:4]), struct.unpack(">H", e[4:6])[0]),
                             struct.unpack(">H", e[6:8])[0], struct.unpack(">H", e[8:10])[0]))
    return f


class Rig:
    def __init__(self, L, res=1, own_mask=None):
        """L: layout; res: clock units per second.  own_mask: {bbmd: bool} write the own BDT entry with the subnet mask"""
        self.L, self.res = L, res
        self.n = len(L["role"])
        vt.reset(0.0)
        self.unit = 0          # model time (clock units)
        self.pool = []         # parked copies: dict(node, pdu, rec)
        self.up, self.sap = [], []
        self.frames = {}       # distinct frames seen on the wire: octets -> fn
        self.bad_len = []
        self.evs = []
        self.errors = []
        self.mids = {}         # mid -> originator
        self.router = IPRouter()
        self.lans = {}
        self.addr, self.by_tuple = {}, {}
        self.bip, self.mux, self.net, self.mgmt = {}, {}, {}, {}
        hosts = collections.Counter()
        for s in sorted(set(L["subnet"])):
            lan = IPNetwork("net%d" % s)
            lan.traffic_log = self._traffic
            self.lans[s] = lan
            self.router.add_network(Address("%s/24" % ip_of(s, 1)), lan)
        for i in range(1, self.n + 1):
            s = L["subnet"][i - 1]
            hosts[s] += 1
            a = Address("%s/24" % ip_of(s, 1 + hosts[s]))
            self.addr[i] = a
            self.by_tuple[a.addrTuple] = i
        for i in range(1, self.n + 1):
            role, a = L["role"][i - 1], self.addr[i]
            if role == "simple":
                bip = BIPSimple()
            elif role == "bbmd":
                bip = BIPBBMD(a)
                for p, direct in L["bdt"].get(i, []):
                    if p == i:
                        bip.add_peer(Address("%s/%d:%d" % (a.addrTuple[0], 24 if (own_mask or {}).get(i) else 32, PORT)))
                    else:
                        bip.add_peer(Address("%s/%d:%d" % (self.addr[p].addrTuple[0], 24 if direct else 32, PORT)))
            else:
                bip = BIPForeign()
            codec = AnnexJCodec()
            mux = Mux(a, self.lans[L["subnet"][i - 1]], self, i)
            nl = NetLayer(self, i)
            bind(nl, bip, codec, mux)
            mg = Mgmt(self, i)
            bind(mg, bip)
            self.bip[i], self.mux[i], self.net[i], self.mgmt[i] = bip, mux, nl, mg
        self.fds = [i for i in range(1, self.n + 1) if L["role"][i - 1] == "foreign"]
        self.bbmds = [i for i in range(1, self.n + 1) if L["role"][i - 1] == "bbmd"]
        self.settle()

    # ---- hooks ------------------------------------------------------------------------------------------
    def _traffic(self, lan_name, pdu):
        data = bytes(pdu.pduData)
        f = parse_bvll(data)
        if data not in self.frames:
            self.frames[data] = f["fn"]
        if not (f["ok"] and f["len_ok"]):
            self.bad_len.append({"lan": lan_name, "octets": data.hex(), "at": self.unit})

    def nid_of(self, tup):
        if isinstance(tup, Address):
            tup = getattr(tup, "addrTuple", None)
        return self.by_tuple.get(tuple(tup) if tup else None, 0)

    def copy_rec(self, node, pdu):
        f = parse_bvll(pdu.pduData)
        mid = struct.unpack(">H", f["npdu"][0:2])[0] if len(f["npdu"]) >= 2 else 0
        arg = f["arg"]
        if f["fn"] == "DF":
            arg = self.nid_of(arg)
        tab = sorted([self.nid_of(a), t, r] for a, t, r in f["tab"])
        return {"to": node.nid, "fn": f["fn"] or "?", "src": self.nid_of(pdu.pduSource),
                "bc": tuple(pdu.pduDestination) == tuple(node.addrBroadcastTuple),
                "orig": self.nid_of(f["orig"]) if f["orig"] else 0, "mid": mid, "arg": arg, "tab": tab}

    def park(self, node, pdu):
        self.pool.append({"node": node, "pdu": pdu, "rec": self.copy_rec(node, pdu)})

    def handed_up(self, nid, pdu):
        d = bytes(pdu.pduData)
        mid = struct.unpack(">H", d[0:2])[0] if len(d) >= 2 else 0
        ok = d == self.payload(mid) and pdu.pduDestination.addrType == Address.localBroadcastAddr
        self.up.append([nid, mid if ok else 0, self.nid_of(pdu.pduSource)])

    def sap_up(self, nid, pdu):
        cls = pdu.__class__.__name__
        if cls == "Result":
            self.sap.append([nid, "R", pdu.bvlciResultCode, []])
        elif cls == "ReadForeignDeviceTableAck":
            self.sap.append([nid, "T", 0, sorted([self.nid_of(e.fdAddress), e.fdTTL, e.fdRemain] for e in pdu.bvlciFDT)])
        else:
            self.sap.append([nid, "?" + cls, 0, []])

    @staticmethod
    def payload(mid):
        return struct.pack(">H", mid) + bytes((mid * 7 + k) & 0xFF for k in range(mid % 23))

    # ---- scheduler ----------------------------------------------------------------------------------------
    def timers(self):
        """{task object: (kind, node)} of the protocol timers; everything else in the heap is the medium"""
        t = {}
        for b in self.bbmds:
            t[id(self.bip[b])] = ("BBMDTick", b)
        for f in self.fds:
            t[id(self.bip[f])] = ("FDRenew", f)
            t[id(self.bip[f]._registration_timeout_task)] = ("FDExpired", f)
        return t

    def T(self):
        return self.unit / float(self.res)

    def settle(self):
        """run the medium's zero-delay tasks (lan.process_pdu, router hops) until only timers are left: the datagrams
        sent by the last step end up as parked copies"""
        tm = self.timers()
        for _ in range(10000):
            due = [e for e in sorted(vt.tm.tasks) if e[0] <= vt.now + EPS and id(e[2]) not in tm]
            if not due and not core.deferredFns:
                return
            if due:
                vt.now = max(vt.now, due[0][0])
            with watchdog(10):
                vt.run_one(due[0]) if due else vt._run_once_single()
            self._collect_errors()
        raise vtime.Livelock("medium does not settle")

    def _collect_errors(self):
        if vt.errors:
            self.errors += [list(e) for e in vt.errors]
            vt.errors[:] = []

    def due_timers(self):
        tm = self.timers()
        out = []
        for e in sorted(vt.tm.tasks):
            k = tm.get(id(e[2]))
            if k and e[0] <= self.T() + EPS:
                out.append((k[0], k[1], e))
        return out

    def next_deadline_unit(self):
        """earliest timer deadline in clock units (rounded up to the grid), ignoring BBMDs with an empty table"""
        tm = self.timers()
        best = None
        for e in vt.tm.tasks:
            k = tm.get(id(e[2]))
            if not k:
                continue
            if k[0] == "BBMDTick" and not self.bip[k[1]].bbmdFDT:
                continue
            u = int(-(-(e[0] - EPS) * self.res // 1))
            u = max(u, self.unit)
            best = u if best is None else min(best, u)
        return best

    def _run_timer(self, entry):
        vt.now = max(vt.now, self.T(), entry[0])     # float slot times: at most 1e-9 s past the grid instant
        with watchdog(10):
            vt.run_one(entry)
        self._collect_errors()

    # ---- one spec action on the real objects ---------------------------------------------------------------
    def step(self, ev, **a):
        """returns False if the step is not enabled on the real objects"""
        exc = ""
        n0 = len(self.errors)
        before = set(id(p) for p in self.pool)
        try:
            ok = self._do(ev, a)
        except Hang:
            raise
        except Exception as e:                       # an exception escaping the library is part of the observation
            exc, ok = "%s: %s" % (type(e).__name__, e), True
        if not ok:
            return False
        try:
            self.settle()
        except vtime.Livelock as e:
            exc = exc or "Livelock: %s" % e
        rt = [p["rec"]["tab"] for p in self.pool if id(p) not in before and p["rec"]["fn"] == "FA"] if ev == "Rx" else []
        rec = {"ev": ev, "who": a.get("who", 0), "mid": a.get("mid", 0), "d": a.get("d", 0), "c": a.get("c") or NOCOPY,
               "rt": rt[0] if rt else [],
               "exc": exc or (self.errors[n0][0] + " " + self.errors[n0][1] if len(self.errors) > n0 else ""),
               "st": self.proj()}
        self.evs.append(rec)
        return True

    def _do(self, ev, a):
        who = a.get("who", 0)
        if ev == "Originate":
            mid = a["mid"]
            self.mids[mid] = who
            with watchdog(10):
                self.net[who].request(PDU(self.payload(mid), destination=LocalBroadcast()))
        elif ev == "Rx":
            i = a["i"]
            p = self.pool.pop(i)
            a["c"] = p["rec"]
            a["who"] = p["rec"]["to"]
            a["mid"] = p["rec"]["mid"]
            with watchdog(10):
                p["node"].deliver(p["pdu"])
        elif ev in ("BBMDTick", "FDRenew", "FDExpired"):
            for k, n, e in self.due_timers():
                if k == ev and n == who:
                    self._run_timer(e)
                    break
            else:
                return False
        elif ev == "FDRegister":
            b = self.L["bbmdof"][who - 1]
            self.bip[who].register(Address("%s:%d" % self.addr[b].addrTuple), self.L["ttl"][who - 1])
        elif ev == "FDUnregister":
            if self.bip[who].bbmdAddress is None:
                return False
            self.bip[who].unregister()
        elif ev == "FDStopRenew":
            if not self.bip[who].isScheduled:
                return False
            self.bip[who].suspend_task()
        elif ev == "ReadFDT":
            self.mgmt[who].request(ReadForeignDeviceTable(destination=Address("%s:%d" % self.addr[a["d"]].addrTuple)))
        elif ev == "DeleteEntry":
            self.mgmt[who].request(DeleteForeignDeviceTableEntry(Address("%s:%d" % self.addr[a["mid"]].addrTuple),
                                                                 destination=Address("%s:%d" % self.addr[a["d"]].addrTuple)))
        elif ev == "Tick":
            if self.pool or self.due_timers_visible():
                return False
            # ageing passes of BBMDs with an empty table are not steps of the model: run them silently
            for k, n, e in self.due_timers():
                self._run_timer(e)
            self.unit += a["d"]
            vt.now = self.T()
            self.up, self.sap = [], []
            # ... and those that fall strictly inside the jump
            for _ in range(100000):
                late = [e for e in sorted(vt.tm.tasks) if e[0] < self.T() - EPS and id(e[2]) in self.timers()]
                if not late:
                    break
                keep = vt.now
                vt.now = late[0][0]
                with watchdog(10):
                    vt.run_one(late[0])
                vt.now = keep
        else:
            raise ValueError(ev)
        return True

    def due_timers_visible(self):
        return [(k, n) for k, n, e in self.due_timers() if not (k == "BBMDTick" and not self.bip[n].bbmdFDT)]

    # ---- projection ---------------------------------------------------------------------------------------
    def U(self, t):
        """a task time in clock units"""
        return int(round(t * self.res))

    def proj(self):
        fdt = []
        for b in self.bbmds:
            for e in self.bip[b].bbmdFDT:
                fdt.append([b, self.nid_of(e.fdAddress), e.fdTTL, e.fdRemain])
        fd = []
        for f in self.fds:
            x = self.bip[f]
            tr = x._registration_timeout_task
            fd.append([f, x.registrationStatus, self.U(x.taskTime) if x.isScheduled else NONE,
                       self.U(tr.taskTime) if tr.isScheduled else NONE, x.bbmdAddress is not None])
        tk = [[b, not (self.bip[b].isScheduled and self.bip[b].taskTime <= self.T() + EPS)] for b in self.bbmds]
        return {"now": self.unit, "fdt": sorted(fdt), "fd": fd, "tk": tk, "net": [p["rec"] for p in self.pool],
                "up": [list(u) for u in self.up], "sap": [list(s) for s in self.sap]}


NOCOPY = {"to": 0, "fn": "-", "src": 0, "bc": False, "orig": 0, "mid": 0, "arg": 0, "tab": []}


# ---------------------------------------------------------------------------------------------------------
# recording: random histories (T) and forced scripts (R)
# ---------------------------------------------------------------------------------------------------------
def record_random(L, res, rng, horizon_s, order="random", max_events=1500, own_mask=None, plan=None):
    """one random history on real stacks.  Every foreign device follows a random life cycle (register; then keep renewing,
    go silent, unregister or have its entry deleted; register again, ...).  Broadcasts from random nodes and Read-FDT
    requests are placed at random instants and around every boundary of the life cycles (acknowledgement + TTL, + TTL + 5 s,
    + TTL + 30 s, unregistration + 5 s / + 30 s, the instant of a deletion, the next renewal).  At every instant the
    environment's actions, the due timers and the deliveries of the parked copies are interleaved (order: "fifo" = as the
    library's own loop would, "random", "lifo").
    plan: instead of the random life cycles, a fixed list of (second, what, args) environment actions."""
    import heapq
    rig = Rig(L, res, own_mask=own_mask)
    n = rig.n
    mgrs = L["managers"]
    hang = None
    mid = [0]
    script = []
    agenda = []
    seq = [0]
    H = horizon_s * res
    nprobe = [0]

    def at(sec, what, *args):
        u = rig.unit + int(round(sec * res))
        if rig.unit <= u <= H:
            seq[0] += 1
            heapq.heappush(agenda, (u, seq[0], what, args))

    def do(ev, **a):
        ok = rig.step(ev, **a)
        if ok:
            e = rig.evs[-1]
            script.append([ev, e["who"], e["mid"], e["d"], e["c"] if ev == "Rx" else None])
        return ok

    def jit():
        return rng.choice([0, 0, 0, 1, res - 1, rng.randrange(res)]) / float(res)

    def probes(f, secs):
        for sx in ([] if plan is not None else secs):
            if nprobe[0] > 160:
                return
            nprobe[0] += 1
            at(max(0, sx + rng.choice([-1, 0, 0, 0, 1]) + jit()), "bcast", rng.choice([f, 0, 0, 0]))
            if mgrs and rng.random() < 0.35:
                at(max(0, sx + rng.choice([-1, 0, 0, 1]) + jit()), "read", L["bbmdof"][f - 1])

    def next_renewal_in(f):
        x = rig.bip[f]
        return max(0.0, x.taskTime - rig.T()) if x.isScheduled else 0.0

    def run(what, args):
        if what == "bcast":
            who = args[0] or rng.randint(1, n)
            mid[0] += 1
            do("Originate", who=who, mid=mid[0])
        elif what == "read":
            if mgrs:
                do("ReadFDT", who=rng.choice(mgrs), d=args[0])
        elif what == "reg":
            f = args[0]
            ttl = L["ttl"][f - 1]
            do("FDRegister", who=f)
            probes(f, [0, ttl])
            r = rng.random() if plan is None else 2
            span = rng.choice([0, 0.5, 1, 1.5, 2.5]) * ttl + rng.choice([0, 0, 1, 2]) + jit()
            if r < 0.30:
                at(span, "stop", f)
            elif r < 0.60:
                at(span, "unreg", f)
            elif r < 0.85 and mgrs:
                at(span, "del", f)
            elif r < 1:
                probes(f, [2 * ttl, 3 * ttl])
        elif what == "stop":
            f = args[0]
            ttl = L["ttl"][f - 1]
            last = next_renewal_in(f) - ttl          # seconds since (negative) the last renewal
            if do("FDStopRenew", who=f):
                base = last + ttl
                probes(f, [base, base + 4, base + 5, base + 6, base + 29, base + 30, base + 31])
                if plan is None and rng.random() < 0.6:
                    at(max(0, base + rng.choice([2, 6, 31, 33])) + jit(), "reg", f)
        elif what == "unreg":
            f = args[0]
            if do("FDUnregister", who=f):
                probes(f, [0, 4, 5, 6, 29, 30, 31])
                if plan is None and rng.random() < 0.7:
                    at(rng.choice([0, 0, 1, 6, 31]) + jit(), "reg", f)
        elif what == "del":
            f = args[0]
            nr = next_renewal_in(f)
            do("DeleteEntry", who=rng.choice(mgrs), d=L["bbmdof"][f - 1], mid=f)
            probes(f, [0, 0, nr, nr + 1])
            r = rng.random() if plan is None else 2
            if r < 0.3:
                at(nr + rng.choice([0, 1, 3]) + jit(), "unreg", f)
            elif r < 0.5:
                at(nr + rng.choice([0, 1, 3]) + jit(), "stop", f)

    try:
        for sec, what, args in (plan or []):
            at(sec, what, *args)
        for f in (rig.fds if plan is None else []):
            at(rng.choice([0, 0, 1, 2, 3]) + jit(), "reg", f)
        for _ in range(rng.randint(3, 10) if plan is None else 0):
            at(rng.randrange(0, H + 1) / float(res), "bcast", 0)
        if not rig.fds:                                   # no foreign device: a burst of broadcasts from every node
            for who in range(1, n + 1):
                at(rng.choice([0, 0, 1]), "bcast", who)
        while len(rig.evs) < max_events:
            # everything that can happen at this instant, in a random interleaving
            while len(rig.evs) < max_events:
                choices = []
                if rig.pool:
                    choices += ["rx"] * 3
                timers = rig.due_timers_visible()
                if timers:
                    choices += ["timer"]
                if agenda and agenda[0][0] <= rig.unit:
                    choices += ["env"]
                if not choices:
                    break
                c = rng.choice(choices) if order != "fifo" else choices[0]
                if c == "rx":
                    do("Rx", i=0 if order == "fifo" else len(rig.pool) - 1 if order == "lifo" else rng.randrange(len(rig.pool)))
                elif c == "timer":
                    k, who = rng.choice(timers) if order != "fifo" else timers[0]
                    do(k, who=who)
                else:
                    u, _, what, args = heapq.heappop(agenda)
                    run(what, args)
            # advance to the next instant at which something is scheduled
            nxt = [agenda[0][0]] if agenda else []
            nd = rig.next_deadline_unit()
            if nd is not None and nd > rig.unit and agenda:
                nxt.append(nd)
            if agenda and any(rig.bip[b].bbmdFDT for b in rig.bbmds):
                nxt.append((rig.unit // res + 1) * res)
            nxt = [u for u in nxt if rig.unit < u <= H]
            if not nxt:
                break
            if not do("Tick", d=min(nxt) - rig.unit):
                raise RuntimeError("Tick not enabled: pool=%d timers=%r" % (len(rig.pool), rig.due_timers_visible()))
    except Hang as hx:
        hang = str(hx)
    return finish_trace(rig, L, res, script, hang, order)


def finish_trace(rig, L, res, script, hang, order, stopped=None):
    return dict(L=L, res=res, evs=rig.evs, script=script, hang=hang, order=order, stopped=stopped, errors=rig.errors[:5],
                bad_len=rig.bad_len[:5], frames=rig.frames)


def record_script(L, res, script, own_mask=None):
    """force a sequence of spec actions (a TLC behaviour or a replay file) on real stacks"""
    rig = Rig(L, res, own_mask=own_mask)
    hang = None
    stopped = None
    try:
        for k, (ev, who, mid, d, c) in enumerate(script):
            a = dict(who=who, mid=mid, d=d)
            if ev == "Rx":
                want = {x: c[x] for x in ("to", "fn", "src", "bc", "orig", "mid", "arg")}
                idx = [i for i, p in enumerate(rig.pool) if {x: p["rec"][x] for x in want} == want and
                       [list(t) for t in p["rec"]["tab"]] == [list(t) for t in c.get("tab", [])]]
                if not idx:
                    stopped = k
                    break
                a = dict(i=idx[0])
            if not rig.step(ev, **a):
                stopped = k
                break
    except Hang as hx:
        hang = str(hx)
    return finish_trace(rig, L, res, script, hang, "script", stopped)


# ---------------------------------------------------------------------------------------------------------
# validation by TLC
# ---------------------------------------------------------------------------------------------------------
def _validate_group(args):
    gid, L, c, traces, wd = args
    tf = os.path.join(wd, "traces_%d.ndjson" % gid)
    with open(tf, "w") as f:
        for t in traces:
            f.write(json.dumps({"tid": t["tid"], "evs": t["evs"]}) + "\n")
    name = "TRgen_BBMD_%d" % gid
    files, cfg = module_for(name, "Trace_BBMD", L, c, ["SPECIFICATION TSpec", "CHECK_DEADLOCK FALSE"])
    res = tlc.run_tlc(name, cfg_text=cfg, files=files, workers=2, timeout=1800, env={"TRACE_FILE": tf}, name="Trace_BBMD", heap="2g")
    return gid, res


def layout_key(L):
    return json.dumps(L, sort_keys=True)


def validate(chk, traces, on_verdict, sticky):
    """groups traces by (layout, resolution); one Trace_BBMD run per group; on_verdict(trace, verdict) per trace"""
    groups = {}
    for t in traces:
        groups.setdefault((layout_key(t["L"]), t["res"]), []).append(t)
    wd = tlc.workdir("trbbmd")
    try:
        jobs = []
        for gid, ((lk, res), ts) in enumerate(groups.items()):
            c = consts(Res=res, StickyUnreg="TRUE" if sticky else "FALSE", MaxNow=0, MaxB=0, MaxEnv=0, MaxStep=1, Reduce="FALSE", **CODE)
            jobs.append((gid, ts[0]["L"], c, ts, wd))
        with cf.ThreadPoolExecutor(max_workers=max(1, min(6, int(os.environ.get("VERIF_TLC_WORKERS", "16")) // 2))) as ex:
            results = list(ex.map(_validate_group, jobs))
    finally:
        shutil.rmtree(wd, ignore_errors=True)
    bytid = {t["tid"]: t for t in traces}
    for gid, res in results:
        ts = jobs[gid][3]
        if res["error_kind"]:
            tlc.machinery_failure("trace validation failed for group %d: %s\n%s" % (gid, res["error"], res["output"][-3000:]))
        vs = tlc.printed_values(res["output"])
        if len(vs) != len(ts):
            tlc.machinery_failure("trace validation returned %d verdicts for %d traces (group %d)\n%s" % (len(vs), len(ts), gid, res["output"][-3000:]))
        chk.extra["trace_validation_states"] = chk.extra.get("trace_validation_states", 0) + res["distinct"]
        for v in vs:
            on_verdict(bytid[v["tid"]], v)
    chk.extra["trace_validation_groups"] = chk.extra.get("trace_validation_groups", 0) + len(groups)


# ---------------------------------------------------------------------------------------------------------
# R: TLC's state graph -> scripts
# ---------------------------------------------------------------------------------------------------------
def parse_dot_acts(path):
    """nodes {id: act record}, edges, initial node of a `-dump dot` file (only the `act` variable of each state is
    parsed: the states of BBMD.tla contain bags keyed by records, which tlaval.parse_state does not read)"""
    import re
    nodes, edges, init = {}, [], None
    node_re = re.compile(r'^(-?\d+) \[label="((?:[^"\\]|\\.)*)"(,style = filled)?[,\]]')
    edge_re = re.compile(r'^(-?\d+) -> (-?\d+) ')
    for line in open(path):
        m = edge_re.match(line)
        if m:
            edges.append((m.group(1), m.group(2)))
            continue
        m = node_re.match(line)
        if m:
            lab = m.group(2).replace('\\n', '\n').replace('\\\\', '\\').replace('\\"', '"')
            i = lab.index("/\\ act = ") + len("/\\ act = ")
            p = tlaval.P(lab)
            p.i = i
            nodes[m.group(1)] = {"act": p.value()}
            if m.group(3):
                init = m.group(1)
    return nodes, edges, init


def graph_scripts(chk, name, L, c, rng, limit=None, workers=None):
    from c14 import edge_cover
    wd = tlc.workdir("dot")
    dot = os.path.join(wd, "g")
    try:
        run_mc(chk, name, L, c, dump=dot, workers=workers, invs=False)
        nodes, edges, init = parse_dot_acts(dot + ".dot")
    finally:
        shutil.rmtree(wd, ignore_errors=True)
    walks = edge_cover(nodes, edges, init)
    total = len(walks)
    if limit and len(walks) > limit:
        rng.shuffle(walks)
        walks = walks[:limit]
    scripts = []
    for w in walks:
        sc = []
        for v in w:
            a = nodes[v]["act"]
            c_ = a.get("c")
            if c_ is not None:
                c_ = dict(c_)
                c_["tab"] = [list(x) for x in c_["tab"]]
            sc.append([a["n"], a["who"], a["mid"], a["d"], c_])
        scripts.append(sc)
    chk.extra.setdefault("replay", []).append({"config": name, "graph_nodes": len(nodes), "graph_edges": len(edges),
                                               "walks_in_edge_cover": total, "walks_executed_on_impl": len(scripts),
                                               "steps": sum(len(s) for s in scripts)})
    return scripts


# ---------------------------------------------------------------------------------------------------------
# random layouts at the property's sizes
# ---------------------------------------------------------------------------------------------------------
def random_layout(rng, small=False):
    """1..5 subnets, 0..1 BBMD per subnet, 0..3 ordinary nodes per subnet, 0..4 foreign devices (TTL 1..300 s), full or
    partial tables, both mask kinds.  A foreign device is homed on a remote subnet or on any of the 1..5 subnets that its
    own BBMD does not broadcast on (not the BBMD's subnet, not the target of one of its directed-broadcast entries)."""
    S = rng.randint(1, 3 if small else 5)
    role, subnet = [], []
    bb = {}
    for s in range(1, S + 1):
        if rng.random() < 0.75:
            role.append("bbmd")
            subnet.append(s)
            bb[s] = len(role)
        for _ in range(rng.randint(0, 2 if small else 3)):
            role.append("simple")
            subnet.append(s)
    bbmds = sorted(bb.values())
    full = rng.random() < 0.5
    bdt = {}
    for b in bbmds:
        es = []
        for p in bbmds:
            if p == b:
                if full or rng.random() < 0.8:
                    es.append((p, False))
            elif full or rng.random() < 0.6:
                es.append((p, rng.random() < 0.4))
        rng.shuffle(es)
        bdt[b] = es
    nfd = rng.randint(0, 2 if small else 4) if bbmds else 0
    ttl_pool = [1, 2, 3, 4, 5, 6, 7, 10, 12, 30, 45, 60, 120, 300]
    fds = {}
    for _ in range(nfd):
        b = rng.choice(bbmds)
        bad = {subnet[b - 1]} | {subnet[p - 1] for p, d in bdt[b] if d}
        homes = [s for s in range(1, S + 1) if s not in bad] + [S + 1, S + 2] * 2
        role.append("foreign")
        subnet.append(rng.choice(homes))
        fds[len(role)] = b
    n = len(role)
    if n == 0:
        role, subnet, n = ["simple"], [1], 1
    bbmdof, ttl = [0] * n, [0] * n
    for f, b in fds.items():
        bbmdof[f - 1] = b
        ttl[f - 1] = rng.choice(ttl_pool) if rng.random() < 0.8 else rng.randint(1, 300)
    nonf = [i for i in range(1, n + 1) if role[i - 1] != "foreign"]
    mgrs = sorted(rng.sample(nonf, min(len(nonf), 2))) if nonf else []
    own_mask = {b: rng.random() < 0.3 for b in bbmds}
    return layout(role, subnet, bbmdof, ttl, bdt, mgrs), own_mask


def silent_devices_plan(rng, res):
    """k foreign devices with different TTLs at one BBMD register, go silent one after the other and expire while the table
    is read every second and broadcasts keep coming: entries leave the table at different ticks"""
    k = rng.randint(2, 4)
    ttls = rng.sample([1, 2, 3, 4, 5, 7], k)
    L = layout(["bbmd", "simple"] + ["foreign"] * k, [1, 1] + [2 + i for i in range(k)], [0, 0] + [1] * k, [0, 0] + ttls,
               {1: [(1, False)]}, [2])
    plan = []
    order = list(range(3, 3 + k))
    rng.shuffle(order)
    for f in order:
        t0 = rng.randrange(0, 2 * res) / float(res)
        plan.append((t0, "reg", (f,)))
        plan.append((t0 + rng.choice([0, 1, 2]) + rng.randrange(1, res + 1) / float(res) * 0.5, "stop", (f,)))
    horizon = max(ttls) + 12
    for sec in range(horizon):
        plan.append((sec + rng.randrange(res) / float(res), "read", (1,)))
        if rng.random() < 0.5:
            plan.append((sec + rng.randrange(res) / float(res), "bcast", (rng.choice([1, 2] + order),)))
    return L, plan, horizon


def detect_sticky():
    """does BIPForeign.register() leave registrationStatus at -2 (the pinned tree's behaviour)?  Read off the real code so
    that the conformance model follows the tree when the finding gets repaired (the monitors do not depend on it)."""
    vt.reset(0.0)
    f = BIPForeign()
    f.registrationStatus = -2
    f.register(Address("10.9.9.9"), 10)
    sticky = f.registrationStatus == -2
    vt.reset(0.0)
    return sticky


# ---------------------------------------------------------------------------------------------------------
# verdicts
# ---------------------------------------------------------------------------------------------------------
def history_class(t, l, m):
    """classify the failing step l (1-based) of monitor m for the violation signature"""
    evs = t["evs"][:l]
    e = evs[-1]
    L = t["L"]
    role = lambda n: L["role"][n - 1] if 1 <= n <= len(L["role"]) else "-"
    unreg, rereg = set(), set()
    for x in evs:
        if x["ev"] == "FDUnregister":
            unreg.add(x["who"])
            rereg.discard(x["who"])
        elif x["ev"] == "FDRegister" and x["who"] in unreg:
            rereg.add(x["who"])
    st = {r[0]: r[1] for r in e["st"]["fd"]}
    stuck = sorted(f for f in rereg if st.get(f) == -2)
    sig = {"event": e["ev"], "role": role(e["who"])}
    if e["ev"] == "Rx":
        sig["frame"] = e["c"]["fn"]
    # the acknowledgement of a registration made after an unregistration reaches a device that still considers itself
    # unregistered (-2) / that device's own broadcast is dropped
    if (m == "ServedAtLeastTTL" and e["ev"] == "Rx" and e["c"]["fn"] == "RS" and e["who"] in stuck) or \
            (m == "OncePerNode" and e["ev"] == "Originate" and e["who"] in stuck):
        sig = {"history": "register-after-unregister", "fd_status": -2}
    return sig


def make_on_verdict(chk):
    def onv(t, v):
        replay = {"L": t["L"], "res": t["res"], "own_mask": t.get("own_mask"), "script": t["script"]}
        bad = False
        if t["hang"]:
            bad |= chk.violation("Terminates", {"what": "hang"}, {"what": "the code under test did not return", "layout": t["L"]}, replay)
        byname = {}
        for m, l in v["viol"]:
            byname.setdefault(m, []).append(l)
        for m, ls in sorted(byname.items()):
            if m not in MONITORS:
                continue
            l = min(ls)
            ev = t["evs"][l - 1]
            bad |= chk.violation(m, history_class(t, l, m),
                                 {"layout": t["L"], "res": t["res"], "step": l, "event": {k: ev[k] for k in ("ev", "who", "mid", "d", "c", "exc")},
                                  "post_state": ev["st"], "prefix": [x[:4] for x in t["script"][:l]][-25:]}, replay)
        if t["bad_len"]:
            bad |= chk.violation("LengthFieldExact", {"what": "bvll length field"}, {"frames": t["bad_len"]}, replay)
        if v["rej"] and not bad:
            ev = t["evs"][v["rej"] - 1]
            chk.deviation({"layout": t["L"], "res": t["res"], "step": v["rej"], "event": {k: ev[k] for k in ("ev", "who", "mid", "d", "c", "exc")},
                           "post_state": ev["st"], "prev_state": t["evs"][v["rej"] - 2]["st"] if v["rej"] > 1 else None,
                           "order": t["order"]})
        if t.get("stopped") is not None:
            chk.deviation({"what": "spec step not enabled in the implementation", "layout": t["L"],
                           "script": [x[:4] for x in t["script"][:t["stopped"] + 1]][-12:]})
        if t["errors"] and not bad and not v["rej"]:
            chk.deviation({"what": "exception logged by the library's loop", "errors": t["errors"], "layout": t["L"]})
        if not v["rej"] and not v["viol"] and not t["hang"] and t.get("stopped") is None:
            chk.traces_validated += 1
        for m in v["ante"]:
            chk.monitor(m)
    return onv


def check_frames(chk, traces):
    """every distinct B/IP frame seen on the virtual IP networks -> Trace_BVLL `emit` records (C09: LengthFieldExact)"""
    frames = {}
    for t in traces:
        frames.update(t["frames"])
    code = {v: k for k, v in FN.items()}
    wd = tlc.workdir("c13bvll")
    try:
        tf = os.path.join(wd, "frames.ndjson")
        keys = sorted(frames)
        with open(tf, "w") as f:
            for i, octs in enumerate(keys):
                f.write(json.dumps({"id": i + 1, "k": "emit", "oct": list(octs), "fn": code.get(frames[octs], 255), "chk": "none", "val": []}) + "\n")
        cfg = "INIT Init\nNEXT Next\nINVARIANT Report\nCHECK_DEADLOCK FALSE\n"
        res = tlc.run_tlc("Trace_BVLL", cfg_text=cfg, workers=2, timeout=900, env={"TRACE_FILE": tf}, name="Trace_BVLL/c13-frames")
    finally:
        shutil.rmtree(wd, ignore_errors=True)
    if res["error_kind"]:
        tlc.machinery_failure("frame validation failed: %s\n%s" % (res["error"], res["output"][-2000:]))
    bad = tlc.printed_values(res["output"])
    chk.extra["bvll_frames_checked_by_tlc"] = len(keys)
    chk.extra["bvll_functions_seen"] = sorted(set(frames.values()))
    for v in bad:
        if v.get("why"):
            octs = keys[v["id"] - 1]
            chk.violation("LengthFieldExact", {"fn": frames[octs], "why": sorted(v["why"])}, {"octets": octs.hex(), "why": sorted(v["why"])}, None)
    chk.monitor("LengthFieldExact", len(keys))


# ---------------------------------------------------------------------------------------------------------
# fixed small layouts for the model checker (node ids 1-based)
# ---------------------------------------------------------------------------------------------------------
def LB(ttl):        # one BBMD + one ordinary node + one foreign device: the life cycle of a registration
    return layout(["bbmd", "simple", "foreign"], [1, 1, 2], [0, 0, 1], [0, 0, ttl], {1: [(1, False)]}, [2])


LAYOUTS = {
    # two BBMDs listing each other (one entry unicast / two-hop, the other directed / one-hop), an ordinary node next to
    # each, a foreign device at the first
    "A1": layout(["bbmd", "simple", "bbmd", "simple", "foreign"], [1, 1, 2, 2, 3], [0, 0, 0, 0, 1], [0, 0, 0, 0, 2],
                 {1: [(1, False), (3, False)], 3: [(1, True), (3, False)]}, [2]),
    # partial tables: b1 -> {b1, b3 directed}, b3 -> {b3}; third subnet without BBMD holds an ordinary node and the
    # foreign device (registered with b3)
    "A2": layout(["bbmd", "simple", "bbmd", "simple", "foreign"], [1, 1, 2, 3, 3], [0, 0, 0, 0, 3], [0, 0, 0, 0, 1],
                 {1: [(1, False), (3, True)], 3: [(3, False)]}, [2]),
    # tables without the own entry (a unicast-forwarded NPDU is then not re-broadcast locally)
    "A3": layout(["bbmd", "simple", "bbmd", "simple", "foreign"], [1, 1, 2, 2, 3], [0, 0, 0, 0, 3], [0, 0, 0, 0, 1],
                 {1: [(3, False)], 3: [(1, False)]}, [4]),
    # three BBMDs, full tables with mixed masks, no foreign device
    "A4": layout(["bbmd", "bbmd", "simple", "bbmd", "simple"], [1, 2, 2, 3, 3], [0] * 5, [0] * 5,
                 {1: [(1, False), (2, True), (4, False)], 2: [(1, False), (2, False), (4, True)], 4: [(1, True), (2, False), (4, False)]}, []),
    # the foreign device sits on the subnet of ANOTHER BBMD (which its own BBMD reaches by unicast): it hears that BBMD's
    # re-broadcasts and must ignore them
    "A5": layout(["bbmd", "bbmd", "simple", "foreign"], [1, 2, 2, 2], [0, 0, 0, 1], [0, 0, 0, 2],
                 {1: [(1, False), (2, False)], 2: [(1, True), (2, False)]}, [3]),
    # two foreign devices at one BBMD
    "C1": layout(["bbmd", "foreign", "foreign"], [1, 2, 3], [0, 1, 1], [0, 1, 2], {1: [(1, False)]}, [1]),
    # two foreign devices at two BBMDs
    "C2": layout(["bbmd", "bbmd", "foreign", "foreign"], [1, 2, 3, 3], [0, 0, 1, 2], [0, 0, 1, 1],
                 {1: [(1, False), (2, False)], 2: [(1, True), (2, False)]}, [1]),
    # ill-formed (sanity): the foreign device sits on the subnet of the BBMD it registers with
    "X1": layout(["bbmd", "simple", "foreign"], [1, 1, 1], [0, 0, 1], [0, 0, 2], {1: [(1, False)]}, [2]),
}


def main(tier, seed, parts="DRT"):
    chk = Check("C13", tier, seed)
    rng = random.Random(seed)
    thorough = tier == "thorough"
    chk.rule = ("model: every interleaving of BBMD.tla for the small layouts; implementation: one evaluation = one recorded history "
                "(layout x sequence of spec actions) executed on real BIPSimple/BIPBBMD/BIPForeign stacks over vlan.IPNetwork + IPRouter and "
                "validated by TLC against BBMD.tla; distinct = (layout, history); non-trivial = at least one broadcast crossing a BBMD or "
                "one registration event")
    chk.assumptions = [
        "a foreign device does not live on a subnet its own BBMD broadcasts on (the BBMD's subnet or the target of one of its directed-broadcast entries): there it hears broadcasts twice and its own back by design (sanity config X1)",
        "the medium is loss-free and zero-delay (vlan); the harness owns the delivery order of the datagram copies (any order, also non-FIFO)",
        "grace period of the property = 30 s (Annex J); the code's BBMD adds 5 s to the TTL, which refines it; model checking uses TTL 1..3 with "
        "the periods scaled to 2 / 3 / 4 s (BBMD / property / device's own expiry)",
        "a Register-Foreign-Device with TTL 0 (bacpypes' unregistration) ends the service obligation; the entry may stay listed for the grace period",
        "time is quantised to 1/Res s (Res in {1, 2, 4}); a stop of the renewals (suspend_task) models a device that goes silent",
    ]
    sticky = detect_sticky()
    chk.extra["code_flags"] = {"StickyUnreg": sticky}
    onv = make_on_verdict(chk)
    # ---- D ----
    D = [("B1_e3_t6", LB(1), consts(MaxEnv=3, MaxNow=6)), ("A1_e2_t2", LAYOUTS["A1"], consts(MaxEnv=2, MaxNow=2)),
         ("A2_e2_t2", LAYOUTS["A2"], consts(MaxEnv=2, MaxNow=2)), ("A3_e2_t2", LAYOUTS["A3"], consts(MaxEnv=2, MaxNow=2)),
         ("A4_b5", LAYOUTS["A4"], consts(MaxEnv=0, MaxNow=1, MaxB=5)), ("A5_e1_t1", LAYOUTS["A5"], consts(MaxEnv=1, MaxNow=1, MaxB=2))]
    if thorough:
        D += [("B2_e4_t8", LB(2), consts(MaxEnv=4, MaxNow=8)), ("B2_e3_t7", LB(2), consts(MaxEnv=3, MaxNow=7)), ("B3_e3_t9", LB(3), consts(MaxEnv=3, MaxNow=9)),
              ("B1_res2_e3_t10", LB(1), consts(MaxEnv=3, MaxNow=10, Res=2)),
              ("C1_e3_t5", LAYOUTS["C1"], consts(MaxEnv=3, MaxNow=5)), ("C2_e2_t3", LAYOUTS["C2"], consts(MaxEnv=2, MaxNow=3)),
              ("A1_e3_t4", LAYOUTS["A1"], consts(MaxEnv=3, MaxNow=4)), ("A5_e2_t3", LAYOUTS["A5"], consts(MaxEnv=2, MaxNow=3)),
              ("A1_b3", LAYOUTS["A1"], consts(MaxEnv=1, MaxNow=1, MaxB=3))]
    for name, L, c in (D if "D" in parts else []):
        run_mc(chk, name, L, c, timeout=1500)
    # vacuity: named deviations / an ill-formed layout must violate the invariants
    run_mc(chk, "dev_StickyUnreg", LB(1), consts(MaxEnv=3, MaxNow=3, StickyUnreg="TRUE"), expect=["ServedAtLeastTTL", "OncePerNode"])
    run_mc(chk, "dev_BGrace1", LB(2), consts(MaxEnv=1, MaxNow=4, BGrace=1, PGrace=2), expect=["ServedAtLeastTTL", "RenewsBeforeExpiry"])
    run_mc(chk, "dev_BGraceAbovePGrace", LB(1), consts(MaxEnv=2, MaxNow=6, BGrace=3, PGrace=2), expect=["GoneAfterGrace", "UnregisterWithinGrace", "ListedIffLive"])
    run_mc(chk, "illformed_X1", LAYOUTS["X1"], consts(MaxEnv=1, MaxNow=1), expect=["OncePerNode", "NeverToOriginator"])
    # ---- R ----
    traces = []
    # (the model with the constants of the code: 5 s / 30 s / 30 s, so that TLC's behaviours can be forced 1:1)
    sk = "TRUE" if sticky else "FALSE"
    R = [("R_B1", LB(1), consts(MaxNow=3, MaxEnv=2, MaxB=1, StickyUnreg=sk, **CODE), 5000 if thorough else 250)]
    if thorough:
        R += [("R_A5", LAYOUTS["A5"], consts(MaxNow=1, MaxEnv=1, MaxB=2, StickyUnreg=sk, **CODE), 3000),
              ("R_B1_e3", LB(1), consts(MaxNow=1, MaxEnv=3, MaxB=1, StickyUnreg=sk, **CODE), 3000)]
    else:
        R += [("R_A5", LAYOUTS["A5"], consts(MaxNow=0, MaxEnv=1, MaxB=2, StickyUnreg=sk, **CODE), 100)]
    for name, L, rc, limit in R:
        for sc in graph_scripts(chk, name, L, rc, rng, limit=limit):
            t = record_script(L, 1, sc)
            traces.append(t)
            chk.case(("R", name, json.dumps([x[:4] for x in sc])), nontrivial=True)
    # ---- T ----
    nlay, nhist = (110, 5) if thorough else (14, 3)
    for k in range(nlay):
        L, own = random_layout(rng, small=(k % 3 == 0))
        fds = [i for i, r in enumerate(L["role"]) if r == "foreign"]
        tmax = max([L["ttl"][i] for i in fds] or [1])
        res = rng.choice([1, 1, 2, 4])           # one clock resolution per layout (= one TLC run per layout)
        for j in range(nhist if fds else 1):
            horizon = min(2 * tmax + 45, 700 if thorough else 160)
            s = rng.randrange(1 << 30)
            t = record_random(L, res, random.Random(s), horizon, order=rng.choice(["random", "random", "fifo", "lifo"]),
                              max_events=6000 if thorough else 2500, own_mask=own)
            t["own_mask"], t["rng_seed"] = own, s
            traces.append(t)
            kinds = set(e["ev"] for e in t["evs"])
            chk.case(("T", k, j), nontrivial=bool(kinds & {"FDRegister", "FDUnregister", "DeleteEntry"}) or
                     any(e["ev"] == "Rx" and e["c"]["fn"] in ("FW", "DB") for e in t["evs"]))
    for k in range(40 if thorough else 6):
        res = rng.choice([1, 2, 4])
        L, plan, horizon = silent_devices_plan(rng, res)
        t = record_random(L, res, random.Random(rng.randrange(1 << 30)), horizon, order=rng.choice(["random", "fifo"]), max_events=3000, plan=plan)
        t["own_mask"] = {}
        traces.append(t)
        chk.case(("T-silent", k), nontrivial=True)
    for i, t in enumerate(traces):
        t["tid"] = i + 1
    for t in (traces[-1], traces[0]):
        chk.sample({"layout": t["L"], "res": t["res"], "order": t["order"],
                    "events": [[e["ev"], e["who"], e["mid"], e["d"], e["c"]["fn"]] for e in t["evs"]][:40]})
    chk.extra["events_recorded"] = sum(len(t["evs"]) for t in traces)
    chk.extra["event_kinds"] = dict(collections.Counter(e["ev"] for t in traces for e in t["evs"]))
    chk.extra["layouts"] = {"random": nlay, "max_nodes": max(len(t["L"]["role"]) for t in traces),
                            "max_ttl": max(max(t["L"]["ttl"]) for t in traces)}
    validate(chk, traces, onv, sticky)
    check_frames(chk, traces)
    chk.extra["observations"] = observations()
    return chk.finish()


def observations():
    """behaviours outside the clauses of C13 (recorded, not judged)"""
    out = []
    vt.reset(0.0)
    b = BIPBBMD(Address("10.0.1.2/24"))
    b.register_foreign_device(Address("10.0.9.2"), 65531)
    e = b.bbmdFDT[0]
    out.append({"what": "register_foreign_device sets fdRemain = ttl + 5 without clamping: TTL >= 65531 gives a remaining time >= 65536 that the "
                        "Read-FDT-Ack carries modulo 65536 (outside the property's TTL range 1..300)",
                "ttl": 65531, "fdRemain": e.fdRemain, "on_the_wire": e.fdRemain % 65536})
    b.bbmdFDT = []
    b.register_foreign_device(Address("10.0.9.3"), 0)
    out.append({"what": "a Register-Foreign-Device with TTL 0 from a device that is not listed (e.g. already expired) lists it for 5 s with TTL 0",
                "fdt": [[str(x.fdAddress), x.fdTTL, x.fdRemain] for x in b.bbmdFDT]})
    out.append({"what": "BIPBBMD distributes a Distribute-Broadcast-To-Network from any source without checking that it is a registered foreign "
                        "device (J.4.5 asks for a NAK); C13 only speaks of what a device receives"})
    vt.reset(0.0)
    return out


def replay(path):
    body = json.load(open(path))
    rp = body["replay"]
    chk = Check("C13", "quick", body.get("seed", 0))
    L = layout(**rp["L"])
    own = {int(k): v for k, v in (rp.get("own_mask") or {}).items()}
    t = record_script(L, rp["res"], rp["script"], own_mask=own)
    t["tid"], t["own_mask"] = 1, own
    for e in t["evs"]:
        c = e["c"]
        print(e["ev"], e["who"], e["mid"], e["d"], (c["fn"], c["src"], c["to"], c["arg"]) if c["fn"] != "-" else "", e["exc"],
              "| now", e["st"]["now"], "fdt", e["st"]["fdt"], "fd", e["st"]["fd"], "up", e["st"]["up"])
    validate(chk, [t], make_on_verdict(chk), detect_sticky())
    return chk.finish()
