"""C03 -- every service PDU and constructed type round-trips and matches the standard.
(spec/Constructed.tla, ConstructedVals.tla, MC_Constructed.tla, Trace_Constructed.tla, golden/Schemas.tla)

D  TLC on the model (MC_Constructed): WellFormed (unique decodability) of every golden table; for the generated values
   of all 228 classes (every presence pattern, every alternative, list lengths 0..3, depth 4)
   DecAll(s, Enc(s, v)) = v, Enc(s, Dec(..)) = Enc(s, v), balanced brackets, tag framing round trip, trailing tag
   rejected; the Annex F literals against Enc / Dec.
R  spec -> code: every case emitted by that run (class, abstract value, Enc tag list, octets) is BUILT as an object
   of the real class, encoded with the real encode(), compared tag for tag (and octet for octet) with the spec
   (OctetsEqualSpec); the SPEC's octets are decoded with the real TagList.decode + <class>.decode, projected back and
   compared with the value (RoundTrip), encoded again (stable).  Annex F literals both ways (AnnexF).
T  code -> spec: seeded random structurally valid values per class, generated from the WORKING TREE's tables, are built,
   encoded, decoded, re-encoded in the implementation, recorded (class, value, tags, decoded value, tags again) and
   validated by TLC (Trace_Constructed: Enc(schema, v) = tags, Dec(schema, tags) = v = decoded, stable).
   The tables themselves are re-extracted from the working tree on every run and compared with the golden module by
   TLC (SchemaDrift).

The Python below only renders abstract values into objects of the real classes and projects objects back
(trusted, dumb: no encoding rule lives here; primitive leaves are opaque content octets).
"""
import os, sys, json, random, shutil, struct, hashlib
from common import Check, Hang, watchdog
import tlc
sys.path.insert(0, os.path.dirname(os.path.dirname(os.path.abspath(__file__))))
import gen_schemas as G

from bacpypes.pdu import PDUData
from bacpypes.primitivedata import Tag, TagList, ApplicationTag, ContextTag, OpeningTag, ClosingTag, \
    Null, Boolean, Unsigned, Integer, Real, Double, OctetString, CharacterString, BitString, Enumerated, Date, Time, \
    ObjectIdentifier
import bacpypes.constructeddata as cd
import bacpypes.apdu as A

ABSENT = ["absent"]
APPCLS = {0: Null, 1: Boolean, 2: Unsigned, 3: Integer, 4: Real, 5: Double, 6: OctetString, 7: CharacterString,
          8: BitString, 9: Enumerated, 10: Date, 11: Time, 12: ObjectIdentifier}
TAGCLS = {Tag.applicationTagClass: "app", Tag.contextTagClass: "ctx", Tag.openingTagClass: "open", Tag.closingTagClass: "close"}


class Tree:
    """the tables of the working tree (re-extracted on every run)"""

    def __init__(self):
        self.schemas, self.registry, self.problems, self.classes = G.extract()
        self.atoms = dict(G.ATOMS)
        self.registered = sorted({r["cls"] for r in self.registry})


# ---- rendering layer: abstract value <-> objects of the real classes ------------------------------------------------
def leaf_value(app, data):
    """content octets of a primitive -> the Python value its class is constructed from (independent of bacpypes)"""
    b = bytes(data)
    if app == 0:
        return ()
    if app == 1:
        return bool(b[0])
    if app in (2, 9):
        return int.from_bytes(b, "big")
    if app == 3:
        return int.from_bytes(b, "big", signed=True)
    if app == 4:
        return struct.unpack(">f", b)[0]
    if app == 5:
        return struct.unpack(">d", b)[0]
    if app == 6:
        return b
    if app == 7:
        if b[0] != 0:
            raise ValueError("only UTF-8 strings are rendered")
        return b[1:].decode("utf-8")
    if app == 8:
        bits = [(o >> (7 - i)) & 1 for o in b[1:] for i in range(8)]
        return bits[:len(bits) - b[0]]
    if app in (10, 11):
        return tuple(b)
    if app == 12:
        w = int.from_bytes(b, "big")
        return (w >> 22, w & 0x3FFFFF)
    raise ValueError("no primitive with application tag %d" % app)


def tag_data(tag):
    if tag.tagClass == Tag.applicationTagClass and tag.tagNumber == Tag.booleanAppTag:
        return [tag.tagLVT]
    if tag.tagClass in (Tag.openingTagClass, Tag.closingTagClass):
        return []
    return list(bytes(tag.tagData))


def abs_tag(tag):
    return {"cls": TAGCLS[tag.tagClass], "num": tag.tagNumber, "data": tag_data(tag)}


def real_tag(t):
    c, n, d = t["cls"], t["num"], t["data"]
    if c == "app":
        if n == 1:
            return Tag(Tag.applicationTagClass, 1, d[0], b"")
        return ApplicationTag(n, bytes(d))
    if c == "ctx":
        return ContextTag(n, bytes(d))
    return OpeningTag(n) if c == "open" else ClosingTag(n)


def leaf_data(klass, value):
    """a primitive value of the implementation -> its content octets (standalone primitive encoding: C01's business)"""
    tag = Tag()
    (value if isinstance(value, klass) else klass(value)).encode(tag)
    return tag_data(tag)


def build(X, ty, v):
    k = ty["k"]
    if k == "atom":
        return X.atoms[ty["cls"]](leaf_value(ty["app"], v[1])).value
    if k == "anyatomic":
        return APPCLS[v[1]](leaf_value(v[1], v[2]))
    if k == "any":
        x = cd.SequenceOfAny() if ty.get("cls") == "SequenceOfAny" else cd.Any()
        x.tagList = TagList([real_tag(t) for t in v[1]])
        return x
    if k == "ref":
        return build_named(X, ty["name"], v)
    if k in ("seqof", "listof"):
        return [build(X, ty["of"], x) for x in v[1]]
    raise NotImplementedError("inline %s" % k)


def build_named(X, name, v):
    s, klass = X.schemas[name], X.classes[name]
    if s["k"] == "seq":
        if v[0] != "s" or len(v[1]) != len(s["els"]):
            raise ValueError("value does not fit the table of %s" % name)
        kw = {}
        for e, ev in zip(s["els"], v[1]):
            if ev != ABSENT:
                kw[e["name"]] = build(X, e["ty"], ev)
        return klass(**kw)
    if s["k"] == "choice":
        if v[0] != "c" or not 1 <= v[1] <= len(s["els"]):
            raise ValueError("value does not fit the table of %s" % name)
        e = s["els"][v[1] - 1]
        pv = build(X, e["ty"], v[2])
        if e["ty"]["k"] in ("seqof", "listof"):
            # Choice.encode wants an instance of the list class (Sequence.encode wraps a plain list itself)
            pv = klass.choiceElements[v[1] - 1].klass(pv)
        return klass(**{e["name"]: pv})
    return klass([build(X, s["of"], x) for x in v[1]])


def project(X, ty, pv):
    k = ty["k"]
    if k == "atom":
        return ["a", leaf_data(X.atoms[ty["cls"]], pv)]
    if k == "anyatomic":
        tag = Tag()
        pv.encode(tag)
        return ["aa", tag.tagNumber, tag_data(tag)]
    if k == "any":
        return ["y", [abs_tag(t) for t in pv.tagList.tagList]]
    if k == "ref":
        return project_named(X, ty["name"], pv)
    items = pv if isinstance(pv, list) else (pv.value[1:] if isinstance(pv, cd.Array) else pv.value)
    return ["l", [project(X, ty["of"], x) for x in items]]


def project_named(X, name, obj):
    s = X.schemas[name]
    if s["k"] == "seq":
        out = []
        for e in s["els"]:
            pv = getattr(obj, e["name"], None)
            out.append(ABSENT if pv is None else project(X, e["ty"], pv))
        return ["s", out]
    if s["k"] == "choice":
        found = [(i, e) for i, e in enumerate(s["els"]) if getattr(obj, e["name"], None) is not None]
        if len(found) != 1:
            return ["c", 0, ["a", [len(found)]]]
        i, e = found[0]
        return ["c", i + 1, project(X, e["ty"], getattr(obj, e["name"]))]
    return ["l", [project(X, s["of"], x) for x in obj.value[1:]]]


def exc_name(e):
    return type(e).__name__


def is_pdu(klass):
    return issubclass(klass, A.APCISequence)


def evaluate(X, name, v, spec_octets=None, spec_tags=None):
    """build -> encode -> octets -> decode -> project -> re-encode on the real classes.
    Decoding starts from the SPEC's octets / tags when given (independent of the implementation's encoder), else from
    the implementation's own.  Every stage is  {"ok": True, ...}  or  {"ok": False, "exc": name, "msg": text}."""
    r = {"cls": name, "v": v}

    def fail(stage, e):
        r[stage] = {"ok": False, "exc": exc_name(e), "msg": str(e)[:200]}
        return r

    klass = X.classes.get(name)
    if klass is None:
        return fail("build", KeyError("no class %s in the tree" % name))
    try:
        obj = build_named(X, name, v)
    except Exception as e:
        return fail("build", e)
    # encode: tag list
    try:
        tl = TagList()
        if is_pdu(klass):
            cd.Sequence.encode(obj, tl)
        else:
            obj.encode(tl)
        r["enc"] = {"ok": True, "tags": [abs_tag(t) for t in tl.tagList]}
    except Exception as e:
        fail("enc", e)
        tl = None
    # octets (public path: <PDU class>.encode(APDU) / TagList.encode)
    octets = None
    if tl is not None:
        try:
            if is_pdu(klass):
                apdu = A.APDU()
                obj.encode(apdu)
                octets = list(bytes(apdu.pduData))
            else:
                p = PDUData()
                tl.encode(p)
                octets = list(bytes(p.pduData))
            r["oct"] = {"ok": True, "o": octets}
        except Exception as e:
            fail("oct", e)
    # a PDU object that was encoded before and then given this case's parameters must encode like a fresh one
    if is_pdu(klass) and octets is not None:
        prev = LAST_PDU.get(name)
        if prev is not None:
            try:
                for el in klass.sequenceElements:
                    setattr(prev, el.name, getattr(obj, el.name, None))
                a3 = A.APDU()
                prev.encode(a3)
                r["reuse"] = {"ok": True, "o": list(bytes(a3.pduData))}
            except Exception as e:
                fail("reuse", e)
        LAST_PDU[name] = obj
    # the value carried in an Any: cast_in gives the value's own encoding, cast_out gives the value back -- and reading it
    # leaves the Any as it was (it re-encodes identically and can be read again)
    if tl is not None and not is_pdu(klass):
        try:
            s = X.schemas[name]
            a = cd.Any()
            a.cast_in(obj)
            tin = [abs_tag(t) for t in a.tagList.tagList]

            def read():
                o = a.cast_out(klass)
                if s["k"] in ("seq", "choice"):
                    return project_named(X, name, o)
                return ["l", [project(X, s["of"], x) for x in o]]
            v1 = read()
            after = [abs_tag(t) for t in a.tagList.tagList]
            r["any"] = {"ok": True, "in": tin, "v1": v1, "after": after, "v2": read()}
            # an Any accumulates what is cast into it: two components are both there, in order
            b = cd.Any()
            b.cast_in(obj)
            b.cast_in(obj)
            r["any"]["twice"] = [abs_tag(t) for t in b.tagList.tagList]
            c = cd.Any(obj, obj)
            r["any"]["ctor2"] = [abs_tag(t) for t in c.tagList.tagList]
        except Exception as e:
            fail("any", e)
    # decode
    src_octets = spec_octets if spec_octets is not None else octets
    src_tags = spec_tags if spec_tags is not None else (r["enc"]["tags"] if tl is not None else None)
    y = None
    try:
        y = klass()
        if src_octets is not None:
            if is_pdu(klass):
                a2 = A.APDU()
                a2.update(obj)
                a2.put_data(bytes(src_octets))
                y.decode(a2)
                left = 0
            else:
                t2 = TagList()
                t2.decode(PDUData(bytes(src_octets)))
                y.decode(t2)
                left = len(t2)
        elif src_tags is not None:
            t2 = TagList([real_tag(t) for t in src_tags])
            if is_pdu(klass):
                cd.Sequence.decode(y, t2)
            else:
                y.decode(t2)
            left = len(t2)
        else:
            raise RuntimeError("nothing to decode")
        if left:
            raise RuntimeError("%d tags left over after decoding" % left)
        r["dec"] = {"ok": True, "v": project_named(X, name, y)}
    except Exception as e:
        fail("dec", e)
        y = None
    # re-encode what was decoded
    if y is not None:
        try:
            t3 = TagList()
            if is_pdu(klass):
                cd.Sequence.encode(y, t3)
            else:
                y.encode(t3)
            r["re"] = {"ok": True, "tags": [abs_tag(t) for t in t3.tagList]}
        except Exception as e:
            fail("re", e)
        try:
            if is_pdu(klass):
                d1, d2 = cd.Sequence.dict_contents(obj), cd.Sequence.dict_contents(y)
            else:
                d1, d2 = obj.dict_contents(), y.dict_contents()
            r["dict_equal"] = (d1 == d2)
        except Exception:
            r["dict_equal"] = None
    r["_obj"] = y
    return r


HANGS = [0]
LAST_PDU = {}       # class name -> the PDU object of the previous case (already encoded once)


def guarded_eval(X, name, v, spec_octets=None, spec_tags=None):
    if HANGS[0] >= 3:
        return {"cls": name, "v": v, "build": {"ok": False, "exc": "Hang", "msg": "skipped after 3 hangs"}}
    try:
        with watchdog(10):
            return evaluate(X, name, v, spec_octets, spec_tags)
    except Hang:
        HANGS[0] += 1
        return {"cls": name, "v": v, "hang": True}


def failure(r, exp_tags=None, exp_octets=None):
    """first stage at which the implementation leaves the property: None | (monitor, stage, what)"""
    if r.get("hang"):
        return ("Terminates", "hang", "no return within 10 s")
    for st in ("build", "enc"):
        if st in r and not r[st]["ok"]:
            return ("OctetsEqualSpec", st, r[st]["exc"])
    if exp_tags is not None and r["enc"]["tags"] != exp_tags:
        return ("OctetsEqualSpec", "tags", "differs")
    if "oct" in r and not r["oct"]["ok"]:
        return ("OctetsEqualSpec", "oct", r["oct"]["exc"])
    if exp_octets is not None and r["oct"]["o"] != exp_octets:
        return ("OctetsEqualSpec", "octets", "differs")
    if "reuse" in r and (not r["reuse"]["ok"] or r["reuse"]["o"] != r["oct"]["o"]):
        return ("OctetsEqualSpec", "reuse", "a re-used PDU object encodes differently from a fresh one with the same parameters")
    if "any" in r:
        y = r["any"]
        if not y["ok"]:
            return ("RoundTrip", "any", y["exc"])
        if y["in"] != r["enc"]["tags"]:
            return ("RoundTrip", "any", "Any.cast_in(value) does not hold the value's encoding")
        if y["v1"] != r["v"]:
            return ("RoundTrip", "any", "Any.cast_out gives back another value")
        if y["after"] != y["in"] or y["v2"] != r["v"]:
            return ("RoundTrip", "any", "reading the Any (cast_out) changed it")
        if y.get("twice") != r["enc"]["tags"] * 2 or y.get("ctor2") != r["enc"]["tags"] * 2:
            return ("OctetsEqualSpec", "any", "an Any given two components does not hold both encodings in order")
    if not r["dec"]["ok"]:
        return ("RoundTrip", "dec", r["dec"]["exc"])
    if r["dec"]["v"] != r["v"]:
        return ("RoundTrip", "cmp", "differs")
    if not r["re"]["ok"]:
        return ("RoundTrip", "re", r["re"]["exc"])
    if r["re"]["tags"] != r["enc"]["tags"]:
        return ("RoundTrip", "re", "differs")
    return None


# ---- localisation of a failure: the innermost named sub-value that fails on its own -------------------------------
def children(X, ty, v):
    """named (ref) sub-values directly below a value: [(class name, value)]"""
    k = ty["k"]
    if k == "ref":
        return [(ty["name"], v)]
    if k in ("seqof", "listof", "arrayof"):
        return [c for x in v[1] for c in children(X, ty["of"], x)]
    return []


def named_children(X, name, v):
    s = X.schemas[name]
    if s["k"] == "seq":
        return [c for e, ev in zip(s["els"], v[1]) if ev != ABSENT for c in children(X, e["ty"], ev)]
    if s["k"] == "choice":
        return children(X, s["els"][v[1] - 1]["ty"], v[2])
    return [c for x in v[1] for c in children(X, s["of"], x)]


def resolve(X, ty):
    return X.schemas[ty["name"]] if ty["k"] == "ref" else ty


def ends_with_empty_list(X, ty, v):
    """does the encoding of v end with an empty list that no context tag brackets?"""
    t = resolve(X, ty)
    k = t["k"]
    if k in ("seqof", "listof", "arrayof"):
        return len(v[1]) == 0 or ends_with_empty_list(X, t["of"], v[1][-1])
    if k == "seq":
        if not t["els"] or v[1][-1] == ABSENT:
            return False
        e = t["els"][-1]
        return e["ctx"] == G.NOCTX and ends_with_empty_list(X, e["ty"], v[1][-1])
    if k == "choice":
        e = t["els"][v[1] - 1]
        return e["ctx"] == G.NOCTX and ends_with_empty_list(X, e["ty"], v[2])
    return False


def bracketed_empty_list(X, name, v):
    """an element with a context tag whose content ends with an empty, unbracketed list"""
    s = X.schemas[name]
    if s["k"] == "seq":
        pairs = [(e, ev) for e, ev in zip(s["els"], v[1]) if ev != ABSENT]
    elif s["k"] == "choice":
        pairs = [(s["els"][v[1] - 1], v[2])]
    else:
        return None
    for e, ev in pairs:
        if e["ctx"] != G.NOCTX and e["ty"]["k"] == "ref" and ends_with_empty_list(X, e["ty"], ev):
            return e["name"]
    return None


def localize(X, name, v, depth=0):
    """-> (class, value, failure) of the innermost named sub-value that fails standing alone (self-consistency only)"""
    try:
        kids = named_children(X, name, v)
    except Exception:
        kids = []
    for cn, cv in kids:
        if cn not in X.classes:
            continue
        f = failure(guarded_eval(X, cn, cv))
        if f is not None:
            return localize(X, cn, cv, depth + 1)
    return name, v, failure(guarded_eval(X, name, v))


def is_sublist(a, b):
    n = len(a)
    return n == 0 or any(b[i:i + n] == a for i in range(len(b) - n + 1))


def localize_tags(X, name, v, exp_tags, depth=0):
    """the implementation's tag list differs from the spec's: descend into the named sub-value whose own encoding does
    not occur in the expected tag list (rendering-level heuristic, only used to name the violation)"""
    try:
        kids = named_children(X, name, v)
    except Exception:
        kids = []
    for cn, cv in kids:
        if cn not in X.classes:
            continue
        e = guarded_eval(X, cn, cv)
        if e.get("enc", {}).get("ok") and not is_sublist(e["enc"]["tags"], exp_tags):
            return localize_tags(X, cn, cv, exp_tags, depth + 1)
    return name, v


def classify(X, name, v, f):
    """-> (element, case): which element of the class, and a structural label of the failing situation"""
    s = X.schemas.get(name, {"k": "?"})
    mon, stage, what = f if f else ("-", "-", "-")
    el = "-"
    if s["k"] == "choice" and v[0] == "c" and 1 <= v[1] <= len(s["els"]):
        e = s["els"][v[1] - 1]
        el = e["name"]
        if e["ctx"] > 254:
            return el, "context_%d" % e["ctx"]
        if e["ctx"] == G.NOCTX and e["ty"]["k"] not in ("atom", "anyatomic"):
            return el, "untagged_constructed_alternative"
        if e["ty"]["k"] in ("seqof", "listof") and stage == "dec":
            return el, "choice_listof_alternative"
    if stage in ("dec", "cmp", "re"):
        b = bracketed_empty_list(X, name, v)
        if b is not None:
            return b, "empty_trailing_sequenceof"
    if s["k"] == "seq" and v[0] == "s":
        for e, ev in zip(s["els"], v[1]):
            if e["ctx"] > 254 and ev != ABSENT:
                return e["name"], "context_%d" % e["ctx"]
    return el, "%s_%s" % (stage, what)


class Reporter:
    """at most 3 replay files per distinct signature; everything is counted"""

    def __init__(self, chk):
        self.chk, self.n = chk, {}

    def __call__(self, monitor, sig, detail, replay):
        k = json.dumps([monitor, sig], sort_keys=True)
        self.n[k] = self.n.get(k, 0) + 1
        if self.n[k] <= 3:
            self.chk.violation(monitor, sig, detail, replay)
        else:
            # still let a known finding count its hits
            s = dict(sig, monitor=monitor)
            from common import sig_matches
            for f in self.chk.findings:
                if sig_matches(f, self.chk.pid, s) and f["id"] in self.chk.known:
                    self.chk.known[f["id"]]["count"] += 1
        vc = self.chk.extra.setdefault("violating_cases_by_signature", {})
        label = "%s %s" % (monitor, json.dumps(sig, sort_keys=True))
        vc[label] = vc.get(label, 0) + 1


def strip(r):
    return {k: x for k, x in r.items() if not k.startswith("_")}


def report_case(X, rep, name, v, f, r, exp_tags=None, source="grid"):
    """a failing case -> violation with a localised, structural signature"""
    mon, stage, what = f
    if mon == "Terminates":
        rep("Terminates", {"class": name}, {"what": "the code under test did not return within 10 s", "value": v},
            {"k": "case", "cls": name, "v": v})
        return
    if stage == "tags" or stage == "octets":
        iname, iv = localize_tags(X, name, v, exp_tags) if (stage == "tags" and exp_tags is not None) else (name, v)
        isch = X.schemas.get(iname, {"k": "?"})
        el = isch["els"][iv[1] - 1]["name"] if isch["k"] == "choice" and iv[0] == "c" and 1 <= iv[1] <= len(isch["els"]) else "-"
        sig = {"class": iname, "element": el, "case": "tags_differ" if stage == "tags" else "octets_differ"}
        detail = {"value": v, "expected_tags": exp_tags, "got": strip(r).get("enc"), "source": source,
                  "innermost_differing": {"class": iname, "value": iv}}
        if stage == "tags" and exp_tags is not None and r.get("enc", {}).get("ok"):
            got = r["enc"]["tags"]
            at = next((i for i in range(min(len(got), len(exp_tags))) if got[i] != exp_tags[i]), min(len(got), len(exp_tags)))
            detail["first_difference_at_tag"] = at
            detail["expected_tag"] = exp_tags[at] if at < len(exp_tags) else None
            detail["got_tag"] = got[at] if at < len(got) else None
        rep(mon, sig, detail, {"k": "case", "cls": name, "v": v})
        return
    iname, iv, fi = localize(X, name, v)
    if fi is None:                      # fails only against the spec's octets/tags, not on its own: keep the outer case
        iname, iv, fi = name, v, f
    el, case = classify(X, iname, iv, fi)
    sig = {"class": iname, "element": el, "case": case}
    ri = strip(guarded_eval(X, iname, iv))
    detail = {"failing_value": iv, "stage": fi[1], "what": fi[2], "impl": {k: ri.get(k) for k in ("build", "enc", "oct", "dec", "re") if k in ri},
              "found_in": {"class": name, "source": source}}
    rep(fi[0] if fi[0] != "-" else mon, sig, detail, {"k": "case", "cls": iname, "v": iv})


def key(name, v):
    return hashlib.sha1((name + json.dumps(v)).encode()).hexdigest()[:16]


def nontrivial(v):
    return bool(v[1]) if v[0] in ("s", "l") else True


# ---- Annex F: published parameter values at the API level -----------------------------------------------------------
def near(x, y):
    return abs(x - y) < 1e-4


ANNEXF_PY = {
    "ReadProperty request": lambda y: (y.objectIdentifier, y.propertyIdentifier, y.propertyArrayIndex) == (("analogInput", 5), "presentValue", None),
    "ReadProperty ack": lambda y: (y.objectIdentifier, y.propertyIdentifier, y.propertyArrayIndex) == (("analogInput", 5), "presentValue", None)
    and near(y.propertyValue.cast_out(Real), 72.3),
    "WriteProperty request": lambda y: (y.objectIdentifier, y.propertyIdentifier, y.propertyArrayIndex, y.priority) == (("analogValue", 1), "presentValue", None, None)
    and y.propertyValue.cast_out(Real) == 180.0,
    "Who-Is unbounded": lambda y: (y.deviceInstanceRangeLowLimit, y.deviceInstanceRangeHighLimit) == (None, None),
    "Who-Is 3..3": lambda y: (y.deviceInstanceRangeLowLimit, y.deviceInstanceRangeHighLimit) == (3, 3),
    "I-Am": lambda y: (y.iAmDeviceIdentifier, y.maxAPDULengthAccepted, y.segmentationSupported, y.vendorID) == (("device", 1), 480, "segmentedTransmit", 99),
    "SubscribeCOV": lambda y: (y.subscriberProcessIdentifier, y.monitoredObjectIdentifier, bool(y.issueConfirmedNotifications), y.lifetime) == (18, ("analogInput", 10), True, 0),
    "ReadPropertyMultiple request": lambda y: [(s.objectIdentifier, [(p.propertyIdentifier, p.propertyArrayIndex) for p in s.listOfPropertyReferences]) for s in y.listOfReadAccessSpecs]
    == [(("analogInput", 16), [("presentValue", None), ("reliability", None)])],
    "ReadPropertyMultiple ack": lambda y: len(y.listOfReadAccessResults) == 1 and y.listOfReadAccessResults[0].objectIdentifier == ("analogInput", 16)
    and [e.propertyIdentifier for e in y.listOfReadAccessResults[0].listOfResults] == ["presentValue", "reliability"]
    and near(y.listOfReadAccessResults[0].listOfResults[0].readResult.propertyValue.cast_out(Real), 72.3)
    and y.listOfReadAccessResults[0].listOfResults[1].readResult.propertyValue.cast_out(Enumerated) == 0,
    "AtomicReadFile request (stream)": lambda y: y.fileIdentifier == ("file", 1) and y.accessMethod.recordAccess is None
    and (y.accessMethod.streamAccess.fileStartPosition, y.accessMethod.streamAccess.requestedOctetCount) == (0, 27),
    "AtomicReadFile ack (stream)": lambda y: bool(y.endOfFile) is False and y.accessMethod.streamAccess.fileStartPosition == 0
    and bytes(y.accessMethod.streamAccess.fileData) == b"Chiller01 On-Time=4.3 Hours",
    "DeviceCommunicationControl": lambda y: (y.timeDuration, y.enableDisable, y.password) == (5, "disable", "#egbdf!"),
    "ReinitializeDevice": lambda y: (y.reinitializedStateOfDevice, y.password) == ("warmstart", "AbCdEfGh"),
    "TimeSynchronization": lambda y: (tuple(y.time.date), tuple(y.time.time)) == ((92, 11, 17, 2), (22, 45, 30, 70)),
    "Who-Has by name": lambda y: y.limits is None and (y.object.objectIdentifier, y.object.objectName) == (None, "OATemp"),
    "I-Have": lambda y: (y.deviceIdentifier, y.objectIdentifier, y.objectName) == (("device", 8), ("analogInput", 3), "OATemp"),
    "ConfirmedCOVNotification": lambda y: (y.subscriberProcessIdentifier, y.initiatingDeviceIdentifier, y.monitoredObjectIdentifier, y.timeRemaining)
    == (18, ("device", 4), ("analogInput", 10), 0)
    and [p.propertyIdentifier for p in y.listOfValues] == ["presentValue", "statusFlags"]
    and y.listOfValues[0].value.cast_out(Real) == 65.0 and y.listOfValues[1].value.cast_out(BitString) == [0, 0, 0, 0],
}


# ---- D + R: the model, and its cases on the real classes ------------------------------------------------------------
WF_TEXT = {
    "ctx_range": "context tag number outside 0..254 (cannot be encoded)",
    "ctx_unique": "context tag number used twice in one scope",
    "anyatomic_ctx": "context-tagged any-atomic: the primitive type is lost",
    "opt_ambiguous": "optional element cannot be told from an element that may follow it",
    "opt_nullable": "optional element whose empty and absent encodings coincide",
    "alt_ambiguous": "two choice alternatives start with the same tag",
    "alt_untagged": "constructed choice alternative without context tag",
    "alt_nullable": "choice alternative with an empty encoding",
    "item_nullable": "list item with an empty encoding",
    "item_ambiguous": "optional tail of a list item collides with the start of the next item",
}


def min_value(X, ty, force=None):
    """smallest value of a type (rendering helper for demonstrating a flagged table entry on the real code)"""
    k = ty["k"]
    if k == "atom":
        return ["a", {0: [], 1: [1], 4: [0, 0, 0, 0], 5: [0] * 8, 6: [], 7: [0], 8: [0], 10: [255] * 4, 11: [255] * 4, 12: [0, 0, 0, 5]}.get(ty["app"], [0])]
    if k == "anyatomic":
        return ["aa", 0, []]
    if k == "any":
        return ["y", [{"cls": "app", "num": 0, "data": []}]]
    if k == "ref":
        return min_named(X, ty["name"])
    return ["l", [min_value(X, ty["of"]) for _ in range(max(ty["fixed"], 0))]]


def min_named(X, name, element=None):
    s = X.schemas[name]
    if s["k"] == "seq":
        return ["s", [ABSENT if (e["opt"] and e["name"] != element) else min_value(X, e["ty"]) for e in s["els"]]]
    if s["k"] == "choice":
        i = next((j for j, e in enumerate(s["els"]) if e["name"] == element), 0)
        return ["c", i + 1, min_value(X, s["els"][i]["ty"])]
    return ["l", [min_value(X, s["of"]) for _ in range(max(s["fixed"], 0))]]


def grid(chk, rep, X, full):
    wd = tlc.workdir("c03grid")
    out = os.path.join(wd, "grid.ndjson")
    try:
        res = tlc.run_tlc("MC_Constructed", cfg_file="MC_Constructed_full.cfg" if full else "MC_Constructed_quick.cfg",
                          env={"OUT_FILE": out}, timeout=2400, name="MC_Constructed/" + ("full" if full else "quick"))
        chk.tlc(res)
        if res["error_kind"] or not res["finished"]:
            tlc.machinery_failure("design model MC_Constructed: %s\n%s" % (res["error"], res["output"][-3000:]))
        recs = [json.loads(json.loads(line)) for line in open(out)]
    finally:
        shutil.rmtree(wd, ignore_errors=True)
    per_class, ncase, followed = {}, 0, 0
    for r in recs:
        if r["k"] == "wf":
            continue
        name, v, exp_tags = r["cls"], r["v"], r["tags"]
        exp_oct = None if r["o"] == [-1] else r["o"]
        ncase += 1
        per_class[name] = per_class.get(name, 0) + 1
        chk.case(key(name, v), nontrivial=nontrivial(v), n=3)
        e = guarded_eval(X, name, v, spec_octets=exp_oct, spec_tags=exp_tags)
        chk.monitor("OctetsEqualSpec")
        chk.monitor("RoundTrip")
        f = failure(e, exp_tags, exp_oct)
        if r["k"] == "annexf":
            chk.monitor("AnnexF", 2)
            ok_py = None
            if f is None:
                try:
                    ok_py = bool(ANNEXF_PY[r["name"]](e["_obj"]))
                except Exception as ex:
                    ok_py = "raised %s: %s" % (exc_name(ex), ex)
            if f is not None or ok_py is not True:
                rep("AnnexF", {"example": r["name"], "stage": f[1] if f else "values"},
                    {"example": r["name"], "published_octets": r["o"], "value": v, "failure": f, "published_values_restored": ok_py,
                     "impl": {k: strip(e).get(k) for k in ("build", "enc", "oct", "dec", "re")}},
                    {"k": "annexf", "name": r["name"], "cls": name, "v": v, "o": r["o"], "tags": exp_tags})
            else:
                followed += 1
            chk.sample({"annex_f": r["name"], "published_octets": " ".join("%02X" % o for o in r["o"]),
                        "impl_octets_equal": e.get("oct", {}).get("o") == r["o"], "decoded_published_values": ok_py}, cap=4)
            continue
        if f is None:
            followed += 1
            if e.get("dict_equal") is False:
                chk.deviation({"what": "dict_contents() of the decoded object differs from the original although the wire "
                                       "value is equal", "class": name, "value": v})
        else:
            report_case(X, rep, name, v, f, e, exp_tags)
        if ncase % 700 == 5:
            chk.sample({"class": name, "value": v, "spec_tags": exp_tags, "spec_octets": exp_oct,
                        "impl": "equal" if f is None else list(f)}, cap=8)
    chk.traces_validated += followed
    chk.extra["grid_cases"] = ncase
    chk.extra["grid_classes"] = len(per_class)
    chk.extra["grid_cases_per_class_max"] = max(per_class.values()) if per_class else 0
    missing = sorted(set(X.schemas) - set(per_class))
    if missing:
        chk.extra["classes_without_grid_case"] = missing
    # WellFormedSchema: entries that TLC flags, demonstrated on the real code
    flagged = [b for r in recs if r["k"] == "wf" for b in r["broken"]]
    chk.monitor("WellFormedSchema", len(X.schemas))
    chk.extra["wellformed_flagged"] = flagged
    for cls, el, rule in flagged:
        s = X.schemas.get(cls)
        ctx = next((e["ctx"] for e in s.get("els", []) if e["name"] == el), None) if s else None
        case = {"ctx_range": "context_%s" % ctx, "alt_untagged": "untagged_constructed_alternative"}.get(rule, rule)
        demo = None
        if s is not None and el != "(item)":
            v = min_named(X, cls, el)
            e = guarded_eval(X, cls, v)
            f = failure(e)
            demo = {"value": v, "failure": f, "impl": {k: strip(e).get(k) for k in ("build", "enc", "oct", "dec", "re")}}
            chk.case(key(cls, v), n=1)
            if f is None:
                chk.deviation({"what": "table entry is not well-formed but the value round-trips", "class": cls, "element": el, "rule": rule})
                continue
        rep("WellFormedSchema", {"class": cls, "element": el, "case": case},
            {"rule": rule, "meaning": WF_TEXT.get(rule, rule), "demonstration": demo}, {"k": "wf", "cls": cls, "element": el, "rule": rule})
    return recs


# ---- trailing tags after a complete APDU (spec: rejected; property: not named -> deviation only) --------------------
def trailing(chk, X, recs):
    first = {}
    for r in recs:
        if r["k"] == "grid" and r["cls"] in X.registered and r["cls"] not in first and r["o"] != [-1]:
            first[r["cls"]] = r
    accepted = []
    for name, r in sorted(first.items()):
        for extra in ([0x0F], [0x00]):
            klass = X.classes[name]
            try:
                with watchdog(10):
                    y = klass()
                    a2 = A.APDU()
                    a2.put_data(bytes(r["o"] + extra))
                    y.decode(a2)
                accepted.append({"class": name, "extra": extra})
            except Hang:
                accepted.append({"class": name, "extra": extra, "hang": True})
            except Exception:
                pass
            chk.case(key(name + "+trail%d" % extra[0], r["v"]), n=1)
    chk.extra["trailing_tag_probes"] = 2 * len(first)
    for a in accepted:
        chk.deviation(dict(a, what="a tag after a complete APDU is accepted (the specification rejects it)"))


# ---- T: code -> spec ------------------------------------------------------------------------------------------------
def f32(x):
    return struct.unpack(">f", struct.pack(">f", x))[0]


def rand_leaf(rng, klass):
    if issubclass(klass, Null):
        return ()
    if issubclass(klass, Boolean):
        return rng.random() < 0.5
    if issubclass(klass, Unsigned):
        hi = klass._high_limit if getattr(klass, "_high_limit", None) is not None else 2 ** 32 - 1
        return rng.choice([0, 1, 127, 128, 255, 256, 65535, 65536, 2 ** 24, hi, rng.randrange(hi + 1)]) % (hi + 1)
    if issubclass(klass, Integer):
        return rng.choice([0, 1, -1, 127, 128, -128, -129, 32767, -32768, 2 ** 31 - 1, -2 ** 31, rng.randrange(-10 ** 6, 10 ** 6)])
    if issubclass(klass, Real):
        return f32(rng.choice([0.0, 1.5, -2.25, 72.3, 1e10, -1e-10, float("inf"), rng.uniform(-1000, 1000)]))
    if issubclass(klass, Double):
        return rng.choice([0.0, 1.5, -2.25, 1e100, -2.5e-300, rng.uniform(-1e6, 1e6)])
    if issubclass(klass, OctetString):
        n = 300 if rng.random() < 0.02 else rng.randrange(0, 7)
        return bytes(rng.randrange(256) for _ in range(n))
    if issubclass(klass, CharacterString):
        return rng.choice(["", "a", "héllo", "OATemp", "x" * 260 if rng.random() < 0.05 else "xy"])
    if issubclass(klass, BitString):
        n = klass.bitLen if klass.bitLen else rng.randrange(0, 20)
        return [rng.randrange(2) for _ in range(n)]
    if issubclass(klass, Enumerated):
        nums = sorted(x for x in getattr(klass, "enumerations", {}).values())
        return rng.choice(nums + [nums[-1] + 1000 if nums else 7]) if rng.random() < 0.9 else rng.choice([0, 255, 256, 65535])
    if issubclass(klass, Date):
        return rng.choice([(255, 255, 255, 255), (124, 1, 24, 3), (rng.randrange(200), rng.randrange(1, 13), rng.randrange(1, 29), 255)])
    if issubclass(klass, Time):
        return rng.choice([(255, 255, 255, 255), (rng.randrange(24), rng.randrange(60), rng.randrange(60), rng.randrange(100))])
    if issubclass(klass, ObjectIdentifier):
        return (rng.choice([0, 1, 2, 8, 10, 17, 56, 200, 1023]), rng.choice([0, 1, 4194303, rng.randrange(4194304)]))
    raise TypeError("no random leaf for %r" % klass)


def rand_tags(rng, depth=0):
    out = []
    for _ in range(rng.choice([0, 1, 1, 1, 2, 3]) if depth else rng.choice([0, 1, 1, 2, 2, 3])):
        c = rng.random()
        if c < 0.5:
            app = rng.randrange(13)
            if app == 0:
                d = []
            elif app == 1:
                d = [rng.randrange(2)]
            else:
                d = [rng.randrange(256) for _ in range(rng.choice([1, 1, 2, 4, 4, 6]))]
            out.append({"cls": "app", "num": app, "data": d})
        elif c < 0.75 or depth >= 2:
            out.append({"cls": "ctx", "num": rng.choice([0, 1, 2, 3, 4, 5, 14, 15, 30, 254]),
                        "data": [rng.randrange(256) for _ in range(rng.randrange(0, 5))]})
        else:
            n = rng.choice([0, 1, 2, 3, 4, 5, 8, 15, 40])
            out.append({"cls": "open", "num": n, "data": []})
            out.extend(rand_tags(rng, depth + 1))
            out.append({"cls": "close", "num": n, "data": []})
    return out


def rand_value(X, rng, ty, depth):
    k = ty["k"]
    if k == "atom":
        klass = X.atoms[ty["cls"]]
        return ["a", leaf_data(klass, rand_leaf(rng, klass))]
    if k == "anyatomic":
        app = rng.randrange(13)
        return ["aa", app, leaf_data(APPCLS[app], rand_leaf(rng, APPCLS[app]))]
    if k == "any":
        return ["y", rand_tags(rng)]
    if k == "ref":
        return rand_named(X, rng, ty["name"], depth)
    n = ty["fixed"] if ty["fixed"] >= 0 else (0 if depth >= 5 else 9 if (depth <= 1 and rng.random() < 0.02) else rng.choice([0, 0, 1, 1, 2, 3]))
    return ["l", [rand_value(X, rng, ty["of"], depth + 1) for _ in range(n)]]


def rand_named(X, rng, name, depth):
    s = X.schemas[name]
    if s["k"] == "seq":
        return ["s", [ABSENT if e["opt"] and (depth >= 5 or rng.random() < 0.5) else rand_value(X, rng, e["ty"], depth + 1)
                      for e in s["els"]]]
    if s["k"] == "choice":
        els = list(enumerate(s["els"]))
        if depth >= 5:
            els = [(i, e) for i, e in els if e["ty"]["k"] in ("atom", "anyatomic", "any")] or els
        i, e = rng.choice(els)
        return ["c", i + 1, rand_value(X, rng, e["ty"], depth + 1)]
    n = s["fixed"] if s["fixed"] >= 0 else rng.choice([0, 1, 2, 3])
    return ["l", [rand_value(X, rng, s["of"], depth + 1) for _ in range(n)]]


def trace_run(recs, label, timeout=1800):
    for i, r in enumerate(recs):
        r["id"] = i + 1
    wd = tlc.workdir("c03tr")
    tf = os.path.join(wd, "recs.ndjson")
    try:
        with open(tf, "w") as f:
            for r in recs:
                f.write(json.dumps(r) + "\n")
        res = tlc.run_tlc("Trace_Constructed", cfg_file="Trace_Constructed.cfg", env={"TRACE_FILE": tf}, workers=1,
                          timeout=timeout, name="Trace_Constructed/" + label)
    finally:
        shutil.rmtree(wd, ignore_errors=True)
    if res["error_kind"] or not res["finished"]:
        tlc.machinery_failure("trace validation %s failed: %s\n%s" % (label, res["error"], res["output"][-3000:]))
    if res["distinct"] != len(recs):
        tlc.machinery_failure("trace validation %s: %d states for %d records" % (label, res["distinct"], len(recs)))
    verdicts = {v["id"]: v for v in tlc.printed_values(res["output"])}
    return res, verdicts


def jsonable(v):
    """a TLA+ value parsed by tlaval -> plain JSON shapes"""
    if isinstance(v, dict):
        return {k: jsonable(x) for k, x in v.items()}
    if isinstance(v, (tuple, list, frozenset)):
        return [jsonable(x) for x in v]
    return v


def rt_record(e):
    """evaluation -> the record that Trace_Constructed validates"""
    def stage(k, field):
        x = e.get(k)
        if x is None:
            return {"ok": False, "exc": "not reached"}
        return {"ok": True, field: x[field]} if x["ok"] else {"ok": False, "exc": x["exc"]}
    enc = stage("enc", "tags")
    if "build" in e:
        enc = {"ok": False, "exc": "build: " + e["build"]["exc"]}
    elif enc["ok"] and "oct" in e and not e["oct"]["ok"]:
        enc = {"ok": False, "exc": "octets: " + e["oct"]["exc"]}
    return {"k": "rt", "cls": e["cls"], "v": e["v"], "enc": enc, "dec": stage("dec", "v"), "re": stage("re", "tags")}


def validate_rt(chk, rep, X, evals, label):
    """recorded evaluations -> TLC; verdicts -> violations"""
    if not evals:
        return
    res, verdicts = trace_run([rt_record(e) for e in evals], label)
    chk.tlc(res)
    for i, e in enumerate(evals):
        chk.case(key(e["cls"], e["v"]), nontrivial=nontrivial(e["v"]), n=3)
        chk.monitor("OctetsEqualSpec")
        chk.monitor("RoundTrip")
        if e.get("hang"):
            report_case(X, rep, e["cls"], e["v"], ("Terminates", "hang", ""), e, source=label)
            continue
        v = verdicts.get(i + 1)
        if v is None:
            chk.traces_validated += 1
            if e.get("dict_equal") is False:
                chk.deviation({"what": "dict_contents() of the decoded object differs from the original although the wire "
                                       "value is equal", "class": e["cls"], "value": e["v"]})
            continue
        if v["kind"] == "badinput":
            tlc.machinery_failure("harness produced a malformed record: %s %s" % (v["note"], json.dumps(rt_record(e))[:600]))
        if v["kind"] == "deviation":
            chk.deviation({"class": e["cls"], "value": e["v"], "note": v["note"], "spec_decodes_to": jsonable(v["exp"])})
            continue
        if v["monitor"] == "SchemaDrift":
            rep("SchemaDrift", {"class": e["cls"], "element": "-", "field": "value"}, {"note": v["note"], "value": e["v"]},
                {"k": "case", "cls": e["cls"], "v": e["v"]})
            continue
        exp = jsonable(v["exp"])
        f = failure(e, exp_tags=exp if v["monitor"] == "OctetsEqualSpec" and e.get("enc", {}).get("ok") and e.get("oct", {"ok": True})["ok"] else None)
        if f is None:
            f = (v["monitor"], "spec", v["note"])
        report_case(X, rep, e["cls"], e["v"], f, e, exp_tags=exp if isinstance(exp, list) else None, source=label)


def randoms(chk, rep, X, rng, per_class, chunk=12000):
    evals = []
    total = 0
    names = sorted(X.schemas)
    for name in names:
        for _ in range(per_class):
            try:
                v = rand_named(X, rng, name, 0)
            except Exception as ex:
                tlc.machinery_failure("random value for %s: %r" % (name, ex))
            evals.append(guarded_eval(X, name, v))
            total += 1
            if len(evals) >= chunk:
                validate_rt(chk, rep, X, evals, "random-%d" % total)
                evals = []
    if evals:
        e = evals[len(evals) // 2]
        chk.sample({"random_value_of": e["cls"], "value": e["v"], "impl_tags": e.get("enc", {}).get("tags"),
                    "impl_decodes_equal": e.get("dec", {}).get("v") == e["v"]}, cap=10)
    validate_rt(chk, rep, X, evals, "random-%d" % total)
    chk.extra["random_values"] = total


def drift(chk, rep, X):
    recs = [{"k": "schema", "cls": n, "s": s} for n, s in sorted(X.schemas.items())]
    recs.append({"k": "classes", "names": sorted(X.schemas)})
    recs.append({"k": "registry", "reg": X.registry})
    res, verdicts = trace_run(recs, "schema-drift", timeout=600)
    chk.tlc(res)
    for i, r in enumerate(recs):
        chk.monitor("SchemaDrift")
        chk.case(("schema", r.get("cls", r["k"])), n=1)
        v = verdicts.get(i + 1)
        if v is None:
            chk.traces_validated += 1
            continue
        exp = jsonable(v["exp"])
        if r["k"] == "schema":
            d = exp if isinstance(exp, dict) else {}
            sig = {"class": r["cls"], "element": d.get("element", "-"), "field": d.get("field", "-")}
            detail = {"note": v["note"], "golden": d.get("golden"), "tree": d.get("tree")}
        elif r["k"] == "classes":
            sig = {"class": "(class list)", "element": "-", "field": "removed"}
            detail = {"note": v["note"], "classes": exp}
        else:
            sig = {"class": "(registry)", "element": "-", "field": "registration"}
            detail = {"note": v["note"], "entries": exp}
        rep("SchemaDrift", sig, detail, {"k": "drift", "rec": {x: r[x] for x in r if x != "id"}})
    for p in X.problems:
        chk.deviation({"what": "schema extraction problem", "problem": p})


# ---------------------------------------------------------------------------------------------------------------------
def main(tier, seed):
    chk = Check("C03", tier, seed)
    rng = random.Random(seed)
    thorough = tier == "thorough"
    rep = Reporter(chk)
    X = Tree()
    chk.rule = ("one case = one (class, abstract value): built as an object of the real class, encoded, compared with the spec, "
                "decoded, projected, re-encoded (counts 3 evaluations); distinct = distinct (class, value); non-trivial = "
                "anything but an empty sequence / list; plus one evaluation per compared table and per trailing-tag probe")
    chk.assumptions = [
        "Constructed.tla is my transcription of the generic encoding rules of clause 20.2 at the tag-list level; the content "
        "octets of primitives are opaque (C01) and tag framing is only modelled for tag numbers 0..254 (rest: C02)",
        "'matches the standard' is decided relative to golden/Schemas.tla, the pinned transcription of the tree's tables "
        "(generated once; reviewed from memory against clause 21 for ReadProperty(-Multiple), WriteProperty(-Multiple), "
        "Who-Is/I-Am/Who-Has/I-Have, SubscribeCOV(-Property), COV notifications, AtomicRead/WriteFile, private transfer, "
        "Error, TimeSynchronization, DeviceCommunicationControl, ReinitializeDevice; the standard is not available offline). "
        "SchemaDrift = the working tree's table differs from that transcription",
        "golden NameValue.name carries context tag 0 (review correction: the class's own codec and the standard use [0], "
        "the sequenceElements table of the tree does not)",
        "Annex F: 17 worked examples reproduced from memory (service parameters only, APCI header octets are C07's)",
        "quick replays the full generated list at nesting depth 4 (the property's bound), thorough at depth 5; the lists are "
        "covering designs (every presence pattern / alternative / list length and the pair products of adjacent elements), "
        "not the full cross product; arbitrary combinations come from the seeded random values (40 resp. 1200 per class)",
        "a tag after a complete APDU: the specification rejects it, the property does not name it: deviation only",
    ]
    abstract = []
    for n, k in sorted(X.classes.items()):
        try:
            k()
        except Exception as ex:
            abstract.append({"class": n, "exc": exc_name(ex)})
    chk.extra["classes_not_instantiable"] = abstract
    chk.extra["abstract_bases_skipped"] = ["APCISequence", "ConfirmedRequestSequence", "ComplexAckSequence",
                                           "UnconfirmedRequestSequence", "ErrorSequence"]
    drift(chk, rep, X)
    recs = grid(chk, rep, X, full=thorough)
    trailing(chk, X, recs)
    randoms(chk, rep, X, rng, per_class=1200 if thorough else 40)
    chk.extra["classes"] = len(X.schemas)
    chk.extra["registered_pdus"] = len(X.registry)
    return chk.finish()


def replay(path):
    body = json.load(open(path))
    rp = body["replay"]
    chk = Check("C03", "quick", body.get("seed", 0))
    rep = Reporter(chk)
    X = Tree()
    print("input:", json.dumps(rp)[:2000])
    if rp["k"] in ("case", "annexf"):
        e = guarded_eval(X, rp["cls"], rp["v"], spec_octets=rp.get("o"), spec_tags=rp.get("tags"))
        print("impl :", json.dumps({k: strip(e).get(k) for k in ("build", "enc", "oct", "dec", "re")})[:3000])
        if rp["k"] == "annexf":
            f = failure(e, rp.get("tags"), rp.get("o"))
            ok_py = None
            if f is None:
                try:
                    ok_py = bool(ANNEXF_PY[rp["name"]](e["_obj"]))
                except Exception as ex:
                    ok_py = "raised %s" % exc_name(ex)
            if f is not None or ok_py is not True:
                rep("AnnexF", {"example": rp["name"], "stage": f[1] if f else "values"}, {"failure": f, "published_values_restored": ok_py}, rp)
        else:
            validate_rt(chk, rep, X, [e], "replay")
    elif rp["k"] == "wf":
        v = min_named(X, rp["cls"], rp["element"])
        e = guarded_eval(X, rp["cls"], v)
        f = failure(e)
        print("impl :", json.dumps({k: strip(e).get(k) for k in ("build", "enc", "oct", "dec", "re")})[:3000])
        if f is not None:
            s = X.schemas[rp["cls"]]
            ctx = next((x["ctx"] for x in s.get("els", []) if x["name"] == rp["element"]), None)
            case = {"ctx_range": "context_%s" % ctx, "alt_untagged": "untagged_constructed_alternative"}.get(rp["rule"], rp["rule"])
            rep("WellFormedSchema", {"class": rp["cls"], "element": rp["element"], "case": case}, {"rule": rp["rule"], "failure": f}, rp)
    elif rp["k"] == "drift":
        drift(chk, rep, X)
    return chk.finish()
