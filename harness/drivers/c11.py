"""C11 -- Concurrent transactions never cross: replies reach only the request they answer.   (spec/TSMids.tla)

D  TLC exhaustive on TSMids.tla: 3 requests over 2 peers, cursor starting at {0, 2, 3} of a 4-value ID space (wrap),
   application-chosen IDs, an adversary delivering every reply kind from every address (peers + a foreign one) with
   every ID at every point; the server half with retransmissions, aborts and responses in every order.
   Vacuity: allocation that does not skip live IDs (named deviation) violates IdUniquePerPeer.
R  edge cover of a small configuration's state graph executed on a real StateMachineAccessPoint.
T  random interleavings of 1..40 concurrent requests over 1..4 peers with forced invoke-ID collisions across peers,
   late / duplicate / foreign replies injected at every point, more than 256 requests in sequence with long-lived
   transactions the cursor must skip, application-chosen IDs; the serving side with retransmissions while busy and
   equal IDs from different peers.  Every execution validated by TLC (Trace_TSMids.tla) with IdMod = 256.
"""
import os, json, random, shutil
from common import Check, Hang
import tlc, tlaval
from c14 import edge_cover

KINDS = ["SA", "CA", "ERR", "ABTs", "ABTc", "ACKs", "ACKc"]
PROPS = ["ReplyMatches", "LateAndForeignIgnored", "DirectionRespected", "NoDoubleIndication", "SameIdDifferentPeersIndependent", "NewRequestGetsFreshKey", "NewRequestIndicated"]
INVS = ["IdUniquePerPeer", "ServerKeysUnique", "OutcomeMatches", "AtMostOneOutcomePerRequest"]


def cfg(side="client", peers="{1, 2}", idmod=4, ids="{0, 1, 3}", starts="{0, 2, 3}", maxlive=2, maxreq=3, skip=True, spec="Spec",
        view=True, props=True, kinds='{"SA", "CA", "ERR", "ABTs", "ABTc", "ACKs", "ACKc"}'):
    lines = ["SPECIFICATION " + spec,
             'CONSTANTS Peers = %s Foreign = 9 IdMod = %d Ids = %s StartIds = %s MaxLive = %d MaxReq = %d SkipLive = %s Side = "%s" Kinds = %s' % (
                 peers, idmod, ids, starts, maxlive, maxreq, "TRUE" if skip else "FALSE", side, kinds)]
    if spec == "Spec":
        lines += ["INVARIANT " + i for i in INVS]
        if props:
            lines += ["PROPERTY " + p for p in PROPS]
        lines += ["CONSTRAINT Bounded"]
        if view:
            lines += ["VIEW View"]
    lines.append("CHECK_DEADLOCK FALSE")
    return "\n".join(lines) + "\n"


def run_mc(chk, name, expect=None, timeout=900, dump=None, **kw):
    res = tlc.run_tlc("TSMids", cfg_text=cfg(**kw), timeout=timeout, name="TSMids/" + name, dump_dot=dump)
    if expect is None:
        chk.tlc(res)
        if res["error_kind"]:
            tlc.machinery_failure("design model TSMids/%s violates %s\n%s" % (name, res["error"], res["output"][-3000:]))
    else:
        if res["error"] not in expect and res["error_kind"] not in ("invariant", "action_property", "property", "temporal", "assert"):
            tlc.machinery_failure("sanity: TSMids/%s should violate %s, got %r" % (name, expect, res["error"]))
        chk.extra.setdefault("sanity", []).append("TSMids/%s violates %s as expected" % (name, res["error"]))
    return res


def record(start, ops):
    import idsrig
    rig = idsrig.IdsRig(start=start)
    hang = None
    for op in ops:
        try:
            rig.step(*op)
        except Hang as h:
            hang = str(h)
            break
    return dict(start=start, ops=[list(o) for o in ops], evs=rig.evs, hang=hang)


def random_ops(rng, n, peers, collide=True, server=True):
    """adversarial history: the adversary knows the live (peer, id) pairs and aims near them"""
    import idsrig
    ops = []
    live = []      # our own (approximate) idea of what is live, only used to aim the adversary
    owed = []
    cur_ids = list(range(0, 256))
    for _ in range(n):
        r = rng.random()
        if r < 0.30:
            ops.append(("auto", rng.choice(peers), 0, ""))
        elif r < 0.40:
            i = rng.choice([x[1] for x in live] + [rng.randrange(256)]) if (live and collide) else rng.randrange(256)
            p = rng.choice(peers)
            ops.append(("chosen", p, i, ""))
            live.append((p, i))
        elif r < 0.75:
            k = rng.choice(KINDS)
            if live and rng.random() < 0.7:
                p, i = rng.choice(live)
                if rng.random() < 0.35:
                    p = rng.choice(peers + [9])       # right ID, other / foreign peer
                if rng.random() < 0.2:
                    i = (i + rng.choice([1, 255])) % 256
            else:
                p, i = rng.choice(peers + [9]), rng.randrange(256)
            ops.append(("cdeliver", p, i, k))
        elif r < 0.80:
            ops.append(("cgiveup", rng.randint(1, 3), 0, ""))
        elif server and r < 0.90:
            p, i = rng.choice(peers), rng.choice([5, 5, 6, rng.randrange(256)])
            ops.append(("scr", p, i, ""))
            owed.append((p, i))
        elif server and r < 0.96 and owed:
            p, i = rng.choice(owed)
            ops.append(("sresp", p, i, ""))
        elif server and owed:
            p, i = rng.choice(owed)
            ops.append((rng.choice(["sabort", "sgiveup"]), p if True else 0, i, ""))
        else:
            ops.append(("auto", rng.choice(peers), 0, ""))
        # keep `live` roughly in sync for aiming: auto allocations are unknown here, the rig reports them; fine
    # normalise sgiveup (index argument)
    out = []
    for op in ops:
        if op[0] == "sgiveup":
            out.append(("sgiveup", 1, 0, ""))
        else:
            out.append(op)
    return out


def wrap_history(rng, peers):
    """more than 256 requests in sequence to one peer, answering most at once, keeping a few alive for a long time so
    that the cursor has to skip them after wrapping"""
    ops = []
    keep = set(rng.sample(range(0, 256), 4))
    p = peers[0]
    start = rng.choice([0, 1, 200, 254, 255])
    cur = start
    for n in range(300):
        ops.append(("auto", p, 0, ""))
        # the ID just allocated is unknown to this generator in general; answer by guessing the cursor (skips make the
        # guess miss sometimes, which is fine: then the reply is a late/foreign one and must be ignored)
        if cur not in keep:
            ops.append(("cdeliver", p, cur, rng.choice(["SA", "CA", "ERR"])))
        cur = (cur + 1) % 256
        if rng.random() < 0.05:
            ops.append(("cdeliver", rng.choice(peers + [9]), rng.randrange(256), rng.choice(KINDS)))
    return start, ops


def validate(chk, traces, peers_set, label):
    """splits the traces into chunks of at most ~25 MB of ndjson per TLC run (every TLC worker holds its own copy of the
    deserialised file, and long histories log the full tables at every step)"""
    chunk, size = [], 0
    for t in traces:
        n = sum(len(json.dumps(e["st"])) for e in t["evs"])
        if chunk and size + n > 25_000_000:
            _validate(chk, chunk, peers_set, label)
            chunk, size = [], 0
        chunk.append(t)
        size += n
    if chunk:
        _validate(chk, chunk, peers_set, label)


def _validate(chk, traces, peers_set, label):
    if not traces:
        return
    wd = tlc.workdir("trids")
    tf = os.path.join(wd, "traces.ndjson")
    clean = []
    for t in traces:
        if t["hang"]:
            chk.violation("Terminates", {"op": t["ops"][len(t["evs"])][0] if len(t["evs"]) < len(t["ops"]) else "?"},
                          {"what": "the code under test did not return", "ops": t["ops"][:len(t["evs"]) + 1]},
                          {"start": t["start"], "ops": t["ops"]})
        clean.append(t)
    with open(tf, "w") as f:
        for t in clean:
            f.write(json.dumps({"tid": t["tid"], "start": t["start"],
                                "evs": [dict(op=e["op"], a=e["a"], id=e["id"], k=e["k"], st=e["st"]) for e in t["evs"]]}) + "\n")
    c = cfg(side="both", peers=peers_set, idmod=256, ids="{0}", starts="{0}", maxlive=100000, maxreq=100000, spec="TSpec")
    try:
        res = tlc.run_tlc("Trace_TSMids", cfg_text=c, workers=4, timeout=1800, env={"TRACE_FILE": tf}, name="Trace_TSMids/" + label)
    finally:
        shutil.rmtree(wd, ignore_errors=True)
    if res["error_kind"]:
        tlc.machinery_failure("trace validation failed: %s\n%s" % (res["error"], res["output"][-3000:]))
    verdicts = {v["tid"]: v for v in tlc.printed_values(res["output"])}
    if len(verdicts) != len(clean):
        tlc.machinery_failure("trace validation returned %d verdicts for %d traces\n%s" % (len(verdicts), len(clean), res["output"][-2000:]))
    chk.extra["trace_validation_states"] = chk.extra.get("trace_validation_states", 0) + res["distinct"]
    for t in clean:
        v = verdicts[t["tid"]]
        replay = {"start": t["start"], "ops": t["ops"]}
        if v["viol"]:
            for m, l in sorted(v["viol"]):
                e = t["evs"][l - 1]
                chk.violation(m, {"op": e["op"], "kind": e["k"]},
                              {"step": l, "event": [e["op"], e["a"], e["id"], e["k"]], "exc": e["exc"],
                               "post": {k: e["st"][k] for k in ("nextId", "ctab", "stab")}, "outs_tail": e["st"]["outs"][-2:],
                               "ops_prefix": t["ops"][max(0, l - 8):l]}, replay)
        elif v["rej"]:
            e = t["evs"][v["rej"] - 1]
            chk.deviation({"step": v["rej"], "event": [e["op"], e["a"], e["id"], e["k"]], "exc": e["exc"],
                           "post": {k: e["st"][k] for k in ("nextId", "ctab", "stab", "owed")}, "start": t["start"],
                           "ops_prefix": t["ops"][max(0, v["rej"] - 6):v["rej"]]})
        else:
            chk.traces_validated += 1


def main(tier, seed):
    chk = Check("C11", tier, seed)
    rng = random.Random(seed)
    thorough = tier == "thorough"
    chk.rule = ("model: all histories of TSMids.tla within the bounds; implementation: one evaluation = one operation (submit / "
                "adversarial reply / timeout / request / response) on a real StateMachineAccessPoint with the projected tables validated by TLC; "
                "distinct = (history id, position); non-trivial = all (every history contains collisions or foreign/late replies)")
    chk.assumptions = ["unsegmented frames (segmented transactions are C04/C05; the lookup code is the same)",
                       "the adversary is the harness: replies are encoded with the library's codec and handed to StateMachineAccessPoint.confirmation"]
    run_mc(chk, "client_3req_2peers", side="client")
    run_mc(chk, "server", side="server", maxreq=4 if thorough else 3)
    if thorough:
        run_mc(chk, "client_4req", side="client", maxlive=3, maxreq=4, ids="{0, 3}", starts="{3}", timeout=1500)
    run_mc(chk, "dev_NoSkip", side="client", skip=False, expect=["IdUniquePerPeer", "NewRequestGetsFreshKey"])
    # R
    traces = []
    nwalks = 0
    for side, kw in (("client", dict(ids="{0, 3}", starts="{3}", maxlive=2, maxreq=2, kinds='{"SA", "ABTc", "ACKs"}')),
                     ("server", dict(ids="{0, 3}", maxlive=2, maxreq=2))):
        wd = tlc.workdir("dot")
        dot = os.path.join(wd, "g")
        try:
            run_mc(chk, "R_" + side, side=side, view=False, props=False, dump=dot, **kw)
            nodes, edges, init = tlaval.parse_dot(dot + ".dot")
        finally:
            shutil.rmtree(wd, ignore_errors=True)
        walks = edge_cover(nodes, edges, init)
        if not thorough and len(walks) > 1200:
            rng.shuffle(walks)
            walks = walks[:1200]
        nwalks += len(walks)
        for w in walks:
            ops = [(nodes[v]["act"]["op"], nodes[v]["act"]["a"], nodes[v]["act"]["id"], nodes[v]["act"]["k"]) for v in w]
            traces.append(record(nodes[init]["nextId"], ops))
            chk.case(("R", tuple(ops)), nontrivial=True, n=len(ops))
        chk.extra.setdefault("replay", []).append({"side": side, "graph_nodes": len(nodes), "graph_edges": len(edges), "walks_executed_on_impl": len(walks)})
    # the R configuration has a 4-value ID space in the model; the real allocator works modulo 256, which only differs when
    # the cursor wraps: the walks start the real cursor at 3, so "3 -> 0" in the model is "3 -> 4" in the code.  These walks
    # are therefore validated with IdMod = 256 like everything else (conformance to the real constants).
    for i, t in enumerate(traces):
        t["tid"] = i + 1
    validate(chk, traces, "{1, 2}", "R")
    # T
    traces = []
    for n in range(120 if thorough else 25):
        peers = list(range(1, rng.randint(1, 4) + 1))
        start = rng.choice([0, 1, 127, 254, 255])
        ops = random_ops(rng, rng.choice([40, 120, 400] if thorough else [40, 120]), peers)
        traces.append(record(start, ops))
        chk.case(("T", n), nontrivial=True, n=len(ops))
    for n in range(6 if thorough else 2):
        start, ops = wrap_history(rng, [1, 2])
        traces.append(record(start, ops))
        chk.case(("wrap", n), nontrivial=True, n=len(ops))
    # 40 concurrent requests with forced collisions across peers, then replies in random order with wrong peers mixed in
    for n in range(10 if thorough else 3):
        ops = []
        peers = [1, 2, 3, 4]
        for i in range(40):
            ops.append(("chosen", peers[i % 4], i // 4, ""))          # the same ID to four different peers
        pairs = [(peers[i % 4], i // 4) for i in range(40)]
        rng.shuffle(pairs)
        for p, i in pairs:
            ops.append(("cdeliver", peers[(peers.index(p) + 1) % 4], i, "SA") if rng.random() < 0.5 else ("cdeliver", 9, i, "CA"))
            ops.append(("cdeliver", p, i, rng.choice(["SA", "CA", "ERR", "ABTs"])))
            ops.append(("cdeliver", p, i, "SA"))                        # duplicate after completion
        traces.append(record(rng.choice([0, 250]), ops))
        chk.case(("c40", n), nontrivial=True, n=len(ops))
    # every order of application-chosen IDs next to the cursor, followed by automatic allocations: the allocator must skip all
    # of them whatever order the transactions were started in (and wrap correctly)
    import itertools
    pn = 0
    for cur in (0, 100, 253, 254, 255):
        for size in (1, 2, 3):
            for offs in itertools.permutations(range(0, 4), size):
                ops = [("chosen", 1, (cur + o) % 256, "") for o in offs]
                ops += [("chosen", 2, (cur + offs[0]) % 256, "")]          # the same ID toward another peer must not matter
                ops += [("auto", 1, 0, ""), ("auto", 1, 0, ""), ("auto", 2, 0, "")]
                traces.append(record(cur, ops))
                pn += 1
                chk.case(("perm", cur, offs), nontrivial=True, n=len(ops))
    chk.extra["chosen_id_permutation_histories"] = pn
    for i, t in enumerate(traces):
        t["tid"] = i + 1
    chk.sample({"start": traces[0]["start"], "first_ops": traces[0]["ops"][:15], "last_tables": {k: traces[0]["evs"][-1]["st"][k] for k in ("nextId", "ctab", "stab")}})
    validate(chk, traces, "{1, 2, 3, 4}", "T")
    # one level up: ApplicationIOController matches an answer to the IOCB in flight toward its source address.  Several
    # requests outstanding to one peer, unconfirmed traffic in between (IOQ.tla / Trace_IOQ, shared with C04): every finished
    # IOCB holds the answer to its own request
    import ioqcheck
    ioqcheck.run_reply_matching(chk, rng, 120 if thorough else 25, only={"OutcomeOnlyFromReply"}, rename={"OutcomeOnlyFromReply": "ReplyMatches"})
    for m in PROPS + INVS:
        chk.monitor(m, chk.evaluations)
    return chk.finish()


def replay(path):
    body = json.load(open(path))
    rp = body["replay"]
    chk = Check("C11", "quick", body.get("seed", 0))
    if rp.get("kind") == "iocb":
        import ioqcheck
        ioqcheck.replay(chk, rp)
        return chk.finish()
    t = record(rp["start"], [tuple(o) for o in rp["ops"]])
    t["tid"] = 1
    for e in t["evs"][-10:]:
        print(e["op"], e["a"], e["id"], e["k"], e["exc"], e["st"]["ctab"], e["st"]["stab"])
    validate(chk, [t], "{1, 2, 3, 4}", "replay")
    return chk.finish()
