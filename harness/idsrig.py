"""Real-code rig for TSMids.tla: one StateMachineAccessPoint used as a client (node 100) and one used as a server
(node 200); the harness plays the applications and the adversarial network (any reply kind, from any address, with
any invoke ID, at any point).  Every step is one TSMids.tla action followed by a projection."""
import struct
from common import bind_source, Hang, watchdog
bind_source()
import vtime
vt = vtime.install()
import bacpypes.core as core
from bacpypes.pdu import Address, PDU
from bacpypes.apdu import (APDU, ConfirmedRequestPDU, ComplexAckPDU, SimpleAckPDU, ErrorPDU, AbortPDU, SegmentAckPDU)
from bacpypes.appservice import SSM
import tsmrig
from tsmrig import Peer, parse_apdu, SERVICE


def encode(apdu):
    x = APDU()
    apdu.encode(x)
    pdu = PDU()
    x.encode(pdu)
    return bytes(pdu.pduData)


class IdsRig:
    def __init__(self, start=1):
        vt.reset(0.0)
        cfg = dict(numberOfApduRetries=0, apduTimeout=3000, segmentTimeout=1000, maxApduLengthAccepted=1024,
                   maxSegmentsAccepted=None, applicationTimeout=60000, proposedWindowSize=2,
                   segmentationSupported="segmentedBoth")
        self.c = Peer(self, "c", 100, cfg)
        self.s = Peer(self, "s", 200, cfg)
        self.c.smap.nextInvokeID = start
        self.start = start
        self.nreq = 0
        self.outs, self.sent, self.inds, self.resp = [], [], [], []
        self.owed = []
        self.evs = []
        self.last_out = None

    # callbacks
    def emit(self, peer, octets, dest):
        h = parse_apdu(octets)
        p = int(str(dest))
        if peer is self.c:
            if h["k"] == "CR":
                n = struct.unpack(">H", h["data"][:2])[0] if len(h["data"]) >= 2 else 0
                self.sent.append({"n": n, "peer": p, "id": h["id"]})
        else:
            if h["k"] in ("SA", "CA", "ERR"):
                self.resp.append({"peer": p, "id": h["id"]})

    def on_indication(self, peer, apdu):
        if isinstance(apdu, ConfirmedRequestPDU):
            rec = {"peer": int(str(apdu.pduSource)), "id": apdu.apduInvokeID}
            self.inds.append(rec)
            if rec not in self.owed:
                self.owed.append(rec)

    def on_confirmation(self, peer, apdu):
        kind = ("SA" if isinstance(apdu, SimpleAckPDU) else "CA" if isinstance(apdu, ComplexAckPDU) else
                "ERR" if isinstance(apdu, ErrorPDU) else
                ("ABTs" if apdu.apduSrv else "TO") if isinstance(apdu, AbortPDU) else "?")
        self.last_out = {"src": int(str(apdu.pduSource)), "id": apdu.apduInvokeID, "kind": kind}

    # projection
    def ctab(self):
        out = []
        for tr in self.c.smap.clientTransactions:
            d = bytes(tr.segmentAPDU.pduData) if tr.segmentAPDU is not None else b""
            out.append({"peer": int(str(tr.pdu_address)), "id": tr.invokeID, "n": struct.unpack(">H", d[:2])[0] if len(d) >= 2 else 0})
        return out

    def stab(self):
        return [{"peer": int(str(tr.pdu_address)), "id": tr.invokeID} for tr in self.s.smap.serverTransactions]

    def snapshot(self):
        return dict(nextId=self.c.smap.nextInvokeID, ctab=self.ctab(), nreq=self.nreq, outs=list(self.outs), sent=list(self.sent),
                    stab=self.stab(), inds=list(self.inds), owed=list(self.owed), resp=list(self.resp))

    def enabled(self, op, a, i):
        if op == "cgiveup":
            return 1 <= a <= len(self.c.smap.clientTransactions)
        if op == "sgiveup":
            return 1 <= a <= len(self.s.smap.serverTransactions)
        if op == "sresp":
            return {"peer": a, "id": i} in self.owed
        return True

    def step(self, op, a=0, i=0, k=""):
        if not self.enabled(op, a, i):
            return              # not an enabled step of the model either: skipped, not recorded
        before = self.ctab()
        self.last_out = None
        exc = ""
        try:
            with watchdog(10):
                getattr(self, "do_" + op)(a, i, k)
                while core.deferredFns:
                    core.run_once()
        except Hang:
            raise
        except Exception as err:
            exc = type(err).__name__ + ": " + str(err)
        if self.last_out is not None:
            after = self.ctab()
            gone = [e for e in before if e not in after]
            n = gone[0]["n"] if len(gone) == 1 else 0
            self.outs.append(dict(self.last_out, n=n))
        self.evs.append(dict(op=op, a=a, id=i, k=k, exc=exc, st=self.snapshot()))

    # client-side actions
    def _request(self, p, chosen):
        apdu = ConfirmedRequestPDU(SERVICE)
        apdu.pduDestination = Address(p)
        if chosen is not None:
            apdu.apduInvokeID = chosen
        apdu.put_data(struct.pack(">H", self.nreq + 1) + b"payload")
        n_before = len(self.c.smap.clientTransactions)
        try:
            self.c.ase.request(apdu)
        finally:
            if len(self.c.smap.clientTransactions) > n_before:
                self.nreq += 1

    def do_auto(self, p, i, k):
        self._request(p, None)

    def do_chosen(self, p, i, k):
        self._request(p, i)

    def do_cdeliver(self, src, i, k):
        if k == "SA":
            apdu = SimpleAckPDU(SERVICE, i)
        elif k == "CA":
            apdu = ComplexAckPDU(SERVICE, i)
            apdu.put_data(b"\x09\x01")
        elif k == "ERR":
            apdu = ErrorPDU(SERVICE, i)
            apdu.put_data(b"\x91\x02\x91\x1f")
        elif k == "ABTs":
            apdu = AbortPDU(True, i, 0)
        elif k == "ABTc":
            apdu = AbortPDU(False, i, 0)
        elif k == "ACKs":
            apdu = SegmentAckPDU(0, 1, i, 0, 1)
        elif k == "ACKc":
            apdu = SegmentAckPDU(0, 0, i, 0, 1)
        else:
            raise ValueError(k)
        self.c.receive(encode(apdu), Address(src))

    def _fire(self, tr):
        entry = [e for e in vt.tm.tasks if e[2] is tr]
        if not entry:
            raise RuntimeError("transaction has no timer")
        vt.now = max(vt.now, entry[0][0])
        vt.run_one(entry[0])
        if vt.errors:
            err = vt.errors[-1][1]
            vt.errors = []
            raise RuntimeError(err)

    def do_cgiveup(self, j, i, k):
        self._fire(self.c.smap.clientTransactions[j - 1])

    # server-side actions
    def do_scr(self, src, i, k):
        apdu = ConfirmedRequestPDU(SERVICE)
        apdu.apduInvokeID = i
        apdu.apduMaxSegs, apdu.apduMaxResp = 0, 5
        apdu.put_data(b"request")
        self.s.receive(encode(apdu), Address(src))

    def do_sabort(self, src, i, k):
        self.s.receive(encode(AbortPDU(False, i, 0)), Address(src))

    def do_sresp(self, p, i, k):
        rec = {"peer": p, "id": i}
        if rec not in self.owed:
            raise RuntimeError("not owed")
        self.owed.remove(rec)
        apdu = SimpleAckPDU(SERVICE, i)
        apdu.pduDestination = Address(p)
        self.s.ase.response(apdu)

    def do_sgiveup(self, j, i, k):
        self._fire(self.s.smap.serverTransactions[j - 1])
