"""Rig for C06: REAL NetworkServiceAccessPoint routers and stations on vlan.Networks, built from a topology description.

The harness is the scheduler and the medium (as in tsmrig): a frame handed to a vlan.Node becomes, through the library's
own zero-delay task, a call of Network.process_pdu; the rig's Network subclass decodes it with an independent NPCI
reader, logs it and parks one copy per receiver in that LAN's queue.  One step = one spec action executed on the real
objects -- Send (a station's application element hands a PDU to NetworkServiceAccessPoint.indication) or Rx (one parked
copy is handed to the receiving vlan.Node, i.e. NetworkAdapter.confirmation -> NSAP.process_npdu -> NSE) -- followed by
a projection of the acting node (routing cache, parked packets, APDUs handed up) and of the frames it emitted.

topology = {"nodes": [{"ads": [{"lan": l, "net": n, "mac": m}, ...], "app": bool}, ...], "lans": [[[node, ai], ...], ...]}
  (1-based indices; net 0 = the node does not know the network number; "lans" is filled in by the rig: the actual
  order of the vlan nodes on each LAN)
"""
import copy, random
from common import bind_source
bind_source()
import vtime
vt = vtime.install()
import bacpypes.core as core
from bacpypes.comm import Client, bind
from bacpypes.pdu import Address, LocalBroadcast, LocalStation, RemoteStation, RemoteBroadcast, GlobalBroadcast
from bacpypes.vlan import Network, Node
from bacpypes.netservice import NetworkServiceAccessPoint, NetworkServiceElement
from bacpypes.apdu import UnconfirmedRequestPDU

NOFRAME = dict(src=0, dst=0, dk="none", dnet=0, dmac=0, snet=0, smac=0, hops=0, t="none", id=0, nets=[])
SERVICE = 8     # unconfirmed service choice used for the probe APDUs (who-Is); the body is the message id


class _NSE(NetworkServiceElement):
    _startup_disabled = True        # no I-Am-Router / Network-Number-Is broadcasts at start-up (not modelled)


# ---- independent observation of frames (NPCI per clause 6.2, no library code) -----------------------------------
def read_frame(pdu):
    """vlan PDU -> flat frame record of Router.tla"""
    b = bytes(pdu.pduData)
    f = dict(NOFRAME)
    f["src"] = _mac(pdu.pduSource)
    f["dst"] = 0 if pdu.pduDestination.addrType == Address.localBroadcastAddr else _mac(pdu.pduDestination)
    if len(b) < 2 or b[0] != 1:
        f["t"] = "bad"
        return f
    ctl = b[1]
    i = 2
    if ctl & 0x20:
        dnet = (b[i] << 8) | b[i + 1]
        dlen = b[i + 2]
        dadr = b[i + 3:i + 3 + dlen]
        i += 3 + dlen
        if dnet == 0xFFFF:
            f["dk"] = "gb"
        elif dlen == 0:
            f["dk"], f["dnet"] = "rb", dnet
        else:
            f["dk"], f["dnet"], f["dmac"] = "rs", dnet, int.from_bytes(dadr, "big")
    if ctl & 0x08:
        f["snet"] = (b[i] << 8) | b[i + 1]
        slen = b[i + 2]
        f["smac"] = int.from_bytes(b[i + 3:i + 3 + slen], "big")
        i += 3 + slen
    if ctl & 0x20:
        f["hops"] = b[i]
        i += 1
    if ctl & 0x80:
        mt = b[i]
        rest = b[i + 1:]
        f["t"] = {0: "wirtn", 1: "iartn"}.get(mt, "net%d" % mt)
        f["nets"] = [(rest[j] << 8) | rest[j + 1] for j in range(0, len(rest) - 1, 2)]
    else:
        f["t"] = "app"
        f["id"] = int.from_bytes(b[i + 2:], "big") if len(b) >= i + 2 and b[i] == 0x10 else 0
    return f


def _mac(a):
    try:
        return int.from_bytes(bytes(a.addrAddr), "big")
    except Exception:
        return 9999


def _msgid(data):
    b = bytes(data)
    return int.from_bytes(b[2:], "big") if len(b) > 2 and b[0] == 0x10 else 0


class _Lan(Network):
    """harness-owned medium: who receives a frame is decided as in vlan.Network.process_pdu; the copies wait in `q`"""

    def __init__(self, rig, l):
        Network.__init__(self, name="lan%d" % l, broadcast_address=LocalBroadcast())
        self.rig, self.l, self.q = rig, l, []

    def process_pdu(self, pdu):
        f = read_frame(pdu)
        self.rig.tx.append({"lan": self.l, "f": f})
        self.rig.nframes += 1
        if pdu.pduDestination == self.broadcast_address:
            rcv = [n for n in self.nodes if pdu.pduSource != n.address]
        else:
            rcv = [n for n in self.nodes if pdu.pduDestination == n.address]
        for node in rcv:
            self.q.append((node, copy.deepcopy(pdu), f, self.rig.nframes))


class _App(Client):
    """capturing application-layer element of a station"""

    def __init__(self, rig, n):
        Client.__init__(self)
        self.rig, self.n = rig, n

    def confirmation(self, apdu):
        s, d = apdu.pduSource, apdu.pduDestination
        if s.addrType == Address.localStationAddr:
            snet, smac = 0, _mac(s)
        elif s.addrType == Address.remoteStationAddr:
            snet, smac = s.addrNet, _mac(s)
        else:
            snet, smac = 9999, 0
        dk = {Address.localStationAddr: "ls", Address.localBroadcastAddr: "lb", Address.globalBroadcastAddr: "gb",
              Address.remoteStationAddr: "rs", Address.remoteBroadcastAddr: "rb"}.get(d.addrType, "other")
        self.rig.up[self.n].append({"id": int.from_bytes(bytes(apdu.pduData), "big"), "snet": snet, "smac": smac, "dk": dk})


class _DeafApp(Client):
    def confirmation(self, apdu):
        pass


class Rig:
    def __init__(self, topo, cache0=None):
        vt.reset(0.0)
        self.topo = {"nodes": topo["nodes"], "router_apps": bool(topo.get("router_apps"))}
        nn = len(topo["nodes"])
        nl = max(a["lan"] for nd in topo["nodes"] for a in nd["ads"])
        self.lans = {l: _Lan(self, l) for l in range(1, nl + 1)}
        self.nsap, self.app, self.up = {}, {}, {n: [] for n in range(1, nn + 1)}
        self.tx, self.nframes, self.hops, self.evs, self.errors, self.nmsgs = [], 0, {}, [], [], 0
        for n, nd in enumerate(topo["nodes"], 1):
            nsap = NetworkServiceAccessPoint()
            nse = _NSE()
            bind(nse, nsap)
            if nd["app"]:
                self.app[n] = _App(self, n)
                bind(self.app[n], nsap)
            elif topo.get("router_apps"):
                # a router that is a device as well (an application on its network layer): what it hears itself is its own
                # business (not recorded); what it forwards is what it received
                bind(_DeafApp(), nsap)
            for ai, a in enumerate(nd["ads"], 1):
                node = Node(Address(a["mac"]), self.lans[a["lan"]])
                node._who = (n, ai)
                nsap.bind(node, a["net"] or None, Address(a["mac"]))
                if nd["app"]:
                    self._inject(nsap.adapters[a["net"] or None])
            self.nsap[n] = nsap
        self.topo["lans"] = [[list(node._who) for node in self.lans[l].nodes] for l in range(1, nl + 1)]
        if cache0:
            for n, entries in enumerate(cache0, 1):
                for snet, dnet, mac in entries:
                    self.nsap[n].update_router_references(snet or None, Address(mac), [dnet])
        self.cache0 = [self.proj_cache(n) for n in range(1, nn + 1)]
        self.pend0 = [self.proj_pend(n) for n in range(1, nn + 1)]
        self._snap = self._snapshot()

    def _inject(self, adapter):
        """hop counts other than the library's 255 are injected where the NPDU leaves the station (NPDU level)"""
        orig, rig = adapter.process_npdu, self

        def process_npdu(npdu):
            if npdu.npduNetMessage is None:
                h = rig.hops.get(_msgid(npdu.pduData), 255)
                if h != 255:
                    npdu.npduHopCount = h
            return orig(npdu)
        adapter.process_npdu = process_npdu

    # ---- projection (public containers only) ----
    def proj_cache(self, n):
        out = []
        for (snet, dnet), ri in self.nsap[n].router_info_cache.path_info.items():
            out.append([snet or 0, dnet, _mac(ri.address)])
        return sorted(out)

    def proj_pend(self, n):
        out = []
        for dnet, lst in self.nsap[n].pending_nets.items():
            for npdu in lst:
                d = npdu.npduDADR
                mid = _msgid(npdu.pduData)
                out.append({"dnet": dnet, "dk": "rs" if d.addrType == Address.remoteStationAddr else "rb",
                            "dmac": _mac(d) if d.addrType == Address.remoteStationAddr else 0, "id": mid,
                            "hops": self.hops.get(mid, 255)})
        return out

    def _snapshot(self):
        return {n: (self.proj_cache(n), self.proj_pend(n), len(self.up[n])) for n in self.nsap}

    def inflight(self):
        return sum(len(lan.q) for lan in self.lans.values())

    def enabled(self, order="rcv"):
        """copies that may be delivered next: [(l, i)] (1-based)"""
        out = []
        for l, lan in self.lans.items():
            seen = set()
            for i, (node, pdu, f, seq) in enumerate(lan.q, 1):
                if order == "lan":
                    if i == 1:
                        out.append((l, i))
                    break
                if node._who not in seen:
                    out.append((l, i))
                    seen.add(node._who)
        return out

    # ---- steps ----
    def _flush(self):
        """the frames emitted by the step reach the wire (library tasks: OneShotFunction(lan.process_pdu, pdu))"""
        vt.step_all()
        for msg, exc in vt.errors:
            self.errors.append(exc)
        del vt.errors[:]

    def _finish(self, ev, n, exc):
        self._flush()
        snap = self._snapshot()
        ev.update(tx=self.tx, cache=snap[n][0], pend=snap[n][1], up=list(self.up[n]),
                  oth=[k for k in snap if k != n and snap[k] != self._snap[k]], exc=exc or "", inflight=self.inflight())
        if self.errors:
            ev["exc"] = (ev["exc"] + " " + "; ".join(self.errors)).strip()
            self.errors = []
        self._snap = snap
        self.tx = []
        self.evs.append(ev)
        return ev

    def send(self, n, k, dnet=0, dmac=0, hops=255, re=0):
        self.nmsgs += 1
        mid = self.nmsgs
        self.hops[mid] = hops
        if k == "ls":
            dest = LocalStation(dmac)
        elif k == "lb":
            dest = LocalBroadcast()
        elif k == "gb":
            dest = GlobalBroadcast()
        elif k == "rs":
            dest = RemoteStation(dnet, dmac)
        else:
            dest = RemoteBroadcast(dnet)
        pdu = UnconfirmedRequestPDU(SERVICE)
        pdu.pduDestination = dest
        pdu.put_data(mid.to_bytes(2, "big"))
        exc = None
        try:
            self.app[n].request(pdu)
        except Exception as e:
            exc = repr(e)
        return self._finish(dict(n="Send", node=n, ai=0, l=0, i=0, f=dict(NOFRAME), k=k, dnet=dnet, dmac=dmac, hops=hops, re=re),
                            n, exc)

    def reply(self, s, j):
        e = self.up[s][j - 1]
        return self.send(s, "ls" if e["snet"] == 0 else "rs", e["snet"], e["smac"], 255, e["id"])

    def deliver(self, l, i):
        node, pdu, f, seq = self.lans[l].q.pop(i - 1)
        n, ai = node._who
        exc = None
        try:
            node.response(pdu)
        except Exception as e:
            exc = repr(e)
        return self._finish(dict(n="Rx", node=n, ai=ai, l=l, i=i, f=f, k="none", dnet=0, dmac=0, hops=0, re=0), n, exc)

    def run(self, order="fifo", rng=None, budget=4000):
        """deliver until quiet; returns False if the step budget is exhausted"""
        steps = 0
        while True:
            if order == "fifo":
                en = self.enabled("lan")
                # oldest frame first = what the library's own loop does
                if not en:
                    return True
                l, i = min(en, key=lambda li: self.lans[li[0]].q[0][3])
            else:
                en = self.enabled("rcv")
                if not en:
                    return True
                l, i = rng.choice(en)
            self.deliver(l, i)
            steps += 1
            if steps >= budget:
                return False

    def script(self):
        out = []
        for e in self.evs:
            out.append(["Send", e["node"], e["k"], e["dnet"], e["dmac"], e["hops"], e["re"]] if e["n"] == "Send"
                       else ["Rx", e["l"], e["i"]])
        return out

    def run_script(self, script):
        """returns the index of the first step that could not be executed (None if all were)"""
        for pos, st in enumerate(script):
            if st[0] == "Send":
                self.send(*st[1:])
            else:
                l, i = st[1], st[2]
                if l not in self.lans or not (1 <= i <= len(self.lans[l].q)):
                    return pos
                self.deliver(l, i)
        return None
