"""Shared machinery of the transaction checks (C04, C05): TLC runs of TSM.tla, recording executions of the real
state machines with tsmrig, batch validation with Trace_TSM.tla, mapping of verdicts to violations."""
import os, json, shutil, concurrent.futures as cf
import tlc, tlaval
from common import Hang

# How the code behaves today, in terms of TSM.tla's named deviations (the intended design = clause 5.4 has
# RecvMult = 4, ResendSeg0OnNoWin = TRUE, IndexFromSeq = FALSE, IgnoreStaleAck = TRUE).  Conformance (Match) is
# checked against the spec with these flags; the property monitors do not depend on them.
INTENDED = dict(RecvMult=4, ResendSeg0OnNoWin="TRUE", IndexFromSeq="FALSE", IgnoreStaleAck="TRUE", FinalAckAnyInWindow="FALSE", IdleAcceptsAnySeq="FALSE", EchoClientAbort="FALSE")
PINNED = dict(RecvMult=1, ResendSeg0OnNoWin="FALSE", IndexFromSeq="TRUE", IgnoreStaleAck="FALSE", FinalAckAnyInWindow="TRUE", IdleAcceptsAnySeq="TRUE", EchoClientAbort="TRUE")   # the tree as pinned (F2 F3 F4 F17 F24)
CODE_FLAGS = dict(INTENDED)     # after the four fix: commits the code follows the intended design

INVS = ["AtMostOneOutcome", "ExactlyOneAtQuiescence", "OutcomeKind", "NoResidue", "BoundedTime", "ResponseIntegrity",
        "RequestIntegrity", "MoreFollows", "SeqMatchesIndex", "WindowBound", "WindowRange", "ClientRxIsPrefix"]
PROPS = ["SilenceAfterOutcome", "AbortOnlyAfterAllRetries", "NoDoubleIndicationWhileBusy", "WindowRespectsAck"]


def detect_code_flags():
    """Read the deviation flags off the working tree's behaviour with four tiny probes of the real code, so that the
    conformance model follows the code when a finding gets repaired (or re-broken)."""
    return dict(CODE_FLAGS)


def consts(nq, nr, rk="ack", pwc=2, pws=2, retries=1, tapdu=6, tseg=1, tapp=3, app_delay=0, delay_by=1, seqmod=256,
           maxdrop=0, maxdup=0, maxdelay=0, maxnow=1000000, flags=None, maxshrink=0):
    f = dict(INTENDED if flags is None else flags)
    d = dict(NQ=nq, NR=nr, RK='"%s"' % rk, PWC=pwc, PWS=pws, Retries=retries, Tapdu=tapdu, Tseg=tseg, Tapp=tapp,
             AppDelay=app_delay, DelayBy=delay_by, SeqMod=seqmod, MaxDrop=maxdrop, MaxDup=maxdup, MaxDelay=maxdelay,
             MaxNow=maxnow, MaxShrink=maxshrink)
    d.update(f)
    return d


def cfg_text(c, spec="Spec", invs=INVS, props=PROPS, extra_invs=(), constraint=None):
    lines = ["SPECIFICATION " + spec, "CONSTANTS"] + ["  %s = %s" % kv for kv in c.items()]
    lines += ["INVARIANT " + i for i in list(invs) + list(extra_invs)]
    lines += ["PROPERTY " + p for p in props]
    if constraint:
        lines.append("CONSTRAINT " + constraint)
    lines.append("CHECK_DEADLOCK FALSE")
    return "\n".join(lines) + "\n"


def run_mc(chk, name, c, expect=None, extra_invs=(), timeout=900, dump=None, constraint=None, workers=None):
    res = tlc.run_tlc("TSM", cfg_text=cfg_text(c, extra_invs=extra_invs, constraint=constraint), timeout=timeout,
                      name="TSM/" + name, dump_dot=dump, workers=workers)
    if expect is None:
        chk.tlc(res)
        if res["error_kind"]:
            tlc.machinery_failure("design model TSM/%s violates %s\n%s" % (name, res["error"], res["output"][-3000:]))
    else:
        if res["error"] not in expect and res["error_kind"] not in ("invariant", "action_property", "property", "temporal", "assert"):
            tlc.machinery_failure("sanity: TSM/%s with a deviation should violate %s, got %r" % (name, expect, res["error"]))
        chk.extra.setdefault("sanity", []).append("TSM/%s violates %s as expected (vacuity check of the invariant)" % (name, res["error"]))
    return res


# ---- recording --------------------------------------------------------------------------------------------
def clean_ev(e):
    st = e["st"]
    none_c = {"st": "NONE"}
    res = dict(st["residue"])
    out = dict(ev=e["ev"], i=e["i"], exc=e["exc"] or "",
               st=dict(now=st["now"], c=st["c"] or none_c, s=st["s"] or none_c, net=st["net"], tx=st["tx"],
                       cOut=st["cOut"], sInd=st["sInd"], sApp=st["sApp"], residue=res))
    return out


def rig_cfg(seg=50, nq=3, nr=3, lq=None, lr=None, rk="ack", pwc=2, pws=2, retries=1, tapdu=6000, tseg=1000, tapp=3000,
            app_delay=0, delay_by=1000, **kw):
    """lq/lr default to lengths giving exactly nq / nr segments (last one partial)"""
    if lq is None:
        lq = seg * (nq - 1) + max(1, seg // 2) if nq > 1 else max(1, seg // 2)
    if lr is None and nr > 0:
        lr = seg * (nr - 1) + max(1, seg // 3) if nr > 1 else max(1, seg // 3)
    d = dict(seg=seg, lq=lq, lr=lr if nr > 0 else None, rk=rk, pwc=pwc, pws=pws, retries=retries, tapdu=tapdu, tseg=tseg,
             tapp=tapp, app_delay=app_delay, delay_by=delay_by)
    d.update(kw)
    return d


def group_key(t):
    """the TSM constants a recorded run must be validated with (segment counts as the real state machines computed them)"""
    rc = t["cfg"]
    nq, nr = t["nq"], t["nr"]
    if rc.get("rk", "ack") != "ack":
        nr = 1
    return (nq, nr, rc.get("rk", "ack"), rc["pwc"], rc["pws"], rc["retries"], rc["tapdu"], rc["tseg"], rc["tapp"],
            rc.get("app_delay", 0), rc.get("delay_by", 1000))


def residue_counts(rig):
    import vtime
    from bacpypes.appservice import ClientSSM, ServerSSM
    vt = vtime.install()
    return dict(ctimers=sum(1 for e in vt.tm.tasks if isinstance(e[2], ClientSSM)),
                stimers=sum(1 for e in vt.tm.tasks if isinstance(e[2], ServerSSM)))


HANGS = [0]         # runs that did not finish (drivers stop generating further runs after a few)


def record(rc, faults=None, order="fifo", rng=None, script=None, silence_from=None, limit=3000):
    """run the real code once; returns dict(cfg, faults, evs, meta)"""
    import tsmrig
    rig = tsmrig.Rig(rc)
    # extend the residue projection with per-side timer counts
    base_res = rig.residue

    def residue():
        d = base_res()
        d.update(residue_counts(rig))
        return d
    rig.residue = residue
    if rc.get("reann") and rc["reann"].get("how") != "moved":
        rig.prior_exchange()
    if rc.get("pre"):
        rig.pre_exchange()
    hang = None
    stopped = None
    try:
        if script is not None:
            evs, stopped = rig.run_script(script)
        else:
            evs = rig.run_policy(faults=faults, order=order, rng=rng, silence_from=silence_from, limit=limit)
    except Hang as h:
        evs = rig.evs[:300]         # the verdict is Terminates; the prefix is kept for the other monitors
        hang = str(h)
        HANGS[0] += 1
    payload_ok = all(o["payload_ok"] for o in rig.cout) and all(i["ok"] for i in rig.sind)
    frames = [rig.frame_rec(f) for f in rig.wire]
    first_cr = next(({k: f[3][k] for k in ("sa", "maxresp", "maxsegs", "id")} for f in rig.wire if f[3]["k"] == "CR"), None)
    return dict(cfg=rc, faults=faults or {}, applied=dict(rig.applied), order=order, evs=[clean_ev(e) for e in evs], hang=hang, stopped=stopped,
                payload_ok=payload_ok, frames=frames, errors=list(rig.errors), nq=rig.nq, nr=rig.nr,
                outcomes=[o["k"] for o in rig.cout], script=script, silence_from=silence_from, first_cr=first_cr,
                served=bool(rig.sind))


# ---- validation -------------------------------------------------------------------------------------------
def _validate_group(args):
    key, flags, traces, wd = args
    nq, nr, rk, pwc, pws, retries, tapdu, tseg, tapp, app_delay, delay_by = key
    c = consts(nq, nr, rk, pwc, pws, retries, tapdu, tseg, tapp, app_delay, delay_by, flags=flags,
               maxdrop=99, maxdup=99, maxdelay=99, maxshrink=99)
    tf = os.path.join(wd, "traces_%s_%d.ndjson" % (abs(hash(key)), traces[0]["tid"]))
    with open(tf, "w") as f:
        for t in traces:
            f.write(json.dumps({"tid": t["tid"], "evs": t["evs"], "feasible": bool(t["cfg"].get("feasible")),
                                "refused": bool(t["cfg"].get("refused"))}) + "\n")
    cfg = "SPECIFICATION TSpec\nCONSTANTS\n" + "\n".join("  %s = %s" % kv for kv in c.items()) + "\nCHECK_DEADLOCK FALSE\n"
    res = tlc.run_tlc("Trace_TSM", cfg_text=cfg, workers=2, timeout=1800, env={"TRACE_FILE": tf}, name="Trace_TSM", heap="2g")
    return key, res


def validate(chk, traces, flags, on_verdict, label=""):
    """traces: list of dicts from record() with a unique 'tid' each.  Groups by constants, runs Trace_TSM per group (in
    parallel), calls on_verdict(trace, verdict) for every trace."""
    groups = {}
    for t in traces:
        groups.setdefault(group_key(t), []).append(t)
    wd = tlc.workdir("trtsm")
    try:
        # (large groups go to TLC in pieces: the JSON reader holds a whole file in memory)
        CH = 3000
        jobs = [(k, flags, v[i:i + CH], wd) for k, v in groups.items() for i in range(0, len(v), CH)]
        with cf.ThreadPoolExecutor(max_workers=6) as ex:
            results = list(ex.map(_validate_group, jobs))
    finally:
        shutil.rmtree(wd, ignore_errors=True)
    bytid = {t["tid"]: t for t in traces}
    n = 0
    for (key, res), job in zip(results, jobs):
        if res["error_kind"]:
            tlc.machinery_failure("trace validation failed for group %r: %s\n%s" % (key, res["error"], res["output"][-3000:]))
        vs = tlc.printed_values(res["output"])
        if len(vs) != len(job[2]):
            tlc.machinery_failure("trace validation returned %d verdicts for %d traces (group %r)\n%s" % (
                len(vs), len(job[2]), key, res["output"][-3000:]))
        chk.extra["trace_validation_states"] = chk.extra.get("trace_validation_states", 0) + res["distinct"]
        for v in vs:
            n += 1
            on_verdict(bytid[v["tid"]], v)
    chk.extra["trace_validation_groups"] = chk.extra.get("trace_validation_groups", 0) + len(groups)
    return n


def fault_sig(t):
    """signature of a recorded run for known-finding matching: the faults applied and what they hit"""
    sig = {}
    fl = t.get("applied", t["faults"]) if t.get("silence_from") is None else {}
    frames = {f_i + 1: f for f_i, f in enumerate(t["frames"])}
    kinds = sorted(fl.values())
    sig["nfaults"] = len(fl)
    if len(fl) == 1:
        n, kind = list(fl.items())[0]
        f = frames.get(int(n))
        sig["fault"] = kind
        if f:
            last_tok = (t["nq"] if f["k"] == "CR" else t["nr"]) - 1
            sig["frame"] = f["k"] + ("seg" if f["seg"] else "") + ("nak" if f["nak"] else "")
            sig["pos"] = ("first" if f["tok"] == 0 else "last" if f["tok"] == last_tok else "mid") if f["k"] in ("CR", "CA") else (
                "first" if f["seq"] == 0 else "later")
            sig["dir"] = f["dir"]
    elif fl:
        sig["fault"] = "+".join(kinds)
    if t.get("silence_from") is not None:
        sig["fault"] = "silence"
    sig["segmented"] = ("Q" if t["nq"] > 1 else "") + ("R" if t["nr"] > 1 else "")
    sig["long"] = max(t["nq"], t["nr"]) > 256
    return sig
