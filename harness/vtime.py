"""Virtual-time kernel: the library's own TaskManager / run_once code runs against a clock the harness owns.

    import vtime; vt = vtime.install()      # must happen before anything else creates a TaskManager
    vt.reset()                               # between runs
    vt.step_all()                            # run everything due at the current instant (FIFO like core.run_once)
    vt.run_until(t)                          # discrete-event loop up to virtual time t
    vt.due()                                 # heap entries due now, in heap order
    vt.run_one(entry)                        # force one specific due task to run next (others lifted out)
"""
import heapq
from common import bind_source
bind_source()
import bacpypes.core as core
import bacpypes.task as task
from bacpypes.task import TaskManager


class Livelock(Exception):
    pass


class VTM(TaskManager):
    """the library's TaskManager, unchanged: the virtual clock lives in VT (not in an attribute of this object, where a
    change to the library could read or overwrite it by accident) and reaches the library through bacpypes.task._time"""

    def __init__(self):
        TaskManager.__init__(self)

    # (get_time is NOT overridden: TaskManager.get_time reads bacpypes.task._time, which VT points at this clock -- the
    # library's own way of asking for the time stays under test)


class VT:
    def __init__(self):
        existing = TaskManager._singleton_instance if hasattr(TaskManager, "_singleton_instance") else None
        if existing is not None and not isinstance(existing, VTM):
            raise RuntimeError("a real TaskManager already exists")
        self._now = 0.0
        task._time = lambda: self._now
        self.tm = existing or VTM()
        core.taskManager = self.tm
        # the trigger pipe is irrelevant without asyncore; keep it but never block on it
        self.steps = 0
        self.errors = []          # exceptions logged by run_once (it swallows them)
        self._patch_exception_log()

    def _patch_exception_log(self):
        vt = self

        def _exc(msg, *args):
            import sys
            vt.errors.append((msg % args if args else msg, repr(sys.exc_info()[1])))
        try:
            core.run_once._exception = _exc
            core.run._exception = _exc
        except Exception:
            pass

    @property
    def now(self):
        return self._now

    @now.setter
    def now(self, v):
        self._now = v

    def reset(self, now=0.0):
        for e in self.tm.tasks:
            e[2].isScheduled = False
        self.tm.tasks = []
        self._now = now
        core.deferredFns = []
        self.steps = 0
        self.errors = []

    def due(self):
        return sorted(e for e in self.tm.tasks if e[0] <= self._now)

    def next_deadline(self):
        return self.tm.tasks[0][0] if self.tm.tasks else None

    def pending(self):
        return bool(core.deferredFns) or bool(self.tm.tasks and self.tm.tasks[0][0] <= self._now)

    def step_all(self, limit=100000):
        """run everything due at the current instant with the library's own loop"""
        n = 0
        while True:
            n += 1
            if n > limit:
                raise Livelock("more than %d run_once passes at t=%r" % (limit, self._now))
            core.run_once()
            self.steps += 1
            if not self.pending():
                return n

    def run_one(self, entry=None):
        """Run exactly one due task (default: the heap minimum) through core.run_once, then drain deferred fns.
        Other due entries are lifted out of the heap for the duration and put back with their original keys."""
        due = self.due()
        if entry is None:
            if not due:
                core.run_once()
                return None
            entry = due[0]
        lifted = [e for e in self.tm.tasks if e is not entry and e[0] <= self._now]
        if lifted:
            self.tm.tasks = [e for e in self.tm.tasks if e[0] > self._now or e is entry]
            heapq.heapify(self.tm.tasks)
        try:
            self._run_once_single()
        finally:
            for e in lifted:
                # a lifted task may have been suspended / re-installed by the step; only put back if untouched
                if e[2].isScheduled and not any(x[2] is e[2] for x in self.tm.tasks):
                    heapq.heappush(self.tm.tasks, e)
        self.steps += 1
        return entry

    def _run_once_single(self):
        """one iteration of the run_once loop body: pop one task if due, process it, drain deferred batches.
        Uses the library's own get_next_task / process_task and the same exception policy as core.run_once."""
        tm = self.tm
        try:
            t, delta = tm.get_next_task()
            if t:
                tm.process_task(t)
            while core.deferredFns:
                fnlist = core.deferredFns
                core.deferredFns = []
                for fn, args, kwargs in fnlist:
                    fn(*args, **kwargs)
                del fnlist
        except Exception as err:
            import sys
            self.errors.append(("an error has occurred: %s" % err, repr(sys.exc_info()[1])))

    def run_until(self, t, limit=200000, on_instant=None):
        """discrete-event loop: run all that is due, jump to the next deadline, until virtual time t"""
        n = 0
        while True:
            self.step_all()
            if on_instant:
                on_instant()
            nd = self.next_deadline()
            if nd is None or nd > t:
                break
            self._now = max(self._now, nd)
            n += 1
            if n > limit:
                raise Livelock("more than %d instants before t=%r (now %r)" % (limit, t, self._now))
        self._now = max(self._now, t)

    def run_quiescent(self, horizon, limit=200000):
        """run until no task is left or the horizon is reached; returns True if quiescent"""
        n = 0
        while True:
            self.step_all()
            nd = self.next_deadline()
            if nd is None:
                return True
            if nd > horizon:
                return False
            self._now = max(self._now, nd)
            n += 1
            if n > limit:
                raise Livelock("more than %d instants (now %r)" % (limit, self._now))


_vt = None


def install():
    global _vt
    if _vt is None:
        _vt = VT()
    return _vt
