"""IOCB path of C04 (placeholder until IOQ.tla is wired in)"""


def run(chk, rng, thorough):
    return


def replay(chk, rp):
    return
