"""IOCB path of C04: real ApplicationIOController (IOCB -> SieveQueue per destination -> Application -> ASAP -> SMAP)
talking to real serving Applications over a harness-owned lossy medium.  Executions are recorded in the vocabulary of
IOQ.tla and validated by TLC (Trace_IOQ.tla); the design itself is model-checked (MC over 3 IOCBs x 2 destinations)."""
import os, json, random, shutil
from common import bind_source, Hang, watchdog
bind_source()
import vtime
vt = vtime.install()
import tlc
import bacpypes.core as core
from bacpypes.comm import bind, Server
from bacpypes.pdu import Address, PDU
from bacpypes.apdu import APDU, ReadPropertyRequest, ReadPropertyACK, WhoIsRequest
from bacpypes.app import Application, ApplicationIOController
from bacpypes.appservice import StateMachineAccessPoint, ApplicationServiceAccessPoint, SSM
from bacpypes.local.device import LocalDeviceObject
from bacpypes.object import AnalogValueObject
from bacpypes.service.object import ReadWritePropertyServices
from bacpypes.iocb import IOCB, IOQController
from tsmrig import parse_apdu

STATES = {0: "idle", 1: "pending", 2: "active", 3: "completed", 4: "aborted"}


class Low(Server):
    def __init__(self, node):
        Server.__init__(self)
        self.node = node

    def indication(self, apdu):
        x = APDU()
        apdu.encode(x)
        pdu = PDU()
        x.encode(pdu)
        self.node.rig.emit(self.node, bytes(pdu.pduData), apdu.pduDestination)


class ClientApp(ApplicationIOController):
    _startup_disabled = True


class ServerApp(Application, ReadWritePropertyServices):
    _startup_disabled = True


class Node:
    def __init__(self, rig, addr, client, retries, tapdu):
        self.rig, self.addr = rig, Address(addr)
        dev = LocalDeviceObject(objectName="dev%d" % addr, objectIdentifier=("device", addr), maxApduLengthAccepted=1024,
                                segmentationSupported="segmentedBoth", vendorIdentifier=999,
                                numberOfApduRetries=retries, apduTimeout=tapdu, apduSegmentTimeout=tapdu // 8 or 1)
        self.app = (ClientApp if client else ServerApp)(dev, self.addr)
        if not client:
            self.app.add_object(AnalogValueObject(objectIdentifier=("analogValue", 1), objectName="av1", presentValue=float(addr)))
        self.asap = ApplicationServiceAccessPoint()
        self.smap = StateMachineAccessPoint(dev, self.app.deviceInfoCache)
        self.low = Low(self)
        bind(self.app, self.asap, self.smap, self.low)

    def receive(self, octets, source):
        pdu = PDU(octets, source=source, destination=self.addr)
        apdu = APDU()
        apdu.decode(pdu)
        self.low.response(apdu)


class Rig:
    def __init__(self, dests, retries=1, tapdu=3000):
        vt.reset(0.0)
        self.c = Node(self, 1, True, retries, tapdu)
        self.servers = {d: Node(self, d, False, retries, tapdu) for d in dests}
        self.dests = list(dests)
        self.net = []
        self.frame_no = 0
        self.iocbs = []
        self.asked = []         # per IOCB: the property a confirmed request reads (None: an unconfirmed request)
        self.cb = []
        self.evs = []
        self.errors = []
        self.applied = {}
        self.giving_up = False
        self.chained = []       # requests submitted from a completion callback, not yet in the log: (IOCB number, destination index)

    def emit(self, node, octets, dest):
        self.frame_no += 1
        d = int(str(dest))
        self.net.append([octets, vt.now, int(str(node.addr)), d, self.frame_no, parse_apdu(octets)["k"]])

    def snapshot(self):
        q = self.c.app.queue_by_address
        st = [STATES[i.ioState] for i in self.iocbs]
        act, pend, qex, trig = [], [], [], []
        for d in self.dests:
            sq = q.get(Address(d))
            act.append((self.iocbs.index(sq.active_iocb) + 1) if (sq and sq.active_iocb in self.iocbs) else 0)
            pend.append([self.iocbs.index(x[1]) + 1 for x in sq.ioQueue.queue] if sq else [])
            qex.append(sq is not None)
            # (the queue object may already be forgotten by queue_by_address: the deferred call still names its address)
            trig.append(sum(1 for fn, args, kw in core.deferredFns if fn is IOQController._trigger and args
                            and getattr(args[0], "address", None) == Address(d)))
        residue = dict(ct=len(self.c.smap.clientTransactions), st=sum(len(s.smap.serverTransactions) for s in self.servers.values()),
                       timers=len(vt.tm.tasks), deferred=len(core.deferredFns), net=len(self.net))
        return dict(now=int(round(vt.now * 1000)), st=st, cb=list(self.cb), active=act, pend=pend, qexists=qex, trig=trig, residue=residue,
                    match=[self.match(i, a) for i, a in zip(self.iocbs, self.asked)])

    @staticmethod
    def match(iocb, asked):
        """what a finished IOCB holds: the answer to its own request ("own"), to another one ("other"), an error / reject /
        abort ("err"), nothing ("none"); "" while it is not finished"""
        if iocb.ioState not in (3, 4):
            return ""
        if iocb.ioError is not None:
            return "err"
        r = iocb.ioResponse
        if r is None:
            return "none"
        if isinstance(r, ReadPropertyACK) and r.propertyIdentifier == asked and r.objectIdentifier == ("analogValue", 1):
            return "own"
        return "other"

    def log(self, op, k=0, d=0, exc="", u=False):
        # a request the application submitted from inside a completion callback is part of the step that ran the callback: it
        # gets an entry of its own ("chained": which IOCB, for which destination -- inputs) with the same post-state
        snap = self.snapshot()
        if op == "request":
            self.evs.append(dict(op=op, k=k, d=d, exc=exc, u=u, s=snap))
        for k2, d2 in self.chained:
            self.evs.append(dict(op="chained", k=k2, d=d2, exc="", u=False, s=snap))
        self.chained = []
        if op != "request":
            self.evs.append(dict(op=op, k=k, d=d, exc=exc, u=u, s=snap))

    def chain(self, d):
        """called from a completion callback: the usual "read the next one" -- another request to the same device"""
        k = len(self.iocbs)
        asked = self.PROPS[k % len(self.PROPS)]
        iocb = IOCB(ReadPropertyRequest(objectIdentifier=("analogValue", 1), propertyIdentifier=asked, destination=Address(d)))
        self.iocbs.append(iocb)
        self.asked.append(asked)
        self.cb.append(0)

        def done(i, k=k):
            self.cb[k] += 1
        iocb.add_callback(done)
        self.chained.append((k + 1, self.dests.index(d) + 1))
        self.c.app.request_io(iocb)

    def guarded(self, fn, *a, drain=True):
        try:
            with watchdog(10):
                fn(*a)
                n = 0
                while drain and core.deferredFns and n < 1000:
                    core.run_once()
                    n += 1
        except Hang:
            raise
        except Exception as err:
            self.errors.append(type(err).__name__ + ": " + str(err))
            return self.errors[-1]
        if vt.errors:
            self.errors.append(vt.errors[-1][1])
            vt.errors = []
            return self.errors[-1]
        return ""

    PROPS = ["presentValue", "objectName", "objectIdentifier", "statusFlags", "units"]

    def direct(self, d):
        """an unconfirmed request sent without an IOCB (ApplicationIOController.request)"""
        exc = self.guarded(self.c.app.request, WhoIsRequest(destination=Address(d)), drain=False)
        self.log("direct", 0, self.dests.index(d) + 1, exc)
        self.drain()

    def drain(self):
        """the deferred calls a request left behind (IOQController._trigger), as a step of their own"""
        if core.deferredFns:
            exc = self.guarded(lambda: None)
            self.log("run", 0, 0, exc)

    def abort_pending(self, d):
        """the application gives up the youngest request still queued for d (IOCB.abort)"""
        for k in range(len(self.iocbs) - 1, -1, -1):
            io = self.iocbs[k]
            sq = self.c.app.queue_by_address.get(Address(d))
            if io.ioState == 1 and io.args[0].pduDestination == Address(d) and sq is not None and sq.active_iocb is not None:
                self.giving_up = True
                exc = self.guarded(io.abort, RuntimeError("given up by the application"), drain=False)
                self.giving_up = False
                self.log("abortp", k + 1, self.dests.index(d) + 1, exc)
                self.drain()
                return

    def request(self, d, kind="c"):
        k = len(self.iocbs)
        if kind == "d":
            return self.direct(d)
        if kind == "a":
            return self.abort_pending(d)
        if kind == "u":
            req, asked = WhoIsRequest(destination=Address(d)), None
        else:
            asked = self.PROPS[k % len(self.PROPS)]       # consecutive requests differ: an answer tells which one it answers
            req = ReadPropertyRequest(objectIdentifier=("analogValue", 1), propertyIdentifier=asked, destination=Address(d))
        iocb = IOCB(req)
        self.iocbs.append(iocb)
        self.asked.append(asked)
        self.cb.append(0)

        def done(i, k=k):
            self.cb[k] += 1
            if kind == "n" and self.cb[k] == 1 and not self.giving_up:
                self.chain(d)           # (not from the callback of a request the application itself gives up: AbortPending is one step)
        iocb.add_callback(done)
        exc = self.guarded(self.c.app.request_io, iocb, drain=False)
        self.log("request", k + 1, self.dests.index(d) + 1, exc, u=(kind == "u"))
        self.drain()

    def run(self, plan, faults, rng=None, limit=4000):
        """plan: list of (time_ms, dest[, kind]) requests -- kind "c" confirmed through an IOCB (default), "u" unconfirmed
        through an IOCB, "d" unconfirmed without one, "a" give up a queued one, "n" confirmed with a completion callback that
        submits the next request to the same destination; faults: {frame number: 'drop'|'dup'|'delay'}"""
        plan = sorted((tuple(p) for p in plan), key=lambda p: p[0])       # (stable: entries of one instant keep their order)
        faults = dict(faults)
        for _ in range(limit):
            if plan and plan[0][0] <= vt.now * 1000:
                self.request(*plan.pop(0)[1:])
                continue
            due_frames = [i for i, f in enumerate(self.net) if f[1] <= vt.now]
            due_timers = sorted(e for e in vt.tm.tasks if e[0] <= vt.now)
            choices = [("f", i) for i in due_frames[:1]] + [("t", e) for e in due_timers[:1]]
            if not choices:
                nxt = [e[0] for e in vt.tm.tasks] + [f[1] for f in self.net] + [p[0] / 1000.0 for p in plan]
                if not nxt:
                    break
                vt.now = max(vt.now, min(nxt))
                continue
            kind, x = rng.choice(choices) if rng else choices[0]
            if kind == "t":
                exc = self.guarded(vt.run_one, x)
                self.log("run", 0, 0, exc)
                continue
            octets, at, src, dst, n, k = self.net[x]
            f = faults.pop(n, None)
            if f:
                self.applied[n] = f
            if f == "drop":
                self.net.pop(x)
                self.log("run")
                continue
            if f == "delay":
                self.net[x][1] = vt.now + 1.0
                self.log("run")
                continue
            if f == "dup":
                self.net.insert(x + 1, [octets, at, src, dst, n, k])
            self.net.pop(x)
            node = self.c if dst == 1 else self.servers.get(dst)
            exc = self.guarded(node.receive, octets, Address(src)) if node else ""
            self.log("run", 0, 0, exc)
        else:
            self.evs.append(dict(op="livelock", k=0, d=0, exc="", s=self.snapshot()))
        return self.evs


TRACE_SPEC = """---- MODULE Trace_IOQ ----
(* Monitor-mode validation of recorded IOCB executions against IOQ.tla: every logged state is bound to the IOQ
   variables; the IOQ invariants and the Monotone action property are evaluated on it; `request` steps are also
   checked for conformance with the Request action.  One verdict per trace. *)
EXTENDS IOQ, Json, IOUtils, TLCExt
Traces == ndJsonDeserialize(IOEnv.TRACE_FILE)
VARIABLES tid, l, rej, viol
T == Traces[tid].evs
N == Traces[tid].n
Pad(s, dflt) == [k \\in K |-> IF k <= Len(s) THEN s[k] ELSE dflt]
TInit == Init /\\ tid \\in 1..Len(Traces) /\\ l = 1 /\\ rej = 0 /\\ viol = {}
Bind(e) == /\\ st' = Pad(e.s.st, "idle") /\\ cb' = Pad(e.s.cb, 0)
           /\\ dest' = IF e.op \\in {"request", "chained"} THEN [dest EXCEPT ![e.k] = e.d] ELSE dest
           /\\ unc' = IF e.op \\in {"request", "chained"} THEN [unc EXCEPT ![e.k] = e.u] ELSE unc
           /\\ active' = [d \\in D |-> e.s.active[d]] /\\ pend' = [d \\in D |-> e.s.pend[d]]
           /\\ trig' = [d \\in D |-> e.s.trig[d]] /\\ qexists' = [d \\in D |-> e.s.qexists[d]]
           /\\ act' = [op |-> e.op, k |-> e.k, d |-> e.d]
AtEnd == l = Len(T)
Failing(e) ==
    (IF AtMostOneCompletion' THEN {} ELSE {"AtMostOneOutcome"}) \\cup
    (IF DoneIffCompletion' THEN {} ELSE {"ExactlyOneAtQuiescence"}) \\cup
    (IF OneActivePerDestination' THEN {} ELSE {"OneActivePerDestination"}) \\cup
    (IF PendingAreQueued' THEN {} ELSE {"NoResidue"}) \\cup
    (IF A_Monotone THEN {} ELSE {"AtMostOneOutcome"}) \\cup
    \\* handing something else down (with or without an IOCB) completes no confirmed request that is in progress
    (IF e.op \\in {"request", "direct", "abortp"} /\\ ~(\\A k \\in K : (~unc[k] /\\ st[k] \\in {"pending", "active"} /\\ ~(e.op = "abortp" /\\ k = e.k)) =>
                                                   (st'[k] = st[k] \\/ (st[k] = "pending" /\\ st'[k] = "active")))
        THEN {"OutcomeOnlyFromReply"} ELSE {}) \\cup
    \\* what a finished confirmed request holds is the answer to that very request (or an error / reject / abort)
    (IF \\A k \\in K : (k <= Len(e.s.match) /\\ ~unc'[k] /\\ st'[k] \\in {"completed", "aborted"}) =>
                        e.s.match[k] = (IF st'[k] = "completed" THEN "own" ELSE "err")
        THEN {} ELSE {"OutcomeOnlyFromReply"}) \\cup
    (IF e.op = "livelock" THEN {"Terminates"} ELSE {}) \\cup
    \\* end of run: every IOCB has its one outcome and nothing is left in the queues, the stacks, the heap
    (IF AtEnd /\\ e.op # "livelock" /\\ ~(\\A k \\in K : dest'[k] # 0 => (st'[k] \\in {"completed", "aborted"} /\\ cb'[k] = 1))
        THEN {"ExactlyOneAtQuiescence"} ELSE {}) \\cup
    (IF AtEnd /\\ e.op # "livelock" /\\ ~((\\A d \\in D : pend'[d] = <<>> /\\ ~qexists'[d] /\\ active'[d] = 0)
                 /\\ e.s.residue.ct = 0 /\\ e.s.residue.st = 0 /\\ e.s.residue.timers = 0 /\\ e.s.residue.deferred = 0)
        THEN {"NoResidue"} ELSE {})
Step == /\\ l <= Len(T)
        /\\ LET e == T[l] IN
            /\\ Bind(e)
            /\\ rej' = IF rej = 0 /\\ ((e.op = "request" /\\ ~ENABLED (Request(e.k, e.d, e.u) /\\ Bind(e)))
                                    \\/ (e.op = "direct" /\\ ~ENABLED (Direct(e.d) /\\ Bind(e)))
                                    \\/ (e.op = "abortp" /\\ ~ENABLED (AbortPending(e.k) /\\ Bind(e)))) THEN l ELSE rej
            /\\ viol' = viol \\cup {<<m, l>> : m \\in {x \\in Failing(e) : \\A v \\in viol : v[1] # x}}
        /\\ l' = l + 1 /\\ UNCHANGED tid
Done_ == /\\ l = Len(T) + 1
         /\\ PrintT(<<"@@", [tid |-> Traces[tid].tid, rej |-> rej, viol |-> viol]>>)
         /\\ l' = l + 1 /\\ UNCHANGED <<vars, tid, rej, viol>>
TSpec == TInit /\\ [][Step \\/ Done_]_<<vars, tid, l, rej, viol>>
====
"""


def record(dests, plan, faults, seed=None, retries=1):
    rig = Rig(dests, retries=retries)
    hang = ""
    try:
        rig.run(plan, faults, rng=random.Random(seed) if seed is not None else None)
    except Hang as h:
        hang = str(h)
    return dict(dests=dests, plan=plan, faults=faults, seed=seed, retries=retries, evs=rig.evs, hang=hang, errors=rig.errors[:3],
                n=len(rig.iocbs), applied=rig.applied)


def validate(chk, traces, only=None, rename=None):
    """only: report just these monitors; rename: monitor name -> name under which the calling check reports it"""
    if not traces:
        return
    wd = tlc.workdir("ioq")
    tf = os.path.join(wd, "t.ndjson")
    with open(tf, "w") as f:
        for t in traces:
            f.write(json.dumps({"tid": t["tid"], "n": t["n"], "evs": t["evs"]}) + "\n")
    kmax = max(t["n"] for t in traces)
    cfg = "SPECIFICATION TSpec\nCONSTANTS K = {%s} D = {1, 2}\nCHECK_DEADLOCK FALSE\n" % ", ".join(str(i) for i in range(1, kmax + 1))
    try:
        res = tlc.run_tlc("Trace_IOQ", cfg_text=cfg, files={"Trace_IOQ.tla": TRACE_SPEC}, workers=4, timeout=900,
                          env={"TRACE_FILE": tf}, name="Trace_IOQ")
    finally:
        shutil.rmtree(wd, ignore_errors=True)
    if res["error_kind"]:
        tlc.machinery_failure("IOQ trace validation failed: %s\n%s" % (res["error"], res["output"][-3000:]))
    vs = {v["tid"]: v for v in tlc.printed_values(res["output"])}
    if len(vs) != len(traces):
        tlc.machinery_failure("IOQ trace validation returned %d verdicts for %d traces\n%s" % (len(vs), len(traces), res["output"][-2000:]))
    chk.extra["ioq_trace_states"] = res["distinct"]
    for t in traces:
        v = vs[t["tid"]]
        rp = {"kind": "iocb", "dests": t["dests"], "plan": t["plan"], "faults": t["faults"], "seed": t["seed"], "retries": t["retries"]}
        sig = {"path": "iocb", "nfaults": len(t["applied"]), "fault": "+".join(sorted(t["applied"].values())) or "none",
               "concurrent": len(t["plan"])}
        if t["hang"]:
            chk.violation("Terminates", sig, {"what": "IOCB path did not return", "plan": t["plan"], "faults": t["faults"]}, rp)
        if only is not None:
            v = dict(v, viol=[x for x in v["viol"] if x[0] in only])
        for m, l in sorted(v["viol"]):
            e = t["evs"][l - 1]
            chk.violation((rename or {}).get(m, m), sig, {"path": "iocb", "step": l, "event": e["op"], "state": e["s"], "plan": t["plan"], "faults": t["faults"],
                                   "errors": t["errors"]}, rp)
        if not v["viol"] and v["rej"]:
            chk.deviation({"path": "iocb", "step": v["rej"], "state": t["evs"][v["rej"] - 1]["s"], "plan": t["plan"]})
        if not v["viol"] and not v["rej"] and not t["hang"]:
            chk.traces_validated += 1


MC_CFG = """SPECIFICATION Spec
CONSTANTS K = {1, 2, 3} D = {1, 2}
INVARIANT AtMostOneCompletion
INVARIANT DoneIffCompletion
INVARIANT OneActivePerDestination
INVARIANT PendingAreQueued
INVARIANT NoStall
INVARIANT NoResidue
PROPERTY Monotone
PROPERTY OutcomeOnlyFromReply
PROPERTY EventuallyAllDone
CHECK_DEADLOCK FALSE
"""


def run(chk, rng, thorough):
    res = tlc.run_tlc("IOQ", cfg_text=MC_CFG if not thorough else MC_CFG.replace("K = {1, 2, 3}", "K = {1, 2, 3, 4}"), timeout=600, name="IOQ/3iocb_2dest")
    chk.tlc(res)
    if res["error_kind"]:
        tlc.machinery_failure("design model IOQ violates %s\n%s" % (res["error"], res["output"][-2000:]))
    traces = []
    dests = [2, 3]
    # fault-free shapes: bursts to one destination, interleaved destinations, requests arriving while one is in flight
    shapes = [[(0, 2)], [(0, 2), (0, 2), (0, 2)], [(0, 2), (0, 3), (0, 2), (0, 3)], [(0, 2), (1, 2), (3000, 2), (3001, 3)]]
    for plan in shapes:
        base = record(dests, plan, {})
        traces.append(base)
        nframes = max([0] + [e["s"]["residue"]["net"] for e in base["evs"]]) + 2 * len(plan) + 2
        for n in range(1, nframes + 1):
            for kind in ("drop", "dup", "delay"):
                traces.append(record(dests, plan, {n: kind}))
    # unconfirmed requests -- through an IOCB and without one -- while confirmed requests to the same / another address are
    # in flight or queued
    for plan in USHAPES:
        base = record(dests, plan, {})
        traces.append(base)
        for n in range(1, 2 * len(plan) + 3):
            for kind in ("drop", "dup", "delay"):
                traces.append(record(dests, plan, {n: kind}))
    # requests chained from completion callbacks, alone and with further requests before / after the chained one is answered
    for plan in CHAIN_SHAPES:
        traces.append(record(dests, plan, {}))
        nfr = 4 * len(plan) + 2
        for n in range(1, nfr + 1):
            for kind in ("drop", "dup", "delay"):
                traces.append(record(dests, plan, {n: kind}))
        for a in range(1, 8):
            for b in range(a + 1, 8):
                traces.append(record(dests, plan, {a: "delay", b: "delay"}))
    # every request unanswered (silence): all retries, local abort, queue must advance
    traces.append(record(dests, [(0, 2), (0, 2), (0, 3)], {n: "drop" for n in range(1, 60)}))
    for i in range(300 if thorough else 40):
        plan = [(rng.choice([0, 0, 1, 2000, 3000, 6500]), rng.choice(dests), rng.choice("cccccudan")) for _ in range(rng.randint(1, 6))]
        faults = {rng.randint(1, 30): rng.choice(["drop", "dup", "delay"]) for _ in range(rng.randint(0, 8))}
        traces.append(record(dests, plan, faults, seed=rng.randrange(1 << 30), retries=rng.randint(0, 2)))
    for i, t in enumerate(traces):
        t["tid"] = i + 1
        chk.case(("iocb", i), nontrivial=bool(t["faults"]) or len(t["plan"]) > 1)
    chk.sample({"iocb_plan": traces[-1]["plan"], "faults": traces[-1]["faults"], "final": traces[-1]["evs"][-1]["s"] if traces[-1]["evs"] else None})
    validate(chk, traces)
    chk.extra["iocb_runs"] = len(traces)
    run_many_on_library_scheduler(chk, rng, 3000 if thorough else 500)


def run_many_on_library_scheduler(chk, rng, n):
    """Several requests outstanding at once, each with its APDU timer and an IOCB timeout of another length, some peers
    answering (their timers are cancelled from the middle of the task heap), some silent -- and this time the LIBRARY's
    scheduler decides what runs when (core.run_once at each instant, the clock jumps to the deadline its heap reports).
    TSM.tla's timer semantics for an unsegmented request to a silent peer: retry k goes out at k * Tapdu, the local abort
    comes at (Retries + 1) * Tapdu -- not later because other timers are pending (BoundedTime)."""
    bad = 0
    for i in range(n):
        npeers = rng.randint(2, 8)
        dests = list(range(10, 10 + npeers))
        retries, tapdu = rng.choice([(1, 3000), (3, 3000), (2, 2000), (0, 3000)])
        answer = {d: rng.random() < 0.5 for d in dests}
        rig = Rig(dests, retries=retries, tapdu=tapdu)
        done = {}
        order = list(dests)
        rng.shuffle(order)
        try:
            with watchdog(30):
                for d in order:
                    req = ReadPropertyRequest(objectIdentifier=("analogValue", 1), propertyIdentifier="presentValue", destination=Address(d))
                    iocb = IOCB(req)
                    iocb.set_timeout(rng.choice([20, 60, 300]))
                    iocb.add_callback(lambda io, d=d: done.setdefault(d, (int(round(vt.now * 1000)), io.ioError is None)))
                    rig.c.app.request_io(iocb)
                for _ in range(100000):
                    vt.step_all()
                    if rig.net:
                        octets, at, src, dst, nn, k = rig.net.pop(0)
                        node = rig.c if dst == 1 else rig.servers.get(dst)
                        if node is rig.c or answer.get(dst):
                            node.receive(octets, Address(src))
                        continue
                    nd = vt.next_deadline()
                    if nd is None or len(done) == len(dests) or nd > 400:
                        break
                    vt.now = max(vt.now, nd)
        except Hang:
            chk.violation("Terminates", {"path": "iocb-many"}, {"peers": answer, "retries": retries, "tapdu": tapdu}, None)
            continue
        want = {d: ((0, True) if answer[d] else ((retries + 1) * tapdu, False)) for d in dests}
        chk.case(("many", i), nontrivial=True, n=len(dests))
        if done != want:
            bad += 1
            late = {d: {"got": done.get(d), "want": want[d]} for d in dests if done.get(d) != want[d]}
            chk.violation("BoundedTime", {"path": "iocb-many", "what": "outcome not at the instant the timers prescribe"},
                          {"answering": answer, "retries": retries, "apdu_timeout_ms": tapdu, "submitted_in_order": order,
                           "outcomes_that_differ (ms, acknowledged)": late}, None)
        else:
            chk.traces_validated += 1
    chk.extra["many_on_library_scheduler"] = {"runs": n, "differing": bad}


USHAPES = [[(0, 2, "c"), (0, 2, "c"), (0, 2, "a"), (0, 2, "c")], [(0, 2, "c"), (0, 2, "c"), (0, 2, "c"), (1, 2, "a"), (2, 2, "c"), (3, 3, "c")],
           [(0, 2, "c"), (0, 2, "d")], [(0, 2, "c"), (0, 2, "u"), (0, 2, "c")], [(0, 2, "c"), (0, 2, "c"), (0, 2, "d"), (0, 3, "d")],
           [(0, 2, "u")], [(0, 2, "d")], [(0, 2, "c"), (0, 3, "u"), (1, 2, "d"), (2, 2, "c"), (3000, 2, "d")],
           [(0, 2, "u"), (0, 2, "u"), (0, 2, "c"), (0, 2, "d"), (0, 2, "u")]]


CHAIN_SHAPES = [[(0, 2, "n")], [(0, 2, "n"), (500, 2, "c")], [(0, 2, "n"), (0, 3, "n"), (1, 2, "c")], [(0, 2, "c"), (0, 2, "n"), (3000, 2, "c")],
                [(0, 2, "n"), (500, 2, "n"), (1500, 2, "c")]]


def run_reply_matching(chk, rng, n_random, only, rename):
    """the part of the IOCB model another check (C11) relies on: several requests outstanding to one peer, unconfirmed
    requests in between -- every finished IOCB holds the answer to its own request"""
    traces = []
    dests = [2, 3]
    for plan in USHAPES:
        traces.append(record(dests, plan, {}))
        for n in range(1, 2 * len(plan) + 3):
            traces.append(record(dests, plan, {n: "delay"}))
    for plan in CHAIN_SHAPES:
        traces.append(record(dests, plan, {}))
        for a in range(1, 8):
            traces.append(record(dests, plan, {a: "delay"}))
            for b in range(a + 1, 8):
                traces.append(record(dests, plan, {a: "delay", b: "delay"}))
    for i in range(n_random):
        plan = [(rng.choice([0, 0, 1, 2, 3000]), rng.choice(dests), rng.choice("ccccudan")) for _ in range(rng.randint(2, 6))]
        faults = {rng.randint(1, 20): rng.choice(["dup", "delay"]) for _ in range(rng.randint(0, 3))}
        traces.append(record(dests, plan, faults, seed=rng.randrange(1 << 30), retries=1))
    for i, t in enumerate(traces):
        t["tid"] = i + 1
        chk.case(("iocb", i), nontrivial=True)
    validate(chk, traces, only=only, rename=rename)
    chk.extra["iocb_runs"] = len(traces)


def replay(chk, rp):
    t = record(rp["dests"], [tuple(p) for p in rp["plan"]], {int(k): v for k, v in rp["faults"].items()}, seed=rp.get("seed"), retries=rp.get("retries", 1))
    t["tid"] = 1
    for e in t["evs"]:
        print(e["op"], e["k"], e["d"], e["exc"], e["s"]["now"], e["s"]["st"], e["s"]["cb"], e["s"]["active"], e["s"]["pend"])
    validate(chk, [t])
