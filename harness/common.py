"""Common plumbing for every check: source-tree binding, evidence, verdicts, known findings.

Every driver does

    from common import Check
    chk = Check("C14", tier, seed)
    ...
    chk.tlc(result)                      # accumulate TLC statistics
    chk.case(key, nontrivial=True)       # one evaluation on the real code
    chk.violation(monitor, sig, detail, replay)   # a monitor failed on a concrete execution
    chk.finish()                         # writes evidence, prints verdict lines, returns exit code
"""
import os, sys, json, time, hashlib, logging

VERIF = os.path.dirname(os.path.dirname(os.path.abspath(__file__)))
SRC = os.environ.get("BACPYPES_SRC", "/repo/py34")
WORK = os.path.join(VERIF, ".work")

os.environ.setdefault("TZ", "UTC")
try:
    time.tzset()
except Exception:
    pass


def bind_source():
    """Make `import bacpypes` resolve to the working tree (not the copy in site-packages)."""
    if SRC in sys.path:
        sys.path.remove(SRC)
    sys.path.insert(0, SRC)
    for m in [m for m in sys.modules if m == "bacpypes" or m.startswith("bacpypes.")]:
        if not (getattr(sys.modules[m], "__file__", "") or "").startswith(SRC):
            del sys.modules[m]
    logging.disable(logging.CRITICAL)
    import bacpypes
    if not os.path.abspath(bacpypes.__file__).startswith(os.path.abspath(SRC)):
        sys.stderr.write("MACHINERY: bacpypes imported from %s, expected under %s\n" % (bacpypes.__file__, SRC))
        sys.exit(2)
    return bacpypes


def load_known_findings():
    p = os.path.join(VERIF, "known_findings.json")
    if not os.path.exists(p):
        return []
    return json.load(open(p)).get("findings", [])


def sig_matches(entry, pid, sig):
    """An entry matches when it is for this property, is not 'fixed', and every key of its `match`
    dict equals the violation's signature (lists in the entry mean 'one of')."""
    if entry.get("property") != pid or entry.get("status") == "fixed":
        return False
    for k, v in entry.get("match", {}).items():
        got = sig.get(k)
        if isinstance(v, list):
            if got not in v:
                return False
        elif got != v:
            return False
    return True


class Check:
    def __init__(self, pid, tier, seed, level="model_checking"):
        self.pid, self.tier, self.seed, self.level = pid, tier, int(seed), level
        self.t0 = time.time()
        self.states = 0
        self.transitions = 0
        self.tlc_runs = []
        self.exhaustive = True
        self.evaluations = 0
        self.distinct = set()
        self.samples = []
        self.traces_validated = 0
        self.violations = []
        self.known = {}
        self.deviations = []
        self.monitors = {}
        self.extra = {}
        self.assumptions = []
        self.findings = load_known_findings()
        self.rule = ""
        os.makedirs(os.path.join(VERIF, "evidence"), exist_ok=True)

    # ---- accounting -------------------------------------------------------------------------
    def tlc(self, res, name=None):
        """res: dict from tlc.run_tlc"""
        self.states += res.get("distinct", 0)
        self.transitions += res.get("generated", 0)
        if not res.get("finished", False):
            self.exhaustive = False
        self.tlc_runs.append({"config": name or res.get("name"), "distinct_states": res.get("distinct", 0),
                              "states_generated": res.get("generated", 0), "finished": res.get("finished", False),
                              "mode": res.get("mode", "exhaustive"), "wall_s": round(res.get("wall_s", 0), 1),
                              "depth": res.get("depth")})

    def case(self, key=None, nontrivial=True, n=1):
        self.evaluations += n
        if key is not None and nontrivial:
            if len(self.distinct) < 2000000:
                self.distinct.add(key if isinstance(key, (str, int, tuple)) else json.dumps(key, sort_keys=True, default=str))

    def monitor(self, name, n=1):
        """count how many times the antecedent of monitor `name` was true (vacuity accounting)"""
        self.monitors[name] = self.monitors.get(name, 0) + n

    def sample(self, obj, cap=6):
        if len(self.samples) < cap:
            self.samples.append(obj)

    def deviation(self, what):
        if len(self.deviations) < 20:
            self.deviations.append(what)
        self.extra["conformance_deviation_count"] = self.extra.get("conformance_deviation_count", 0) + 1

    # ---- verdicts ---------------------------------------------------------------------------
    def violation(self, monitor, sig, detail, replay=None):
        """A monitor of the property failed on a concrete execution of the real code.
        sig: dict that identifies the failing input / call site / history class (used for known findings)."""
        sig = dict(sig)
        sig["monitor"] = monitor
        for f in self.findings:
            if sig_matches(f, self.pid, sig):
                k = f["id"]
                if k not in self.known:
                    self.known[k] = {"what": f.get("what", ""), "count": 0, "first": detail}
                self.known[k]["count"] += 1
                return False
        if len(self.violations) < 25:
            body = {"property": self.pid, "monitor": monitor, "sig": sig, "detail": detail, "replay": replay,
                    "seed": self.seed, "tier": self.tier}
            h = hashlib.sha1(json.dumps(body, sort_keys=True, default=str).encode()).hexdigest()[:12]
            d = os.path.join(VERIF, "replays", self.pid)
            os.makedirs(d, exist_ok=True)
            path = os.path.join(d, "%s_%s.json" % (monitor, h))
            json.dump(body, open(path, "w"), indent=1, default=str)
            self.violations.append((monitor, path, detail))
        else:
            self.violations.append((monitor, self.violations[-1][1], None))
        return True

    def known_id(self, monitor, sig):
        """id of the listed (unrepaired) finding this failure is an instance of, or None; counts nothing"""
        sig = dict(sig)
        sig["monitor"] = monitor
        for f in self.findings:
            if sig_matches(f, self.pid, sig):
                return f["id"]
        return None

    def finish(self):
        wall = time.time() - self.t0
        cov = {
            "states": self.states, "transitions": self.transitions,
            "traces_validated_against_impl": self.traces_validated,
            "evaluations": self.evaluations, "distinct_nontrivial": len(self.distinct),
            "rule": self.rule, "samples": self.samples or ["(none recorded)"],
            "exhaustive": bool(self.exhaustive and self.tlc_runs),
            "tlc_runs": self.tlc_runs, "monitors": self.monitors,
            "conformance_deviations": self.deviations,
            "known_findings_hit": {k: v["count"] for k, v in self.known.items()},
        }
        cov.update(self.extra)
        level = self.level
        if level == "model_checking" and (self.states < 1 or self.transitions < 1 or self.deviations):
            level = "exploration"
        ev = {"property_id": self.pid, "tier": self.tier, "seed": self.seed, "level": level, "coverage": cov,
              "assumptions": self.assumptions, "wall_s": round(wall, 2), "violations": len(self.violations)}
        json.dump(ev, open(os.path.join(VERIF, "evidence", "%s.json" % self.pid), "w"), indent=1, default=str)
        for k, v in sorted(self.known.items()):
            print("KNOWN-FINDING: property=%s %s %s (hits=%d)" % (self.pid, k, v["what"], v["count"]))
        seen = set()
        for mon, path, detail in self.violations:
            if path in seen:
                continue
            seen.add(path)
            print("VIOLATION property=%s replay=%s" % (self.pid, path))
            if detail is not None:
                print("  monitor=%s %s" % (mon, json.dumps(detail, default=str)[:600]))
        print("%s %s tier=%s seed=%d: states=%d transitions=%d impl_evaluations=%d distinct=%d traces_validated=%d "
              "deviations=%d violations=%d known=%d wall=%.1fs" % (
                  self.pid, "FAIL" if self.violations else "OK", self.tier, self.seed, self.states, self.transitions,
                  self.evaluations, len(self.distinct), self.traces_validated, len(self.deviations),
                  len(self.violations), len(self.known), wall))
        return 1 if self.violations else 0


def machinery_failure(msg):
    sys.stderr.write("MACHINERY FAILURE: %s\n" % msg)
    sys.exit(2)


class Hang(BaseException):
    """the code under test did not return within the watchdog budget"""


class watchdog:
    """with watchdog(seconds): ...   raises Hang inside the block if it runs longer (SIGALRM based; main thread only)"""

    def __init__(self, seconds):
        self.seconds = seconds

    def _fire(self, signum, frame):
        raise Hang("no return after %.1fs" % self.seconds)

    def __enter__(self):
        import signal
        self.old = signal.signal(signal.SIGALRM, self._fire)
        signal.setitimer(signal.ITIMER_REAL, self.seconds)
        return self

    def __exit__(self, *a):
        import signal
        signal.setitimer(signal.ITIMER_REAL, 0)
        signal.signal(signal.SIGALRM, self.old)
        return False
