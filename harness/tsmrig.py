"""Real-code rig for TSM.tla: two StateMachineAccessPoints (client, server) from the working tree, a raw
application element on top of each, and a harness-owned medium underneath.  The harness is the scheduler: every
step is one TSM.tla action (Submit, Deliver(i), Drop(i), Dup(i), Delay(i), CTimeout, STimeout, AppRespond, Tick)
executed on the real objects, followed by a projection of their state in the vocabulary of the spec.

The medium carries *encoded* APDUs (APDU.encode -> octets -> APDU.decode, the library's own codec), so frame lengths
are real; headers are read back with an independent parser (parse_apdu)."""
import struct
import time
from common import bind_source, Hang, watchdog
bind_source()
import vtime
vt = vtime.install()
import bacpypes.core as core
from bacpypes.comm import bind, Server, ApplicationServiceElement
from bacpypes.pdu import Address, PDU
from bacpypes.apdu import (APDU, ConfirmedRequestPDU, ComplexAckPDU, SimpleAckPDU, ErrorPDU, RejectPDU, AbortPDU,
                           SegmentAckPDU)
from bacpypes.appservice import StateMachineAccessPoint, SSM, ClientSSM, ServerSSM
from bacpypes.app import DeviceInfoCache

NONE = 999999
STATES = {0: "IDLE", 1: "SEG_REQ", 2: "AWAIT_CONF", 3: "AWAIT_RESP", 4: "SEG_RESP", 5: "SEG_CONF", 6: "COMPLETED",
          7: "ABORTED"}
MS = lambda t: int(round(t * 1000))
SERVICE = 18     # confirmedPrivateTransfer: any confirmed service choice works, the payload is opaque here


def coded(n):
    """position-coded payload: octet pair k holds k (big endian) -> every aligned 4-octet window is unique"""
    b = b"".join(struct.pack(">H", k) for k in range((n + 1) // 2))
    return b[:n]


def parse_apdu(octets):
    """independent reader of the APDU fixed header (clause 20.1) -> dict(k, srv, seg, mor, seq, win, nak, id, data)"""
    a = bytes(octets)
    t = a[0] >> 4
    f = dict(k="?", srv=False, seg=False, mor=False, seq=0, win=0, nak=False, id=None, data=b"", sa=False,
             maxsegs=None, maxresp=None, reason=None, len=len(a))
    if t == 0:
        f["k"] = "CR"
        f["seg"], f["mor"], f["sa"] = bool(a[0] & 8), bool(a[0] & 4), bool(a[0] & 2)
        f["maxsegs"], f["maxresp"] = (a[1] >> 4) & 7, a[1] & 15
        f["id"] = a[2]
        if f["seg"]:
            f["seq"], f["win"] = a[3], a[4]
            f["data"] = a[6:]
        else:
            f["data"] = a[4:]
    elif t == 2:
        f["k"], f["id"], f["srv"] = "SA", a[1], True
    elif t == 3:
        f["k"], f["srv"] = "CA", True
        f["seg"], f["mor"] = bool(a[0] & 8), bool(a[0] & 4)
        f["id"] = a[1]
        if f["seg"]:
            f["seq"], f["win"] = a[2], a[3]
            f["data"] = a[5:]
        else:
            f["data"] = a[3:]
    elif t == 4:
        f["k"] = "ACK"
        f["nak"], f["srv"] = bool(a[0] & 2), bool(a[0] & 1)
        f["id"], f["seq"], f["win"] = a[1], a[2], a[3]
    elif t in (5, 6):
        f["k"], f["id"], f["srv"] = "ERR", a[1], True
    elif t == 7:
        f["k"] = "ABT"
        f["srv"] = bool(a[0] & 1)
        f["id"], f["reason"] = a[1], a[2]
    return f


class Low(Server):
    """what sits under a StateMachineAccessPoint: encodes the APDU and hands the octets to the rig's medium"""

    def __init__(self, peer):
        Server.__init__(self)
        self.peer = peer

    def indication(self, apdu):
        x = APDU()
        apdu.encode(x)              # typed PDU -> generic APDU (what NetworkServiceAccessPoint.indication does)
        pdu = PDU()
        x.encode(pdu)               # APCI.encode: the octets
        self.peer.rig.emit(self.peer, bytes(pdu.pduData), apdu.pduDestination)


class Ase(ApplicationServiceElement):
    """raw application on top of a StateMachineAccessPoint"""

    def __init__(self, peer):
        ApplicationServiceElement.__init__(self)
        self.peer = peer

    def indication(self, apdu):        # server side: a request (or a forwarded abort) for the application
        self.peer.rig.on_indication(self.peer, apdu)

    def confirmation(self, apdu):      # client side: the outcome
        self.peer.rig.on_confirmation(self.peer, apdu)


DEVICE_PROPS = {"numberOfApduRetries": "numberOfApduRetries", "apduTimeout": "apduTimeout", "segmentTimeout": "apduSegmentTimeout",
                "maxApduLengthAccepted": "maxApduLengthAccepted", "segmentationSupported": "segmentationSupported",
                "maxSegmentsAccepted": "maxSegmentsAccepted"}


class Peer:
    def __init__(self, rig, name, addr, cfg, via_device=False):
        """via_device: the per-transaction settings come from a local device object (what applications do) instead of
        the access point's own attributes"""
        self.rig, self.name, self.addr = rig, name, Address(addr)
        dev = None
        if via_device:
            from bacpypes.local.device import LocalDeviceObject
            kw = {DEVICE_PROPS[k]: v for k, v in cfg.items() if k in DEVICE_PROPS and v is not None}
            dev = LocalDeviceObject(objectName="dev-" + name, objectIdentifier=("device", addr), vendorIdentifier=999, **kw)
            cfg = {k: v for k, v in cfg.items() if k not in DEVICE_PROPS}
        self.smap = StateMachineAccessPoint(dev, DeviceInfoCache())
        for k, v in cfg.items():
            setattr(self.smap, k, v)
        self.ase = Ase(self)
        bind(self.ase, self.smap)
        self.low = Low(self)
        bind(self.smap, self.low)

    def receive(self, octets, source):
        pdu = PDU(octets, source=source, destination=self.addr)
        apdu = APDU()
        apdu.decode(pdu)
        self.low.response(apdu)


class Rig:
    """cfg keys: seg (segment size = max APDU), lq, lr (payload lengths; lr None => simple ack), rk ("ack"|"error"|"abort"),
    pwc, pws, retries, tapdu, tseg, tapp (ms), app_delay (ms), delay_by (ms), c_seg / s_seg (segmentation supported),
    maxsegs"""

    def __init__(self, cfg):
        self.cfg = cfg
        vt.reset(0.0)
        seg = cfg["seg"]
        common = dict(numberOfApduRetries=cfg["retries"], apduTimeout=cfg["tapdu"], segmentTimeout=cfg["tseg"],
                      applicationTimeout=cfg["tapp"])
        self.c = Peer(self, "c", 1, dict(common, proposedWindowSize=cfg["pwc"], maxApduLengthAccepted=cfg.get("c_max", seg),
                                          maxSegmentsAccepted=cfg.get("c_maxsegs", cfg.get("maxsegs", 64)),
                                          segmentationSupported=cfg.get("c_seg", "segmentedBoth")), via_device=cfg.get("via_device", False))
        self.s = Peer(self, "s", 2, dict(common, proposedWindowSize=cfg["pws"], maxApduLengthAccepted=cfg.get("s_max", seg),
                                          maxSegmentsAccepted=cfg.get("s_maxsegs", cfg.get("maxsegs", 64)),
                                          segmentationSupported=cfg.get("s_seg", "segmentedBoth")), via_device=cfg.get("via_device", False))
        self.in_prior = False
        if cfg.get("known") and (cfg.get("reann") or {}).get("how") == "moved":
            self.moved_exchange()
        elif cfg.get("known") == "addr":
            # the client knows the server by address only (a record the application filed without a device identifier)
            from bacpypes.app import DeviceInfo
            di = DeviceInfo(None, self.s.addr)
            di.maxApduLengthAccepted = cfg.get("s_max", seg)
            di.segmentationSupported = cfg.get("s_seg", "segmentedBoth")
            self.c.smap.deviceInfoCache.update_device_info(di)
        elif cfg.get("known") and cfg.get("reann"):
            # ... an older I-Am of the server first (other capabilities); the current one arrives later, see prior_exchange
            self.server_iam(cfg["reann"]["max"], cfg["reann"].get("seg", cfg.get("s_seg", "segmentedBoth")))
        elif cfg.get("known"):
            # the client has heard the server's I-Am: the library's own DeviceInfoCache.iam_device_info fills the cache
            self.server_iam(cfg.get("s_max", seg), cfg.get("s_seg", "segmentedBoth"))
        if cfg.get("s_knows_c_max"):
            # the server has heard an I-Am of the client (possibly an older one announcing another max APDU length)
            from bacpypes.apdu import IAmRequest
            iam = IAmRequest(iAmDeviceIdentifier=("device", 1), maxAPDULengthAccepted=cfg["s_knows_c_max"],
                             segmentationSupported=cfg.get("c_seg", "segmentedBoth"), vendorID=999)
            iam.pduSource = self.c.addr
            self.s.smap.deviceInfoCache.iam_device_info(iam)
        self.req = coded(cfg["lq"])
        self.resp = coded(cfg["lr"]) if cfg.get("lr") is not None else None
        self.nq = 1                      # segment counts as the state machines compute them (read after Submit / AppRespond)
        self.nr = 0 if self.resp is None else 1
        self.chunk = {"CR": None, "CA": None}      # octets per non-final segment, as observed on the wire
        self.net = []          # [octets, at, dir, hdr]
        self.late = {}         # id -> frame: frames the medium held back (kept referenced so that ids stay unique)
        self.tx = []
        self.wire = []
        self.cout = []         # outcomes: dict(k, rx, at, payload_ok)
        self.sind = []         # indications: token lists
        self.sapp = []         # [due time, request apdu]
        self.evs = []
        self.errors = []
        self.frame_no = 0
        self.hangs = 0
        self.applied = {}

    # ---- callbacks from the stacks ------------------------------------------------------------------------
    def emit(self, peer, octets, dest):
        h = parse_apdu(octets)
        d = "cs" if peer is self.c else "sc"
        whole = self.req if h["k"] == "CR" else self.resp
        if h["k"] in ("CR", "CA") and h["seg"] and h["mor"] and self.chunk[h["k"]] is None:
            self.chunk[h["k"]] = len(h["data"])
        h["tok"] = self.tok_of(h, whole or b"") if h["k"] in ("CR", "CA") else NONE
        h["dir"] = d
        self.frame_no += 1
        h["n"] = self.frame_no
        if self.cfg.get("iam_on_frame") == self.frame_no:
            # the server's I-Am (same capabilities) reaches the client while the transaction is open
            self.server_iam(self.cfg.get("s_max", self.cfg["seg"]), self.cfg.get("s_seg", "segmentedBoth"))
        fr = [octets, vt.now, d, h]
        self.net.append(fr)
        self.tx.append(fr)
        self.wire.append(fr)

    def _offset(self, piece, whole, last):
        if last and piece and whole.endswith(piece):
            return len(whole) - len(piece)
        return whole.find(piece) if piece else -1

    def tok_of(self, h, whole):
        """segment index of a data frame = offset of its (position-coded) content in the payload / segment size"""
        if not h["seg"]:
            return 0
        C = self.chunk[h["k"]] or len(h["data"]) or 1
        off = self._offset(h["data"], whole, not h["mor"])
        if off < 0 or (h["mor"] and off % C):
            return 777777           # not a segment of the payload
        return -(-off // C)

    def toks_of_buffer(self, buf, whole, kind):
        """segment indexes of a (partially) reassembled buffer"""
        buf = bytes(buf)
        C = self.chunk[kind]
        if not buf or C is None:
            return [0]
        out = []
        for p in range(0, len(buf), C):
            piece = buf[p:p + C]
            off = self._offset(piece, whole, len(piece) < C or p + C >= len(buf))
            if len(piece) == C and (off < 0 or off % C):
                off = whole.find(piece)
            out.append(777777 if off < 0 else -(-off // C))
        return out

    def on_indication(self, peer, apdu):
        if isinstance(apdu, AbortPDU):
            return                      # abort forwarded to the server application: nothing to answer
        if peer is self.c:
            # role reversal (pre_exchange): the client node serves a small request of the server node
            ack = SimpleAckPDU(SERVICE, apdu.apduInvokeID)
            ack.pduDestination = apdu.pduSource
            self.c.ase.response(ack)
            return
        if self.in_prior:
            ack = SimpleAckPDU(SERVICE, apdu.apduInvokeID)
            ack.pduDestination = apdu.pduSource
            self.s.ase.response(ack)
            return
        toks = self.toks_of_buffer(apdu.pduData, self.req, "CR")
        self.sind.append({"toks": toks, "ok": bytes(apdu.pduData) == self.req})
        self.sapp.append([vt.now + self.cfg.get("app_delay", 0) / 1000.0, apdu])

    def server_iam(self, max_apdu, segsup, device=2, source=None):
        from bacpypes.apdu import IAmRequest
        iam = IAmRequest(iAmDeviceIdentifier=("device", device), maxAPDULengthAccepted=max_apdu, segmentationSupported=segsup, vendorID=999)
        iam.pduSource = source or self.s.addr
        self.c.smap.deviceInfoCache.iam_device_info(iam)
        if self.cfg.get("known_maxsegs"):
            # ... and how many segments the peer accepts (read from its device object, say): DeviceInfo.maxSegmentsAccepted
            di = self.c.smap.deviceInfoCache.get_device_info(iam.pduSource)
            di.maxSegmentsAccepted = self.cfg["known_maxsegs"]
            self.c.smap.deviceInfoCache.update_device_info(di)
        if self.cfg.get("s_npdu"):
            # the application also knows the largest NPDU the path to that peer carries (DeviceInfo.maxNpduLength)
            di = self.c.smap.deviceInfoCache.get_device_info(iam.pduSource)
            di.maxNpduLength = self.cfg["s_npdu"]
            self.c.smap.deviceInfoCache.update_device_info(di)

    def moved_exchange(self):
        """cfg["reann"]["how"] = "moved": the server's address used to belong to ANOTHER device (its I-Am, with other
        capabilities, is what the client heard from there); the server itself announced first from a different address and
        has now moved in: its I-Am comes from the address under test.  The client has to go by the newest announcement."""
        old = self.cfg["reann"]
        cur = (self.cfg.get("s_max", self.cfg["seg"]), self.cfg.get("s_seg", "segmentedBoth"))
        self.server_iam(old["max"], old.get("seg", cur[1]), device=7)                   # former occupant, from the address under test
        self.server_iam(cur[0], cur[1], device=2, source=Address(9))                   # the server, from where it lived before
        self.server_iam(cur[0], cur[1], device=2)                                      # the server, from the address under test

    def prior_exchange(self):
        """cfg["reann"]: the client heard an older I-Am of the server; the server's current I-Am reaches the client
        while an earlier small transaction with that server is outstanding (when = "during") or after it (when = "after").
        The transaction under test then has to respect the current announcement."""
        when = self.cfg["reann"].get("when", "during")
        self.in_prior = True
        apdu = ConfirmedRequestPDU(SERVICE)
        apdu.pduDestination = self.s.addr
        apdu.put_data(b"\x09\x01")
        self.c.ase.request(apdu)
        if when == "during":
            self.server_iam(self.cfg.get("s_max", self.cfg["seg"]), self.cfg.get("s_seg", "segmentedBoth"))
        for _ in range(10):
            if not self.net:
                break
            octets, at, d, h = self.net.pop(0)
            dst, src = (self.s, self.c) if d == "cs" else (self.c, self.s)
            dst.receive(octets, src.addr)
        vt.step_all()
        if when != "during":
            self.server_iam(self.cfg.get("s_max", self.cfg["seg"]), self.cfg.get("s_seg", "segmentedBoth"))
        self.in_prior = False
        self.net, self.tx, self.wire, self.cout, self.sind, self.sapp, self.evs = [], [], [], [], [], [], []
        self.frame_no = 0
        self.chunk = {"CR": None, "CA": None}

    def pre_exchange(self):
        """Before the transaction under test the server node sends the client node a small confirmed request of its own
        (roles reversed) and gets it acknowledged: whatever a node learns about its peer from serving it is then in place."""
        apdu = ConfirmedRequestPDU(SERVICE)
        apdu.pduDestination = self.c.addr
        apdu.put_data(b"\x09\x01")
        self.s.ase.request(apdu)
        for _ in range(10):
            if not self.net:
                break
            octets, at, d, h = self.net.pop(0)
            dst, src = (self.s, self.c) if d == "cs" else (self.c, self.s)
            dst.receive(octets, src.addr)
        vt.step_all()
        self.net, self.tx, self.wire, self.cout, self.sind, self.sapp, self.evs = [], [], [], [], [], [], []
        self.frame_no = 0
        self.chunk = {"CR": None, "CA": None}

    def on_confirmation(self, peer, apdu):
        if peer is self.s or self.in_prior:
            return                      # outcome of the role-reversed request of pre_exchange / of prior_exchange
        if isinstance(apdu, (SimpleAckPDU, ComplexAckPDU)):
            k = "ack"
        elif isinstance(apdu, (ErrorPDU, RejectPDU)):
            k = "error"
        elif isinstance(apdu, AbortPDU):
            if apdu.apduSrv:
                k = "abort_peer"
            else:
                r = apdu.apduAbortRejectReason
                k = "abort_noresp" if r == 65 else "abort_invalid" if r == 2 else "abort_local_%s" % r
        else:
            k = "other"
        rx, ok = [], True
        if isinstance(apdu, ComplexAckPDU):
            rx = self.toks_of_buffer(apdu.pduData, self.resp or b"", "CA")
            ok = bytes(apdu.pduData) == (self.resp or b"")
        self.cout.append({"k": k, "rx": rx, "at": MS(vt.now), "payload_ok": ok})

    # ---- projection ---------------------------------------------------------------------------------------
    def proj_ssm(self, tr, client):
        st = STATES[tr.state]
        whole = (self.resp if client else self.req) or b""
        rx = []
        if client and st == "SEG_CONF":
            rx = self.toks_of_buffer(tr.segmentAPDU.pduData, whole, "CA")
        if (not client) and st in ("SEG_REQ", "AWAIT_RESP", "SEG_RESP") and tr.segmentAPDU is not None and st != "SEG_RESP":
            rx = self.toks_of_buffer(tr.segmentAPDU.pduData, whole, "CR")
        d = dict(st=st, segRetry=tr.segmentRetryCount or 0, init=(tr.initialSequenceNumber or 0) % 256,
                 base=tr.initialSequenceNumber or 0,
                 last=tr.lastSequenceNumber or 0,
                 win=tr.actualWindowSize if tr.actualWindowSize is not None else NONE,
                 sentAll=bool(tr.sentAllSegments), ddl=MS(tr.taskTime) if tr.isScheduled else NONE, rx=rx)
        if client:
            d["retry"] = tr.retryCount or 0
        return d

    def frame_rec(self, fr):
        h = fr[3]
        return dict(k=h["k"], dir=h["dir"], srv=h["srv"], seg=h["seg"], mor=h["mor"], seq=h["seq"], win=h["win"],
                    nak=h["nak"], tok=h["tok"], at=MS(fr[1]), len=h["len"], late=id(fr) in self.late)

    def snapshot(self):
        ct, st = self.c.smap.clientTransactions, self.s.smap.serverTransactions
        return dict(now=MS(vt.now),
                    c=self.proj_ssm(ct[0], True) if ct else None, nct=len(ct),
                    s=self.proj_ssm(st[0], False) if st else None, nst=len(st),
                    net=[self.frame_rec(f) for f in self.net], tx=[self.frame_rec(f) for f in self.tx],
                    cOut=[dict(k=o["k"], rx=o["rx"], at=o["at"]) for o in self.cout],
                    sInd=[i["toks"] for i in self.sind], sApp=[MS(a[0]) for a in self.sapp],
                    timers=sorted(MS(e[0]) for e in vt.tm.tasks), residue=self.residue())

    def residue(self):
        """what the stacks still hold (C04 NoResidue): transactions, timers in the heap, deferred functions"""
        return dict(ct=len(self.c.smap.clientTransactions), st=len(self.s.smap.serverTransactions),
                    timers=len(vt.tm.tasks), deferred=len(core.deferredFns))

    def log(self, ev, i=0, exc=None):
        self.evs.append(dict(ev=ev, i=i, exc=exc, st=self.snapshot()))

    # ---- enabled steps ------------------------------------------------------------------------------------
    def deliverable(self):
        """indexes (0-based) of frames that may be delivered now: due, and first due frame of their direction"""
        out = []
        for i, fr in enumerate(self.net):
            if fr[1] <= vt.now and (id(fr) in self.late or not any(
                    g[2] == fr[2] and g[1] <= vt.now and id(g) not in self.late for g in self.net[:i])):
                out.append(i)
        return out

    def due_timers(self):
        due = [e for e in vt.tm.tasks if e[0] <= vt.now and isinstance(e[2], SSM)]
        return sorted(due)

    def app_due(self):
        return bool(self.sapp) and self.sapp[0][0] <= vt.now

    # ---- steps --------------------------------------------------------------------------------------------
    def guarded(self, fn, *a):
        exc = None
        try:
            with watchdog(10):
                fn(*a)
                if core.deferredFns:
                    core.run_once()
        except Hang:
            self.hangs += 1
            raise
        except Exception as err:        # what core.run would log and swallow
            exc = type(err).__name__ + ": " + str(err)
            self.errors.append(exc)
        return exc

    def submit(self):
        self.tx = []
        apdu = ConfirmedRequestPDU(SERVICE)
        apdu.pduDestination = self.s.addr
        apdu.put_data(self.req)
        exc = self.guarded(self.c.ase.request, apdu)
        if self.c.smap.clientTransactions:
            self.nq = self.c.smap.clientTransactions[0].segmentCount or 1
        self.log("Submit", exc=exc)

    def deliver(self, i):
        self.tx = []
        octets, at, d, h = self.net.pop(i)
        if h["k"] == "CA":
            self.ca_seen = True          # (the first piece of the answer has reached the requester: held copies are released)
        dst, src = (self.s, self.c) if d == "cs" else (self.c, self.s)
        exc = self.guarded(dst.receive, octets, src.addr)
        self.log("Deliver", i + 1, exc)

    def drop(self, i):
        self.tx = []
        self.net.pop(i)
        self.log("Drop", i + 1)

    def dup(self, i):
        self.tx = []
        f = self.net[i]
        self.net.insert(i + 1, [f[0], f[1], f[2], f[3]])
        if id(f) in self.late:
            self.late[id(self.net[i + 1])] = self.net[i + 1]        # the copy of a straggler is a straggler (TSM.tla Dup copies `late`)
        self.log("Dup", i + 1)

    def delay(self, i):
        self.tx = []
        self.net[i][1] = vt.now + self.cfg.get("delay_by", 1000) / 1000.0
        self.late[id(self.net[i])] = self.net[i]      # a straggler from now on (TSM.tla DeliverableAt)
        self.log("Delay", i + 1)

    def shrink(self, i):
        """the peer grants a smaller window: the segment ack in flight is rewritten to window 1"""
        self.tx = []
        fr = self.net[i]
        a = bytearray(fr[0])
        a[3] = 1
        fr[0] = bytes(a)
        fr[3] = dict(fr[3], win=1)
        self.log("Shrink", i + 1)

    def timeout(self, who):
        self.tx = []
        cls = ClientSSM if who == "C" else ServerSSM
        due = [e for e in self.due_timers() if isinstance(e[2], cls)]
        if not due:
            raise RuntimeError("no %s timer due" % who)
        exc = self.guarded(vt.run_one, due[0])
        if vt.errors:
            exc = vt.errors[-1][1]
            self.errors.append(exc)
            vt.errors = []
        self.log(who + "Timeout", 0, exc)

    def app_respond(self):
        self.tx = []
        due, req = self.sapp.pop(0)
        rk = self.cfg.get("rk", "ack")
        if rk == "abort":
            apdu = AbortPDU(True, req.apduInvokeID, 0)
        elif rk == "error":
            apdu = ErrorPDU(SERVICE, req.apduInvokeID)
            apdu.put_data(b"\x91\x02\x91\x1f")
        elif self.resp is None:
            apdu = SimpleAckPDU(SERVICE, req.apduInvokeID)
        else:
            apdu = ComplexAckPDU(SERVICE, req.apduInvokeID)
            apdu.put_data(self.resp)
        apdu.pduDestination = req.pduSource
        exc = self.guarded(self.s.ase.response, apdu)
        if isinstance(apdu, ComplexAckPDU):
            stx = self.s.smap.serverTransactions
            self.nr = (stx[0].segmentCount or 1) if (stx and stx[0].state == 4) else max(self.nr, 1)
        self.log("AppRespond", 0, exc)

    def tick(self):
        self.tx = []
        nxt = [e[0] for e in vt.tm.tasks] + [f[1] for f in self.net] + [a[0] for a in self.sapp]
        if not nxt:
            return False
        vt.now = max(vt.now, min(nxt))
        self.log("Tick")
        return True

    # ---- drivers ------------------------------------------------------------------------------------------
    def run_policy(self, faults=None, order="fifo", rng=None, limit=3000, horizon_ms=None, silence_from=None):
        """self-driven run.  faults: {frame number (1-based emission order): 'drop'|'dup'|'delay'};
        order: 'fifo' (app, frames, timers), 'timers' (timers before frames), 'random' (rng picks among enabled);
        silence_from: every frame with number >= this is dropped."""
        faults = dict(faults or {})
        self.applied = {}
        # order 'late-dup': a straggler (a frame the medium held back, now due) is delivered right after the first segment of
        # the answer has reached the requester (or when nothing else is left to do at that instant)
        self.ca_seen = False
        self.submit()
        # wall-clock budget for the whole run (a transfer that sends the same segments for ever gets slower with every
        # step): generous: a step normally takes 1..3 ms, 600 segments go through in about a second
        t_end = time.time() + max(20.0, limit / 500.0)
        for _ in range(limit):
            if time.time() > t_end:
                self.hangs += 1
                raise Hang("transaction not finished after %.0f s of wall-clock time (%d frames on the wire)" % (
                    max(20.0, limit / 500.0), len(self.wire)))
            steps = []
            if self.app_due():
                steps.append(("app",))
            for i in self.deliverable():
                steps.append(("frame", i))
            for e in self.due_timers():
                steps.append(("timer", "C" if isinstance(e[2], ClientSSM) else "S"))
            if not steps:
                if horizon_ms is not None and MS(vt.now) > horizon_ms:
                    break
                if not self.tick():
                    break
                continue
            if order == "fifo":
                pick = steps[0]
            elif order == "late-dup":
                held = [x for x in steps if x[0] == "frame" and id(self.net[x[1]]) in self.late]
                pick = ((held if self.ca_seen else [x for x in steps if x not in held]) or steps)[0]
            elif order == "timers":
                pick = ([s for s in steps if s[0] == "timer"] or steps)[0]
            else:
                pick = rng.choice(steps)
            if pick[0] == "app":
                self.app_respond()
            elif pick[0] == "timer":
                self.timeout(pick[1])
            else:
                i = pick[1]
                n = self.net[i][3]["n"]
                kind = faults.pop(n, None)
                if silence_from is not None and n >= silence_from:
                    kind = "drop"
                if kind:
                    self.applied[n] = kind
                if kind == "drop":
                    self.drop(i)
                elif kind == "dup":
                    self.dup(i)
                elif kind == "delay":
                    self.delay(i)
                elif kind == "shrink" and self.net[i][3]["k"] == "ACK" and self.net[i][3]["win"] > 1:
                    self.shrink(i)
                else:
                    if kind == "shrink":
                        self.applied.pop(n, None)
                    self.deliver(i)
        else:
            self.evs.append(dict(ev="Livelock", i=0, exc=None, st=self.snapshot()))
        return self.evs

    def run_script(self, script):
        """execute exactly the given TSM.tla steps [(name, i)] (i 1-based as in the spec); stops at the first step
        that is not enabled in the real system and returns (evs, index of that step or None)"""
        for n, (ev, i) in enumerate(script):
            try:
                if ev == "Submit":
                    self.submit()
                elif ev == "Deliver":
                    if (i - 1) not in self.deliverable():
                        return self.evs, n
                    self.deliver(i - 1)
                elif ev in ("Drop", "Dup", "Delay", "Shrink"):
                    if (i - 1) not in self.deliverable():
                        return self.evs, n
                    getattr(self, ev.lower())(i - 1)
                elif ev in ("CTimeout", "STimeout"):
                    self.timeout(ev[0])
                elif ev == "AppRespond":
                    if not self.app_due():
                        return self.evs, n
                    self.app_respond()
                elif ev == "Tick":
                    if self.deliverable() or self.due_timers() or self.app_due() or not self.tick():
                        return self.evs, n
                else:
                    raise ValueError(ev)
            except RuntimeError:
                return self.evs, n
        return self.evs, None
