"""Run TLC / SANY on modules under /verif/spec and parse the result."""
import os, re, subprocess, tempfile, shutil, time, json
from common import VERIF, WORK, machinery_failure

SPEC = os.path.join(VERIF, "spec")
JAR = "/opt/veriftools/tla/tla2tools.jar:/opt/veriftools/tla/CommunityModules-deps.jar"


def workdir(prefix="tlc"):
    os.makedirs(WORK, exist_ok=True)
    return tempfile.mkdtemp(prefix=prefix + "_", dir=WORK)


def run_tlc(module, cfg_text=None, cfg_file=None, workers=None, timeout=600, simulate=None, depth=None, seed=None,
            dump_dot=None, env=None, deadlock=None, extra=(), name=None, keep=False, coverage=False, dfs=False,
            heap="4g", sim_file=None, files=None):
    """Runs TLC on spec/<module>.tla.  Returns dict(ok, finished, distinct, generated, depth, error, error_kind,
    output, wall_s, trace) -- `ok` means TLC ran to completion and reported no error.
    cfg_text: contents of the .cfg to use (written to the scratch dir); cfg_file: a file under spec/."""
    wd = workdir(module)
    t0 = time.time()
    if workers is None:
        workers = int(os.environ.get("VERIF_TLC_WORKERS", "16"))
    try:
        # TLC resolves modules relative to the root module's directory: copy all specs into the scratch dir
        for f in os.listdir(SPEC):
            p = os.path.join(SPEC, f)
            if os.path.isfile(p) and (f.endswith(".tla") or f.endswith(".cfg")):
                shutil.copy(p, wd)
        gold = os.path.join(SPEC, "golden")
        if os.path.isdir(gold):
            for f in os.listdir(gold):
                if f.endswith(".tla"):
                    shutil.copy(os.path.join(gold, f), wd)
        for fn, content in (files or {}).items():
            open(os.path.join(wd, fn), "w").write(content)
        if cfg_text is not None:
            cfgp = os.path.join(wd, "__run.cfg")
            open(cfgp, "w").write(cfg_text)
        else:
            cfgp = os.path.join(wd, cfg_file or (module + ".cfg"))
        # (-Xss: recursive operators over a 127-segment window / 600-segment payload overflow the default thread stack now and then)
        cmd = ["java", "-XX:+UseParallelGC", "-Xmx" + heap, "-Xss64m", "-Djava.io.tmpdir=" + wd]      # (TLC unpacks its modules into tmpdir: keep that inside the scratch dir)
        if dfs:
            cmd.append("-Dtlc2.tool.queue.IStateQueue=StateDeque")
        cmd += ["-cp", JAR, "tlc2.TLC", "-noGenerateSpecTE", "-metadir", os.path.join(wd, "states"),
                "-workers", str(workers), "-config", cfgp]
        if deadlock is False:
            cmd.append("-deadlock")
        if simulate is not None:
            s = "num=%d" % simulate
            if sim_file:
                s = "file=%s,%s" % (sim_file, s)
            cmd += ["-simulate", s]
        if depth is not None:
            cmd += ["-depth", str(depth)]
        if seed is not None:
            cmd += ["-seed", str(seed)]
        if dump_dot:
            cmd += ["-dump", "dot,actionlabels", dump_dot]
        if coverage:
            cmd += ["-coverage", "1"]
        cmd += list(extra)
        cmd.append(os.path.join(wd, module + ".tla"))
        e = dict(os.environ)
        if env:
            e.update({k: str(v) for k, v in env.items()})
        try:
            p = subprocess.run(cmd, cwd=wd, env=e, stdout=subprocess.PIPE, stderr=subprocess.STDOUT, timeout=timeout)
            out = p.stdout.decode("utf-8", "replace")
            timed_out = False
            rc = p.returncode
        except subprocess.TimeoutExpired as ex:
            out = (ex.stdout or b"").decode("utf-8", "replace")
            timed_out = True
            rc = -1
            subprocess.run(["pkill", "-f", wd], stdout=subprocess.DEVNULL, stderr=subprocess.DEVNULL)
        res = parse_output(out)
        res.update(rc=rc, timed_out=timed_out, wall_s=time.time() - t0, name=name or module,
                   mode="simulate" if simulate is not None else "exhaustive")
        res["finished"] = (not timed_out) and res["error_kind"] is None and (
            "Model checking completed" in out or simulate is not None)
        res["ok"] = res["error_kind"] is None and (res["finished"] or timed_out)
        if res["error_kind"] in ("parse", "config", "tlc-bug", "eval"):
            i = out.find("Error:")
            machinery_failure("TLC %s on %s:\n%s\n...\n%s" % (res["error_kind"], module, out[max(0, i - 300):i + 1500], out[-1500:]))
        return res
    finally:
        if not keep:
            shutil.rmtree(wd, ignore_errors=True)


_stat = re.compile(r"(\d+) states generated, (\d+) distinct states found, (\d+) states left on queue")
_depth = re.compile(r"The depth of the complete state graph search is (\d+)")
_inv = re.compile(r"Error: Invariant (\S+) is violated")
_aprop = re.compile(r"Error: Action property (\S+) is violated")
_state = re.compile(r"^State (\d+): <(.*?)>\s*$")


def parse_output(out):
    res = dict(distinct=0, generated=0, depth=None, error_kind=None, error=None, output=out, trace=[])
    for m in _stat.finditer(out):
        res["generated"], res["distinct"] = int(m.group(1)), int(m.group(2))
    m = _depth.search(out)
    if m:
        res["depth"] = int(m.group(1))
    m = re.search(r"The number of states generated: (\d+)", out)
    if m and not res["generated"]:
        res["generated"] = int(m.group(1))
    if _inv.search(out):
        res["error_kind"], res["error"] = "invariant", _inv.search(out).group(1)
    elif _aprop.search(out):
        res["error_kind"], res["error"] = "action_property", _aprop.search(out).group(1)
    elif "Error: Deadlock reached" in out:
        res["error_kind"], res["error"] = "deadlock", "deadlock"
    elif "Temporal properties were violated" in out:
        res["error_kind"], res["error"] = "temporal", "temporal"
    elif "is violated" in out and "Error:" in out:
        res["error_kind"], res["error"] = "property", re.search(r"Error: (.*is violated.*)", out).group(1)
    elif "The first argument of Assert evaluated to FALSE" in out or "Assert" in out and "Error:" in out:
        res["error_kind"], res["error"] = "assert", (re.search(r"Error: (.*)", out) or [None, ""])[1]
    elif "Parsing or semantic analysis failed" in out or "***Parse Error***" in out or "Semantic errors" in out:
        res["error_kind"] = "parse"
    elif "TLC threw an unexpected exception" in out or "Error: TLC" in out:
        res["error_kind"], res["error"] = "eval", (re.search(r"Error: (.*)", out) or [None, ""])[1]
    elif re.search(r"^Error: ", out, re.M) and "Model checking completed. No error" not in out:
        res["error_kind"], res["error"] = "eval", re.search(r"^Error: (.*)", out, re.M).group(1)
    if res["error_kind"] in ("invariant", "action_property", "deadlock", "temporal", "property", "assert"):
        res["trace"] = parse_error_trace(out)
    return res


def parse_error_trace(out):
    """returns list of (action label, state text) from a TLC error trace"""
    states = []
    cur = None
    for line in out.splitlines():
        m = _state.match(line)
        if m:
            cur = [m.group(2), []]
            states.append(cur)
            continue
        if cur is not None:
            if line.startswith("/\\") or line.startswith("  ") or line.startswith("   "):
                cur[1].append(line)
            elif line.strip() == "":
                cur = None
    from tlaval import parse_state
    out_states = []
    for lab, lines in states:
        try:
            out_states.append((lab, parse_state("\n".join(lines))))
        except Exception:
            out_states.append((lab, {"_raw": "\n".join(lines)}))
    return out_states


def sany(module):
    p = subprocess.run(["java", "-cp", JAR, "tla2sany.SANY", module + ".tla"], cwd=SPEC, stdout=subprocess.PIPE,
                       stderr=subprocess.STDOUT)
    out = p.stdout.decode()
    ok = p.returncode == 0 and "Semantic error" not in out and "Parse Error" not in out and "Fatal" not in out
    return ok, out


def printed_values(out, marker=r'<<\s*"@@",'):
    """Values printed by PrintT(<<"@@", v>>): returns the list of parsed v (multi-line values handled by
    bracket matching; 16-worker interleaving is avoided by running trace specs with few workers)."""
    from tlaval import P
    vals = []
    pos = 0
    rx = re.compile(marker)
    while True:
        m = rx.search(out, pos)
        if not m:
            break
        i = m.start()
        p = P(out)
        p.i = i
        try:
            v = p.value()
            vals.append(v[1])
            pos = p.i
        except Exception:
            pos = m.end()
    return vals


def mc_wrapper(name, base, defs, cfg_lines, constants):
    """Build an MC module `name` that EXTENDS `base`, with definitions `defs` (dict name -> TLA+ expression text)
    substituted for constants, and a cfg.  constants: dict of plain cfg constants (name -> cfg literal).
    Returns (files dict, cfg_text)."""
    body = "---- MODULE %s ----\nEXTENDS %s\n" % (name, base)
    cfg = []
    consts = []
    for k, v in defs.items():
        body += "c_%s == %s\n" % (k, v)
        consts.append("  %s <- c_%s" % (k, k))
    for k, v in constants.items():
        consts.append("  %s = %s" % (k, v))
    body += "====\n"
    cfg.append("CONSTANTS")
    cfg += consts
    cfg += cfg_lines
    return {name + ".tla": body}, "\n".join(cfg) + "\n"
