"""Spike: parser for TLA+ values as printed by TLC (ints, strings, booleans, <<seq>>, {set}, [rec], (fn))."""
import re
class P:
    def __init__(self, s): self.s=s; self.i=0
    def ws(self):
        while self.i<len(self.s) and self.s[self.i] in ' \t\n\r': self.i+=1
    def peek(self, t): self.ws(); return self.s.startswith(t, self.i)
    def eat(self, t):
        self.ws()
        if not self.s.startswith(t, self.i): raise ValueError("expected %r at %d: %r"%(t,self.i,self.s[self.i:self.i+30]))
        self.i+=len(t)
    def value(self):
        self.ws(); c=self.s[self.i]
        if self.peek('<<'):
            self.eat('<<'); out=[]
            if self.peek('>>'): self.eat('>>'); return tuple(out)
            while True:
                out.append(self.value())
                if self.peek(','): self.eat(','); continue
                self.eat('>>'); return tuple(out)
        if c=='{':
            self.eat('{'); out=[]
            if self.peek('}'): self.eat('}'); return frozenset()
            while True:
                out.append(self.value())
                if self.peek(','): self.eat(','); continue
                self.eat('}')
                try:
                    return frozenset(out)
                except TypeError:           # a set of records: records are parsed to (unhashable) dicts
                    return tuple(out)
        if c=='[':
            self.eat('['); out={}
            while True:
                self.ws(); m=re.compile(r'[A-Za-z_][A-Za-z0-9_]*').match(self.s,self.i); k=m.group(0); self.i=m.end()
                self.eat('|->'); out[k]=self.value()
                if self.peek(','): self.eat(','); continue
                self.eat(']'); return out
        if c=='(':
            self.eat('('); out={}
            while True:
                k=self.value(); self.eat(':>'); out[k]=self.value()
                if self.peek('@@'): self.eat('@@'); continue
                self.eat(')'); return out
        if c=='"':
            j=self.s.index('"', self.i+1); v=self.s[self.i+1:j]; self.i=j+1; return v
        m=re.compile(r'-?\d+').match(self.s,self.i)
        if m: self.i=m.end(); return int(m.group(0))
        m=re.compile(r'[A-Za-z_][A-Za-z0-9_]*').match(self.s,self.i)
        if m:
            self.i=m.end(); w=m.group(0)
            return True if w=='TRUE' else False if w=='FALSE' else ('$mv', w)
        raise ValueError("bad value at %d: %r"%(self.i,self.s[self.i:self.i+30]))
def parse_state(label):
    """label: '/\\ a = v\n/\\ b = w' -> dict"""
    out={}
    p=P(label)
    while True:
        p.ws()
        if p.i>=len(p.s): break
        p.eat('/\\')
        p.ws(); m=re.compile(r'[A-Za-z_][A-Za-z0-9_]*').match(p.s,p.i); k=m.group(0); p.i=m.end()
        p.eat('='); out[k]=p.value()
    return out
def parse_dot(path):
    nodes={}; edges=[]; init=None
    node_re=re.compile(r'^(-?\d+) \[label="((?:[^"\\]|\\.)*)"(,style = filled)?[,\]]')
    edge_re=re.compile(r'^(-?\d+) -> (-?\d+) ')
    for line in open(path):
        m=edge_re.match(line)
        if m: edges.append((m.group(1), m.group(2))); continue
        m=node_re.match(line)
        if m:
            lab=m.group(2).replace('\\n','\n').replace('\\\\','\\').replace('\\"','"')
            nodes[m.group(1)]=parse_state(lab)
            if m.group(3): init=m.group(1)
    return nodes, edges, init
if __name__=="__main__":
    import sys
    nodes,edges,init=parse_dot(sys.argv[1]); print(len(nodes), len(edges), init, nodes[init])
