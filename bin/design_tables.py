#!/usr/bin/env python3
"""bin/design_tables.py -- regenerates the generated parts of DESIGN.md: the seeded-change table of rounds 2-5 (between the markers
<!--SEEDS--> ... <!--/SEEDS-->) from bin/seed_table.py, and the status table of 9.3 (<!--STATUS--> ... <!--/STATUS-->) from the
evidence files and the run logs under .work/ (quick: run_all_quick.log; thorough: the newest line per property of the thorough logs)."""
import os, re, json, subprocess, glob
HERE = os.path.dirname(os.path.dirname(os.path.abspath(__file__)))
p = os.path.join(HERE, "DESIGN.md")
s = open(p).read()
rows = subprocess.check_output([os.path.join(HERE, "bin", "seed_table.py")]).decode().strip()
if "SEED_TABLE_ROUNDS_2_5" in s:
    s = s.replace("SEED_TABLE_ROUNDS_2_5", "<!--SEEDS-->\n" + rows + "\n<!--/SEEDS-->")
else:
    s = re.sub(r"<!--SEEDS-->.*?<!--/SEEDS-->", lambda m: "<!--SEEDS-->\n" + rows + "\n<!--/SEEDS-->", s, flags=re.S)


def newest(files):
    out = {}
    for f in files:
        if not os.path.exists(f):
            continue
        for line in open(f):
            m = re.match(r"^(C\d\d) (?:thorough )?rc=(\d+)(?: wall=(\d+)s)?.*?(?:wall=([\d.]+)s)?\s*$", line.strip())
            m2 = re.match(r"^(C\d\d) .*?rc=(\d+)", line)
            if not m2:
                continue
            pid, rc = m2.group(1), m2.group(2)
            w = re.search(r"wall=(\d+)s", line) or re.search(r"wall=([\d.]+)s", line)
            st = re.search(r"states=(\d+)", line)
            ev = re.search(r"impl_evaluations=(\d+)", line)
            tv = re.search(r"traces_validated=(\d+)", line)
            out[pid] = (rc, w.group(1) if w else "?", st.group(1) if st else "?", ev.group(1) if ev else "?", tv.group(1) if tv else "?")
    return out


W = os.path.join(HERE, ".work")
q = newest([os.path.join(W, "run_all_quick.log")])
t = newest([os.path.join(W, "run_all_thorough_1.log"), os.path.join(W, "thorough_rerun.log"), os.path.join(W, "th_rerun_a.log"), os.path.join(W, "th_rerun_b.log")])
lines = ["| property | quick: exit, wall s, TLC states, implementation evaluations, traces validated | thorough: exit, wall s, TLC states, implementation evaluations, traces validated | known findings |",
         "|---|---|---|---|"]
kf = json.load(open(os.path.join(HERE, "known_findings.json")))["findings"]
for i in range(1, 21):
    pid = "C%02d" % i
    k = ", ".join(f["id"] for f in kf if f.get("property") == pid and f.get("status") == "finding") or "-"
    fmt = lambda x: "%s, %s, %s, %s, %s" % x if x else "not measured"
    lines.append("| %s | %s | %s | %s |" % (pid, fmt(q.get(pid)), fmt(t.get(pid)), k))
tab = "\n".join(lines)
if "<!--STATUS-->" in s:
    s = re.sub(r"<!--STATUS-->.*?<!--/STATUS-->", lambda m: "<!--STATUS-->\n" + tab + "\n<!--/STATUS-->", s, flags=re.S)
open(p, "w").write(s)
print("seeds:", len(rows.split("\n")), "status rows:", len(lines) - 2)
