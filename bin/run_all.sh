#!/bin/bash
# bin/run_all.sh [tier]  -- runs every claimed check once and prints one line per property
TIER="${1:-quick}"
cd "$(dirname "$0")/.."
for p in $(python3 -c "import json; print(' '.join(c['property_id'] for c in json.load(open('MANIFEST.json'))['checks']))"); do
  s=$(date +%s); out=$(bin/check $p --tier $TIER 2>&1); rc=$?; e=$(date +%s)
  echo "$p rc=$rc wall=$((e-s))s $(echo "$out" | grep -c '^VIOLATION') viol, $(echo "$out" | grep -c '^KNOWN-FINDING') known | $(echo "$out" | tail -1 | cut -c1-160)"
done
