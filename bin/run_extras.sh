#!/bin/bash
# bin/run_extras.sh [tier] -- the spec modules that go beyond the listed properties (X01 DeviceCommunicationControl,
# X02 Who-Is/I-Am/Who-Has binding, X03 atomic file services); same contract as the registered checks
TIER="${1:-quick}"
cd "$(dirname "$0")/.."
for p in X01 X02 X03 X04 X05 X06; do
  [ -f harness/drivers/$(echo $p | tr A-Z a-z).py ] || continue
  s=$(date +%s); out=$(bin/check $p --tier $TIER 2>&1); rc=$?; e=$(date +%s)
  echo "$p rc=$rc wall=$((e-s))s $(echo "$out" | grep -c '^VIOLATION') viol, $(echo "$out" | grep -c '^KNOWN-FINDING') known | $(echo "$out" | tail -1 | cut -c1-160)"
done
