#!/usr/bin/env python3
"""bin/seed_save.py <PID> <A|B> <result text> [--needs "..."]  -- copies a confirmed seeded change into /verif/seeded/<PID>-<V>/ with meta.json
(change / trigger descriptions are taken from the seeder's notes.txt)."""
import sys, os, json, shutil
pid, v, result = sys.argv[1:4]
src = "%s/%s/seed_out/%s" % (os.environ.get("SEED_ROOT", "/tmp/seed3"), pid, v)
dst = "/verif/seeded/%s-%s" % (pid, v)
os.makedirs(dst, exist_ok=True)
for f in ("patch.diff", "demo.py", "notes.txt"):
    shutil.copy(os.path.join(src, f), dst)
notes = open(os.path.join(src, "notes.txt")).read().strip()
json.dump({"id": "%s-%s" % (pid, v), "property": pid,
           "change_and_what_it_needs_to_manifest": notes,
           "confirmed": "bin/seed_confirm.sh: repository suite 405 passed with the patch; demo.py exits 1 with the patch and 0 without",
           "ran": "bin/seed_check.sh seeded/%s-%s/patch.diff %s  (quick tier against a scratch copy of /repo/py34 with the patch applied)" % (pid, v, pid),
           "result": result}, open(os.path.join(dst, "meta.json"), "w"), indent=1)
print("saved", dst)
