#!/bin/bash
# bin/seed_check.sh <patch.diff> <PID> [tier]  -- runs the check against a scratch copy of /repo/py34 with the patch applied
P="$1"; PID="$2"; TIER="${3:-quick}"
D=$(mktemp -d /tmp/seedrun_XXXX)
cp -r /repo/py34 "$D/py34"
( cd "$D" && patch -s -p1 < "$P" ) || { echo "patch failed"; rm -rf "$D"; exit 2; }
EV=/verif/evidence/$PID.json; [ -f "$EV" ] && cp "$EV" "$D/ev.json"
cd /verif && BACPYPES_SRC="$D/py34" bin/check "$PID" --tier "$TIER" > "$D/out.txt" 2>&1; RC=$?
[ -f "$D/ev.json" ] && cp "$D/ev.json" "$EV"
echo "rc=$RC $(grep -c '^VIOLATION' $D/out.txt) violation lines; monitors: $(grep -o 'monitor=[A-Za-z]*' $D/out.txt | sort | uniq -c | tr '\n' ' ')"
tail -1 "$D/out.txt" | cut -c1-250
rm -rf "$D"
exit $RC
