#!/bin/bash
# bin/seed_batch.sh <PID>...   confirm + check every variant of the listed seed worktrees under /tmp/seed
VARS="${SEED_VARIANTS:-A B}"; for p in "$@"; do for v in $VARS; do
  d=/tmp/seed/$p/seed_out/$v
  [ -f $d/patch.diff ] || { echo "== $p-$v: no patch"; continue; }
  echo "== $p-$v confirm: $(/verif/bin/seed_confirm.sh /tmp/seed/$p $d)"
  echo "== $p-$v check: $(/verif/bin/seed_check.sh $d/patch.diff $p 2>&1 | tr '\n' ' ' | cut -c1-420)"
done; done
