#!/bin/bash
# bin/seed_batch.sh <PID>...   confirm + check every variant of the listed seed worktrees under $SEED_ROOT (default /tmp/seed3)
R="${SEED_ROOT:-/tmp/seed3}"
VARS="${SEED_VARIANTS:-E F}"; for p in "$@"; do for v in $VARS; do
  d=$R/$p/seed_out/$v
  [ -f $d/patch.diff ] || { echo "== $p-$v: no patch"; continue; }
  echo "== $p-$v confirm: $(/verif/bin/seed_confirm.sh $R/$p $d)"
  echo "== $p-$v check: $(/verif/bin/seed_check.sh $d/patch.diff $p 2>&1 | tr '\n' ' ' | cut -c1-420)"
done; done
