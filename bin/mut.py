#!/usr/bin/env python3
"""bin/mut.py <PID> <relative file under py34/bacpypes> <old text> <new text> [--tests]
Copies /repo/py34 to a scratch dir, applies one textual mutation, runs the quick check against the copy
(BACPYPES_SRC), optionally the repository tests against the copy, removes the copy."""
import sys, os, shutil, subprocess, tempfile
pid, rel, old, new = sys.argv[1:5]
tests = "--tests" in sys.argv
d = tempfile.mkdtemp(prefix="mut_", dir="/tmp")
try:
    shutil.copytree("/repo/py34", d + "/py34")
    p = os.path.join(d, "py34/bacpypes", rel)
    s = open(p).read()
    if s.count(old) < 1:
        print("pattern not found"); sys.exit(3)
    open(p, "w").write(s.replace(old, new, 1))
    if tests:
        shutil.copytree("/repo/tests", d + "/tests")
        shutil.copy("/repo/setup.cfg", d)
        r = subprocess.run("cd %s && PYTHONPATH=%s/py34 /venv/bin/python -m pytest -q -p no:cacheprovider -x 2>&1 | tail -2" % (d, d), shell=True, stdout=subprocess.PIPE)
        print("TESTS:", r.stdout.decode().strip().replace("\n", " | "))
    ev = "/verif/evidence/%s.json" % pid
    saved = open(ev).read() if os.path.exists(ev) else None
    env = dict(os.environ, BACPYPES_SRC=d + "/py34")
    r = subprocess.run(["/verif/bin/check", pid, "--tier", "quick"], env=env, stdout=subprocess.PIPE, stderr=subprocess.STDOUT, cwd="/verif")
    out = r.stdout.decode()
    lines = [l for l in out.splitlines() if l.startswith("VIOLATION") or l.startswith(pid) or l.startswith("KNOWN") or "MACHINERY" in l]
    print("rc=%d" % r.returncode); print("\n".join(lines[:6]))
    mons = sorted(set(l.split()[0] for l in out.splitlines() if l.startswith("  monitor=")))
    print("monitors:", mons)
finally:
    shutil.rmtree(d, ignore_errors=True)
    try:
        if saved is not None:
            open(ev, "w").write(saved)      # the evidence of the real tree is not to be overwritten by a mutant's run
    except NameError:
        pass
    # restore evidence of the real tree is the caller's job (the run above overwrote evidence/<pid>.json)
