#!/bin/bash
# bin/seed_confirm.sh <worktree> <variant dir>   -- confirms a seeded change: tests pass with it, demo exits 1 with / 0 without
W="$1"; V="$2"
cd "$W" || exit 2
git checkout -q -- py34 2>/dev/null
git apply "$V/patch.diff" || { echo "patch does not apply"; exit 2; }
T=$(PYTHONPATH=$W/py34 /venv/bin/python -m pytest -q -p no:cacheprovider 2>&1 | tail -1)
PYTHONPATH=$W/py34 timeout 300 /venv/bin/python "$V/demo.py" >/dev/null 2>&1; WITH=$?
git checkout -q -- py34
PYTHONPATH=$W/py34 timeout 300 /venv/bin/python "$V/demo.py" >/dev/null 2>&1; WITHOUT=$?
echo "tests: $T | demo with patch: $WITH | without: $WITHOUT"
