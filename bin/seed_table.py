#!/usr/bin/env python3
"""bin/seed_table.py  -- reads seeded/*/notes.txt + final.txt (written by bin/seed_final.sh), updates meta.json["result"] and prints the
markdown rows of DESIGN.md 9.4 for the seeding rounds 2 and 3 (variants C..F)."""
import os, json, re
HERE = os.path.dirname(os.path.dirname(os.path.abspath(__file__)))
# what the first run of the check (as it was when the seeder delivered) did, and what was strengthened
FIRST = {
    "C19-D": "missed -> 'parked' rig (packets stay parked across the history), ParkedReleased; found F35 on the way",
    "C12-C": "missed -> the server's current I-Am arrives during / after a prior transaction (prior_exchange)",
    "C03-D": "missed -> every value also carried in an Any (cast_in, cast_out twice, Any unchanged)",
    "C11-C": "missed (20 conformance deviations, no monitor) -> DirectionRespected",
    "C11-D": "missed -> IOQ.tla: unconfirmed requests through IOCBs and direct ones, OutcomeOnlyFromReply (C04 and C11)",
    "C05-C": "missed -> long requests whose short reply is lost / late (whole request repeated)",
    "C05-D": "check did not end (30 min) -> wall-clock budget per run, hung traces truncated: Terminates",
    "C10-D": "missed -> segment-ack scenarios for a segmented answer, SegTransfer; found F42 on the way",
    "C04-D": "missed (harness picked due timers itself) -> C14 deep-heap histories; C04 many concurrent requests on the library's scheduler",
    "C15-C": "missed (20 deviations) -> store object with a computed property",
    "C15-D": "missed by C15 and C17 -> C17: writes of undefined values at valid priorities are BadWrite steps (commandable values are C17's)",
    "C20-D": "missed -> empty calendars, calendar references in 40 % of random schedules",
    "C09-C": "check crashed (exit 2) -> build_safe + LibraryRaisedOnCheckedInput policy",
    "C14-E": "missed (monitor compared with the implementation's own heap order) -> ghost queue built from the calls alone",
    "C14-F": "missed (virtual clock lived in an attribute the change overwrote; get_time overridden) -> clock outside the object, Tick action",
    "C12-F": "missed -> server moved to an address the client knows another device by",
    "C06-F": "missed (582 deviations on the pending list, no monitor) -> concurrent discoveries of the same network",
    "C13-E": "missed (history took the stray registration for a renewal) -> registrations under way counted at unregister time",
    "C16-F": "missed (SubscribeCOVProperty was outside the model) -> Stranger action",
    "C04-E": "missed (settings were put on the access point) -> settings through a local device object, retry count 0 on the library scheduler",
    "C04-F": "missed -> peer known by address only, I-Am at every frame of the open transaction",
    "C17-F": "missed -> Observe / Unobserve (a detection bound to the object and unbound again)",
    "C02-F": "missed (20 deviations; the either-or was checked with the faulty decoder itself) -> over-read reason judged by TLC (WFTag)",
    "C05-E": "missed in quick (boundaries were multiples of the max APDU, not of the segment size) -> exact-fill lengths",
    "C05-F": "missed -> permanent silence from every frame on, ExactlyOneAtQuiescence among C05's monitors",
    "C10-E": "missed -> Network-Number-Is corrections followed by routed requests",
    "C10-F": "missed -> same MAC and invoke ID on another network while a segmented answer is open",
    # round 4 (C01 C07 C08 C18: E F; the others: G H)
    "C14-G": "missed (a manager existed from the first import of the harness) -> Kernel.tla EarlyAt / EarlyRec / Start, boot histories",
    "C14-H": "missed (tasks never acted on other tasks; passes only through run_once) -> TaskDoes, sequential ghost walk, passes through core.run",
    "C07-F": "missed by C07 (an exception of another class for a reserved code point is still a refusal); caught by C10 (request unanswered, transaction left)",
    "C12-H": "missed (WindowBound only compared a burst with its own window field) -> FirstSegmentAlone ghost monitor, lost / late first ack after a segmented request",
    "C17-G": "missed by C17 (one object at a time, harness picks due timers); caught by C14 (deep-heap histories)",
    "C06-G": "missed (station addresses were unique across the internetwork) -> router ports reuse station addresses of other networks",
    "C11-H": "missed -> IOQ.tla AbortPending (the application gives up a queued request)",
    "C15-H": "missed -> well-formed value of the type followed by a surplus component",
    "C10-G": "missed -> device that files every accepted I-Am, damaged I-Ams then requests; found F58 on the way",
    "C10-H": "missed -> the device as a registered foreign device, BVLL results from the BBMD's address and from clients",
    "C18-E": "missed (routes were out of scope) -> routed spellings of 40 pool addresses",
    # round 5 (C04 C02 C03 C09 C20: G H; the others: I J)
    "C20-G": "missed -> the calendars are edited under a schedule object that has already evaluated the day",
    "C20-H": "missed by C20 (scheduler heap); caught by C14",
    "C02-H": "missed (a fresh Tag per value) -> one Tag object refilled and re-encoded for every member of a list",
    "C09-H": "missed -> one message object sent twice through the codec with a change in between",
    "C14-I": "missed -> EarlySuspend (a remembered installation taken back before the manager exists)",
    "C14-J": "missed (interval and offset were constants of the model) -> off variable, InstallRecOff (the same task object installed again with an explicit offset)",
    "C19-I": "missed (the rigs probed with the node's own application packets only) -> transit probe: a two-port node forwards a packet for every destination network (TransitFollowsKnowledge)",
    "C19-J": "missed (network numbers were small) -> two of the four destination networks and one source network beyond 32767; also caught by C08",
    "C15-I": "missed by C15 (values are compared as encoded by the same library); caught by C01 (bit strings of 8n bits)",
    "C15-J": "NOT caught: add_property / delete_property at run time on one of two objects of a class is not an operation of ObjStore.tla (DESIGN 9.6)",
    "C06-J": "missed (routers had no application) -> routers that are devices as well in every fourth topology",
    "C13-I": "missed by C13 (scheduler heap; the rig fires due timers itself); caught by C14",
    "C13-J": "missed by C13 (what a reader decodes is not modelled); caught by C09 (a decoder that does not start from an empty table)",
    "C12-I": "missed -> DeviceInfo.maxNpduLength recorded by the application larger than the peer's max APDU",
    "C16-I": "missed by C16 (scheduler heap); caught by C14",
    "C03-G": "missed -> an Any given two components (cast_in twice, two constructor arguments)",
    "C05-I": "missed by C05 (scheduler; the rig fires due timers itself); caught by C14 (the kernel raises on a checked history)",
    "C05-J": "missed -> a node's own max-segments limit against a peer that left it unspecified (FaultFreeSucceeds)",
    "C10-I": "missed by C10 (scheduler heap); C14 see final.txt",
    "C10-J": "missed by C10 (no request of more than 255 segments there); caught by C05 (long segmented requests)",
    "C04-G": "missed by C04 (fewer than 256 requests per stack); caught by C11 (more than 256 sequential requests)",
    # round 6 (C04 C11: I J; C05 C10 C12 C13: K L)
    "C04-I": "missed (no request was submitted from inside a completion callback) -> IOCB rig op 'chained', chain shapes with single and double faults",
    "C04-J": "missed (every request of C04 could be sent) -> TSM.tla SubmitRefused / LocalRefusals, refused requests leave nothing (NoResidue)",
    "C11-I": "missed by C11 (route-aware addresses are not used by the transaction rigs); caught by C18 (routed spellings that differ in the station)",
    "C11-J": "missed -> chained requests with a further request while the chained one is unanswered (ReplyMatches)",
    "C05-K": "missed (a delayed frame could not overtake: per-direction FIFO at one instant) -> TSM.tla stragglers (late frames are reordered), straggler order",
    "C05-L": "missed (segment count was read off the client's state machine, refusals looked like 1-segment runs) -> trace input 'feasible', RefusedThoughFeasible",
    "C10-K": "missed (segmented requests were garbage-role: no reply demanded) -> role 'last' (LastOK judged by TLC on the octets), I-Am between the segments on a caching device",
    "C10-L": "missed by C10; caught by C19 (Coherent, NewestWins)",
}
rows = []
for d in sorted(os.listdir(os.path.join(HERE, "seeded"))):
    m = re.match(r"^(C\d\d)-([C-L])$", d)
    if not m:
        continue
    p = os.path.join(HERE, "seeded", d)
    notes = open(os.path.join(p, "notes.txt")).read().strip().split("\n")
    what = re.sub(r"^(C\d\d )?[Vv]ariant [A-L]\s*[-:]+\s*", "", notes[0]).strip()[:170]
    fin = open(os.path.join(p, "final.txt")).read().strip().split("\n") if os.path.exists(os.path.join(p, "final.txt")) else []
    res = []
    for line in fin:
        chk, _, rest = line.partition(": ")
        rc = re.search(r"rc=(\d+)", rest)
        mons = sorted(set(re.findall(r"monitor=([A-Za-z_.]+)", rest)))
        res.append("%s: %s" % (chk, ("caught (" + ", ".join(mons) + ")") if rc and rc.group(1) == "1" else "not caught" if rc and rc.group(1) == "0" else "?"))
    now = "; ".join(res) or "pending"
    meta = json.load(open(os.path.join(p, "meta.json")))
    meta["result"] = now + (" | first run: " + FIRST[d] if d in FIRST else " | first run: caught")
    json.dump(meta, open(os.path.join(p, "meta.json"), "w"), indent=1)
    rows.append("| %s | %s | %s | %s |" % (d, what.replace("|", "/"), FIRST.get(d, "caught"), now))
print("\n".join(rows))
