#!/usr/bin/env python3
"""Regenerates MANIFEST.json from the table below (kept here so the manifest is always schema-valid)."""
import json, os
HERE = os.path.dirname(os.path.dirname(os.path.abspath(__file__)))
props = [json.loads(l)["id"] for l in open(os.path.join(HERE, "properties.jsonl"))]

CHECKS = {
 "C14": dict(
    category="model_checking",
    text="TLC checks every C14 clause (fire order, FIFO among equals, never early, once per install, no fire after suspend, "
         "move-not-duplicate, recurring slot rule, deferred exactly-once-in-order, failure isolation) exhaustively on Kernel.tla "
         "for all operation sequences up to the level bound on 3-4 tasks with colliding times and every subset of raising "
         "deferred functions; the real TaskManager/core.run_once is bound to that model in both directions: an edge cover of "
         "TLC's state graph is executed on the real code, and random histories (up to 200 ops), all raising subsets of batches "
         "up to 6 and the graph walks are recorded and validated by TLC step by step (conformance + the same TLA+ monitors).",
    design_ref="DESIGN.md 5 (C14), Appendix A.1",
    note="Trusted: TLC, the ~60-line Rig that maps Kernel operations to task/core API calls and projects the heap; virtual clock "
         "(task._time patched). Exhaustive only up to the level bound; core.run exercised with asyncore.loop stubbed; "
         "float-clock recurring slots checked against exact rationals with 2 us tolerance.",
    technique="TLA+ spec (Kernel.tla) + TLC exhaustive; state-graph edge-cover replay into the real scheduler; TLC trace validation of recorded executions"),
}
NOT_YET = "machinery for this property is not built yet (work in progress; see DESIGN.md section 5 for the planned TLA+ module)"

m = {
 "version": 1,
 "setup_cmd": "bin/setup",
 "hooks": {"guard": "BACPYPES_VERIF", "enable": "no source hooks: the harness owns the event loop (virtual-time TaskManager subclass, "
           "fault-injecting vlan.Network subclass) and imports the working tree via BACPYPES_SRC=/repo/py34",
           "baseline_off_cmd": "cd /repo && PYTHONPATH=/repo/py34 /venv/bin/python -m pytest -q -p no:cacheprovider",
           "source_commits": [], "add_only": True},
 "engines": [{"name": "tlc", "path": "/opt/veriftools/tla/tla2tools.jar", "serves_properties": sorted(CHECKS),
              "kind_free_text": "explicit-state model checker for the TLA+ specs under spec/; also evaluates trace-validation specs"}],
 "checks": [],
 "not_applicable": [],
 "notes": "bin/check <ID> --tier quick|thorough [--replay PATH]; evidence in evidence/<ID>.json; known findings in known_findings.json",
}
for pid in props:
    if pid in CHECKS:
        c = CHECKS[pid]
        m["checks"].append({
            "property_id": pid,
            "quick_cmd": "bin/check %s --tier quick" % pid,
            "thorough_cmd": "bin/check %s --tier thorough" % pid,
            "evidence_file": "/verif/evidence/%s.json" % pid,
            "replay_cmd_template": "bin/check %s --replay {path}" % pid,
            "engine": "tlc",
            "level_claimed": {"category": c["category"], "text": c["text"], "design_ref": c["design_ref"]},
            "level_note": c["note"],
            "technique": c["technique"],
        })
    else:
        m["not_applicable"].append({"property_id": pid, "reason": NOT_YET})
json.dump(m, open(os.path.join(HERE, "MANIFEST.json"), "w"), indent=1)
print("checks:", [c["property_id"] for c in m["checks"]], "not_applicable:", len(m["not_applicable"]))
