#!/usr/bin/env python3
"""Regenerates MANIFEST.json from the table below (kept here so the manifest is always schema-valid)."""
import json, os
HERE = os.path.dirname(os.path.dirname(os.path.abspath(__file__)))
props = [json.loads(l)["id"] for l in open(os.path.join(HERE, "properties.jsonl"))]

CHECKS = {
 "C19": dict(
    category="model_checking",
    text="RouteCache.tla models both indexes of RouterInfoCache (routers[snet][addr] -> dnets with status, path[(snet,dnet)] -> addr) with "
         "Update / DeleteRouter / DeleteDnets / Renumber / UpdateStatus; TLC checks Coherent (OneNextHop, LookupsLead, NothingElse, "
         "OnlyAttached) and the action properties NewestWins and DeleteExact on the full 2 x 3 x 4 universe (thorough: closed with no "
         "length bound, 66 k states; Apalache discharges the inductive invariant); each named deviation (pinned tree) violates the "
         "expected formula. Binding: every edge of TLC's graph is executed on a real RouterInfoCache and a sample on a real node fed with "
         "I-Am-Router-To-Network / SADR-revealing traffic / Network-Number-Is, with a probe packet to every destination network after each "
         "step (TrafficFollowsKnowledge); random histories of 300 operations at both levels; all judged by TLC (Trace_RouteCache.tla).",
    design_ref="DESIGN.md 5 (C19), Appendix A.3",
    note="Trusted: TLC, the projection of the two dictionaries and the probe observer in c19.py (frames decoded with the library's NPDU "
         "decoder). Renumbering onto an already populated network is a precondition violation and not exercised; an empty announcement "
         "from an unknown router leaves an empty record (counted, not judged).",
    technique="TLA+ spec (RouteCache.tla) + TLC exhaustive (+ Apalache inductive invariant); full edge-cover replay on the real cache and node; TLC trace validation"),
 "C20": dict(
    category="model_checking",
    text="Calendar.tla (leap years, day-of-week, date / range / week-n-day patterns with all wildcards) and Schedule.tla (Value from the "
         "12.24 rule, NextChange, a timer machine) -- TLC enumerates dates x 228 patterns (quick 8 years, thorough every date 1900..2154) "
         "and a family of 28 k small schedule configurations (thorough 3.7 M states) checking ShowsScheduledValue, NoChangeBeforeNext, "
         "KeepsRunning, NoLivelock; named deviations must violate them. Binding: the expected match vectors are compared with the real "
         "matchers (666 k calls quick, 21 M thorough), TLC-chosen configurations are evaluated with the real LocalScheduleInterpreter.eval "
         "on the 15-minute grid and run timer-driven in virtual time; random schedules at the property's sizes are scanned minute by minute "
         "and run over multiple days across effective-period edges, recorded, and judged by TLC (Trace_Schedule.tla).",
    design_ref="DESIGN.md 5 (C20)",
    note="Trusted: TLC, Calendar.tla (DayOfWeek/DaysInMonth cross-checked against datetime for every date), the renderer to real schedule "
         "objects. TZ=UTC. EvalCorrect is not applied on days where two matching exceptions share a priority (the property fixes no "
         "tie-break); the oracle-free NoChangeBeforeNext is. Known finding F15c.",
    technique="TLA+ calendar/schedule spec evaluated by TLC (date x pattern grid, configuration family, timer machine); replay into the real matchers/interpreter; TLC validation of recorded evaluations and timer runs"),
 "C01": dict(
    category="model_checking",
    text="Prims.tla gives canonical encoders/decoders for every primitive type on TLC-friendly representations (sign + octets for integers, "
         "IEEE bit fields, bit sequences, (type, instance) pairs, four-octet dates/times, tagged strings) with application tagging and all "
         "255 context numbers incl. the Boolean special case, and Representable(v); TLC evaluates Enc/Dec/round-trip/refusal on a grid of "
         "3.1 k cases x 256 taggings (integers at 0, +-1, 2^k-1, 2^k, 2^k+1 for k in {7..64}; bit strings of every length 0..64 in 7 patterns; "
         "every name/number of the 85 Enumerated subclasses found in the working tree; OID/float/string/date/time boundaries; unrepresentable "
         "values). Every case is executed on the real classes both ways (quick: application tag + boundary/rotating context numbers, thorough: "
         "all 255); random values (14 k / 250 k) and every Integer/Unsigned in +-2200 (+-70000) are recorded and judged by TLC.",
    design_ref="DESIGN.md 5 (C01/C02)",
    note="Trusted: TLC, Prims.tla, the renderer (floats are built from bit fields with struct for rendering only). Reals on IEEE bit fields, "
         "NaNs of one width count as one value; character sets other than UTF-8 are decode -> re-encode stability only. Beyond 32 bits a value "
         "is 'accepted' by the constructors: the encoder must refuse or emit the canonical longer form.",
    technique="TLA+ codec spec (Prims.tla over Tags.tla) evaluated by TLC over the boundary grid; per-case replay into the real classes; TLC validation of recorded encode/decode calls"),
 "C02": dict(
    category="model_checking",
    text="Tags.tla transcribes clause 20.2.1 tag framing (extended tag numbers, the 5..253 / 254 / 255 length escapes, application Boolean, "
         "opening/closing) with EncList / DecList / Balanced / GetContext; TLC checks DecList(EncList(l)) = l with every octet consumed over the "
         "class x number x length-boundary grid for lists of 0-3 tags, and for ALL octet strings <= 2 plus a 24-symbol class alphabet to length 4 "
         "(thorough: all 17.2 M strings <= 3) that decoding either fails or is re-encode stable with no over-read, and GetContext <=> balanced "
         "for every open/close word up to length 6 (8). Cases are replayed on TagList.encode/decode, Tag.decode, get_context, Any.decode/encode; "
         "the implementation alone is swept over all strings <= 2 (<= 3) for termination / error family / stability; random and mutated longer "
         "strings (incl. 65535/65536/70000-octet data) are recorded and judged by TLC.",
    design_ref="DESIGN.md 5 (C01/C02)",
    note="Trusted: TLC, Tags.tla, the renderer. Triples of tags use a reduced tag-number set {0,1,15,254}. get_context / Any pair brackets by "
         "nesting level only (matching closing numbers is C03's business). Decoder liberality (non-minimal length escapes etc.) is in the spec too.",
    technique="TLA+ framing spec (Tags.tla) evaluated by TLC exhaustively over short strings and over the tag-list grid; per-case replay; TLC validation of recorded decodes"),
 "C03": dict(
    category="model_checking",
    text="Constructed.tla is a generic constructed-data codec over a schema algebra (atomic / enum / any / sequence with context + optional / "
         "choice / sequence-of / list-of / array-of) with Enc, an LL(1) Dec with First sets, WellFormed (unique decodability, 10 named rules), "
         "and simple octet framing for Annex F; golden/Schemas.tla pins all 228 constructed classes and 58 registered PDUs as data. TLC checks "
         "WellFormed for every table and, per generated value (presence patterns, every alternative, list lengths 0..3, depth 4-5, pairwise "
         "products), round trip, re-encode stability, balanced tags, trailing-tag rejection and 17 Annex F literals. Every grid case is built "
         "in the real classes, encoded, compared tag-for-tag and octet-for-octet, decoded and re-encoded; random values per class (40 / 1200) "
         "are recorded and judged by TLC; on every run the tables are re-extracted from the working tree and diffed against golden (SchemaDrift).",
    design_ref="DESIGN.md 5 (C03), 6",
    note="Trusted: TLC, Constructed.tla, the generic builder/projector, and the golden tables: 'matches the standard' is decided relative to "
         "the pinned transcription, reviewed from memory for the services listed in DESIGN (no copy of the standard offline); Annex F vectors "
         "are the ones reproducible verbatim. Property datatypes of object.py are not covered (C15 exercises them over the wire).",
    technique="TLA+ generic codec spec (Constructed.tla) + pinned schema tables; TLC checks well-formedness and round trips over generated values; per-case replay into the real classes; schema-drift diff; TLC validation of recorded values"),
 "C04": dict(
    category="model_checking",
    text="TLC checks on TSM.tla (one action per ClientSSM/ServerSSM handler, FIFO medium with counted drop/dup/delay faults, "
         "discrete-event timers) that every interleaving and every placement of up to two faults of each kind ends in exactly one "
         "outcome of an allowed kind, within the stated time bound, with no transaction/timer left and no client frame after the "
         "outcome, and that a local no-response abort comes only after all retries. The real state machines are bound to the model: "
         "an edge cover of TLC's state graph is forced step by step on real StateMachineAccessPoints, and every single fault at every "
         "frame, sampled/all fault pairs, total silence from every frame on and random multi-fault runs are recorded and validated by "
         "TLC (Trace_TSM.tla: conformance of each step + the same TLA+ monitors on the logged states, incl. heap/transaction residue).",
    design_ref="DESIGN.md 5 (C04), Appendix A.2",
    note="Trusted: TLC; harness/tsmrig.py (scheduler + projection, ~350 lines) and its independent APDU header reader; the medium is the "
         "harness (FIFO per direction). One transaction between two nodes (concurrency is C11). Exhaustive only within the fault budget "
         "and segment counts of the listed configs; larger cases by trace validation.",
    technique="TLA+ spec (TSM.tla) + TLC exhaustive over interleavings and fault placements; state-graph replay into the real state machines; TLC trace validation of recorded real executions"),
 "C05": dict(
    category="model_checking",
    text="TLC checks on TSM.tla payload integrity in both directions (tokens = segment indexes), consecutive sequence numbers mod 256, "
         "more-follows, window bound/range, a prefix invariant on the reassembly buffer, and SingleFaultRepaired (any one drop, duplicate "
         "or delay still ends in the positive outcome) for 1-4 x 1-4 segments, windows 1..8 with 9 segments and 258-260 segments with "
         "SeqMod 256; each named deviation (behaviour of the pinned tree) is shown to violate the property (non-vacuity). Binding: "
         "state-graph edge cover forced on the real code; fault-free runs for the boundary (quick) / all (thorough) payload lengths "
         "0..4*seg+2 for six APDU sizes, every single fault at every frame under two scheduler orders for windows 1..8, transfers beyond "
         "256 segments with faults around the wrap, random multi-fault runs -- all validated by TLC step by step, plus octet-for-octet "
         "comparison of delivered and submitted payloads.",
    design_ref="DESIGN.md 5 (C05), Appendix A.2",
    note="Trusted: TLC; harness/tsmrig.py; position-coded payload maps octets to segment tokens. Timeouts well-ordered (4*Tseg < Tapdu): "
         "the library's default device timeouts (finding F16) are not exercised.",
    technique="TLA+ spec (TSM.tla) + TLC exhaustive; state-graph replay; TLC trace validation of recorded real executions"),
 "C06": dict(
    category="model_checking",
    text="Router.tla models NetworkServiceAccessPoint.indication / process_npdu and the Who-Is-Router / I-Am-Router handlers over topologies "
         "given as data (per-receiver frame copies, per-node caches and parked packets); TLC checks ExactlyOnce per destination kind (unicast, "
         "remote / global / local broadcast), NotToOthers, NoDuplicate, ReplyRoutable, HopDecrement, NeverBackOnArrivalNet and Terminates "
         "exhaustively over all trees of up to 3-4 networks with 2-3-port routers, all station patterns, cold and warm caches, bursts, low hop "
         "counts and four cyclic topologies; four named deviations each violate their invariant. Binding: an edge cover of two state graphs is "
         "forced on real NSAP routers and stations over VLANs (harness-owned per-receiver delivery, independent NPCI reader); seeded random "
         "trees (2-8 networks, 1-3 stations, 2-4-port routers) x every source / destination kind, cold then warm, replies from every "
         "recipient, injected hop counts and cyclic topologies under a step budget are recorded and validated step by step by TLC "
         "(Trace_Router.tla).",
    design_ref="DESIGN.md 5 (C06), Appendix A.3",
    note="Trusted: TLC, harness/routerrig.py (topology builder, delivery scheduler, projection). Router start-up announcements disabled; "
         "Network-Number-Is learning is C19's; 1-octet MACs. Discovery broadcasts on a cyclic topology never quiesce (I-Am-Router carries no "
         "hop count): observed in model and code, outside the property (delivery is for loop-free internetworks, termination concerns forwarding).",
    technique="TLA+ spec (Router.tla) + TLC exhaustive over a topology family; state-graph replay on real routers/stations; TLC step-by-step trace validation of random topologies"),
 "C07": dict(
    category="model_checking",
    text="APCI.tla transcribes clause 20.1.2-20.1.9 (eight PDU types incl. segmented variants) and the two code tables as operators; TLC "
         "checks Dec(Enc(r)) = r, the layout, and round-down / never-up / tight / monotonic table properties over the flag x code-point x "
         "{0,1,127,128,255} grid, capabilities 0..2000 and all strings <= 2 plus a class alphabet to length 4-6. Every grid case is encoded "
         "and decoded by the real APDU classes and compared; random headers, random and mutated octet strings are run through the real "
         "encode/decode, recorded and validated by TLC (Trace_APCI.tla) with the verdict policy written in TLA+.",
    design_ref="DESIGN.md 5 (C07-C09)",
    note="Trusted: TLC, my transcription of clause 20.1 in APCI.tla, the renderer from cases to constructor calls. Function-evaluation use "
         "of TLC: exhaustive over the stated grid (quick: strength-2 array for the 5^4 octet product; thorough: full product), not all inputs. "
         "Reserved bits ignored and trailing octets of header-only PDUs kept as payload, in spec and code alike.",
    technique="TLA+ codec spec (APCI.tla) evaluated by TLC over the case grid; per-case replay into the real codec; TLC validation of recorded encode/decode calls"),
 "C08": dict(
    category="model_checking",
    text="NPCI.tla transcribes clause 6.2 (control octet, DNET/DLEN/DADR, SNET/SLEN/SADR, hop count, message type, vendor id) and the bodies "
         "of the twelve network-layer messages (6.4) as Enc/Dec operators; TLC checks round trip, header length, exactness Enc(Dec(o)) = o, "
         "decoder totality and refusal of forbidden headers (version != 1, broadcast / zero-length / FFFF source, truncation at every "
         "position) over all 256 control octets x address shapes x hop {0,1,254,255} x all 256 message types, network lists 0..20, routing "
         "tables 0..5 x port-info 0/1/255, all strings <= 2 (thorough: all 16.7 M strings <= 3 with a wrong version, a class alphabet to 3). "
         "Every case is run through the real NPDU / message classes both ways and compared; random and mutated NPDUs and random strings are "
         "recorded and validated by TLC (Trace_NPCI.tla).",
    design_ref="DESIGN.md 5 (C07-C09)",
    note="Trusted: TLC, my transcription of clauses 6.2/6.4 in NPCI.tla (no copy of the standard offline), the case renderer. Function-"
         "evaluation use of TLC: exhaustive over the stated grid. Security message types are header-only. DNET=FFFF with DLEN>0, trailing "
         "octets after fixed-size bodies and reserved control bits are outside the property's list and only monitored for 'no other exception'.",
    technique="TLA+ codec spec (NPCI.tla) evaluated by TLC over the case grid; per-case replay into the real codec; TLC validation of recorded encode/decode calls"),
 "C09": dict(
    category="model_checking",
    text="BVLL.tla transcribes Annex J (header 0x81 / function / length = total octets, the twelve functions) as Enc/Dec operators; TLC "
         "checks Dec(Enc(r)) = r and the length-field clause over the twelve functions x address/port/mask/TTL boundaries x tables of 0..40 "
         "entries x payloads 0..1497, and Dec on wrong-type / wrong-length / truncated / extended frames, all 256 function codes and all "
         "strings <= 4 over a class alphabet. Every TLC case is executed on the real classes on four paths (class encode + BVLPDU.encode, "
         "AnnexJCodec.indication, BVLPDU.decode + registry decode, AnnexJCodec.confirmation) and compared; random records / octet strings and "
         "the frames BIPSimple/BIPForeign/BIPBBMD emit are recorded and validated by TLC (Trace_BVLL.tla).",
    design_ref="DESIGN.md 5 (C07-C09)",
    note="Trusted: TLC, my transcription of Annex J in BVLL.tla, the renderer from abstract cases to constructor calls. Payload contents "
         "are position coded. Function-evaluation use of TLC (pure codec): exhaustive over the stated boundary grid, not over all inputs. "
         "Trailing octets after fixed-length functions are tolerated by the code (named deviation, outside the property).",
    technique="TLA+ codec spec (BVLL.tla) evaluated by TLC over the case grid; per-case replay into the real codec; TLC validation of recorded encode/decode calls"),
 "C10": dict(
    category="model_checking",
    text="Device.tla classifies a datagram by running the three header codecs of the specification itself (BVLL.Dec, NPCI.Dec, APCI.Dec) and "
         "states what is required (exactly one reply with the same invoke ID of kind ack / error / reject / abort for an intact, unsegmented "
         "confirmed-request header addressed to the device; nothing required otherwise) plus the monitors OneReplySameId, ReplyKindAllowed, "
         "NeverSilentOnIntactHeader, NoLeftover, OthersStillProcessed, StillHealthy; a reactive machine over 222 abstract input classes x batch "
         "shapes x companion requests is model-checked (59 k states) and the named deviations F6/F7/F8+F9 are shown to break the monitors. "
         "Binding: for 53 valid frames (29 confirmed services + variants, 11 unconfirmed, network messages, routed / broadcast / forwarded "
         "envelopes) all truncations, insertions and single-octet substitutions (quick: sampled values at every position; thorough: all 255), "
         "noise at three layers and interleavings with valid requests are ingested into a real device as deferred calls drained by run_once; "
         "replies, residual transactions/timers (immediately and after all timeouts) and a follow-up ReadProperty are recorded and judged by "
         "TLC (Trace_Device.tla) on the octets.",
    design_ref="DESIGN.md 5 (C10)",
    note="Trusted: TLC, the codec specs (bound by C07/C08/C09), the device builder and recorder in c10.py. Datagrams enter at AnnexJCodec "
         "(no sockets). Which of the four reply kinds is returned for a mutated body is deliberately not judged. Unknown BVLL functions (F9: "
         "KeyError escapes AnnexJCodec) need no reply and leave nothing behind: recorded as observation.",
    technique="TLA+ reactive spec (Device.tla) composing the codec specs; TLC model check over input classes; mutated/garbage datagrams ingested into the real device and validated by TLC on the octets"),
 "C11": dict(
    category="model_checking",
    text="TSMids.tla models invoke-ID allocation (cursor, skip-live, application-chosen IDs) and the (invoke ID, peer address) lookup of "
         "client and server transaction tables with an adversary that delivers every reply kind from every address with every ID at every "
         "point; TLC checks IdUniquePerPeer, ReplyMatches, LateAndForeignIgnored, NoDoubleIndication, SameIdDifferentPeersIndependent, "
         "NewRequestIndicated exhaustively for 3 requests over 2 peers with the cursor at the wrap of a 4-value ID space. Binding: an edge "
         "cover of TLC's graph is executed on a real StateMachineAccessPoint; random adversarial histories (1-4 peers, up to 400 steps), "
         "40 concurrent requests with the same IDs across four peers, and >256 sequential requests with long-lived IDs the cursor must "
         "skip are recorded with the projected tables and validated by TLC (Trace_TSMids.tla) with IdMod = 256.",
    design_ref="DESIGN.md 5 (C11), Appendix A.2",
    note="Trusted: TLC; harness/idsrig.py (adversary + projection). Unsegmented frames only (the lookup code is shared with segmented ones, "
         "whose state machines are C04/C05). Exhaustive in a reduced ID space; the real modulus by trace validation.",
    technique="TLA+ spec (TSMids.tla) + TLC exhaustive with adversarial delivery; state-graph replay; TLC trace validation of recorded real executions"),
 "C15": dict(
    category="model_checking",
    text="ObjStore.tla models a typed property store (scalars, read-only, arrays, fixed arrays, arrays of constructed elements, lists, absent "
         "optionals) with Read / Write / RPM (all / required / optional) / Scan and the result mapping the property states; the step formulas "
         "ReadYourWrite, RefusalChangesNothing, MatchingError, ArrayIndexing, RPMEqualsRP depend on the store only and are checked by TLC on the "
         "full closure of a 2-object x 5-property store (operation sequences of any length; 7.6 M steps); validate-after-assign (named "
         "deviation) violates RefusalChangesNothing. Binding: walks of the graph are executed over the wire on a real device whose objects "
         "realise the model's schema; random read/write/RPM sequences run over all 63 registered object classes (as declared and an "
         "all-writable twin) with values generated from each property's datatype, wrong-typed values, every array index class and unknown "
         "objects/properties; after every step a full ReadProperty read-back of every declared property is made over the wire; all executions "
         "are judged by TLC (Trace_ObjStore.tla) against a schema regenerated from the working tree.",
    design_ref="DESIGN.md 5 (C15), Appendix A.5",
    note="Trusted: TLC, the client/device stack builder, the generic value generator (filtered by a round trip through the library's codec) "
         "and the tokenisation of values by their encoded tag list. For a wrong datatype any refusal from a documented set is accepted; the "
         "five unambiguous error codes are required. Commandable present values are C17's. Known finding F33.",
    technique="TLA+ spec (ObjStore.tla) + TLC on the full closure of a small store; graph walks and random sequences over all object classes executed over the wire with full read-back; TLC trace validation"),
 "C16": dict(
    category="model_checking",
    text="COV.tla models subscriptions (subscriber, process id, object) with confirmed flag / lifetime / expiry, change detection against "
         "the last reported value with burst coalescing, the deferred drain, expiry and the active-subscriptions list; the eight monitors "
         "(AckThenInitial, OnePerBurstPerSubscription, NoneForSubThreshold, NothingAfterCancelOrExpiry, ConfirmedAsRequested, TimeRemaining, "
         "RenewReplaces, ActiveListExact) are written over inputs, outputs and ghost variables only. TLC checks them exhaustively on four "
         "slices (1 analog + 1 binary object, 2 subscribers, lifetimes {0,1,2}, 4-point value grid; depth 4-10) plus simulation to depth 12; "
         "the named deviation (renew keeps old parameters = the pinned tree) violates them. Binding: walks of two dumped state graphs are "
         "driven through real device + subscriber stacks over a VLAN, and random timelines (1-3 subscribers, lifetimes 0..120 s, analog / "
         "binary / multi-state / pulse-converter objects, bursts, sub-increment steps, virtual time across every expiry) are recorded and "
         "judged by TLC (Trace_COV.tla; ghosts recomputed by TLC from the events).",
    design_ref="DESIGN.md 5 (C16), Appendix A.5",
    note="Trusted: TLC, the stack builder and projection in c16.py. Loss-free VLAN, subscribers acknowledge at once; SubscribeCOVProperty and "
         "covPeriod are not exercised. 'Last reported value' is per object, as the code implements and as the property is read. The full "
         "configuration is exhaustive to depth 4-5 only; deeper on slices and by simulation.",
    technique="TLA+ spec (COV.tla) + TLC exhaustive/simulation; state-graph walks replayed on real stacks; TLC trace validation of recorded timelines"),
 "C17": dict(
    category="model_checking",
    text="Cmd.tla models the 16-slot priority array, present value, relinquish default and the minimum on/off hold at priority 6 with "
         "relative deadlines (finite graph: command sequences of every length); TLC checks PVIsHighest, SlotIsLastCommand, "
         "BadWriteChangesNothing, MinOnOffHold on the complete graphs (4-6 slots x 3 values, min on/off {0..3}^2), all 17 priority arguments "
         "by simulation, and shows the swapped-times deviation violates MinOnOffHold. Binding: every (pre-state, command, post-state) triple "
         "of TLC's graph is replayed on each of the 20 commandable classes, by direct WriteProperty calls and by WriteProperty requests over "
         "the wire, reading back presentValue and all 16 slots; random sequences of length 100 over all 16 priorities with virtual time for "
         "the binary classes; all executions judged by TLC (Trace_Cmd.tla).",
    design_ref="DESIGN.md 5 (C17), Appendix A.5",
    note="Trusted: TLC, the per-class value table and projection in c17.py. Subclasses are registered with a vendor id as the samples do. "
         "With a minimum time configured the environment does not command priority 6 itself. Apalache inductive step does not finish "
         "under the timeout (opt-in); the 16-priority range rests on simulation + random traces.",
    technique="TLA+ spec (Cmd.tla) + TLC exhaustive on the complete graph; graph-triple replay on all 20 classes (direct and over the wire); TLC trace validation"),
 "C18": dict(
    category="model_checking",
    text="Addr.tla defines, on notation descriptors, what each accepted notation denotes (type, network, station octets, and for IP forms "
         "subnet / host / directed broadcast by per-octet arithmetic), the printed form, and the equivalence/hash key; TLC checks "
         "Denotes(Print(Denotes(d))) = Denotes(d), that Equiv is an equivalence and the range refusals over all 256 stations x 12 notations, "
         "networks at the range edges, IPv4 edge addresses x 33 masks x port boundaries, octet strings 1..7 and a pool of equivalent "
         "spellings. Every case is rendered to a concrete str/tuple/bytes/int, parsed by the real Address and compared field by field "
         "(IP fields also against the standard ipaddress module); print->parse, ==/!=/hash/dict/set matrices over the pool, and seeded "
         "random spellings and junk are recorded and judged by TLC (Trace_Addr.tla, Trace_AddrPool.tla).",
    design_ref="DESIGN.md 5 (C18)",
    note="Trusted: TLC, Addr.tla, the ~80-line renderer/projector (text scanning itself is outside TLC's reach). Route (@) notations, "
         "route_aware, interface names excluded. Lenient inputs that still build the number a reader would take (trailing newline, "
         "non-ASCII digits, octal-looking octets) are recorded, not judged.",
    technique="TLA+ denotation spec (Addr.tla) evaluated by TLC over the notation grid; per-case replay into the real parser/printer; TLC validation of recorded parses and of the equality/hash matrices"),
 "C12": dict(
    category="model_checking",
    text="TSMcaps.tla states the capability negotiation as a function Decide(settings, knowledge, lengths) and the C12 clauses (ApduFits, "
         "SegmentedOnlyIfAllowed, AbortInsteadOfOversize, WindowRange) on an observation record; TLC evaluates the clauses on Decide's own "
         "output over the cross product of max-APDU sizes x max-segments x 4x4 segmentation support x windows {1,2,127} x I-Am known/unknown "
         "x payload lengths around every boundary (quick 230 k, thorough 4.1 M points), and shows that header-less sizing violates ApduFits. "
         "Binding: one real transaction per sampled point (every size pair x 4x4 support x known/unknown, boundary sweeps of every length "
         "around the unsegmented limit, max-segments limits +-1) on real ClientSSM/ServerSSM with the client's DeviceInfoCache filled by the "
         "library's iam_device_info; frame lengths and header fields measured on the wire; the records are judged by TLC (Trace_TSMcaps.tla): "
         "the clauses on every record, plus field-by-field agreement with Decide.",
    design_ref="DESIGN.md 5 (C12), Appendix A.2",
    note="Trusted: TLC; tsmrig's independent APDU header reader; fault-free medium. An I-Am carries no max-segments, so the request-side "
         "segment-count limit is not exercisable through the public path. Function-evaluation use of TLC for the decision function.",
    technique="TLA+ decision-function spec (TSMcaps.tla) evaluated by TLC over the capability cross product; real transactions per point with wire measurements validated by TLC"),
 "C13": dict(
    category="model_checking",
    text="BBMD.tla models BIPSimple / BIPForeign / BIPBBMD over IP subnets joined by an IP router: origination per role, the three "
         "confirmation methods per BVLL function, FDT ageing, registration / renewal / ack / expiry / unregistration / deletion, with history "
         "variables for the obligations of broadcasts in flight; TLC checks OncePerNode, NeverToOriginator, TrueSource, ServedAtLeastTTL, "
         "GoneAfterGrace, RenewsBeforeExpiry, DeleteIsImmediate, UnregisterWithinGrace, ListedIffLive exhaustively on six layouts (2-3 "
         "subnets, BBMDs with full / partial / directed tables, ordinary and foreign devices, TTL 1-3) and four vacuity configs violate them. "
         "Binding: edge-cover walks of two state graphs built with the code's constants are forced on real stacks (harness-owned delivery "
         "order, virtual time); random layouts at the property's sizes with broadcasts from every node across registration, expiry, renewal, "
         "deletion and unregistration, plus silent-device scenarios reading the FDT every second, are recorded and judged by TLC "
         "(Trace_BBMD.tla); every B/IP frame on the medium is checked by Trace_BVLL.tla for length field and layout.",
    design_ref="DESIGN.md 5 (C13), Appendix A.4",
    note="Trusted: TLC, the rig in c13.py (multiplexer shim, parked per-receiver delivery, projection incl. the private registration-timeout "
         "task for conformance only). Loss-free medium; a device that stops renewing is modelled by suspending its task. TTL >= 65531 wraps "
         "in Read-FDT-Ack (outside the property's 1..300 range; observation).",
    technique="TLA+ spec (BBMD.tla) + TLC exhaustive over small layouts; state-graph replay on real B/IP stacks; TLC trace validation of random layouts and timelines"),
 "C14": dict(
    category="model_checking",
    text="TLC checks every C14 clause (fire order, FIFO among equals, never early, once per install, no fire after suspend, "
         "move-not-duplicate, recurring slot rule, deferred exactly-once-in-order, failure isolation) exhaustively on Kernel.tla "
         "for all operation sequences up to the level bound on 3-4 tasks with colliding times and every subset of raising "
         "deferred functions; the real TaskManager/core.run_once is bound to that model in both directions: an edge cover of "
         "TLC's state graph is executed on the real code, and random histories (up to 200 ops), all raising subsets of batches "
         "up to 6 and the graph walks are recorded and validated by TLC step by step (conformance + the same TLA+ monitors).",
    design_ref="DESIGN.md 5 (C14), Appendix A.1",
    note="Trusted: TLC, the ~60-line Rig that maps Kernel operations to task/core API calls and projects the heap; virtual clock "
         "(task._time patched). Exhaustive only up to the level bound; core.run exercised with asyncore.loop stubbed; "
         "float-clock recurring slots checked against exact rationals with 2 us tolerance.",
    technique="TLA+ spec (Kernel.tla) + TLC exhaustive; state-graph edge-cover replay into the real scheduler; TLC trace validation of recorded executions"),
}
NOT_YET = "machinery for this property is not built yet (work in progress; see DESIGN.md section 5 for the planned TLA+ module)"

# what the checks gained after the seeded-change rounds (appended to the level text)
ADDED = {
 "C04": " The IOCB half (IOQ.tla: confirmed and unconfirmed requests through IOCBs, direct unconfirmed requests; AtMostOneCompletion, "
        "OneActivePerDestination, NoStall, NoResidue, OutcomeOnlyFromReply, EventuallyAllDone) is model-checked and bound by recorded "
        "ApplicationIOController runs with every single fault; a last scenario lets the library's own scheduler run 2-8 concurrent requests "
        "with answering and silent peers and compares every outcome instant with TSM.tla's timer semantics (BoundedTime). Round 6: requests "
        "the stack refuses on the spot (TSM.tla SubmitRefused) have their one outcome and leave nothing; requests chained from completion "
        "callbacks (IOCB rig op chained) under single and double faults.",
 "C05": " Long requests whose short reply is lost or late (the whole request is repeated) and a wall-clock budget that turns a transfer "
        "that never ends into a Terminates verdict were added after the second seeding round. Round 6: a delayed frame is a straggler "
        "that is reordered (TSM.tla Delay / DeliverableAt) and turns up inside the other phase of the transfer; a request within the peer's "
        "known limits (trace input feasible) is taken on (RefusedThoughFeasible).",
 "C11": " DirectionRespected: an abort / segment ack without the server bit never touches one of the node's own requests. One level up, "
        "IOQ.tla's OutcomeOnlyFromReply is validated on ApplicationIOController runs with several requests outstanding to one peer and "
        "unconfirmed traffic in between (every finished IOCB holds the answer to its own request).",
 "C12": " Re-announcements: the server's current I-Am reaches the client while an earlier transaction with that server is outstanding (or "
        "just after it); the transaction under test has to respect the current announcement.",
 "C19": " A third rig keeps packets parked behind an outstanding Who-Is-Router across the history: an announcement must release them to "
        "the announcing router (ParkedReleased) and later packets must go out as soon as a route is known, however it was learned.",
 "C10": " Segmented answers are followed by every kind of segment ack (sequence number in / beyond the window / beyond the answer, window "
        "0..255, negative, wrong direction bit) and aborts: the transfer counts as one logical reply (SegTransfer) and must leave nothing behind. "
        "Round 6: a segmented request received completely and in order (role last, judged by TLC on the octets) is answered, also when "
        "the sender's I-Am is filed between its segments.",
 "C14": " Configuration h (trace validation only): 12 one-shot timers of very different lengths, most of them stopped again from the middle "
        "of the heap, validated against the same monitors.",
 "C15": " The store object also owns a computed property (ReadProperty overridden, nothing in the value table), so that selector expansion "
        "is compared with per-property reads for that pattern too.",
 "C17": " Writes of something that is not a value of the datatype (an undefined enumeration number; another application type over the wire) "
        "at valid priorities are BadWrite steps: refused and without effect (BadWriteChangesNothing).",
 "C03": " Every non-PDU value is also carried in an Any: cast_in holds the value's encoding, cast_out gives the value back, and reading it "
        "twice leaves the Any unchanged.",
}

m = {
 "version": 1,
 "setup_cmd": "bin/setup",
 "hooks": {"guard": "BACPYPES_VERIF", "enable": "no source hooks: the harness owns the event loop (virtual-time TaskManager subclass, "
           "fault-injecting vlan.Network subclass) and imports the working tree via BACPYPES_SRC=/repo/py34",
           "baseline_off_cmd": "cd /repo && PYTHONPATH=/repo/py34 /venv/bin/python -m pytest -q -p no:cacheprovider",
           "source_commits": [], "add_only": True},
 "engines": [{"name": "tlc", "path": "/opt/veriftools/tla/tla2tools.jar", "serves_properties": sorted(CHECKS),
              "kind_free_text": "explicit-state model checker for the TLA+ specs under spec/; also evaluates trace-validation specs"}],
 "checks": [],
 "not_applicable": [],
 "notes": "bin/check <ID> --tier quick|thorough [--replay PATH]; evidence in evidence/<ID>.json; known findings in known_findings.json",
}
for pid in props:
    if pid in CHECKS:
        c = CHECKS[pid]
        m["checks"].append({
            "property_id": pid,
            "quick_cmd": "bin/check %s --tier quick" % pid,
            "thorough_cmd": "bin/check %s --tier thorough" % pid,
            "evidence_file": "/verif/evidence/%s.json" % pid,
            "replay_cmd_template": "bin/check %s --replay {path}" % pid,
            "engine": "tlc",
            "level_claimed": {"category": c["category"], "text": c["text"] + ADDED.get(pid, ""), "design_ref": c["design_ref"]},
            "level_note": c["note"],
            "technique": c["technique"],
        })
    else:
        m["not_applicable"].append({"property_id": pid, "reason": NOT_YET})
json.dump(m, open(os.path.join(HERE, "MANIFEST.json"), "w"), indent=1)
print("checks:", [c["property_id"] for c in m["checks"]], "not_applicable:", len(m["not_applicable"]))
