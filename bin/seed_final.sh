#!/bin/bash
# bin/seed_final.sh [ids...] -- runs the quick check of the property (plus the other checks named in EXTRA) against every saved
# seeded change (scratch copy of /repo/py34 + patch, BACPYPES_SRC) and writes seeded/<id>/final.txt
cd "$(dirname "$0")/.."
declare -A EXTRA=( [C15-D]="C17" [C04-D]="C14" [C11-D]="C04" [C17-G]="C14" [C07-F]="C10" [C20-H]="C14" [C13-I]="C14" [C16-I]="C14" [C05-I]="C14" [C10-I]="C14" [C15-I]="C01" [C13-J]="C09" [C10-J]="C05" [C04-G]="C11" [C10-L]="C19" [C11-I]="C18" )
IDS="$@"; [ -z "$IDS" ] && IDS=$(ls seeded | grep -v "^_")
for id in $IDS; do
  pid=${id%-*}
  : > seeded/$id/final.txt
  for chk in $pid ${EXTRA[$id]}; do
    out=$(bin/seed_check.sh /verif/seeded/$id/patch.diff $chk 2>&1 | tail -2 | head -1)
    echo "$chk: $out" >> seeded/$id/final.txt
  done
  echo "== $id: $(cat seeded/$id/final.txt | tr '\n' ' ' | cut -c1-300)"
done
