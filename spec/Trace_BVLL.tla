----------------------------- MODULE Trace_BVLL -----------------------------
(***************************************************************************)
(* Code -> spec validation for C09.  Each line of TRACE_FILE is one         *)
(* evaluation of the real bacpypes code recorded by harness/drivers/c09.py: *)
(*                                                                         *)
(*  {"id":n, "k":"enc", "rec":{..abstract record..},                        *)
(*   "enc": {"ok":true,"oct":[..]} | {"ok":false,"exc":"Class"},  message class .encode + BVLPDU.encode *)
(*   "enc2":{... same, octets captured below AnnexJCodec.indication ...},   *)
(*   "back": <decode outcome of the octets the code produced>,              *)
(*   "back2":<what AnnexJCodec.confirmation passed upward for them>}        *)
(*  {"id":n, "k":"dec", "oct":[..],                                         *)
(*   "out": {"kind":"rec","rec":{..},"hdr":[type,fn,len]} | {"kind":"DecodingError"} *)
(*          | {"kind":"UnknownFunction"} | {"kind":"exc","exc":"Class"},     BVLPDU.decode + registry + class .decode *)
(*   "up":  {"up":TRUE|FALSE, "exc":"" | "Class", "rec":{..}, "hdr":[..]}}   AnnexJCodec.confirmation *)
(*                                                                         *)
(*  {"id":n, "k":"raw", "fn":0..255, "body":[..], "enc":{..generic BVLPDU.encode..},  *)
(*   "back": {"kind":"hdr","hdr":[type,fn,len],"body":[..],"known":BOOL} | {"kind":"DecodingError"} | ...}  *)
(*  {"id":n, "k":"emit", "oct":[..], "fn":f, "chk":"none"|"npdu"|"bdt"|"fdt"|"ttl", "val":[..]}  *)
(*      a frame captured below AnnexJCodec under BIPSimple / BIPForeign / BIPBBMD; fn = the function it *)
(*      must be, val = the NPDU handed to the service / the projection of the BBMD's table             *)
(*                                                                         *)
(* TLC evaluates the C09 monitors (BVLL.tla operators) on every record and  *)
(* prints one verdict per record that fails or is noteworthy.               *)
(*   why  : monitors of the property that fail       -> VIOLATION           *)
(*   dev  : disagreement with the spec outside the property's clauses -> conformance deviation *)
(*   info : named deviation exercised (Dev_TrailingIgnored), unknown function seen *)
(***************************************************************************)
EXTENDS BVLL, TLC, Json, IOUtils

Recs == ndJsonDeserialize(IOEnv.TRACE_FILE)
VARIABLE i

S(cond, name) == IF cond THEN {} ELSE {name}

\* ---- "enc": a record went through the real encoder (and back) ------------------------------------------
ProducedOK(e, r) == e.ok /\ OctetsEqualSpec(r, e.oct)
ProducedLen(e, r) == e.ok => (LengthFieldExact(e.oct) /\ HeaderCarriesFunction(r, e.oct))
BackOK(b, r, o) == b.kind = "rec" /\ b.rec = r /\ b.hdr = <<BVLLType, r.fn, Len(o)>>
UpOK(u, r, o) == u.up /\ u.exc = "" /\ u.rec = r /\ u.hdr = <<BVLLType, r.fn, Len(o)>>

EncWhy(t) ==
    LET r == t.rec IN
    S(ProducedOK(t.enc, r) /\ ProducedOK(t.enc2, r), "OctetsEqualSpec")
    \cup S(ProducedLen(t.enc, r) /\ ProducedLen(t.enc2, r), "LengthFieldExact")
    \cup S(t.enc.ok => BackOK(t.back, r, t.enc.oct), "FieldsEqualSpec")
    \cup S(t.enc2.ok => UpOK(t.back2, r, t.enc2.oct), "FieldsEqualSpec")

\* ---- "dec": an octet string went through the real decoder ----------------------------------------------
Refused(t) == t.out.kind # "rec" /\ ~t.up.up
DecWhy(t) ==
    LET o == t.oct  strict == Dec(o) IN
    S(WrongTypeOrLengthRefused(o, Refused(t)), "WrongTypeOrLengthRefused")
    \cup S(BadFrame(o) => (t.out.kind \in {"rec", "DecodingError"} /\ t.up.exc \in {"", "DecodingError"}), "OnlyDecodingError")
    \cup S(~IsErr(strict) => (BackOK(t.out, strict, o) /\ UpOK(t.up, strict, o)), "FieldsEqualSpec")

DecDev(t) ==
    LET o == t.oct  strict == Dec(o)  len == DecLenient(o) IN
    IF BadFrame(o) \/ ~IsErr(strict) THEN {}
    ELSE IF ~IsErr(len) THEN S(BackOK(t.out, len, o) /\ UpOK(t.up, len, o), "TrailingConformance")
    ELSE IF len = DecodingError THEN S(t.out.kind = "DecodingError" /\ ~t.up.up /\ t.up.exc = "DecodingError", "BodyRefusalConformance")
    ELSE S(t.out.kind = "UnknownFunction" /\ ~t.up.up, "UnknownFunctionConformance")

DecInfo(t) ==
    LET o == t.oct IN
    IF BadFrame(o) THEN {}
    ELSE (IF IsErr(Dec(o)) /\ ~IsErr(DecLenient(o)) THEN {"Dev_TrailingIgnored"} ELSE {})
         \cup (IF IsErr(Dec(o)) /\ Dec(o) # DecodingError THEN {"UnknownFunction"} ELSE {})

\* ---- "raw": a generic BVLPDU with an arbitrary function code ----------------------------------------------
RawWhy(t) ==
    LET o == Frame(t.fn, t.body) IN
    S(t.enc.ok /\ t.enc.oct = o, "OctetsEqualSpec")
    \cup S(t.enc.ok => (LengthFieldExact(t.enc.oct) /\ t.enc.oct[2] = t.fn), "LengthFieldExact")
    \cup S(t.back.kind = "hdr" /\ t.back.hdr = <<BVLLType, t.fn, Len(o)>> /\ t.back.body = t.body
           /\ t.back.known = (t.fn \in KnownFunctions), "FieldsEqualSpec")

\* ---- "emit": a frame the library's own B/IP services produced ----------------------------------------------
EmitWhy(t) ==
    LET r == Dec(t.oct) IN
    S(LengthFieldExact(t.oct), "LengthFieldExact")
    \cup S(~IsErr(r) /\ r.fn = t.fn /\ CASE t.chk = "npdu" -> r.npdu = t.val
                                          [] t.chk = "bdt"  -> r.bdt = t.val
                                          [] t.chk = "fdt"  -> r.fdt = t.val
                                          [] t.chk = "ttl"  -> r.ttl = t.val[1]
                                          [] OTHER          -> TRUE, "OctetsEqualSpec")

Why(t) == CASE t.k = "enc"  -> (IF WF(t.rec) THEN EncWhy(t) ELSE {"MALFORMED-CASE"})
            [] t.k = "raw"  -> RawWhy(t)
            [] t.k = "emit" -> EmitWhy(t)
            [] OTHER        -> DecWhy(t)
Dev(t) == IF t.k = "dec" THEN DecDev(t) ELSE {}
Info(t) == IF t.k = "dec" THEN DecInfo(t) ELSE {}

Init == i \in 1..Len(Recs)
Next == UNCHANGED i
Report ==
    LET t == Recs[i] w == Why(t) d == Dev(t) n == Info(t) IN
    (w \cup d \cup n) = {} \/ PrintT(<<"@@", [id |-> t.id, why |-> w, dev |-> d, info |-> n]>>)
=============================================================================
