----------------------------- MODULE MC_Schedule -----------------------------
(***************************************************************************)
(* Exhaustive design check of Schedule.tla over a family of small          *)
(* configurations on two adjacent days D1, D2:                             *)
(*   <= 2 exceptions (period from a catalogue of date / date-range /       *)
(*   week-n-day / calendar-reference periods that are in force on D1, D2,  *)
(*   both or neither; priority from Prios; <= 2 time-values on ExcSlots    *)
(*   with values {1, 2, NULL}), <= 2 weekly entries (WkLists), a set of    *)
(*   effective periods that contain both days, end after D1, begin on D2   *)
(*   or have an open start.                                                *)
(* For every member: the function obligations on every Grid instant of     *)
(* both days (GridOK on the CGrid step for every member, GridOKLiteral on   *)
(* the Grid step for the sampled ones) and the timer machine created at    *)
(* each instant of Starts on D1 and run through D2 (machine invariants).   *)
(* Sampled members are printed with their expected Value / NextChange /    *)
(* ExactNext vectors for replay on the real code.                          *)
(* The state space fans out root -> first exception -> full configuration  *)
(* so that the per-configuration work is spread over TLC's workers.        *)
(***************************************************************************)
EXTENDS Schedule, SequencesExt, Json

CONSTANTS D1, D2,           \* the two adjacent dates
          Prios, ExcSlots, WkLists, PeriodIds, EffIds, Starts,
          Grid,             \* grid step (hundredths of a second) of the printed vectors and the literal obligations
          CGrid,            \* grid step of the obligations evaluated on every member
          SampleMod, SampleSeed     \* a member is printed iff its index hash is 0 modulo SampleMod

VARIABLES ph, i1, i2, w, k, fresh
vars == <<ph, i1, i2, w, k, fresh, now, pv, deadline>>

Vals == {1, 2}
Default == 3
PV0 == 9                    \* Present_Value the object is created with
U4 == <<ANY, ANY, ANY, ANY>>
B(d) == <<d[1], d[2], d[3], ANY>>
Per(kind, p, s, e, id) == [kind |-> kind, p |-> p, s |-> s, e |-> e, id |-> id]
WeekOf(d) == ((d[3] - 1) \div 7) + 1

Period(n) ==
    CASE n = 1 -> Per("date", B(D1), U4, U4, 0)                                        \* D1 only
      [] n = 2 -> Per("range", U4, B(D1), B(D2), 0)                                    \* both days
      [] n = 3 -> Per("wnd", <<ANY, WeekOf(D2), DayOfWeek(D2)>>, U4, U4, 0)            \* D2 only
      [] n = 4 -> Per("cal", U4, U4, U4, 1)                                            \* Calendar 1
      [] n = 5 -> Per("cal", U4, U4, U4, 2)                                            \* Calendar 2
      [] n = 6 -> Per("date", <<(D1[1] + 1) % 255, ANY, ANY, ANY>>, U4, U4, 0)         \* neither

Cals == << << Per("date", <<ANY, ANY, 32, ANY>>, U4, U4, 0), Per("wnd", <<D2[2], ANY, DayOfWeek(D2)>>, U4, U4, 0) >>,
           << Per("range", U4, U4, B(D1), 0) >> >>

Eff(n) ==
    CASE n = 1 -> [s |-> U4, e |-> U4]
      [] n = 2 -> [s |-> B(D1), e |-> B(D1)]
      [] n = 3 -> [s |-> B(D2), e |-> U4]
      [] n = 4 -> [s |-> U4, e |-> B(D1)]
      [] n = 5 -> [s |-> B(D1), e |-> B(D2)]

TVL(slots) ==
    {<<>>} \cup {<< <<s, v>> >> : s \in slots, v \in Vals \cup {NULL}}
    \cup {<< <<q[1], v1>>, <<q[2], v2>> >> : q \in {r \in slots \X slots : r[1] < r[2]}, v1 \in Vals \cup {NULL}, v2 \in Vals \cup {NULL}}

ExcSeq == SetToSeq([period : {Period(n) : n \in PeriodIds}, prio : Prios, tvs : TVL(ExcSlots)])
WkSeq == SetToSeq(WkLists)
EffSeq == SetToSeq({Eff(n) : n \in EffIds})
NE == Len(ExcSeq)

Cfg ==
    [eff |-> EffSeq[k],
     weekly |-> [d \in 1..7 |-> IF d \in {DayOfWeek(D1), DayOfWeek(D2)} THEN WkSeq[w] ELSE <<>>],
     exc |-> (IF i1 = 0 THEN <<>> ELSE <<ExcSeq[i1]>>) \o (IF i2 = 0 THEN <<>> ELSE <<ExcSeq[i2]>>),
     cals |-> Cals,
     default |-> Default]

Init == ph = 0 /\ i1 = 0 /\ i2 = 0 /\ w = 0 /\ k = 0 /\ fresh = FALSE /\ now = <<>> /\ pv = 0 /\ deadline = <<>>

Root ==
    /\ ph = 0 /\ ph' = 1 /\ i1' \in 0..NE
    /\ UNCHANGED <<i2, w, k, fresh, now, pv, deadline>>

Pick ==
    /\ ph = 1 /\ ph' = 2
    /\ i2' \in (IF i1 = 0 THEN {0} ELSE {0} \cup i1..NE)      \* unordered pairs: the order matters only among equal
    /\ w' \in 1..Len(WkSeq) /\ k' \in 1..Len(EffSeq)          \* priorities, which the property leaves open
    /\ UNCHANGED i1
    /\ \E st \in Starts : fresh' = (st = MinOf(Starts)) /\ now' = <<D1, st>> /\ pv' = Show(Cfg', now', PV0) /\ deadline' = Arm(Cfg', now')

Run ==
    /\ ph = 2 /\ DayNo(now[1]) <= DayNo(D2)
    /\ Fire(Cfg)
    /\ fresh' = FALSE /\ UNCHANGED <<ph, i1, i2, w, k>>

Next == Root \/ Pick \/ Run
Spec == Init /\ [][Next]_vars

----------------------------------------------------------------------------
G == Midnight \div Grid
At(g) == (g - 1) * Grid

\* The obligations on the functions for one day, over all grid instants.  "No change before the next change" in the form
\*   \A g < h : At(h) < N[g] => V[h] = V[g]
\* is equivalent to: every instant before a change point h (V[h] # V[h-1]) has its next change at or before h
\* (if V[h'] # V[g] for some h' in g's window then some change point lies in (g, h'], hence inside the window).
CG == Midnight \div CGrid
CAt(g) == (g - 1) * CGrid
DayOK(cfg, date) ==
    LET plan == Plan(cfg, date)
        V == TLCEval([g \in 1..CG |-> ValueP(cfg, plan, CAt(g))])        \* TLCEval: tabulate once
        N == TLCEval([g \in 1..CG |-> NextChangeP(cfg, plan, CAt(g))])
    IN  /\ \A g \in 1..CG : V[g] # NULL /\ (V[g] = NOVAL <=> ~InPeriod(cfg, date)) /\ CAt(g) < N[g] /\ N[g] <= Midnight
        /\ \A h \in 2..CG : V[h] # V[h - 1] => \A g \in 1..(h - 1) : N[g] <= CAt(h)

\* the same in its literal form, plus exactness of ExactNext and LooseNext <= NextChange <= ExactNext (sampled members only)
DayOKLiteral(cfg, date) ==
    LET plan == Plan(cfg, date)
        V == TLCEval([g \in 1..G |-> ValueP(cfg, plan, At(g))])
        N == TLCEval([g \in 1..G |-> NextChangeP(cfg, plan, At(g))])
        X == TLCEval([g \in 1..G |-> ExactNextP(cfg, plan, At(g))])
    IN  \A g \in 1..G :
          /\ LooseNextP(cfg, plan, At(g)) <= N[g] /\ N[g] <= X[g] /\ X[g] <= Midnight
          /\ \A h \in g..G : At(h) < X[g] => V[h] = V[g]
          /\ X[g] < Midnight => ValueP(cfg, plan, X[g]) # V[g]

Sampled == (i1 * 7919 + i2 * 104729 + w * 1299709 + k * 15485863 + SampleSeed) % SampleMod = 0

GridOK == (ph = 2 /\ fresh) => (DayOK(Cfg, D1) /\ DayOK(Cfg, D2))
GridOKLiteral == (ph = 2 /\ fresh /\ Sampled) => (DayOKLiteral(Cfg, D1) /\ DayOKLiteral(Cfg, D2))

M_ShowsScheduledValue == ph = 2 => ShowsScheduledValue(Cfg)
M_KeepsRunning == ph = 2 => KeepsRunning
M_NoLivelock == ph = 2 => NoLivelock
M_NoChangeBeforeNext == ph = 2 => NoChangeBeforeNext(Cfg)
\* grid form of the same (sampled members): no grid instant of [now, deadline) on the current day shows a different value
M_NoChangeOnGrid ==
    (ph = 2 /\ deadline # NoDeadline /\ Sampled) =>
        LET cfg == Cfg
            plan == Plan(cfg, now[1])
            v == ValueP(cfg, plan, now[2])
        IN  \A g \in 1..G : (now[2] <= At(g) /\ (deadline[1] # now[1] \/ At(g) < deadline[2])) => ValueP(cfg, plan, At(g)) = v
M_TimeAdvances == [][(ph = 2 /\ ph' = 2) => Later(now', now)]_vars

----------------------------------------------------------------------------
DayVec(cfg, date) ==
    LET plan == Plan(cfg, date)
    IN  [date |-> date, inp |-> plan.inp, tiefree |-> TieFree(cfg, date),
         v |-> [g \in 1..G |-> ValueP(cfg, plan, At(g))],
         n |-> [g \in 1..G |-> NextChangeP(cfg, plan, At(g))],
         x |-> [g \in 1..G |-> ExactNextP(cfg, plan, At(g))]]

Emit == (ph = 2 /\ fresh /\ Sampled) =>
    PrintT(<<"@@", ToJson([cfg |-> Cfg, grid |-> Grid, days |-> <<DayVec(Cfg, D1), DayVec(Cfg, D2)>>])>>)
=============================================================================
