CONSTANTS
  Dev_F6 = FALSE
  Dev_F7 = FALSE
  Dev_F8 = FALSE
  Dev_F9 = FALSE
  Inputs <- c_Inputs
  Companions <- c_Companions
  Shapes <- c_Shapes
INIT Init
NEXT Next
CHECK_DEADLOCK TRUE
INVARIANT M_OneReplySameId
INVARIANT M_ReplyKindAllowed
INVARIANT M_NeverSilentOnIntactHeader
INVARIANT M_NoLeftover
INVARIANT M_OthersStillProcessed
INVARIANT M_StillHealthy
INVARIANT M_NothingUnsolicited
