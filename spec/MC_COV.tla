------------------------------ MODULE MC_COV ------------------------------
(* Static model-checking configuration of COV.tla: the configuration of the C16 design row -- 1 analog + 1 binary  *)
(* object, 2 subscribers, lifetimes {0,1,2}, confirmed/unconfirmed, present values on the 4-point grid around the *)
(* increment (0, inc-1, inc, inc+1), status flags {0,1}.  harness/drivers/c16.py generates this and the deeper     *)
(* slices (pair / subs / crit) itself; this file is for running TLC by hand:                                      *)
(*   java -cp tla2tools.jar:CommunityModules-deps.jar tlc2.TLC -config MC_COV.cfg MC_COV.tla                      *)
EXTENDS COV
c_Inc == <<2, 0>>
c_Vals == <<{0, 1, 2, 3}, {0, 1}>>
c_InitPV == <<0, 0>>
=============================================================================
