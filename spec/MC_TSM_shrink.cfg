\* a peer that shrinks the granted window (WindowRespectsAck)
SPECIFICATION Spec
CONSTANTS
  NQ = 1
  NR = 5
  RK = "ack"
  PWC = 4
  PWS = 4
  Retries = 1
  Tapdu = 6
  Tseg = 1
  Tapp = 3
  AppDelay = 0
  DelayBy = 1
  SeqMod = 256
  MaxDrop = 1
  MaxDup = 0
  MaxDelay = 0
  MaxNow = 1000000
  MaxShrink = 1
  RecvMult = 4
  ResendSeg0OnNoWin = TRUE
  IndexFromSeq = FALSE
  IgnoreStaleAck = TRUE
  FinalAckAnyInWindow = FALSE
  EchoClientAbort = FALSE
  IdleAcceptsAnySeq = FALSE
INVARIANT AtMostOneOutcome
INVARIANT ExactlyOneAtQuiescence
INVARIANT OutcomeKind
INVARIANT NoResidue
INVARIANT BoundedTime
INVARIANT ResponseIntegrity
INVARIANT RequestIntegrity
INVARIANT MoreFollows
INVARIANT SeqMatchesIndex
INVARIANT WindowBound
INVARIANT WindowRange
INVARIANT ClientRxIsPrefix
INVARIANT SingleFaultRepaired
PROPERTY SilenceAfterOutcome
PROPERTY AbortOnlyAfterAllRetries
PROPERTY NoDoubleIndicationWhileBusy
PROPERTY WindowRespectsAck
CHECK_DEADLOCK FALSE
