-------------------------- MODULE ConstructedVals --------------------------
(***************************************************************************)
(* C03 -- the case generator: schema -> ordered list of abstract values.    *)
(*                                                                         *)
(*   sequence  every presence pattern of its OPTIONAL elements (2^k for     *)
(*             k <= 8; beyond: all / none / each alone / each missing / the  *)
(*             bit-slice patterns, which cover every pair of elements in all *)
(*             four combinations), then all-present cases until every value  *)
(*             of every element has been used while present                  *)
(*   choice    every alternative with every value of the alternative         *)
(*   list      lengths 0, 1, 2, 3, 1, 2, 3 ... until every item value has    *)
(*             been used (fixed-size arrays: blocks of that size)            *)
(*             Rich: and for every two adjacent elements the product of      *)
(*             {absent, first 5 values} x {absent, first 5 values} (the     *)
(*             first values of a list are the lengths 0, 1, 2, 3): what an   *)
(*             element looks like next to what precedes / follows it         *)
(*   depth     Depth levels of sequence / choice / list are expanded, what   *)
(*             lies deeper is the minimal value of its type                  *)
(*   leaves    a small per-type table of content octets (boundary-ish; the   *)
(*             primitive encodings themselves are C01's)                     *)
(* Sizes compose by max (sequence), sum (choice) and /2 (list), so the list  *)
(* of a PDU stays in the hundreds.                                           *)
(***************************************************************************)
EXTENDS Constructed

CONSTANT Depth,     \* levels of sequence / choice / list that are expanded
         Rich       \* BOOLEAN: also the pair products of adjacent sequence elements

\* ---- leaves: content octets per primitive type ----------------------------------------------
LeafData(t) ==
    CASE t.app = 0  -> << <<>> >>                                                     \* Null
      [] t.app = 1  -> << <<1>>, <<0>> >>                                             \* Boolean
      [] t.app = 2  -> IF t.cls = "Unsigned"   THEN << <<0>>, <<200>>, <<1, 0>>, <<255, 255, 255, 255>> >>
                       ELSE IF t.cls = "Unsigned16" THEN << <<0>>, <<255, 255>> >>
                       ELSE << <<0>>, <<255>> >>
      [] t.app = 3  -> << <<0>>, <<255>>, <<0, 128>>, <<128, 0, 0, 0>> >>             \* 0, -1, 128, -2^31
      [] t.app = 4  -> << <<66, 144, 153, 154>>, <<0, 0, 0, 0>>, <<191, 192, 0, 0>> >> \* 72.3, 0.0, -1.5
      [] t.app = 5  -> << <<63, 248, 0, 0, 0, 0, 0, 0>>, <<0, 0, 0, 0, 0, 0, 0, 0>> >> \* 1.5, 0.0
      [] t.app = 6  -> << <<1, 2, 3>>, <<>> >>                                         \* octet string
      [] t.app = 7  -> << <<0, 97>>, <<0>>, <<0, 104, 195, 169>> >>                    \* "a", "", "h" e-acute (UTF-8)
      [] t.app = 8  -> << <<4, 160>>, <<0>>, <<0, 255, 1>> >>                          \* 1010, empty, 16 bits
      [] t.app = 9  -> << <<0>>, <<1>>, <<1, 0>> >>                                    \* 0, 1, 256
      [] t.app = 10 -> << <<124, 1, 24, 3>>, <<255, 255, 255, 255>> >>                 \* 2024-01-24 Wed, unspecified
      [] t.app = 11 -> << <<17, 35, 45, 17>>, <<255, 255, 255, 255>> >>
      [] t.app = 12 -> << <<0, 0, 0, 5>>, <<2, 63, 255, 255>> >>                       \* (analog-input,5) (device,4194303)

RECURSIVE WrapA(_, _)
WrapA(ds, i) == IF i > Len(ds) THEN <<>> ELSE <<(<<"a", ds[i]>>)>> \o WrapA(ds, i + 1)
AtomVals(t) == WrapA(LeafData(t), 1)

AnyAtomicVals == << <<"aa", 4, <<66, 144, 153, 154>>>>, <<"aa", 0, <<>>>>, <<"aa", 1, <<1>>>>,
                    <<"aa", 7, <<0, 97>>>>, <<"aa", 9, <<3>>>>, <<"aa", 2, <<1, 0>>>> >>

\* any: a primitive; nothing; two primitives; a context tag and a constructed value; brackets that repeat a
\* context number typical of the enclosing element (the decoder has to count levels); Boolean + Null
AnyVals == <<
    <<"y", <<Tag("app", 4, <<66, 144, 153, 154>>)>> >>,
    <<"y", <<>> >>,
    <<"y", <<Tag("app", 2, <<1>>), Tag("app", 7, <<0, 97>>)>> >>,
    <<"y", <<Tag("ctx", 0, <<5>>), Tag("open", 1, <<>>), Tag("app", 9, <<3>>), Tag("close", 1, <<>>)>> >>,
    <<"y", <<Tag("open", 3, <<>>), Tag("open", 2, <<>>), Tag("ctx", 3, <<7>>), Tag("close", 2, <<>>), Tag("close", 3, <<>>)>> >>,
    <<"y", <<Tag("app", 1, <<1>>), Tag("app", 0, <<>>), Tag("open", 4, <<>>), Tag("close", 4, <<>>)>> >> >>

\* ---- presence patterns ----------------------------------------------------------------------
Pow2(n) == IF n = 0 THEN 1 ELSE IF n = 1 THEN 2 ELSE IF n = 2 THEN 4 ELSE IF n = 3 THEN 8 ELSE IF n = 4 THEN 16
           ELSE IF n = 5 THEN 32 ELSE IF n = 6 THEN 64 ELSE IF n = 7 THEN 128 ELSE 256
Bit(p, j) == ((p \div Pow2(j)) % 2) = 1

\* number of patterns for k optional elements, and "is the j-th optional element (j = 1..k) present in pattern p"
\* (p = 1..NPat(k); pattern 1 = all present)
NPat(k) == IF k <= 8 THEN Pow2(k) ELSE 2 + 2 * k + 2 * 5
Present(k, p, j) ==
    IF k <= 8 THEN ~Bit(p - 1, j - 1)
    ELSE IF p = 1 THEN TRUE
    ELSE IF p = 2 THEN FALSE
    ELSE IF p <= 2 + k THEN j = p - 2                      \* each alone
    ELSE IF p <= 2 + 2 * k THEN j # p - 2 - k              \* each missing
    ELSE LET q == p - 3 - 2 * k IN                         \* q = 0..9: slice q \div 2 of the index, and its complement
         Bit(j - 1, q \div 2) = ((q % 2) = 0)

\* ---- values ---------------------------------------------------------------------------------
RECURSIVE MinVal(_), MinEls(_, _), Rep(_, _)
Rep(v, n) == IF n <= 0 THEN <<>> ELSE <<v>> \o Rep(v, n - 1)
MinEls(els, i) ==
    IF i > Len(els) THEN <<>>
    ELSE <<(IF els[i].opt THEN Absent ELSE MinVal(els[i].ty))>> \o MinEls(els, i + 1)
MinVal(t) ==
    CASE t.k = "atom"      -> AtomVals(t)[1]
      [] t.k = "anyatomic" -> AnyAtomicVals[1]
      [] t.k = "any"       -> AnyVals[1]
      [] t.k = "ref"       -> MinVal(Tab[t.name])
      [] t.k = "seq"       -> <<"s", MinEls(t.els, 1)>>
      [] t.k = "choice"    -> <<"c", 1, MinVal(t.els[1].ty)>>
      [] IsList(t)         -> <<"l", Rep(MinVal(t.of), t.fixed)>>

MaxI(a, b) == IF a >= b THEN a ELSE b
Pick(L, c) == L[((c - 1) % Len(L)) + 1]

RECURSIVE Vals(_, _), SubLists(_, _, _), MaxLen(_, _), OptRank(_, _), SeqCase(_, _, _, _, _, _),
          SeqCases(_, _, _, _, _, _), AltCases(_, _, _, _), ChoiceCases(_, _, _), Items(_, _, _), ListCases(_, _, _, _),
          PairCase(_, _, _, _, _, _, _), PairCases(_, _, _, _, _), AllPairs(_, _, _)

SubLists(els, i, d) == IF i > Len(els) THEN <<>> ELSE <<Vals(els[i].ty, d)>> \o SubLists(els, i + 1, d)
MaxLen(Ls, i) == IF i > Len(Ls) THEN 0 ELSE MaxI(Len(Ls[i]), MaxLen(Ls, i + 1))
\* number of optional elements among els[1..i]
OptRank(els, i) == IF i = 0 THEN 0 ELSE OptRank(els, i - 1) + (IF els[i].opt THEN 1 ELSE 0)

\* the elements of case c: pattern p of k optionals, element i takes its c-th value (cyclically)
SeqCase(els, Ls, k, p, c, i) ==
    IF i > Len(els) THEN <<>>
    ELSE <<(IF els[i].opt /\ ~Present(k, p, OptRank(els, i)) THEN Absent ELSE Pick(Ls[i], c))>>
         \o SeqCase(els, Ls, k, p, c, i + 1)
\* cases lo..hi (divide and conquer: the lists run into the thousands, a linear recursion would exhaust the stack)
SeqCases(els, Ls, k, np, lo, hi) ==
    IF lo > hi THEN <<>>
    ELSE IF lo = hi THEN <<(<<"s", SeqCase(els, Ls, k, IF lo <= np THEN lo ELSE 1, lo, 1)>>)>>
    ELSE LET mid == (lo + hi) \div 2 IN SeqCases(els, Ls, k, np, lo, mid) \o SeqCases(els, Ls, k, np, mid + 1, hi)

\* pair products: elements i and i + 1 run through their options, every other element is present
PairCap == 5
Opts(e, L) == (IF e.opt THEN <<Absent>> ELSE <<>>) \o SubSeq(L, 1, IF Len(L) < PairCap THEN Len(L) ELSE PairCap)
PairCase(els, Ls, i, a, b, c, m) ==
    IF m > Len(els) THEN <<>>
    ELSE <<(IF m = i THEN a ELSE IF m = i + 1 THEN b ELSE Pick(Ls[m], c))>> \o PairCase(els, Ls, i, a, b, c, m + 1)
PairCases(els, Ls, i, x, y) ==
    LET A == Opts(els[i], Ls[i])
        B == Opts(els[i + 1], Ls[i + 1])
    IN  IF x > Len(A) THEN <<>>
        ELSE IF y > Len(B) THEN PairCases(els, Ls, i, x + 1, 1)
        ELSE <<(<<"s", PairCase(els, Ls, i, A[x], B[y], x + y, 1)>>)>> \o PairCases(els, Ls, i, x, y + 1)
AllPairs(els, Ls, i) == IF i >= Len(els) THEN <<>> ELSE PairCases(els, Ls, i, 1, 1) \o AllPairs(els, Ls, i + 1)

AltCases(i, L, lo, hi) ==
    IF lo > hi THEN <<>>
    ELSE IF lo = hi THEN <<(<<"c", i, L[lo]>>)>>
    ELSE LET mid == (lo + hi) \div 2 IN AltCases(i, L, lo, mid) \o AltCases(i, L, mid + 1, hi)
ChoiceCases(els, i, d) ==
    IF i > Len(els) THEN <<>>
    ELSE LET L == Vals(els[i].ty, d) IN AltCases(i, L, 1, Len(L)) \o ChoiceCases(els, i + 1, d)

Items(L, start, n) == IF n = 0 THEN <<>> ELSE <<Pick(L, start)>> \o Items(L, start + 1, n - 1)
\* chunk j = 0, 1, 2 ... has length (j % 3) + 1 (fixed-size arrays: the fixed size) and starts after the items of the
\* chunks before it; as many chunks as it takes to use every item value, at least the lengths 1, 2, 3
ChunkLen(j, fixed)   == IF fixed > 0 THEN fixed ELSE (j % 3) + 1
ChunkStart(j, fixed) == IF fixed > 0 THEN j * fixed + 1
                        ELSE 6 * (j \div 3) + (IF j % 3 = 0 THEN 0 ELSE IF j % 3 = 1 THEN 1 ELSE 3) + 1
NChunks(n, fixed)    == IF fixed > 0 THEN MaxI(1, (n + fixed - 1) \div fixed) ELSE 3 * MaxI(1, (n + 5) \div 6)
ListCases(L, lo, hi, fixed) ==
    IF lo > hi THEN <<>>
    ELSE IF lo = hi THEN <<(<<"l", Items(L, ChunkStart(lo, fixed), ChunkLen(lo, fixed))>>)>>
    ELSE LET mid == (lo + hi) \div 2 IN ListCases(L, lo, mid, fixed) \o ListCases(L, mid + 1, hi, fixed)

Vals(t, d) ==
    CASE t.k = "atom"      -> AtomVals(t)
      [] t.k = "anyatomic" -> AnyAtomicVals
      [] t.k = "any"       -> AnyVals
      [] t.k = "ref"       -> Vals(Tab[t.name], d)
      [] d = 0             -> <<MinVal(t)>>
      [] t.k = "seq"       -> LET Ls == SubLists(t.els, 1, d - 1)
                                  k  == OptRank(t.els, Len(t.els))
                                  np == NPat(k)
                              IN  SeqCases(t.els, Ls, k, np, 1, np + MaxLen(Ls, 1))
                                  \o (IF Rich THEN AllPairs(t.els, Ls, 1) ELSE <<>>)
      [] t.k = "choice"    -> ChoiceCases(t.els, 1, d - 1)
      [] IsList(t)         -> (IF t.fixed > 0 THEN <<>> ELSE <<(<<"l", <<>>>>)>>)
                              \o (LET L == Vals(t.of, d - 1) IN ListCases(L, 0, NChunks(Len(L), t.fixed) - 1, t.fixed))
=============================================================================
