------------------------------ MODULE FileSvc ------------------------------
(***************************************************************************)
(* X03 -- AtomicReadFile / AtomicWriteFile on local file objects            *)
(* (standard clauses 14.1, 14.2; code: service/file.py FileServices.        *)
(* do_AtomicReadFileRequest / do_AtomicWriteFileRequest over local/file.py  *)
(* Local{Stream,Record}AccessFileObject, apdu.py AtomicRead/WriteFile PDUs) *)
(*                                                                          *)
(* A file is [access, ro, content]; content is a sequence of opaque tokens  *)
(* (octets of a stream file, records of a record file).  One action = one   *)
(* confirmed request answered by the device: `act` is the request, `res`    *)
(* the decoded answer, `files` the content afterwards, `size` what the      *)
(* File_Size (stream) / Record_Count (record) property shows afterwards.    *)
(*                                                                          *)
(* Named deviations (all FALSE in the intended design; each one describes   *)
(* something the pinned code does and must make TLC find a violation):      *)
(*   RefuseStartAtEnd   a read that starts exactly at the end is refused    *)
(*   EmptyIsUnknown     an empty file is answered with object:unknownObject *)
(*   SizeNotMaintained  a write leaves File_Size / Record_Count as it was   *)
(***************************************************************************)
EXTENDS Integers, Sequences, FiniteSets, TLC

CONSTANTS
    F,                  \* file numbers (1..n)
    Files0,             \* set of initial file tables  [F -> [access, ro, content]]
    Positions, Counts,  \* alphabets of the model-checking configuration
    Data,               \* token sequences a write may carry
    PadS, PadR,         \* the token a stream / record file is padded with when a write starts beyond the end
    MaxLen, MaxLevel,
    RefuseStartAtEnd, EmptyIsUnknown, SizeNotMaintained

VARIABLES files, size, res, act, lvl
vars == <<files, size, res, act, lvl>>

Min(a, b) == IF a < b THEN a ELSE b
Max(a, b) == IF a > b THEN a ELSE b

\* ---- answers (one record shape, so that logged answers compare field by field)
NoRes == [k |-> "none", am |-> "", cls |-> "", code |-> "", eof |-> FALSE, start |-> 0, n |-> 0, data |-> <<>>]
Err(c, e) == [NoRes EXCEPT !.k = "err", !.cls = c, !.code = e]
RAck(am, eof, s, d) == [NoRes EXCEPT !.k = "rack", !.am = am, !.eof = eof, !.start = s, !.n = Len(d), !.data = d]
WAck(am, s) == [NoRes EXCEPT !.k = "wack", !.am = am, !.start = s]

InitAct == [op |-> "init", f |-> 0, start |-> 0, count |-> 0, data |-> <<>>]
IsRead(a)  == a.op \in {"rs", "rr"}
IsWrite(a) == a.op \in {"ws", "wr"}
AM(a) == IF a.op \in {"rs", "ws"} THEN "stream" ELSE "record"
Pad(am) == IF am = "stream" THEN PadS ELSE PadR

\* ---- the two functions the property is about
\* tokens [s, s+n) of c, cut at the end (0 <= s <= Len(c))
Slice(c, s, n) == SubSeq(c, s + 1, Min(s + n, Len(c)))
\* c with d written at s: replaces what is there, extends at the end, pads a gap
Overlay(c, s, d, pad) ==
    IF s > Len(c) THEN c \o [i \in 1..(s - Len(c)) |-> pad] \o d
    ELSE SubSeq(c, 1, s) \o d \o SubSeq(c, s + Len(d) + 1, Len(c))
SizeOf(fs) == [g \in F |-> Len(fs[g].content)]

\* ---- actions (the order of the tests is the order of the code)
Read(op, f, s, n) ==
    LET fl == files[f]
        c  == fl.content
        am == AM([op |-> op])
        r  == IF EmptyIsUnknown /\ Len(c) = 0 THEN Err("object", "unknownObject")
              ELSE IF fl.access # am THEN Err("services", "invalidFileAccessMethod")
              ELSE IF s < 0 \/ s > Len(c) \/ (RefuseStartAtEnd /\ s = Len(c))
                   THEN Err("services", "invalidFileStartPosition")
              ELSE RAck(am, s + n >= Len(c), s, Slice(c, s, n))
    IN  /\ n >= 0
        /\ res' = r
        /\ act' = [op |-> op, f |-> f, start |-> s, count |-> n, data |-> <<>>]
        /\ lvl' = lvl + 1
        /\ UNCHANGED <<files, size>>

Write(op, f, p, d) ==
    LET fl == files[f]
        c  == fl.content
        am == AM([op |-> op])
        r  == IF EmptyIsUnknown /\ Len(c) = 0 THEN Err("object", "unknownObject")
              ELSE IF fl.access # am THEN Err("services", "invalidFileAccessMethod")
              ELSE IF fl.ro THEN Err("services", "fileAccessDenied")
              ELSE WAck(am, IF p = -1 THEN Len(c) ELSE p)
    IN  /\ p >= -1
        /\ res' = r
        /\ act' = [op |-> op, f |-> f, start |-> p, count |-> Len(d), data |-> d]
        /\ files' = IF r.k = "wack" THEN [files EXCEPT ![f].content = Overlay(c, r.start, d, Pad(am))] ELSE files
        /\ size' = IF SizeNotMaintained THEN size ELSE SizeOf(files')
        /\ lvl' = lvl + 1

ReadStream(f, s, n)  == Read("rs", f, s, n)
ReadRecord(f, s, n)  == Read("rr", f, s, n)
WriteStream(f, p, d) == Write("ws", f, p, d)
WriteRecord(f, p, d) == Write("wr", f, p, d)

Init ==
    /\ files \in Files0 /\ size = SizeOf(files)
    /\ res = NoRes /\ act = InitAct /\ lvl = 0

\* the model-checking alphabet keeps contents within MaxLen tokens
Fits(f, p, d) ==
    LET n == Len(files[f].content) IN Max(n, (IF p = -1 THEN n ELSE p) + Len(d)) <= MaxLen

Next ==
    /\ lvl < MaxLevel
    /\ \E f \in F :
          \/ \E s \in Positions, n \in Counts : ReadStream(f, s, n) \/ ReadRecord(f, s, n)
          \/ \E p \in Positions, d \in Data : Fits(f, p, d) /\ (WriteStream(f, p, d) \/ WriteRecord(f, p, d))

Spec == Init /\ [][Next]_vars

(***************************************************************************)
(* The property.  Every formula is a step formula over (files, size, act,   *)
(* res) before and after one request; TLC checks [][M]_vars on the design   *)
(* and Trace_FileSvc evaluates the same M on every recorded step of the     *)
(* implementation.                                                          *)
(***************************************************************************)
Acked(r) == r.k \in {"rack", "wack"}
\* the reasons for which the request act' may be refused in the state before it, with the error each one is given
\* (a write with the wrong access method to a read-only file may be refused for either reason)
Reasons ==
    LET a == act'
        fl == files[a.f]
        n == Len(fl.content)
    IN  (IF fl.access # AM(a) THEN {<<"services", "invalidFileAccessMethod">>} ELSE {})
        \cup (IF IsRead(a) /\ fl.access = AM(a) /\ (a.start < 0 \/ a.start > n)
              THEN {<<"services", "invalidFileStartPosition">>} ELSE {})
        \cup (IF IsWrite(a) /\ fl.ro THEN {<<"services", "fileAccessDenied">>} ELSE {})

\* refused exactly when there is a reason, with that reason's error; otherwise acknowledged in kind
RefusalIffInvalid ==
    IF Reasons = {}
    THEN res'.k = (IF IsRead(act') THEN "rack" ELSE "wack") /\ res'.am = AM(act')
    ELSE res'.k = "err" /\ <<res'.cls, res'.code>> \in Reasons

ReadIsSlice ==
    (IsRead(act') /\ res'.k = "rack") =>
        /\ res'.start = act'.start
        /\ act'.start \in 0..Len(files[act'.f].content)
        /\ res'.data = Slice(files[act'.f].content, act'.start, act'.count)
        /\ res'.n = Len(res'.data)

EofExact ==
    (IsRead(act') /\ res'.k = "rack") =>
        (res'.eof <=> (act'.start + act'.count >= Len(files[act'.f].content)))

\* an acknowledged write put the data exactly at the acknowledged position, which is the requested one (the end for -1)
WriteExact ==
    (IsWrite(act') /\ res'.k = "wack") =>
        LET c == files[act'.f].content IN
        /\ res'.start = (IF act'.start = -1 THEN Len(c) ELSE act'.start)
        /\ files' = [files EXCEPT ![act'.f].content = Overlay(c, res'.start, act'.data, Pad(AM(act')))]

\* a read of the range an acknowledged write has just reported returns what was written
WriteThenRead ==
    (/\ IsWrite(act) /\ res.k = "wack" /\ IsRead(act') /\ AM(act') = AM(act) /\ act'.f = act.f
     /\ act'.start = res.start /\ act'.count = Len(act.data))
    => (res'.k = "rack" /\ res'.data = act.data)

RefusalChangesNothing == ~Acked(res') => (files' = files /\ size' = size)
ReadsChangeNothing == IsRead(act') => (files' = files /\ size' = size)
SizeTracksContent == size' = SizeOf(files')

Shape ==
    /\ DOMAIN files = F /\ DOMAIN size = F
    /\ \A g \in F : files[g].access \in {"stream", "record"} /\ files[g].ro \in BOOLEAN

P_RefusalIffInvalid == [][RefusalIffInvalid]_vars
P_ReadIsSlice == [][ReadIsSlice]_vars
P_EofExact == [][EofExact]_vars
P_WriteExact == [][WriteExact]_vars
P_WriteThenRead == [][WriteThenRead]_vars
P_RefusalChangesNothing == [][RefusalChangesNothing]_vars
P_ReadsChangeNothing == [][ReadsChangeNothing]_vars
P_SizeTracksContent == [][SizeTracksContent]_vars
=============================================================================
