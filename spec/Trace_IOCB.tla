---------------------------- MODULE Trace_IOCB ----------------------------
(***************************************************************************)
(* Trace validation for IOCB.tla.  Each line of TRACE_FILE is one           *)
(* execution recorded from the real classes of bacpypes/iocb.py (IOCB,      *)
(* IOChain, IOGroup, a recording subclass of IOQController) under virtual   *)
(* time:                                                                    *)
(*   {"tid":n, "prio":[..], "kind":[..], "wait":w,                          *)
(*    "evs":[{"op":"request","x":1,"a":0,"b":0,                             *)
(*            "s":{...projected state after the call...}}, ...]}            *)
(* For every step TLC decides (a) conformance: is the logged post-state the *)
(* successor of the logged pre-state under the IOCB action named by the     *)
(* event (with the deviation flags given as constants), and (b) the X04     *)
(* monitors on the logged states (the monitors never look at the flags).    *)
(* One verdict record per trace ("@@" prefix); nothing halts the run.       *)
(***************************************************************************)
EXTENDS IOCB, Json, IOUtils, TLCExt

Traces == ndJsonDeserialize(IOEnv.TRACE_FILE)
VARIABLES tid, l, rej, viol
tvars == <<tid, l, rej, viol>>
T == Traces[tid].evs

TInit ==
    /\ tid \in 1..Len(Traces) /\ l = 1 /\ rej = 0 /\ viol = {}
    /\ st = [x \in X |-> IF x \in C THEN "unborn" ELSE IF x \in G THEN "completed" ELSE "idle"]
    /\ ev = [x \in X |-> x \in G]
    /\ gen = [x \in X |-> IF x \in G THEN 1 ELSE 0]
    /\ cbs = [x \in X |-> <<>>] /\ tmo = [x \in X |-> NoT] /\ ctl = [x \in X |-> 0]
    /\ decf = [x \in X |-> FALSE] /\ mem = [x \in X |-> <<>>]
    /\ cstate = "idle" /\ active = 0 /\ queue = <<>> /\ qne = FALSE /\ trig = 0 /\ wtm = NoT
    /\ reqseq = <<>> /\ out = <<>> /\ exc = "" /\ act = A("init", 0, 0, 0)
    /\ prio = Traces[tid].prio /\ kind = Traces[tid].kind /\ wait = Traces[tid].wait

Act(e) ==
    CASE e.op = "request"  -> Request(e.x)
      [] e.op = "complete" -> Complete(e.x)
      [] e.op = "abort"    -> AbortOp(e.x)
      [] e.op = "addcb"    -> AddCallback(e.x)
      [] e.op = "timeout"  -> SetTimeout(e.x, e.a)
      [] e.op = "fire"     -> Fire(e.x)
      [] e.op = "trigger"  -> RunTrigger
      [] e.op = "wfire"    -> WaitFire
      [] e.op = "advance"  -> Advance
      [] e.op = "settle"   -> Settle
      [] e.op = "cabort"   -> CtlAbort
      [] e.op = "qabort"   -> QAbort
      [] e.op = "gadd"     -> GAdd(e.x, e.a)
      [] e.op = "gabort"   -> GAbortOp(e.x)
      [] e.op = "chain"    -> Chain(e.x, e.a, e.b % 2 = 1, e.b >= 2)
      [] OTHER             -> FALSE

\* the projection logged by the harness after the step
Bind(e) ==
    /\ st' = e.s.st /\ ev' = e.s.ev /\ gen' = e.s.gen /\ cbs' = e.s.cbs /\ tmo' = e.s.tmo /\ ctl' = e.s.ctl
    /\ decf' = e.s.decf /\ mem' = e.s.mem /\ cstate' = e.s.cstate /\ active' = e.s.active /\ queue' = e.s.queue
    /\ qne' = e.s.qne
    /\ trig' = e.s.trig /\ wtm' = e.s.wtm /\ reqseq' = e.s.reqseq /\ out' = e.s.out /\ exc' = e.s.exc
    /\ act' = A(e.op, e.x, e.a, e.b)
    /\ UNCHANGED <<prio, kind, wait>>

Failing ==
    (IF OneCompletion' THEN {} ELSE {"OneCompletion"}) \cup
    (IF GroupDoneIffMembers' THEN {} ELSE {"GroupDoneIffMembers"}) \cup
    (IF OneActive' THEN {} ELSE {"OneActive"}) \cup
    (IF QueueOrder' THEN {} ELSE {"QueueOrder"}) \cup
    (IF PendingIffQueued' THEN {} ELSE {"PendingIffQueued"}) \cup
    (IF QueuedAreBound' THEN {} ELSE {"QueuedAreBound"}) \cup
    (IF NotEmptyEvent' THEN {} ELSE {"NotEmptyEvent"}) \cup
    (IF NoStall' THEN {} ELSE {"NoStall"}) \cup
    (IF NoResidue' THEN {} ELSE {"NoResidue"}) \cup
    (IF ChainLinked' THEN {} ELSE {"ChainLinked"}) \cup
    (IF Absorbing THEN {} ELSE {"Absorbing"}) \cup
    (IF CallbackPerCompletion THEN {} ELSE {"CallbackPerCompletion"}) \cup
    (IF TimerCancelled THEN {} ELSE {"TimerCancelled"}) \cup
    (IF StartInOrder THEN {} ELSE {"StartInOrder"}) \cup
    (IF TriggerProgress THEN {} ELSE {"TriggerProgress"}) \cup
    (IF AbortRemovesPending THEN {} ELSE {"AbortRemovesPending"}) \cup
    (IF AbortFreesController THEN {} ELSE {"AbortFreesController"}) \cup
    (IF AbortAllPending THEN {} ELSE {"AbortAllPending"}) \cup
    (IF NoException THEN {} ELSE {"NoException"}) \cup
    (IF RefusalChangesNothing THEN {} ELSE {"RefusalChangesNothing"}) \cup
    (IF TimeoutAborts THEN {} ELSE {"TimeoutAborts"}) \cup
    (IF GroupAbort THEN {} ELSE {"GroupAbort"}) \cup
    (IF ChainOutcome THEN {} ELSE {"ChainOutcome"})

\* every failing (monitor, step) is reported (the harness groups them into classes)
Step ==
    /\ l <= Len(T)
    /\ LET e == T[l] IN
        /\ Bind(e)
        /\ rej' = IF rej = 0 /\ ~ENABLED (Act(e) /\ Bind(e)) THEN l ELSE rej
        /\ viol' = viol \cup {<<m, l>> : m \in Failing}
    /\ l' = l + 1 /\ UNCHANGED tid

Done ==
    /\ l = Len(T) + 1
    /\ PrintT(<<"@@", [tid |-> Traces[tid].tid, rej |-> rej, viol |-> viol]>>)
    /\ l' = l + 1 /\ UNCHANGED <<vars, tid, rej, viol>>

TNext == Step \/ Done
TSpec == TInit /\ [][TNext]_<<vars, tvars>>
=============================================================================
