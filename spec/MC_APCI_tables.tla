--------------------------- MODULE MC_APCI_tables ---------------------------
(***************************************************************************)
(* C07, the two code tables of 20.1.2.4 / 20.1.2.5 on the model:           *)
(* one TLC state per capability 0..MaxCap, both table functions.           *)
(***************************************************************************)
EXTENDS APCI

CONSTANT MaxCap
VARIABLE cap

Init == cap \in 0..MaxCap
Next == UNCHANGED cap
Spec == Init /\ [][Next]_cap

\* the cascade definitions satisfy the quantified "largest truthful code" clause, and only they do
SegRoundDown  == \A c \in {NoCode} \cup SegCodes  : SegRoundsDown(cap, c)  <=> c = SegCode(cap)
ApduRoundDown == \A c \in {NoCode} \cup ApduCodes : ApduRoundsDown(cap, c) <=> c = ApduCode(cap)

\* never up: the announced number never exceeds the capability
NeverUp ==
    /\ SegCode(cap) \in 1..6 => SegMeaning(SegCode(cap)).n <= cap
    /\ SegCode(cap) = 7 => cap > SegMeaning(7).n
    /\ ApduCode(cap) # NoCode => ApduMeaning(ApduCode(cap)).n <= cap
\* ... and no further down than the next code point
Tight ==
    /\ SegCode(cap) \in 1..5 => cap < SegMeaning(SegCode(cap) + 1).n
    /\ SegCode(cap) = 6 => cap = 64
    /\ ApduCode(cap) \in 0..4 => cap < ApduMeaning(ApduCode(cap) + 1).n
\* a result is a code point of the field (or NoCode below the smallest meaning)
Range ==
    /\ SegCode(cap) \in SegCodes \cup {NoCode} /\ (SegCode(cap) = NoCode <=> cap = 1)
    /\ ApduCode(cap) \in 0..5 \cup {NoCode}    /\ (ApduCode(cap) = NoCode <=> cap < 50)
\* monotonic in the capability (NoCode = -1 sorts below every code; capability 0 = "not stated" is not a number)
Monotonic ==
    cap < MaxCap =>
        /\ cap >= 1 => SegCode(cap) <= SegCode(cap + 1)
        /\ ApduCode(cap) <= ApduCode(cap + 1)
\* announcing, then reading the announcement as a capability, announces the same code again
Idempotent ==
    /\ SegCode(cap) \in 1..6 => SegCode(SegMeaning(SegCode(cap)).n) = SegCode(cap)
    /\ ApduCode(cap) # NoCode => ApduCode(ApduMeaning(ApduCode(cap)).n) = ApduCode(cap)

\* code points (constant level)
ASSUME \A c \in 1..6 : SegCode(SegMeaning(c).n) = c                   \* Code o Meaning = id
ASSUME \A c \in 0..5 : ApduCode(ApduMeaning(c).n) = c
ASSUME \A c \in 2..6 : SegCode(SegMeaning(c).n - 1) = c - 1           \* one below a code point -> previous code
ASSUME \A c \in 1..5 : ApduCode(ApduMeaning(c).n - 1) = c - 1
ASSUME SegCode(0) = 0 /\ SegMeaning(0).kind = "unspecified"
ASSUME SegCode(65) = 7 /\ SegCode(64) = 6 /\ SegMeaning(7) = [kind |-> "morethan", n |-> 64]
ASSUME SegCode(1) = NoCode /\ ApduCode(49) = NoCode /\ ApduCode(50) = 0
ASSUME \A c \in 6..15 : ApduMeaning(c).kind = "reserved"
ASSUME \A c \in 1..5 : SegTable[c] < SegTable[c + 1] /\ SegTable[c + 1] = 2 * SegTable[c]
ASSUME \A c \in 1..5 : ApduTable[c] < ApduTable[c + 1]
ASSUME Len(SegTable) = 6 /\ Len(ApduTable) = 6
=============================================================================
