SPECIFICATION Spec
CONSTANT Full = FALSE
INVARIANT CaseWellFormed
INVARIANT RoundTrip
INVARIANT Layout
INVARIANT Emit
CHECK_DEADLOCK FALSE
