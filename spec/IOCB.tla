-------------------------------- MODULE IOCB --------------------------------
(***************************************************************************)
(* X04 -- bacpypes/iocb.py as a sequential library: IOCB, IOQueue,          *)
(* IOQController, IOGroup, IOChainMixIn / IOChain.                          *)
(*                                                                          *)
(* Objects X = B \cup C \cup G (numbered 1..N):                             *)
(*   B  plain IOCBs                                                         *)
(*   C  IOChain objects ("unborn" until Chain(c, p) constructs c from p)    *)
(*   G  IOGroups                                                            *)
(* and ONE IOQController (a test subclass whose process_io records the      *)
(* IOCB and calls active_io; kind[x] = "bad": process_io raises,            *)
(* "sync": it completes the IOCB before it returns).                        *)
(*                                                                          *)
(* One action per public call / deferred call / timer firing:               *)
(*   Request(x)      IOQController.request_io                               *)
(*   Complete(x)     IOCB.complete  (-> complete_io when bound)             *)
(*   AbortOp(x)      IOCB.abort     (-> abort_io when bound / chained)      *)
(*   AddCallback(x)  IOCB.add_callback                                      *)
(*   SetTimeout(x,d) IOCB.set_timeout                                       *)
(*   Fire(x)         the timeout task of x runs                             *)
(*   RunTrigger      one deferred IOQController._trigger runs               *)
(*   WaitFire        the wait_time task (_wait_trigger) runs                *)
(*   Advance         the clock moves by one unit                            *)
(*   Settle          core.run_once: everything due at this instant runs     *)
(*   CtlAbort        IOQController.abort(err)                               *)
(*   QAbort          IOQueue.abort(err) on the controller's queue           *)
(*   GAdd(g, m)      IOGroup.add                                            *)
(*   GAbortOp(g)     IOGroup.abort                                          *)
(*   Chain(c,p,e,d)  IOChain(p) (e: encode() raises, d: decode() raises)    *)
(* Callbacks cascade synchronously (IOCB.trigger -> chain_callback ->       *)
(* parent.trigger -> group_callback -> group.trigger): one action is the    *)
(* whole cascade, written as functions on a record of the mutable state.    *)
(*                                                                          *)
(* Time: timers carry the number of units left (NoT = not armed); a due     *)
(* timer (0 left) must run before the clock moves on.                       *)
(*                                                                          *)
(* Named deviations (all FALSE in the intended design; each one is what     *)
(* the pinned code does, and each must make TLC find a violation):          *)
(*   AddCallbackRefires    add_callback on a finished IOCB calls trigger(): *)
(*                         every earlier callback runs again                *)
(*   CompleteOverridesDone IOCB.complete on a finished, unbound IOCB sets   *)
(*                         COMPLETED again and re-triggers (abort has the   *)
(*                         guard, complete has not)                         *)
(*   GroupAbortUnguarded   IOGroup.abort: the last member's group_callback  *)
(*                         overwrites ABORTED with COMPLETED and triggers,  *)
(*                         then abort triggers again; a finished group is   *)
(*                         aborted and triggered again                      *)
(*   QueueAbortRaises      IOQueue.abort iterates over (priority, iocb)     *)
(*                         tuples: AttributeError on a non-empty queue      *)
(*   AbortIdleNoop         IOQController.abort returns at once when the     *)
(*                         controller is idle, also when requests are       *)
(*                         still queued (trigger not yet run)               *)
(*   IdleBypass            request_io on an idle controller processes the   *)
(*                         new request at once although earlier requests    *)
(*                         are still queued                                 *)
(***************************************************************************)
EXTENDS Integers, Sequences, FiniteSets, TLC

CONSTANTS
    B, C, G,            \* disjoint sets of positive integers, B \cup C \cup G = 1..N
    PrioMaps,           \* set of [X -> Int]: candidates for ioPriority (chosen in Init)
    KindMaps,           \* set of [X -> {"norm", "bad", "sync"}]: what process_io does with x
    Waits,              \* candidates for wait_time in clock units (0 = none)
    Delays,             \* delays SetTimeout may use (model checking only)
    EncFails, DecFails, \* subsets of BOOLEAN: may encode() / decode() of a chain raise
    MaxCb, MaxTrig,     \* bounds for model checking: user callbacks per object, outstanding triggers
    MaxFire,            \* ... and calls per callback
    CbOn, TimerOn,      \* model checking: the objects that get user callbacks / timeouts
    Ops,                \* model checking: which of the optional calls are in the alphabet ("request", "complete", "abort",
                        \* "cabort", "qabort", "gabort", "settle"; deferred calls, timers, GAdd, Chain always are)
    AddCallbackRefires, CompleteOverridesDone, GroupAbortUnguarded,
    QueueAbortRaises, AbortIdleNoop, IdleBypass

X == B \cup C \cup G
NoT == -1               \* timer not armed
Q == -1                 \* ctl value: bound to the queue controller

VARIABLES
    st,         \* [X -> state]  ioState ("unborn": chain object not yet constructed)
    ev,         \* [X -> BOOLEAN]  ioComplete.isSet()  (what wait() observes)
    gen,        \* [X -> Nat]  how many times the completion event went from clear to set
    cbs,        \* [X -> Seq(Nat)]  per user callback (registration order): number of calls
    tmo,        \* [X -> Int]  units left on the timeout task, NoT = none
    ctl,        \* [X -> Int]  ioController: 0 none, Q the queue controller, c \in C the chain object
    decf,       \* [X -> BOOLEAN]  decode() of chain object x raises
    mem,        \* [X -> Seq(X)]  ioMembers (groups only)
    cstate,     \* "idle" | "active" | "waiting"
    active,     \* active_iocb (0 = none)
    queue,      \* ioQueue.queue as a sequence of objects
    qne,        \* ioQueue.notempty.isSet()
    trig,       \* number of deferred _trigger calls outstanding
    wtm,        \* units left on the wait_time task, NoT = none
    reqseq,     \* history: objects in the order they were passed to request_io
    out,        \* observation: objects handed to process_io by the last step, in order
    exc,        \* observation: exception class raised by the last call ("" = none)
    act,        \* the step that produced this state
    prio, kind, wait    \* chosen once (Init)

vars == <<st, ev, gen, cbs, tmo, ctl, decf, mem, cstate, active, queue, qne, trig, wtm, reqseq, out, exc, act,
          prio, kind, wait>>
\* what the future depends on (act / exc / out only describe the last step)
view == <<st, ev, gen, cbs, tmo, ctl, decf, mem, cstate, active, queue, trig, wtm, reqseq, prio, kind, wait>>

IsDone(v) == v \in {"completed", "aborted"}
InSeq(s, x) == \E i \in 1..Len(s) : s[i] = x
Without(s, x) == SelectSeq(s, LAMBDA y : y # x)
Pos(s, x) == CHOOSE i \in 1..Len(s) : s[i] = x
Born(x) == st[x] # "unborn"

----------------------------------------------------------------------------
\* the mutable state as a record; the operators below are the methods of iocb.py as functions on it
S == [st |-> st, ev |-> ev, gen |-> gen, cbs |-> cbs, tmo |-> tmo, ctl |-> ctl, decf |-> decf, mem |-> mem,
      cstate |-> cstate, active |-> active, queue |-> queue, trig |-> trig, wtm |-> wtm, out |-> <<>>]

GroupsOf(s, x) == {g \in G : InSeq(s.mem[g], x)}
ParentOf(s, c) == IF \E p \in X : s.ctl[p] = c THEN CHOOSE p \in X : s.ctl[p] = c ELSE 0

RECURSIVE Trig(_, _), GroupCbs(_, _)

\* IOCB.trigger: leave the queue, cancel the timer, set the event, call the callbacks in registration order
\* (chain_callback was registered by the constructor, group_callback by IOGroup.add)
Trig(s, x) ==
    LET s1 == [s EXCEPT !.queue = Without(@, x), !.tmo[x] = NoT,
                        !.gen[x] = IF s.ev[x] THEN @ ELSE @ + 1, !.ev[x] = TRUE,
                        !.cbs[x] = [j \in DOMAIN @ |-> @[j] + 1]]
        \* IOChainMixIn.chain_callback: decode (copy the outcome up, or ABORTED when decode raises), unlink, trigger the parent
        s2 == IF x \in C /\ ParentOf(s1, x) # 0
              THEN LET p == ParentOf(s1, x) IN
                   Trig([s1 EXCEPT !.st[p] = IF s1.decf[x] THEN "aborted" ELSE s1.st[x], !.ctl[p] = 0], p)
              ELSE s1
    IN  GroupCbs(s2, GroupsOf(s2, x))

\* IOGroup.group_callback for every group x belongs to
GroupCbs(s, gs) ==
    IF gs = {} THEN s
    ELSE LET g == CHOOSE h \in gs : \A k \in gs : h <= k
             alldone == \A i \in 1..Len(s.mem[g]) : s.ev[s.mem[g][i]]
             s1 == IF alldone
                   THEN Trig([s EXCEPT !.st[g] = IF s.st[g] = "aborted" /\ ~GroupAbortUnguarded
                                                 THEN "aborted" ELSE "completed"], g)
                   ELSE s
         IN  GroupCbs(s1, gs \ {g})

\* IOQController.abort_io
CtlAbortIO(s, x) ==
    LET s1 == IF IsDone(s.st[x]) THEN s ELSE Trig([s EXCEPT !.st[x] = "aborted"], x)
    IN  IF s1.active # x THEN s1
        ELSE [s1 EXCEPT !.active = 0, !.cstate = "idle", !.trig = @ + 1]

\* IOQController.complete_io (x is the active one)
CtlCompleteIO(s, x) ==
    LET s1 == IF IsDone(s.st[x]) THEN s ELSE Trig([s EXCEPT !.st[x] = "completed"], x)
    IN  IF wait > 0 THEN [s1 EXCEPT !.active = 0, !.cstate = "waiting", !.wtm = wait]
        ELSE [s1 EXCEPT !.active = 0, !.cstate = "idle", !.trig = @ + 1]

\* IOCB.abort of a plain or chain object
RECURSIVE Abort(_, _)
Abort(s, x) ==
    IF s.ctl[x] = Q THEN CtlAbortIO(s, x)
    ELSE IF s.ctl[x] > 0 THEN Abort(s, s.ctl[x])        \* IOChainMixIn.abort_io: forward to the chain object
    ELSE IF ~IsDone(s.st[x]) THEN Trig([s EXCEPT !.st[x] = "aborted"], x)
    ELSE s

\* process_io of the test controller, with the error handling of request_io / _trigger around it
Process(s, x) ==
    LET s0 == [s EXCEPT !.out = Append(@, x)]
        on == [s0 EXCEPT !.st[x] = "active", !.cstate = "active", !.active = x]       \* active_io
    IN  CASE kind[x] = "bad"  -> CtlAbortIO(s0, x)
          [] kind[x] = "sync" -> CtlCompleteIO(on, x)
          [] OTHER            -> on

\* IOQueue.put: behind everything of the same or a more urgent (smaller) priority
Put(q, x) ==
    LET k == Cardinality({i \in 1..Len(q) : prio[q[i]] <= prio[x]})
    IN  SubSeq(q, 1, k) \o <<x>> \o SubSeq(q, k + 1, Len(q))

\* body of IOQController._trigger
TrigBody(s) ==
    IF s.cstate # "idle" \/ s.queue = <<>> THEN s
    ELSE LET x  == Head(s.queue)
             s1 == Process([s EXCEPT !.queue = Tail(@)], x)
         IN  IF s1.cstate = "idle" THEN [s1 EXCEPT !.trig = @ + 1] ELSE s1

\* every queued request is aborted, in queue order
RECURSIVE AbortQueued(_)
AbortQueued(s) ==
    IF s.queue = <<>> THEN s
    ELSE LET x == Head(s.queue) IN AbortQueued(Trig([s EXCEPT !.queue = Tail(@), !.st[x] = "aborted"], x))

\* IOGroup.abort
RECURSIVE AbortMembers(_, _, _)
AbortMembers(s, g, i) == IF i > Len(s.mem[g]) THEN s ELSE AbortMembers(Abort(s, s.mem[g][i]), g, i + 1)
GAbort(s, g) ==
    IF s.ev[g] /\ ~GroupAbortUnguarded THEN s
    ELSE LET s1 == AbortMembers([s EXCEPT !.st[g] = "aborted"], g, 1)
         IN  IF GroupAbortUnguarded \/ ~s1.ev[g] THEN Trig(s1, g) ELSE s1

\* the three things the run loop does, as functions: a timeout task runs, a deferred _trigger runs, the wait task runs
FireF(s, x) == LET s0 == [s EXCEPT !.tmo[x] = NoT] IN IF x \in G THEN GAbort(s0, x) ELSE Abort(s0, x)
TrigF(s) == TrigBody([s EXCEPT !.trig = @ - 1])
WFireF(s) == TrigBody([s EXCEPT !.wtm = NoT, !.cstate = "idle"])

\* core.run_once at one instant: due tasks and deferred calls run until nothing is left.  The order in which the loop
\* takes them is the kernel's business (Kernel.tla); here every order is allowed.
Micro(s) ==
    {FireF(s, x) : x \in {y \in X : s.tmo[y] = 0}}
    \cup (IF s.wtm = 0 /\ s.cstate = "waiting" THEN {WFireF(s)} ELSE {})
    \cup (IF s.trig > 0 THEN {TrigF(s)} ELSE {})
RECURSIVE Closure(_)
Closure(s) == IF Micro(s) = {} THEN {s} ELSE UNION {Closure(t) : t \in Micro(s)}

----------------------------------------------------------------------------
Set(r, a, e) ==
    /\ st' = r.st /\ ev' = r.ev /\ gen' = r.gen /\ cbs' = r.cbs /\ tmo' = r.tmo /\ ctl' = r.ctl /\ decf' = r.decf
    /\ mem' = r.mem /\ cstate' = r.cstate /\ active' = r.active /\ queue' = r.queue /\ trig' = r.trig
    /\ wtm' = r.wtm /\ out' = r.out /\ exc' = e /\ act' = a
    /\ qne' = (r.queue # <<>>)
    /\ UNCHANGED <<prio, kind, wait>>
A(op, x, a, b) == [op |-> op, x |-> x, a |-> a, b |-> b]

Init ==
    /\ st = [x \in X |-> IF x \in C THEN "unborn" ELSE IF x \in G THEN "completed" ELSE "idle"]
    /\ ev = [x \in X |-> x \in G]            \* an empty group is complete from the start
    /\ gen = [x \in X |-> IF x \in G THEN 1 ELSE 0]
    /\ cbs = [x \in X |-> <<>>] /\ tmo = [x \in X |-> NoT] /\ ctl = [x \in X |-> 0]
    /\ decf = [x \in X |-> FALSE] /\ mem = [x \in X |-> <<>>]
    /\ cstate = "idle" /\ active = 0 /\ queue = <<>> /\ qne = FALSE /\ trig = 0 /\ wtm = NoT
    /\ reqseq = <<>> /\ out = <<>> /\ exc = "" /\ act = A("init", 0, 0, 0)
    /\ prio \in PrioMaps /\ kind \in KindMaps /\ wait \in Waits

Request(x) ==
    /\ x \in B \cup C /\ st[x] = "idle" /\ ctl[x] = 0
    /\ LET s0   == [S EXCEPT !.ctl[x] = Q]
           busy == cstate # "idle" \/ (~IdleBypass /\ queue # <<>>)
           r    == IF busy THEN [s0 EXCEPT !.st[x] = "pending", !.queue = Put(@, x)] ELSE Process(s0, x)
       IN  Set(r, A("request", x, 0, 0), "")
    /\ reqseq' = Append(reqseq, x)

\* complete_io of anything but the active request is refused (RuntimeError "not the current iocb")
Complete(x) ==
    /\ x \in B \cup C /\ Born(x) /\ ctl[x] <= 0
    /\ IF ctl[x] = Q
       THEN IF active = x THEN Set(CtlCompleteIO(S, x), A("complete", x, 0, 0), "")
            ELSE Set(S, A("complete", x, 0, 0), "RuntimeError")
       ELSE IF IsDone(st[x]) /\ ~CompleteOverridesDone THEN Set(S, A("complete", x, 0, 0), "")
            ELSE Set(Trig([S EXCEPT !.st[x] = "completed"], x), A("complete", x, 0, 0), "")
    /\ UNCHANGED reqseq

AbortOp(x) ==
    /\ x \in B \cup C /\ Born(x)
    /\ Set(Abort(S, x), A("abort", x, 0, 0), "")
    /\ UNCHANGED reqseq

AddCallback(x) ==
    /\ x \in X /\ Born(x)
    /\ LET s0 == [S EXCEPT !.cbs[x] = Append(@, 0)]
           r  == IF ~ev[x] THEN s0
                 ELSE IF AddCallbackRefires THEN Trig(s0, x)
                 ELSE [S EXCEPT !.cbs[x] = Append(@, 1)]
       IN  Set(r, A("addcb", x, 0, 0), "")
    /\ UNCHANGED reqseq

\* (a timer set on a finished IOCB is armed too; it does nothing when it runs)
SetTimeout(x, d) ==
    /\ x \in X /\ Born(x) /\ d >= 1
    /\ Set([S EXCEPT !.tmo[x] = d], A("timeout", x, d, 0), "")
    /\ UNCHANGED reqseq

Fire(x) ==
    /\ x \in X /\ tmo[x] = 0
    /\ Set(FireF(S, x), A("fire", x, 0, 0), "")
    /\ UNCHANGED reqseq

RunTrigger ==
    /\ trig > 0
    /\ Set(TrigF(S), A("trigger", 0, 0, 0), "")
    /\ UNCHANGED reqseq

WaitFire ==
    /\ wtm = 0 /\ cstate = "waiting"
    /\ Set(WFireF(S), A("wfire", 0, 0, 0), "")
    /\ UNCHANGED reqseq

Advance ==
    /\ \A x \in X : tmo[x] # 0
    /\ wtm # 0
    /\ Set([S EXCEPT !.tmo = [x \in X |-> IF tmo[x] > 0 THEN tmo[x] - 1 ELSE tmo[x]],
                     !.wtm = IF wtm > 0 THEN wtm - 1 ELSE wtm], A("advance", 0, 0, 0), "")
    /\ UNCHANGED reqseq

\* one pass of the run loop (vt.step_all / core.run_once): everything due at this instant
Settle ==
    /\ \E r \in Closure(S) : Set(r, A("settle", 0, 0, 0), "")
    /\ UNCHANGED reqseq

CtlAbort ==
    /\ Set(IF cstate = "idle" /\ AbortIdleNoop THEN S ELSE AbortQueued(S), A("cabort", 0, 0, 0), "")
    /\ UNCHANGED reqseq

QAbort ==
    /\ IF queue # <<>> /\ QueueAbortRaises THEN Set(S, A("qabort", 0, 0, 0), "AttributeError")
       ELSE Set(AbortQueued(S), A("qabort", 0, 0, 0), "")
    /\ UNCHANGED reqseq

GAdd(g, m) ==
    /\ g \in G /\ m \in B \cup C /\ Born(m) /\ ~InSeq(mem[g], m)
    \* (usage restriction: an IOCB and the chain object it is currently chained to are not put into the same group --
    \* both finish in one cascade and group_callback, which has no "already complete" test, would trigger the group twice)
    /\ \A i \in 1..Len(mem[g]) : ctl[mem[g][i]] # m /\ ctl[m] # mem[g][i]
    /\ LET s0 == [S EXCEPT !.mem[g] = Append(@, m), !.st[g] = "pending", !.ev[g] = FALSE]
           r  == IF ~ev[m] THEN s0
                 ELSE IF AddCallbackRefires THEN Trig(s0, m)
                 ELSE GroupCbs(s0, {g})
       IN  Set(r, A("gadd", g, m, 0), "")
    /\ UNCHANGED reqseq

GAbortOp(g) ==
    /\ g \in G
    /\ Set(GAbort(S, g), A("gabort", g, 0, 0), "")
    /\ UNCHANGED reqseq

\* IOChain(p): p becomes ACTIVE with the new object c as its controller; encode() raising aborts p through c
Chain(c, p, ef, df) ==
    /\ c \in C /\ st[c] = "unborn" /\ p \in B /\ st[p] = "idle" /\ ctl[p] = 0
    /\ LET s0 == [S EXCEPT !.st[c] = "idle", !.st[p] = "active", !.ctl[p] = c, !.decf[c] = df]
       IN  Set(IF ef THEN Abort(s0, p) ELSE s0, A("chain", c, p, (IF ef THEN 1 ELSE 0) + (IF df THEN 2 ELSE 0)), "")
    /\ UNCHANGED reqseq

Timers == {tmo[x] : x \in X} \cup {wtm}

Next ==
    \/ \E x \in B \cup C : \/ ("request" \in Ops /\ Request(x))
                           \/ ("complete" \in Ops /\ Complete(x))
                           \/ ("abort" \in Ops /\ AbortOp(x))
    \/ \E x \in CbOn : Len(cbs[x]) < MaxCb /\ AddCallback(x)
    \/ \E x \in TimerOn : Fire(x) \/ \E d \in Delays : SetTimeout(x, d)
    \/ RunTrigger \/ WaitFire
    \/ ("cabort" \in Ops /\ CtlAbort) \/ ("qabort" \in Ops /\ QAbort)
    \/ ("settle" \in Ops /\ Micro(S) # {} /\ Settle)
    \/ ((\E t \in Timers : t > 0) /\ Advance)
    \/ \E g \in G : ("gabort" \in Ops /\ GAbortOp(g)) \/ \E m \in B \cup C : GAdd(g, m)
    \/ \E c \in C, p \in B, ef \in EncFails, df \in DecFails : Chain(c, p, ef, df)

Bound == /\ trig <= MaxTrig
         /\ \A x \in X : \A j \in 1..Len(cbs[x]) : cbs[x][j] <= MaxFire    \* (only a deviation lets a callback run that often)
\* (the bounds are part of the next-state relation: no CONSTRAINT needed, liveness stays meaningful)
Spec == Init /\ [][Next /\ Bound']_vars

----------------------------------------------------------------------------
\* Properties.  State formulas first.
TypeOK ==
    /\ \A x \in X : st[x] \in {"unborn", "idle", "pending", "active", "completed", "aborted"}
    /\ cstate \in {"idle", "active", "waiting"} /\ active \in X \cup {0}

\* a plain or chain IOCB finishes at most once, and "finished" means the same thing everywhere:
\* terminal state <=> completion event set <=> one completion
OneCompletion ==
    \A x \in B \cup C : gen[x] <= 1 /\ (ev[x] <=> gen[x] = 1) /\ (ev[x] <=> IsDone(st[x]))

\* a group is done exactly when all of its members are (an empty group is done)
GroupDoneIffMembers ==
    \A g \in G : /\ st[g] \in {"pending", "completed", "aborted"}
                 /\ (ev[g] <=> IsDone(st[g]))
                 /\ (ev[g] <=> \A i \in 1..Len(mem[g]) : ev[mem[g][i]])

\* at most one request is being processed by the controller
OneActive ==
    /\ Cardinality({x \in X : st[x] = "active" /\ ctl[x] = Q}) <= 1
    /\ (active # 0 => st[active] = "active" /\ ctl[active] = Q)
    /\ (cstate = "active" <=> active # 0)
    /\ \A x \in X : (st[x] = "active" /\ ctl[x] = Q) => active = x

\* the queue is ordered by priority (smaller first), first-in first-out among equal priorities
QueueOrder ==
    /\ \A i, j \in 1..Len(queue) : i < j => queue[i] # queue[j]
    /\ \A i \in 1..(Len(queue) - 1) : prio[queue[i]] <= prio[queue[i + 1]]
    /\ \A i, j \in 1..Len(queue) :
          (i < j /\ prio[queue[i]] = prio[queue[j]] /\ InSeq(reqseq, queue[i]) /\ InSeq(reqseq, queue[j]))
          => Pos(reqseq, queue[i]) < Pos(reqseq, queue[j])

\* PENDING means: waiting in the queue of the controller it is bound to
PendingIffQueued ==
    \A x \in B \cup C : (st[x] = "pending") <=> InSeq(queue, x)
QueuedAreBound == \A i \in 1..Len(queue) : ctl[queue[i]] = Q
\* the queue's "not empty" event (what a blocking get() waits for) tells the truth
NotEmptyEvent == qne <=> (queue # <<>>)

\* a queued request always has something outstanding that will start it
NoStall ==
    /\ (cstate = "idle" /\ queue # <<>>) => trig > 0
    /\ (cstate = "waiting") => wtm >= 0
    /\ (wtm # NoT) => cstate = "waiting"

\* nothing is left of a finished IOCB in the controller
NoResidue == \A x \in B \cup C : ev[x] => ~InSeq(queue, x) /\ active # x

\* a chained IOCB is ACTIVE for as long as its chain object is unfinished
ChainLinked ==
    \A p \in X : ctl[p] > 0 => ctl[p] \in C /\ st[p] = "active" /\ ~ev[ctl[p]] /\ ~ev[p]

\* ---- step formulas (TLC checks [][M]_vars on the design; Trace_IOCB evaluates M on every recorded step)
Rank(v) == CASE v = "unborn" -> 0 [] v = "idle" -> 1 [] v = "pending" -> 2 [] v = "active" -> 3 [] OTHER -> 4

\* IDLE -> PENDING -> ACTIVE -> COMPLETED | ABORTED, never backwards; a terminal state is final.
\* (A finished group is re-opened by IOGroup.add only.)
Absorbing ==
    /\ \A x \in B \cup C : /\ Rank(st'[x]) >= Rank(st[x])
                           /\ (IsDone(st[x]) => st'[x] = st[x])
                           /\ (ev[x] => ev'[x]) /\ gen'[x] >= gen[x]
    /\ \A g \in G : (IsDone(st[g]) /\ st'[g] # st[g]) => (act'.op = "gadd" /\ act'.x = g)

\* every registered callback is called exactly once per completion -- no more, no less -- and a callback added to a
\* finished IOCB is called at once (only that one)
CallbackPerCompletion ==
    \A x \in X :
        /\ Len(cbs'[x]) >= Len(cbs[x])
        /\ \A j \in 1..Len(cbs[x]) : cbs'[x][j] - cbs[x][j] = gen'[x] - gen[x]
        /\ \A j \in (Len(cbs[x]) + 1)..Len(cbs'[x]) : cbs'[x][j] = (IF ev'[x] THEN 1 ELSE 0)

\* completion cancels the timeout
TimerCancelled == \A x \in X : (~ev[x] /\ ev'[x]) => tmo'[x] = NoT

\* what is handed to process_io is a fresh or queued request, and nothing that stays queued should have gone first
StartInOrder ==
    \A k \in 1..Len(out') :
        LET x == out'[k] IN
        /\ st[x] \in {"idle", "pending"}
        /\ InSeq(reqseq', x)
        /\ \A i \in 1..Len(queue') :
              LET y == queue'[i] IN
              InSeq(reqseq', y) =>
                 (prio[x] < prio[y] \/ (prio[x] = prio[y] /\ Pos(reqseq', x) < Pos(reqseq', y)))

\* a deferred trigger / the wait task finding the controller idle starts the head of the queue
TriggerProgress ==
    /\ (act'.op = "trigger" /\ cstate = "idle" /\ queue # <<>>) => out' = <<Head(queue)>>
    /\ (act'.op = "wfire" /\ queue # <<>>) => out' = <<Head(queue)>>
    /\ (act'.op = "wfire") => cstate' # "waiting" \/ wtm' > 0

\* abort of a queued request removes exactly that one and starts nothing
AbortRemovesPending ==
    (act'.op = "abort" /\ st[act'.x] = "pending") =>
        /\ st'[act'.x] = "aborted" /\ queue' = Without(queue, act'.x) /\ out' = <<>>
        /\ cstate' = cstate /\ active' = active

\* abort of the active request frees the controller and leaves a trigger behind
AbortFreesController ==
    (act'.op \in {"abort", "fire"} /\ active # 0 /\ active = act'.x) =>
        /\ st'[act'.x] = "aborted" /\ active' = 0 /\ cstate' = "idle" /\ trig' = trig + 1

\* IOQController.abort / IOQueue.abort: everything that was queued is aborted, the queue is empty, the active one stays
AbortAllPending ==
    (act'.op \in {"cabort", "qabort"}) =>
        /\ queue' = <<>> /\ \A i \in 1..Len(queue) : st'[queue[i]] = "aborted"
        /\ active' = active /\ cstate' = cstate

\* the only call that may raise is complete() of something that is not the active request
NoException ==
    exc' # "" => (act'.op = "complete" /\ ctl[act'.x] = Q /\ active # act'.x /\ exc' = "RuntimeError")
RefusalChangesNothing == exc' # "" => view' = view

\* a timeout aborts an unfinished IOCB and does nothing at all to a finished one
TimeoutAborts ==
    (act'.op = "fire") =>
        /\ tmo'[act'.x] = NoT
        /\ (~ev[act'.x] => st'[act'.x] = "aborted" /\ ev'[act'.x])
        /\ (ev[act'.x] => st' = st /\ cbs' = cbs /\ gen' = gen /\ ev' = ev /\ queue' = queue /\ active' = active)

\* IOGroup.abort of an unfinished group: the group and every unfinished member end ABORTED; of a finished one: nothing
GroupAbort ==
    (act'.op = "gabort" \/ (act'.op = "fire" /\ act'.x \in G)) =>
        LET g == act'.x IN
        IF ev[g] THEN st' = st /\ cbs' = cbs /\ gen' = gen
        ELSE /\ st'[g] = "aborted" /\ ev'[g]
             /\ \A i \in 1..Len(mem[g]) :
                   LET m == mem[g][i] IN ev'[m] /\ (~ev[m] => st'[m] = "aborted") /\ (ev[m] => st'[m] = st[m])

\* the chain object's outcome is the chained IOCB's outcome (ABORTED when decode raises), in the same step, both ways
ChainOutcome ==
    \A p \in X :
        ctl[p] > 0 =>
            LET c == ctl[p] IN
            /\ (ev'[c] <=> ev'[p])
            /\ ev'[c] => /\ ctl'[p] = 0
                         /\ st'[p] = (IF decf[c] THEN "aborted" ELSE st'[c])

P_Absorbing == [][Absorbing]_vars
P_CallbackPerCompletion == [][CallbackPerCompletion]_vars
P_TimerCancelled == [][TimerCancelled]_vars
P_StartInOrder == [][StartInOrder]_vars
P_TriggerProgress == [][TriggerProgress]_vars
P_AbortRemovesPending == [][AbortRemovesPending]_vars
P_AbortFreesController == [][AbortFreesController]_vars
P_AbortAllPending == [][AbortAllPending]_vars
P_NoException == [][NoException]_vars
P_RefusalChangesNothing == [][RefusalChangesNothing]_vars
P_TimeoutAborts == [][TimeoutAborts]_vars
P_GroupAbort == [][GroupAbort]_vars
P_ChainOutcome == [][ChainOutcome]_vars

\* liveness of the design (small configurations): with the deferred calls and timers being run, and the environment
\* finishing whatever is active, every request that was submitted finishes
Fair ==
    /\ WF_vars(RunTrigger) /\ WF_vars(WaitFire) /\ WF_vars(\E x \in X : Fire(x))
    /\ WF_vars((\E t \in Timers : t > 0) /\ Advance)
    /\ WF_vars(\E x \in B \cup C : st[x] = "active" /\ ctl[x] = Q /\ Complete(x))
LiveSpec == Spec /\ Fair
EventuallyFinished == \A x \in B \cup C : [](InSeq(reqseq, x) => <>IsDone(st[x]))
=============================================================================
