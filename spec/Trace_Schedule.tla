--------------------------- MODULE Trace_Schedule ---------------------------
(***************************************************************************)
(* Validation of executions recorded from the real                         *)
(* bacpypes.local.schedule code against Schedule.tla (monitor mode: the    *)
(* C20 formulas are evaluated on the logged observations; the design's own *)
(* NextChange / Arm are compared too, a difference there is a conformance  *)
(* deviation, not a violation).  Each line of TRACE_FILE is one record:    *)
(*  {"id":n,"kind":"scan","cfg":{..},"days":[{"date":[yo,m,d],             *)
(*      "runs":[[from,to,count,value,next],..]},..]}                       *)
(*     LocalScheduleInterpreter.eval at every probe instant of the day     *)
(*     (every minute and every entry time of the configuration -1/0/+1     *)
(*     hundredth), run-length encoded: consecutive probes with the same    *)
(*     (value, next); value -1 = eval returned None, next -1 = none given. *)
(*  {"id":n,"kind":"run","cfg":{..},"pv0":v,"end":[[yo,m,d],t],            *)
(*      "fires":[[[date,t],pv,[date,t] or []],..]}                         *)
(*     a LocalScheduleObject driven by its own timer in virtual time: one  *)
(*     entry per expiry (at, Present_Value after it, deadline armed by it) *)
(* One verdict is printed per record:                                      *)
(*   <<"@@", [id |-> n, fails |-> {<<monitor, why, index, at, expected, got>>}, stats |-> <<tie-free, in period, all>>]>> *)
(***************************************************************************)
EXTENDS Schedule, Json, IOUtils

Recs == ndJsonDeserialize(IOEnv.TRACE_FILE)
VARIABLES i, ph
vars == <<i, ph, now, pv, deadline>>

MinuteH == 6000
Probes(cfg) ==
    {MinuteH * n : n \in 0..1439}
    \cup {q \in UNION {{c - 1, c, c + 1} : c \in BreakPoints(cfg)} : q >= 0 /\ q < Midnight}

In(P, r) == {p \in P : r[1] <= p /\ p <= r[2]}
RECURSIVE SumCounts(_, _)
SumCounts(R, j) == IF j = 0 THEN 0 ELSE R[j][3] + SumCounts(R, j - 1)

\* ---- one scanned day ----------------------------------------------------------------------------------------------
ScanDay(cfg, P, d, dr) ==
    LET date == dr.date
        plan == Plan(cfg, date)
        planD == PlanD(TRUE, cfg, date)          \* the day as the named deviation sees it (labels only)
        tf   == TieFree(cfg, date)
        R    == dr.runs
        Malformed ==
            IF (\A j \in 1..Len(R) : R[j][3] = Cardinality(In(P, R[j])) /\ R[j][1] \in P /\ R[j][2] \in P)
                 /\ SumCounts(R, Len(R)) = Cardinality(P)
            THEN {} ELSE {<<"Malformed", "probe_tiling", d, 0, 0, 0>>}
        \* EvalCorrect: the value at every probe is the one 12.24.4 prescribes (days without equal-priority ties)
        Wrong(j) == {p \in In(P, R[j]) : ValueP(cfg, plan, p) # R[j][4]}
        EvalCorrect ==
            IF ~tf THEN {}
            ELSE UNION {IF Wrong(j) = {} THEN {}
                        ELSE LET p == MinOf(Wrong(j))
                             IN  {<<"EvalCorrect",
                                    IF ValueP(cfg, planD, p) = R[j][4] THEN "wildcard_start_date"
                                    ELSE IF R[j][4] = NOVAL /\ plan.inp THEN "none_inside_effective_period"
                                    ELSE IF ~plan.inp THEN "value_outside_effective_period" ELSE "wrong_value",
                                    d, p, ValueP(cfg, plan, p), R[j][4]>>} : j \in 1..Len(R)}
        \* a next-transition time was reported: it is later than the instant ...
        NotLater == UNION {IF R[j][5] # -1 /\ R[j][5] <= R[j][2] THEN {<<"NoLivelock", "next_not_later", d, R[j][2], R[j][2] + 1, R[j][5]>>} ELSE {}
                           : j \in 1..Len(R)}
        \* ... and the value does not change before it.  Oracle form (tie-free days): not later than the exact next change
        Stale == IF ~tf THEN {}
                 ELSE UNION {IF R[j][5] # -1 /\ R[j][5] > ExactNextP(cfg, plan, R[j][2])
                             THEN {<<"NoChangeBeforeNext",
                                     IF R[j][5] = NextChangeP(cfg, planD, R[j][2]) THEN "wildcard_start_date" ELSE "stale_next",
                                     d, R[j][2], ExactNextP(cfg, plan, R[j][2]), R[j][5]>>} ELSE {}
                             : j \in 1..Len(R)}
        \* oracle-free form (all days): the implementation's own evaluation inside [instant, next) returns the same value
        Self == UNION {LET bad == {jj \in 1..Len(R) : R[jj][1] > R[j][2] /\ R[jj][1] < R[j][5] /\ R[jj][4] # R[j][4]}
                       IN  IF R[j][5] # -1 /\ bad # {}
                           THEN LET jj == MinOf(bad)
                                IN  {<<"NoChangeBeforeNext", IF tf THEN "stale_next_self" ELSE "same_priority_overwrite",
                                       d, R[j][2], R[jj][1], R[j][5]>>}
                           ELSE {} : j \in 1..Len(R)}
        \* conformance with the design's NextChange (deviation only)
        DevNext == IF ~tf THEN {}
                   ELSE UNION {IF R[j][5] # -1 /\ R[j][5] # NextChangeP(cfg, plan, R[j][2]) /\ R[j][5] # NextChangeP(cfg, planD, R[j][2])
                               THEN {<<"dev_next", "next_differs_from_design", d, R[j][2], NextChangeP(cfg, plan, R[j][2]), R[j][5]>>} ELSE {}
                               : j \in 1..Len(R)}
    IN  Malformed \cup EvalCorrect \cup NotLater \cup Stale \cup Self \cup DevNext

ScanFails(r) ==
    LET P == Probes(r.cfg) IN UNION {ScanDay(r.cfg, P, d, r.days[d]) : d \in 1..Len(r.days)}

\* ---- one timer-driven run -------------------------------------------------------------------------------------------
TieFreeSpan(cfg, a, b) == TieFree(cfg, a[1]) /\ (b = NoDeadline \/ TieFree(cfg, b[1]))

RunFire(cfg, F, j, pv0, end) ==
    LET a    == F[j][1]
        p    == F[j][2]
        dl   == F[j][3]
        prev == IF j = 1 THEN pv0 ELSE F[j - 1][2]
        inp  == InPeriod(cfg, a[1])
        tf   == TieFreeSpan(cfg, a, dl)
        n    == NextChange(cfg, a[1], a[2])
        planD == PlanD(TRUE, cfg, a[1])           \* the day as the named deviation sees it (labels only)
        vD   == ValueP(cfg, planD, a[2])
        nD   == NextChangeP(cfg, planD, a[2])
        Keeps == IF dl # NoDeadline THEN {}
                 ELSE {<<"KeepsRunning",
                         IF ~inp THEN "outside_effective_period"
                         ELSE IF ~planD.inp THEN "wildcard_start_date" ELSE "stopped",
                         j, a[2], 0, 0>>}
        Live_ == IF dl = NoDeadline \/ Later(dl, a) THEN {}
                 ELSE {<<"NoLivelock",
                         IF \E c \in BreakPoints(cfg) : c % 100 # 0 /\ c > a[2] /\ dl = <<a[1], c - (c % 100)>>
                         THEN "hundredths_rearm" ELSE "no_advance",
                         j, a[2], n, dl[2]>>}
        Shows == IF inp /\ TieFree(cfg, a[1]) /\ p # Value(cfg, a[1], a[2])
                 THEN {<<"EvalCorrect", IF p = (IF vD = NOVAL THEN prev ELSE vD) THEN "wildcard_start_date" ELSE "present_value_wrong",
                         j, a[2], Value(cfg, a[1], a[2]), p>>}
                 ELSE {}
        Stale == IF dl # NoDeadline /\ Later(dl, a) /\ tf /\ ~StableUntil(cfg, a, dl)
                 THEN {<<"NoChangeBeforeNext",
                         IF dl \in {Norm(a[1], nD), <<a[1], nD - (nD % 100)>>} /\ StableUntilD(TRUE, cfg, a, dl) THEN "wildcard_start_date"
                         ELSE IF inp = InPeriod(cfg, dl[1]) THEN "stale_next" ELSE "effective_period_edge_missed",
                         j, a[2], n, dl[2]>>}
                 ELSE {}
        \* the run must be a chain: each expiry happens at the deadline armed by the previous one
        Chain == IF j > 1 /\ F[j - 1][3] # NoDeadline /\ Later(F[j - 1][3], F[j - 1][1]) /\ a # F[j - 1][3]
                 THEN {<<"Malformed", "chain", j, a[2], 0, 0>>} ELSE {}
        \* conformance with the design machine (deviation only)
        DevArm == IF dl # NoDeadline /\ tf /\ (dl # Norm(a[1], n) \/ (inp /\ p # Show(cfg, a, prev)))
                       /\ (dl # Norm(a[1], nD) \/ p # (IF vD = NOVAL THEN prev ELSE vD))       \* not explained by MatchRangeD
                       /\ ~(n % 100 # 0 /\ dl = <<a[1], n - (n % 100)>>)                       \* nor by Dev_DropHundredths
                       /\ ~(nD % 100 # 0 /\ dl = <<a[1], nD - (nD % 100)>>)                    \* nor by both
                  THEN {<<"dev_arm", "differs_from_design_machine", j, a[2], n, dl[2]>>} ELSE {}
    IN  Keeps \cup Live_ \cup Shows \cup Stale \cup Chain \cup DevArm

RunFails(r) ==
    LET F == r.fires
        last == F[Len(F)]
        \* the recording ends either with a failure of KeepsRunning / NoLivelock or with a deadline armed beyond its end
        Covered == IF Len(F) > 0 /\ (last[3] = NoDeadline \/ ~Later(last[3], last[1]) \/ Later(last[3], r.end) \/ last[3] = r.end)
                   THEN {} ELSE {<<"Malformed", "run_not_covering_horizon", Len(F), 0, 0, 0>>}
    IN  Covered \cup UNION {RunFire(r.cfg, F, j, r.pv0, r.end) : j \in 1..Len(F)}

Fails(r) == IF r.kind = "scan" THEN ScanFails(r) ELSE RunFails(r)

\* how many of the record's days / expiries fall on tie-free days and inside the effective period (vacuity accounting)
Dates(r) == IF r.kind = "scan" THEN [d \in 1..Len(r.days) |-> r.days[d].date] ELSE [j \in 1..Len(r.fires) |-> r.fires[j][1][1]]
Stats(r) == LET D == Dates(r)
            IN  <<Cardinality({d \in DOMAIN D : TieFree(r.cfg, D[d])}), Cardinality({d \in DOMAIN D : InPeriod(r.cfg, D[d])}), Len(D)>>

\* ---- the validation run: root -> one state per record -> verdict (evaluated by whichever worker takes the record) ------
Init == i = 0 /\ ph = 0 /\ now = <<>> /\ pv = 0 /\ deadline = <<>>
Spread == i = 0 /\ i' \in 1..Len(Recs) /\ ph' = 0 /\ UNCHANGED tvars
Judge ==
    /\ i > 0 /\ ph = 0 /\ ph' = 1 /\ UNCHANGED <<i, now, pv, deadline>>
    /\ PrintT(<<"@@", [id |-> Recs[i].id, fails |-> Fails(Recs[i]), stats |-> Stats(Recs[i])]>>)
Next == Spread \/ Judge
Spec == Init /\ [][Next]_vars
=============================================================================
