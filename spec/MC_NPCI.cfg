\* static configuration = what `bin/check C08 --tier quick` evaluates in its first TLC run (the driver generates
\* the same text and varies Grids / BadMacLens / Alphabet / StrLen per run); set OUT_FILE to get the vectors
SPECIFICATION Spec
CONSTANTS
  Grids = {"ctl", "hdr", "mt", "msg", "bad", "cut"}
  MacLens = {1, 2, 6, 7, 255}
  Hops = {0, 1, 254, 255}
  Vendors = {0, 1, 255, 256, 65535}
  ListLens = {0, 1, 2, 3, 4, 5, 6, 7, 8, 9, 10, 11, 12, 13, 14, 15, 16, 17, 18, 19, 20}
  TableLens = {0, 1, 2, 3, 4, 5}
  BadMacLens = {1, 6, 255}
  Alphabet = {0, 1, 2, 3, 4, 8, 12, 19, 32, 36, 40, 43, 64, 127, 128, 136, 160, 168, 172, 254, 255}
  StrLen = 2
INVARIANT ControlSweep
INVARIANT CasesWellFormed
INVARIANT RoundTripHeader
INVARIANT RoundTripNPDU
INVARIANT HeaderLength
INVARIANT ForbiddenRefused
INVARIANT DecTotalAndExact
INVARIANT VersionRefused
CHECK_DEADLOCK FALSE
