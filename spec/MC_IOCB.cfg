\* controller-centred: 3 IOCBs, 2 priorities, wait_time 0/1, process_io normal / raising / synchronous, timeouts on two IOCBs
CONSTANTS
  B = {1, 2, 3}
  C = {}
  G = {}
  PrioMaps <- c_Prio3
  KindMaps <- c_Kind3
  Waits = {0, 1}
  Delays = {1}
  EncFails = {FALSE}
  DecFails = {FALSE}
  MaxCb = 1
  MaxTrig = 2
  MaxFire = 3
  CbOn = {1}
  TimerOn = {1, 2}
  Ops = {"request", "complete", "abort", "cabort", "qabort", "gabort", "settle"}
  AddCallbackRefires = FALSE
  CompleteOverridesDone = FALSE
  GroupAbortUnguarded = FALSE
  QueueAbortRaises = FALSE
  AbortIdleNoop = FALSE
  IdleBypass = FALSE
SPECIFICATION Spec
VIEW view
CHECK_DEADLOCK FALSE
INVARIANT TypeOK
INVARIANT OneCompletion
INVARIANT GroupDoneIffMembers
INVARIANT OneActive
INVARIANT QueueOrder
INVARIANT PendingIffQueued
INVARIANT QueuedAreBound
INVARIANT NotEmptyEvent
INVARIANT NoStall
INVARIANT NoResidue
INVARIANT ChainLinked
PROPERTY P_Absorbing
PROPERTY P_CallbackPerCompletion
PROPERTY P_TimerCancelled
PROPERTY P_StartInOrder
PROPERTY P_TriggerProgress
PROPERTY P_AbortRemovesPending
PROPERTY P_AbortFreesController
PROPERTY P_AbortAllPending
PROPERTY P_NoException
PROPERTY P_RefusalChangesNothing
PROPERTY P_TimeoutAborts
PROPERTY P_GroupAbort
PROPERTY P_ChainOutcome
