----------------------------- MODULE MC_FileSvc -----------------------------
(* Exhaustive configuration of FileSvc.tla (X03, obligation D): two files -- 1 stream, 2 record --, every      *)
(* read-only combination, initial contents of 0 / 2 / 3 tokens, contents of at most MaxLen = 4 tokens,         *)
(* positions -1..6, counts 0..5, writes of 0..3 tokens; every operation sequence of MaxLevel = 4 requests.     *)
EXTENDS FileSvc
c_Positions == -1..6
c_Counts == 0..5
c_Data == {<<>>, <<1>>, <<2, 1>>, <<1, 2, 2>>}
c_Contents == {<<>>, <<1, 2>>, <<2, 1, 1>>}
c_Files0 ==
    {[g \in {1, 2} |-> [access |-> IF g = 1 THEN "stream" ELSE "record", ro |-> r[g], content |-> c[g]]] :
        r \in [{1, 2} -> BOOLEAN], c \in [{1, 2} -> c_Contents]}
=============================================================================
