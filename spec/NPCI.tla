-------------------------------- MODULE NPCI --------------------------------
(***************************************************************************)
(* BACnet network layer protocol control information (ASHRAE 135 clause    *)
(* 6.2) and the bodies of the network layer messages (clause 6.4), as pure *)
(* functions on octet sequences.  Written from the standard, not from the  *)
(* bacpypes source.  (C08; also observer for C06 and oracle for C10.)      *)
(*                                                                         *)
(*   Enc(h)       header record  -> octets                                 *)
(*   Dec(o)       octets         -> header record | DecodingError          *)
(*                                                | Unspecified            *)
(*   EncBody(b) / DecBody(mt, d)   message bodies                          *)
(*   EncNPDU(r) / DecNPDU(o)       header + typed body                     *)
(*                                                                         *)
(* Clause 6.2 layout (in this order):                                      *)
(*   Version  1 octet  = 1                                                 *)
(*   Control  1 octet  bit7 NSDU is a network layer message                *)
(*                     bit6 reserved (shall be zero)                       *)
(*                     bit5 DNET, DLEN, Hop Count present (DADR iff DLEN>0)*)
(*                     bit4 reserved (shall be zero)                       *)
(*                     bit3 SNET, SLEN, SADR present (SLEN = 0 is invalid) *)
(*                     bit2 data expecting reply                           *)
(*                     bit1-0 network priority                             *)
(*   DNET 2, DLEN 1, DADR DLEN  (DNET = X'FFFF' global broadcast,          *)
(*                               DLEN = 0 broadcast on DNET, DADR absent)  *)
(*   SNET 2, SLEN 1, SADR SLEN  (SNET = X'FFFF' not allowed, SLEN >= 1)    *)
(*   Hop Count 1          iff bit5                                         *)
(*   Message Type 1       iff bit7                                         *)
(*   Vendor ID 2          iff bit7 and Message Type in X'80'..X'FF'        *)
(*   NSDU (APDU or message body): the rest                                 *)
(*                                                                         *)
(* A receiver that finds the reserved bits set is not told by the standard *)
(* to refuse the NPDU; Dec reports them in the field `rsv` and otherwise   *)
(* ignores them.  DNET = X'FFFF' together with DLEN > 0 is neither laid    *)
(* out nor forbidden by the standard: Dec says Unspecified (after the      *)
(* checks for truncation and for a forbidden source), and so does DecBody  *)
(* for octets that trail a complete fixed-size body.                       *)
(***************************************************************************)
EXTENDS Integers, Sequences

NONE == -1

Hi(n) == n \div 256
Lo(n) == n % 256
U16(n) == <<Hi(n), Lo(n)>>
U16At(s, i) == s[i] * 256 + s[i + 1]
Bit(x, k) == (x \div (2 ^ k)) % 2

DecodingError == [err |-> "DecodingError"]
Unspecified   == [err |-> "Unspecified"]
IsErr(x) == "err" \in DOMAIN x

\* ---- addresses as they appear in DNET/DLEN/DADR and SNET/SLEN/SADR ---------------------------------
NoAddr        == [k |-> "none",    net |-> NONE,  mac |-> <<>>]
Station(n, m) == [k |-> "station", net |-> n,     mac |-> m]
RBcast(n)     == [k |-> "bcast",   net |-> n,     mac |-> <<>>]
Global        == [k |-> "global",  net |-> 65535, mac |-> <<>>]

IsOctets(s) == \A i \in 1..Len(s) : s[i] \in 0..255

WellFormedDest(a) ==
    \/ a = NoAddr
    \/ a = Global
    \/ a.k = "bcast"   /\ a.net \in 0..65534 /\ a.mac = <<>>
    \/ a.k = "station" /\ a.net \in 0..65534 /\ Len(a.mac) \in 1..255 /\ IsOctets(a.mac)

WellFormedSource(a) ==
    \/ a = NoAddr
    \/ a.k = "station" /\ a.net \in 0..65534 /\ Len(a.mac) \in 1..255 /\ IsOctets(a.mac)

\* header record: [rsv, der, prio, dadr, sadr, hop, mtype, vendor, data]; absent fields are NONE
WellFormed(h) ==
    /\ h.rsv = 0                         \* a sender shall leave the reserved bits zero
    /\ h.der \in BOOLEAN /\ h.prio \in 0..3
    /\ WellFormedDest(h.dadr) /\ WellFormedSource(h.sadr)
    /\ IF h.dadr = NoAddr THEN h.hop = NONE ELSE h.hop \in 0..255
    /\ h.mtype \in {NONE} \cup 0..255
    /\ IF h.mtype # NONE /\ h.mtype >= 128 THEN h.vendor \in 0..65535 ELSE h.vendor = NONE
    /\ IsOctets(h.data)

\* ---- encoder ---------------------------------------------------------------------------------------
Control(h) ==
      (IF h.mtype # NONE THEN 128 ELSE 0)
    + h.rsv                                        \* 64 and/or 16; zero for every well-formed header
    + (IF h.dadr.k # "none" THEN 32 ELSE 0)
    + (IF h.sadr.k # "none" THEN 8 ELSE 0)
    + (IF h.der THEN 4 ELSE 0)
    + h.prio

EncAddr(a) == IF a.k = "none" THEN <<>> ELSE U16(a.net) \o <<Len(a.mac)>> \o a.mac

Enc(h) ==
       <<1, Control(h)>>
    \o EncAddr(h.dadr)
    \o EncAddr(h.sadr)
    \o (IF h.dadr.k # "none" THEN <<h.hop>> ELSE <<>>)
    \o (IF h.mtype # NONE THEN <<h.mtype>> ELSE <<>>)
    \o (IF h.mtype # NONE /\ h.mtype >= 128 THEN U16(h.vendor) ELSE <<>>)
    \o h.data

HeaderLen(h) == Len(Enc(h)) - Len(h.data)

\* ---- decoder ---------------------------------------------------------------------------------------
\* the NET/LEN/ADR block that starts at position p
AddrAt(o, p) ==
    IF Len(o) < p + 2 THEN [ok |-> FALSE]
    ELSE LET l == o[p + 2] IN
         IF Len(o) < p + 2 + l THEN [ok |-> FALSE]
         ELSE [ok |-> TRUE, net |-> U16At(o, p), mac |-> SubSeq(o, p + 3, p + 2 + l), nx |-> p + 3 + l]

DestOf(d) ==
    IF d.net = 65535 THEN Global                    \* only used when d.mac = <<>>
    ELSE IF d.mac = <<>> THEN RBcast(d.net)
    ELSE Station(d.net, d.mac)

Dec(o) ==
    IF Len(o) < 2 THEN DecodingError                           \* version and control are mandatory
    ELSE IF o[1] # 1 THEN DecodingError                        \* protocol version
    ELSE
    LET c     == o[2]
        hasD  == Bit(c, 5) = 1
        hasS  == Bit(c, 3) = 1
        isMsg == Bit(c, 7) = 1
        d     == IF hasD THEN AddrAt(o, 3) ELSE [ok |-> TRUE, nx |-> 3]
    IN
    IF ~d.ok THEN DecodingError
    ELSE
    LET s == IF hasS THEN AddrAt(o, d.nx) ELSE [ok |-> TRUE, nx |-> d.nx] IN
    IF ~s.ok THEN DecodingError
    ELSE IF hasS /\ (s.net = 65535 \/ s.mac = <<>>) THEN DecodingError    \* broadcast / zero-length source
    ELSE
    LET ph == s.nx                                   \* hop count, if any, sits here
        pm == IF hasD THEN ph + 1 ELSE ph            \* message type, if any
    IN
    IF hasD /\ Len(o) < ph THEN DecodingError
    ELSE IF isMsg /\ Len(o) < pm THEN DecodingError
    ELSE
    LET mt   == IF isMsg THEN o[pm] ELSE NONE
        hasV == isMsg /\ mt >= 128
        pv   == pm + 1                               \* vendor id, if any
        pd   == IF hasV THEN pv + 2 ELSE IF isMsg THEN pv ELSE pm
    IN
    IF hasV /\ Len(o) < pv + 1 THEN DecodingError
    ELSE IF hasD /\ d.net = 65535 /\ d.mac # <<>> THEN Unspecified
    ELSE [rsv    |-> 64 * Bit(c, 6) + 16 * Bit(c, 4),
          der    |-> Bit(c, 2) = 1,
          prio   |-> c % 4,
          dadr   |-> IF hasD THEN DestOf(d) ELSE NoAddr,
          sadr   |-> IF hasS THEN Station(s.net, s.mac) ELSE NoAddr,
          hop    |-> IF hasD THEN o[ph] ELSE NONE,
          mtype  |-> mt,
          vendor |-> IF hasV THEN U16At(o, pv) ELSE NONE,
          data   |-> SubSeq(o, pd, Len(o))]

\* ---- network layer message bodies (clause 6.4) ------------------------------------------------------
MT_WhoIsRouter    == 0      \* [mt, net]          net = NONE: all networks
MT_IAmRouter      == 1      \* [mt, nets]
MT_ICouldBeRouter == 2      \* [mt, net, perf]
MT_Reject         == 3      \* [mt, reason, net]
MT_RouterBusy     == 4      \* [mt, nets]
MT_RouterAvail    == 5      \* [mt, nets]
MT_InitRT         == 6      \* [mt, table]        table: sequence of [net, port, info]
MT_InitRTAck      == 7      \* [mt, table]
MT_Establish      == 8      \* [mt, net, time]
MT_Disconnect     == 9      \* [mt, net]
MT_WhatIsNet      == 18     \* [mt]
MT_NetIs          == 19     \* [mt, net, flag]
KnownMT == {0, 1, 2, 3, 4, 5, 6, 7, 8, 9, 18, 19}
\* anything else (APDU: mt = NONE; security / reserved / proprietary types): [mt, raw]

EncNets(ns) == [i \in 1..(2 * Len(ns)) |-> IF i % 2 = 1 THEN Hi(ns[(i + 1) \div 2]) ELSE Lo(ns[i \div 2])]
DecNets(d)  == [i \in 1..(Len(d) \div 2) |-> U16At(d, 2 * i - 1)]

EncEntry(e) == U16(e.net) \o <<e.port, Len(e.info)>> \o e.info
RECURSIVE EncEntries(_)
EncEntries(t) == IF t = <<>> THEN <<>> ELSE EncEntry(Head(t)) \o EncEntries(Tail(t))

\* n entries starting at position p of d
RECURSIVE DecEntries(_, _, _)
DecEntries(d, p, n) ==
    IF n = 0 THEN [ok |-> TRUE, t |-> <<>>, nx |-> p]
    ELSE IF Len(d) < p + 3 THEN [ok |-> FALSE]
    ELSE LET l == d[p + 3] IN
         IF Len(d) < p + 3 + l THEN [ok |-> FALSE]
         ELSE LET rest == DecEntries(d, p + 4 + l, n - 1) IN
              IF ~rest.ok THEN [ok |-> FALSE]
              ELSE [ok |-> TRUE, nx |-> rest.nx,
                    t |-> <<[net |-> U16At(d, p), port |-> d[p + 2], info |-> SubSeq(d, p + 4, p + 3 + l)]>> \o rest.t]

EncBody(b) ==
    IF "raw" \in DOMAIN b THEN b.raw
    ELSE CASE b.mt = MT_WhoIsRouter    -> IF b.net = NONE THEN <<>> ELSE U16(b.net)
           [] b.mt \in {MT_IAmRouter, MT_RouterBusy, MT_RouterAvail} -> EncNets(b.nets)
           [] b.mt = MT_ICouldBeRouter -> U16(b.net) \o <<b.perf>>
           [] b.mt = MT_Reject         -> <<b.reason>> \o U16(b.net)
           [] b.mt \in {MT_InitRT, MT_InitRTAck} -> <<Len(b.table)>> \o EncEntries(b.table)
           [] b.mt = MT_Establish      -> U16(b.net) \o <<b.time>>
           [] b.mt = MT_Disconnect     -> U16(b.net)
           [] b.mt = MT_WhatIsNet      -> <<>>
           [] b.mt = MT_NetIs          -> U16(b.net) \o <<b.flag>>

\* a body of exactly n octets; shorter is truncated, longer is not described by the standard
Fixed(d, n, rec) == IF Len(d) < n THEN DecodingError ELSE IF Len(d) > n THEN Unspecified ELSE rec

DecBody(mt, d) ==
    CASE mt = MT_WhoIsRouter    -> IF d = <<>> THEN [mt |-> mt, net |-> NONE]
                                   ELSE Fixed(d, 2, [mt |-> mt, net |-> U16At(d, 1)])
      [] mt \in {MT_IAmRouter, MT_RouterBusy, MT_RouterAvail} ->
                                   IF Len(d) % 2 = 1 THEN DecodingError        \* half a network number
                                   ELSE [mt |-> mt, nets |-> DecNets(d)]
      [] mt = MT_ICouldBeRouter -> Fixed(d, 3, [mt |-> mt, net |-> U16At(d, 1), perf |-> d[3]])
      [] mt = MT_Reject         -> Fixed(d, 3, [mt |-> mt, reason |-> d[1], net |-> U16At(d, 2)])
      [] mt \in {MT_InitRT, MT_InitRTAck} ->
                                   IF d = <<>> THEN DecodingError
                                   ELSE LET r == DecEntries(d, 2, d[1]) IN
                                        IF ~r.ok THEN DecodingError
                                        ELSE IF r.nx # Len(d) + 1 THEN Unspecified
                                        ELSE [mt |-> mt, table |-> r.t]
      [] mt = MT_Establish      -> Fixed(d, 3, [mt |-> mt, net |-> U16At(d, 1), time |-> d[3]])
      [] mt = MT_Disconnect     -> Fixed(d, 2, [mt |-> mt, net |-> U16At(d, 1)])
      [] mt = MT_WhatIsNet      -> Fixed(d, 0, [mt |-> mt])
      [] mt = MT_NetIs          -> Fixed(d, 3, [mt |-> mt, net |-> U16At(d, 1), flag |-> d[3]])
      [] OTHER                  -> [mt |-> mt, raw |-> d]

WellFormedBody(b) ==
    LET Net(n) == n \in 0..65535
        Oct(x) == x \in 0..255
    IN IF "raw" \in DOMAIN b THEN IsOctets(b.raw)
       ELSE CASE b.mt = MT_WhoIsRouter -> b.net = NONE \/ Net(b.net)
              [] b.mt \in {MT_IAmRouter, MT_RouterBusy, MT_RouterAvail} -> \A i \in 1..Len(b.nets) : Net(b.nets[i])
              [] b.mt = MT_ICouldBeRouter -> Net(b.net) /\ Oct(b.perf)
              [] b.mt = MT_Reject -> Oct(b.reason) /\ Net(b.net)
              [] b.mt \in {MT_InitRT, MT_InitRTAck} ->
                    /\ Len(b.table) \in 0..255
                    /\ \A i \in 1..Len(b.table) : /\ Net(b.table[i].net) /\ Oct(b.table[i].port)
                                                 /\ Len(b.table[i].info) \in 0..255 /\ IsOctets(b.table[i].info)
              [] b.mt = MT_Establish -> Net(b.net) /\ Oct(b.time)
              [] b.mt = MT_Disconnect -> Net(b.net)
              [] b.mt = MT_WhatIsNet -> TRUE
              [] b.mt = MT_NetIs -> Net(b.net) /\ Oct(b.flag)
              [] OTHER -> FALSE

\* ---- whole NPDU: [rsv, der, prio, dadr, sadr, hop, mtype, vendor, body] ------------------------------
WithData(r, d) == [rsv |-> r.rsv, der |-> r.der, prio |-> r.prio, dadr |-> r.dadr, sadr |-> r.sadr, hop |-> r.hop,
                   mtype |-> r.mtype, vendor |-> r.vendor, data |-> d]
WithBody(h, b) == [rsv |-> h.rsv, der |-> h.der, prio |-> h.prio, dadr |-> h.dadr, sadr |-> h.sadr, hop |-> h.hop,
                   mtype |-> h.mtype, vendor |-> h.vendor, body |-> b]

EncNPDU(r) == Enc(WithData(r, EncBody(r.body)))

DecNPDU(o) ==
    LET h == Dec(o) IN
    IF IsErr(h) THEN h
    ELSE LET b == DecBody(h.mtype, h.data) IN
         IF IsErr(b) THEN b ELSE WithBody(h, b)

\* what the harness compares against: the header and, separately, the body (the implementation decodes in
\* the same two phases: NPDU.decode, then the message class picked by the message type)
NoBody == [err |-> "NoHeader"]
DecBoth(o) ==
    LET h == Dec(o) IN [h |-> h, b |-> IF IsErr(h) THEN NoBody ELSE DecBody(h.mtype, h.data)]
=============================================================================
