------------------------------ MODULE Trace_Addr ------------------------------
(***************************************************************************)
(* Validation of observations of the real pdu.Address against Addr.tla.    *)
(* Each line of TRACE_FILE is one observation                              *)
(*   {"id":n, "d":descriptor, "raised":bool, "obs":{...}, "pr":{...}}      *)
(* (see the monitors at the end of Addr.tla).  One verdict record is       *)
(* printed per FAILING observation; nothing halts the run, so one run      *)
(* reports every failing case.  Distinct states = observations evaluated.  *)
(***************************************************************************)
EXTENDS Addr, Json, IOUtils

Recs == ndJsonDeserialize(IOEnv.TRACE_FILE)
VARIABLE i

Verdict(r) ==
    LET f == Failing(r) IN
    f = {} \/ PrintT(<<"@@", [id |-> r.id, failing |-> f, den |-> Denotes(r.d)]>>)

Init == i \in 1..Len(Recs) /\ Verdict(Recs[i])
Next == UNCHANGED i
=============================================================================
