SPECIFICATION GSpec
CONSTANTS
  Part = "all"
  Lans = {}
  Queries = {}
  Rogues = {}
  Mutations = {}
  MaxOps = 0
  Dev_HighExclusive = FALSE
  Dev_WhoHasNoRange = FALSE
  Dev_LearnUnchecked = FALSE
INVARIANT CaseWF
INVARIANT AtMostOneAnswer
INVARIANT MalformedIsSilent
INVARIANT NoRangeAllAnswer
INVARIANT InclusiveLimits
INVARIANT Monotone
INVARIANT OnlyReceiversAnswer
INVARIANT IHaveNamesTheObject
INVARIANT IAmEffectFacts
INVARIANT Emit
CHECK_DEADLOCK FALSE
