------------------------------ MODULE Calendar ------------------------------
(***************************************************************************)
(* Proleptic Gregorian calendar arithmetic and the BACnet date patterns    *)
(* (ANSI/ASHRAE 135: clause 20.2.12 Date, clause 21 BACnetDateRange,       *)
(* BACnetWeekNDay, BACnetCalendarEntry; 12.9 Calendar, 12.24 Schedule).    *)
(* Functions only - no state.  Written from the standard, not from         *)
(* bacpypes/local/schedule.py.                                             *)
(*                                                                         *)
(* A calendar date is a triple <<yo, m, d>>: yo = year - 1900 (0..254, the *)
(* octet BACnet transmits), m = 1..12, d = 1..DaysInMonth.                 *)
(* A date pattern is <<yp, mp, dp, wp>> with the special octets            *)
(*   yp: 255 any year                                                      *)
(*   mp: 255 any month, 13 odd months, 14 even months                      *)
(*   dp: 255 any day, 32 last day of the month, 33 odd days, 34 even days  *)
(*   wp: 255 any day of week, 1 = Monday .. 7 = Sunday                     *)
(***************************************************************************)
EXTENDS Naturals, Integers, Sequences, FiniteSets

ANY == 255

Year(date) == 1900 + date[1]

IsLeap(y) == (y % 4 = 0 /\ y % 100 # 0) \/ (y % 400 = 0)

DaysInMonth(y, m) ==
    CASE m \in {1, 3, 5, 7, 8, 10, 12} -> 31
      [] m \in {4, 6, 9, 11}           -> 30
      [] OTHER                         -> IF IsLeap(y) THEN 29 ELSE 28

LastDay(date) == DaysInMonth(Year(date), date[2])

\* days-from-civil: the number of days from 0000-03-01 to y-m-d (years counted from March so that
\* the leap day is the last day of the counting year); y >= 1
CivilDays(y, m, d) ==
    LET yy  == IF m <= 2 THEN y - 1 ELSE y
        era == yy \div 400
        yoe == yy - era * 400
        mp  == (m + 9) % 12                        \* March = 0 .. February = 11
        doy == (153 * mp + 2) \div 5 + (d - 1)
        doe == yoe * 365 + yoe \div 4 - yoe \div 100 + doy
    IN  era * 146097 + doe

\* day number of a date: 1900-01-01 = 0
Epoch1900 == CivilDays(1900, 1, 1)
DayNo(date) == CivilDays(Year(date), date[2], date[3]) - Epoch1900

\* 1900-01-01 was a Monday.  BACnet: Monday = 1 .. Sunday = 7
DayOfWeek(date) == (DayNo(date) % 7) + 1

NextDay(date) ==
    IF date[3] < LastDay(date) THEN <<date[1], date[2], date[3] + 1>>
    ELSE IF date[2] < 12 THEN <<date[1], date[2] + 1, 1>>
    ELSE <<date[1] + 1, 1, 1>>

ValidDate(date) ==
    /\ date[1] \in 0..254 /\ date[2] \in 1..12 /\ date[3] \in 1..LastDay(date)

----------------------------------------------------------------------------
\* 20.2.12: matching one date against a date pattern
MatchMonth(m, mp) ==
    CASE mp = ANY -> TRUE
      [] mp = 13  -> m % 2 = 1
      [] mp = 14  -> m % 2 = 0
      [] OTHER    -> m = mp

MatchDay(date, dp) ==
    CASE dp = ANY -> TRUE
      [] dp = 32  -> date[3] = LastDay(date)
      [] dp = 33  -> date[3] % 2 = 1
      [] dp = 34  -> date[3] % 2 = 0
      [] OTHER    -> date[3] = dp

MatchDate(date, p) ==
    /\ (p[1] = ANY \/ p[1] = date[1])
    /\ MatchMonth(date[2], p[2])
    /\ MatchDay(date, p[3])
    /\ (p[4] = ANY \/ p[4] = DayOfWeek(date))

\* BACnetDateRange: each bound is either a specific date or unspecified (year, month and day all X'FF' = open-ended on
\* that side); the day-of-week octet of a bound carries no information
Unspecified(b) == b[1] = ANY /\ b[2] = ANY /\ b[3] = ANY
Specific(b) == b[1] \in 0..254 /\ b[2] \in 1..12 /\ b[3] \in 1..31

MatchRange(date, s, e) ==
    /\ (Unspecified(s) \/ DayNo(<<s[1], s[2], s[3]>>) <= DayNo(date))
    /\ (Unspecified(e) \/ DayNo(date) <= DayNo(<<e[1], e[2], e[3]>>))

\* BACnetWeekNDay <<month, week-of-month, day-of-week>>
\*   week of month: 1 = days 1-7, 2 = 8-14, 3 = 15-21, 4 = 22-28, 5 = 29-31, 6 = last 7 days,
\*   7 / 8 / 9 = the 7 days before the last 7 / 14 / 21 days, 255 = any week
MatchWeek(date, wk) ==
    LET d == date[3]
        L == LastDay(date)
    IN  CASE wk = ANY -> TRUE
          [] wk \in 1..4 -> d \in (7 * wk - 6)..(7 * wk)
          [] wk = 5 -> d \in 29..31
          [] wk \in 6..9 -> d \in (L - 7 * (wk - 5) + 1)..(L - 7 * (wk - 6))
          [] OTHER -> FALSE

MatchWeekNDay(date, p) ==
    /\ MatchMonth(date[2], p[1])
    /\ MatchWeek(date, p[2])
    /\ (p[3] = ANY \/ p[3] = DayOfWeek(date))

\* Named deviation (finding F15, today's behaviour of match_date_range): a range whose start is unspecified matches no
\* date.  The property is stated with dev = FALSE; dev = TRUE is only used to label observed disagreements.
MatchRangeD(dev, date, s, e) == IF dev /\ Unspecified(s) THEN FALSE ELSE MatchRange(date, s, e)

\* BACnetCalendarEntry ::= CHOICE { date, dateRange, weekNDay }
\*   [kind |-> "date", p |-> <<yp,mp,dp,wp>>] | [kind |-> "range", s |-> bound, e |-> bound] | [kind |-> "wnd", p |-> <<m,w,d>>]
InCalendarEntryD(dev, date, e) ==
    CASE e.kind = "date"  -> MatchDate(date, e.p)
      [] e.kind = "range" -> MatchRangeD(dev, date, e.s, e.e)
      [] e.kind = "wnd"   -> MatchWeekNDay(date, e.p)
      [] OTHER            -> FALSE
InCalendarEntry(date, e) == InCalendarEntryD(FALSE, date, e)

\* 12.9: a Calendar's Date_List is in effect on a date iff some entry matches
InDateListD(dev, date, list) == \E i \in 1..Len(list) : InCalendarEntryD(dev, date, list[i])
InDateList(date, list) == InDateListD(FALSE, date, list)
=============================================================================
