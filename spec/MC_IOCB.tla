------------------------------ MODULE MC_IOCB ------------------------------
(* Exhaustive configurations of IOCB.tla (X04, obligation D).  One wrapper module, several .cfg files:          *)
(*   MC_IOCB.cfg         controller: 3 IOCBs, 2 priorities, wait_time 0/1, process_io normal / raising / sync,   *)
(*                       timeouts, a callback, abort / IOQController.abort / IOQueue.abort                      *)
(*   MC_IOCB_timers.cfg  2 IOCBs: timeouts with two delays, callbacks added before and after completion        *)
(*   MC_IOCB_group.cfg   one group over 2 IOCBs (through the controller or not), timeouts, callbacks            *)
(*   MC_IOCB_chain.cfg   one chain object (encode / decode raising or not) + a second IOCB + a group + controller*)
(*   MC_IOCB_live.cfg    liveness of the design on 2 IOCBs + controller                                         *)
(* (harness/drivers/x04.py generates smaller ones for the quick tier and the ones with a deviation switched on) *)
EXTENDS IOCB
c_Prio3 == {<<0, 0, 0>>, <<0, 1, 0>>, <<1, 0, 0>>, <<0, 0, 1>>}
c_Kind3 == {<<"norm", "norm", "norm">>, <<"norm", "bad", "sync">>, <<"sync", "norm", "bad">>}
c_Prio0 == {<<0, 0, 0>>}
c_Prio2 == {<<0, 0>>, <<1, 0>>}
c_Kind2 == {<<"norm", "norm">>, <<"norm", "sync">>}
c_Kind2b == {<<"norm", "norm">>, <<"norm", "bad">>, <<"sync", "norm">>}
c_Norm3 == {<<"norm", "norm", "norm">>}
c_Norm4 == {<<"norm", "norm", "norm", "norm">>}
c_Prio4 == {<<0, 0, 0, 0>>}
=============================================================================
