----------------------------- MODULE Trace_BBMD -----------------------------
(***************************************************************************)
(* Trace validation for BBMD.tla (C13).  Each line of TRACE_FILE is one     *)
(* execution of real BIPSimple / BIPBBMD / BIPForeign stacks on             *)
(* vlan.IPNetwork subnets recorded by harness/drivers/c13.py:               *)
(*   {"tid":n, "evs":[{"ev":"Rx","who":3,"mid":1,"d":0,"c":{copy},          *)
(*                     "st":{projected post-state}}, ...]}                   *)
(* The layout constants of the group of traces are written into the         *)
(* generated wrapper module / cfg.                                          *)
(* Per step TLC decides (a) conformance: the logged post-state is the        *)
(* successor of the current state under the BBMD action named by the event  *)
(* (until the first rejected step; afterwards the state is bound to the log) *)
(* and (b) the C13 monitors = the invariants of BBMD.tla on the logged       *)
(* states, with the history variables h / bc computed from the events.      *)
(* One verdict record per trace is printed; nothing halts the run.          *)
(***************************************************************************)
EXTENDS BBMD, Json, IOUtils, TLCExt

Traces == ndJsonDeserialize(IOEnv.TRACE_FILE)
VARIABLES tid, l, rej, viol, ante
tvars == <<tid, l, rej, viol, ante>>
T == Traces[tid].evs

ToSet(s) == {s[i] : i \in 1..Len(s)}
SeqBag(s) == [x \in ToSet(s) |-> Cardinality({i \in 1..Len(s) : s[i] = x})]

TInit == Init /\ tid \in 1..Len(Traces) /\ l = 1 /\ rej = 0 /\ viol = {} /\ ante = {}

Act(e) ==
    CASE e.ev = "Originate"    -> Originate(e.who, e.mid)
      [] e.ev = "Rx"           -> Rx(e.c)
      [] e.ev = "BBMDTick"     -> BBMDTick(e.who)
      [] e.ev = "FDRegister"   -> FDRegister(e.who)
      [] e.ev = "FDRenew"      -> FDRenew(e.who)
      [] e.ev = "FDExpired"    -> FDExpired(e.who)
      [] e.ev = "FDUnregister" -> FDUnregister(e.who)
      [] e.ev = "FDStopRenew"  -> FDStopRenew(e.who)
      [] e.ev = "ReadFDT"      -> ReadFDT(e.who, e.d)
      [] e.ev = "DeleteEntry"  -> DeleteEntry(e.who, e.d, e.mid)
      [] e.ev = "Tick"         -> Tick(e.d)
      [] OTHER                 -> FALSE

\* the projection in the vocabulary of the log
FdtSet == {<<b, f, fdt[b][f].ttl, fdt[b][f].rem>> : b \in BBMDs, f \in FDs} \ {<<b, f, 0, 0>> : b \in BBMDs, f \in FDs}
FdSeq == LET s == SetToSortedSeq(FDs) IN [i \in 1..Len(s) |-> <<s[i], fd[s[i]].st, fd[s[i]].renew, fd[s[i]].track, fd[s[i]].cfg>>]
TkSeq == LET s == SetToSortedSeq(BBMDs) IN [i \in 1..Len(s) |-> <<s[i], tk[s[i]]>>]

\* conformance: the state computed by the spec action agrees with the logged projection
Match(st) == /\ now' = st.now /\ FdtSet' = ToSet(st.fdt) /\ FdSeq' = st.fd /\ TkSeq' = st.tk
             /\ net' = SeqBag(st.net) /\ up' = SeqBag(st.up) /\ sap' = SeqBag(st.sap)

\* monitor mode: every variable is bound to the logged value
Bind(e) ==
    LET st == e.st
        ent(b, f) == {x \in ToSet(st.fdt) : x[1] = b /\ x[2] = f}
        fdr(f) == CHOOSE x \in ToSet(st.fd) : x[1] = f
        tkr(b) == CHOOSE x \in ToSet(st.tk) : x[1] = b
    IN /\ now' = st.now
       /\ fdt' = [b \in BBMDs |-> [f \in FDs |-> IF ent(b, f) = {} THEN Absent
                                                 ELSE LET x == CHOOSE y \in ent(b, f) : TRUE IN [ttl |-> x[3], rem |-> x[4]]]]
       /\ fd' = [f \in FDs |-> [st |-> fdr(f)[2], renew |-> fdr(f)[3], track |-> fdr(f)[4], cfg |-> fdr(f)[5]]]
       /\ tk' = [b \in BBMDs |-> tkr(b)[2]]
       /\ net' = SeqBag(st.net) /\ up' = SeqBag(st.up) /\ sap' = SeqBag(st.sap)
       /\ act' = [n |-> e.ev, who |-> e.who, mid |-> e.mid, d |-> e.d, c |-> e.c, rt |-> e.rt]

S(cond, name) == IF cond THEN {} ELSE {name}
Failing ==
    S(OncePerNode', "OncePerNode") \cup S(NeverToOriginator', "NeverToOriginator") \cup S(TrueSource', "TrueSource")
    \cup S(ServedAtLeastTTL', "ServedAtLeastTTL") \cup S(GoneAfterGrace', "GoneAfterGrace")
    \cup S(DeleteIsImmediate', "DeleteIsImmediate") \cup S(UnregisterWithinGrace', "UnregisterWithinGrace")
    \cup S(RenewsBeforeExpiry', "RenewsBeforeExpiry") \cup S(ListedIffLive', "ListedIffLive")

\* which monitors had a true antecedent in the new state (vacuity accounting)
Exercised ==
    (IF Mids' # {} THEN {"OncePerNode", "NeverToOriginator", "TrueSource"} ELSE {})
    \cup (IF \E f \in FDs : MustServe(h', f, now') THEN {"ServedAtLeastTTL"} ELSE {})
    \cup (IF \E f \in FDs : WhyNot(h', f, now') = "expired" THEN {"GoneAfterGrace"} ELSE {})
    \cup (IF \E f \in FDs : WhyNot(h', f, now') = "del" THEN {"DeleteIsImmediate"} ELSE {})
    \cup (IF \E f \in FDs : WhyNot(h', f, now') = "unreg" THEN {"UnregisterWithinGrace"} ELSE {})
    \cup (IF \E f \in FDs : h[f].live # NONE /\ h'[f].live # NONE /\ h'[f].live > h[f].live      \* a renewal was acknowledged
            THEN {"RenewsBeforeExpiry"} ELSE {})
    \cup (IF act'.n = "Rx" /\ act'.c.fn = "RF" THEN {"ListedIffLive"} ELSE {})

Step ==
    /\ l <= Len(T)
    /\ LET e == T[l] IN
        /\ IF rej = 0 /\ ENABLED (Act(e) /\ Match(e.st))
             THEN Act(e) /\ Match(e.st) /\ rej' = rej
             ELSE Bind(e) /\ rej' = IF rej = 0 THEN l ELSE rej
        /\ History
        /\ viol' = viol \cup {<<m, l>> : m \in {x \in Failing : \A v \in viol : v[1] # x}}   \* first failing step per monitor
        /\ ante' = ante \cup Exercised
    /\ l' = l + 1 /\ UNCHANGED <<tid, cnt>>

Done ==
    /\ l = Len(T) + 1
    /\ PrintT(<<"@@", [tid |-> Traces[tid].tid, rej |-> rej, viol |-> viol, ante |-> ante]>>)
    /\ l' = l + 1 /\ UNCHANGED <<vars, tid, rej, viol, ante>>

TNext == Step \/ Done
TSpec == TInit /\ [][TNext]_<<vars, tvars>>
=============================================================================
