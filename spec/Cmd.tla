--------------------------------- MODULE Cmd ---------------------------------
(***************************************************************************)
(* Command prioritisation of a commandable BACnet object as implemented by *)
(* bacpypes local/object.py: Commandable(...)._Commando (redirects writes  *)
(* of the present value into the 16-slot priority array and recomputes the *)
(* winner) and MinOnOffTask (minimum on/off hold at priority 6 of binary   *)
(* objects).  One action per critical section of the code:                 *)
(*   Write(p, v) / Relinquish(p)  _Commando.WriteProperty(presentValue,    *)
(*                                value | Null, priority = p)              *)
(*   BadWrite(p, v), BadIndex0    the two refusals in the bounds check     *)
(*   HoldStart (operator Settle)  MinOnOffTask.present_value_change, runs  *)
(*                                synchronously inside the write that      *)
(*                                changed the present value                *)
(*   HoldExpire                   MinOnOffTask.process_task                *)
(*   Tick(d)                      the clock moves by d seconds             *)
(* Values are abstract tokens; for binary objects "a" = active and         *)
(* "b" = inactive.  Time is kept relative: dl is "deadline - now" of the   *)
(* hold timer, so the reachable graph is finite and TLC explores command   *)
(* sequences of EVERY length, not only up to a bound.                      *)
(***************************************************************************)
EXTENDS Integers, FiniteSets, TLC

CONSTANTS
    \* @type: Set(Str);
    Values,     \* abstract command values
    \* @type: Set(Str);
    RDefs,      \* candidate relinquish defaults (one is chosen in Init); may or may not be a member of Values
    \* @type: Set(Int);
    Prios,      \* priority arguments of commands: subset of 0..16, 0 = "priority omitted" (counts as 16)
    \* @type: Set(Int);
    BadPrios,   \* priority arguments of writes that must be refused: any integers outside 1..16
                \* (0 = an explicit priority 0, which the code turns into array index 0)
    \* @type: Set(Int);
    MinTimes,   \* candidate minimum on / minimum off times in seconds (both chosen in Init); {0} = no MinOnOff
    \* @type: Set(Int);
    Ticks,      \* amounts by which the clock may move in one step
    \* @type: Bool;
    Dev_MinOnOffSwapped  \* named deviation (finding F12): MinOnOffTask times a new ACTIVE state with the minimum
                         \* OFF time and a new INACTIVE state with the minimum ON time.  FALSE = intended design.

VARIABLES
    \* @type: Int -> Str;
    slot,       \* priority array: [1..16 -> Values \cup {Null}]
    \* @type: Str;
    pv,         \* present value
    \* @type: Str;
    rdef,       \* relinquish default
    \* @type: Int;
    minOn,      \* minimumOnTime  (0 = none)
    \* @type: Int;
    minOff,     \* minimumOffTime (0 = none)
    \* @type: Int;
    dl,         \* seconds until the hold timer fires (deadline - now); NONE = timer not armed
    \* @type: Str;
    res,        \* observation: outcome of the last command, "ok" (acknowledged) or "err" (refused)
    \* @type: Int -> Str;
    last,       \* history: the last value commanded at each priority by a Write / Relinquish
    \* @type: { v: Str, rem: Int };
    xh,         \* history: the hold the PROPERTY demands, derived from observed present-value changes and
                \* the intended times only (never from the timer): value held and seconds it still has to last
    \* @type: { op: Str, p: Int, v: Str };
    act         \* the step that produced this state (makes state-graph dumps self-describing)

vars == <<slot, pv, rdef, minOn, minOff, dl, res, last, xh, act>>

Null     == "null"
NONE     == -1
OVERDUE  == -2      \* (history only) a demanded hold whose time is over but which was not released when it ended
Active   == "a"
Inactive == "b"
NoHold   == [v |-> Null, rem |-> NONE]
AllNull  == [p \in 1..16 |-> Null]

EffP(p)      == IF p = 0 THEN 16 ELSE p              \* a write without priority counts as 16
HasMinOnOff  == minOn > 0 \/ minOff > 0

\* _Commando._highest_priority_value
\* @type: (Int -> Str, Str) => Str;
Highest(s, rd) ==
    IF \A p \in 1..16 : s[p] = Null THEN rd
    ELSE s[CHOOSE p \in 1..16 : s[p] # Null /\ \A q \in 1..16 : q < p => s[q] = Null]

\* how long the property wants a new state to be held ...
D(v)  == IF v = Active THEN minOn ELSE IF v = Inactive THEN minOff ELSE 0
\* ... and how long the timer of the design holds it
DT(v) == IF Dev_MinOnOffSwapped
         THEN (IF v = Active THEN minOff ELSE IF v = Inactive THEN minOn ELSE 0)
         ELSE D(v)

\* Tail of _Commando.WriteProperty after slot s has been updated: find the winner; if it differs from the present
\* value write it, which calls MinOnOffTask.present_value_change (HoldStart): with a non-zero time the new state is
\* written at priority 6 and the timer is (re-)installed.  d0 = timer state if no hold starts.
\* @type: (Int -> Str, Int) => { slot: Int -> Str, pv: Str, dl: Int };
Settle(s, d0) ==
    LET h == Highest(s, rdef) IN
    IF h # pv /\ DT(h) > 0
    THEN [slot |-> [s EXCEPT ![6] = h], pv |-> h, dl |-> DT(h)]
    ELSE [slot |-> s, pv |-> h, dl |-> d0]

\* @type: ({ slot: Int -> Str, pv: Str, dl: Int }) => Bool;
Apply(r) == slot' = r.slot /\ pv' = r.pv /\ dl' = r.dl

----------------------------------------------------------------------------
Init ==
    /\ rdef \in RDefs /\ minOn \in MinTimes /\ minOff \in MinTimes
    /\ slot = AllNull /\ pv = rdef /\ dl = NONE /\ res = "ok"
    /\ last = AllNull /\ xh = NoHold
    /\ act = [op |-> "init", p |-> 0, v |-> Null]

Fixed == UNCHANGED <<rdef, minOn, minOff>>

\* priority 6 is reserved for the minimum on/off algorithm (BACnet clause 19.2): with a minimum time configured the
\* environment does not command it
UserMayCommand(p) == EffP(p) \in 1..16 /\ ~(HasMinOnOff /\ EffP(p) = 6)

Write(p, v) ==
    /\ UserMayCommand(p)
    /\ Apply(Settle([slot EXCEPT ![EffP(p)] = v], dl))
    /\ res' = "ok" /\ act' = [op |-> "write", p |-> p, v |-> v] /\ Fixed

Relinquish(p) ==
    /\ UserMayCommand(p)
    /\ Apply(Settle([slot EXCEPT ![EffP(p)] = Null], dl))
    /\ res' = "ok" /\ act' = [op |-> "relinquish", p |-> p, v |-> Null] /\ Fixed

\* a write (v in Values) or relinquish (v = Null) of the present value with a priority outside 1..16, or a write -- at
\* any priority -- of something that is not a value of the datatype (Undefined: e.g. a number outside the enumeration)
Undefined == "x"
BadWrite(p, v) ==
    /\ p \notin 1..16 \/ v = Undefined
    /\ res' = "err" /\ act' = [op |-> "bad", p |-> p, v |-> v]
    /\ UNCHANGED <<slot, pv, dl>> /\ Fixed

\* a write to element 0 of the priority array (its length)
BadIndex0 ==
    /\ res' = "err" /\ act' = [op |-> "bad", p |-> 0, v |-> "idx0"]
    /\ UNCHANGED <<slot, pv, dl>> /\ Fixed

\* another feature of the stack starts / stops watching the present value (a change-of-value detection is bound to the
\* object, later unbound): commanding is not affected, and the minimum on/off machinery keeps watching
Observe(on) ==
    /\ res' = "ok" /\ act' = [op |-> IF on THEN "obs" ELSE "unobs", p |-> 0, v |-> Null]
    /\ UNCHANGED <<slot, pv, dl>> /\ Fixed

\* MinOnOffTask.process_task: priority 6 is relinquished; if that changes the present value the new state is held
HoldExpire ==
    /\ dl = 0
    /\ Apply(Settle([slot EXCEPT ![6] = Null], NONE))
    /\ res' = "ok" /\ act' = [op |-> "expire", p |-> 6, v |-> Null] /\ Fixed

\* discrete-event clock: time never passes a due timer
Tick(d) ==
    /\ d > 0 /\ (dl = NONE \/ d <= dl)
    /\ dl' = IF dl = NONE THEN NONE ELSE dl - d
    /\ res' = "ok" /\ act' = [op |-> "tick", p |-> d, v |-> Null]
    /\ UNCHANGED <<slot, pv>> /\ Fixed

\* History variables: functions of the OBSERVED step only (present value before/after, the command, the clock), so
\* that the very same definitions are used by trace validation on executions of the implementation.
LastNext ==
    last' = IF act'.op = "write" THEN [last EXCEPT ![EffP(act'.p)] = act'.v]
            ELSE IF act'.op = "relinquish" THEN [last EXCEPT ![EffP(act'.p)] = Null]
            ELSE last
XhNext ==
    xh' = IF pv' # pv /\ D(pv') > 0 THEN [v |-> pv', rem |-> D(pv')]                \* a new state starts its hold
          ELSE IF act'.op = "tick" /\ xh.rem >= 0
               THEN [xh EXCEPT !.rem = IF @ - act'.p >= 0 THEN @ - act'.p ELSE OVERDUE]
          ELSE IF act'.op = "expire" /\ xh.rem \in {0, OVERDUE} THEN NoHold             \* released
          ELSE xh
Hist == LastNext /\ XhNext

Cmds ==
    \/ \E p \in Prios, v \in Values : Write(p, v)
    \/ \E p \in Prios : Relinquish(p)
    \/ \E p \in BadPrios, v \in Values \cup {Null} : BadWrite(p, v)
    \/ \E p \in Prios : BadWrite(p, Undefined)
    \/ BadIndex0
    \/ \E on \in BOOLEAN : Observe(on)
    \/ HoldExpire
    \/ \E d \in Ticks : Tick(d)

Next == Cmds /\ Hist
Spec == Init /\ [][Next]_vars

----------------------------------------------------------------------------
\* Properties (C17)
TypeOK ==
    /\ slot \in [1..16 -> Values \cup {Null}] /\ last \in [1..16 -> Values \cup {Null}]
    /\ pv \in Values \cup RDefs /\ rdef \in RDefs /\ minOn \in MinTimes /\ minOff \in MinTimes
    /\ dl \in Int /\ dl >= NONE /\ res \in {"ok", "err"}

\* the present value is the value in the lowest-numbered non-null slot, or the relinquish default
PVIsHighest ==
    LET C == {p \in 1..16 : slot[p] # Null} IN
    IF C = {} THEN pv = rdef ELSE \E p \in C : pv = slot[p] /\ \A q \in C : p <= q

\* each slot holds exactly the last value commanded at that priority (priority 6 belongs to MinOnOffHold when a
\* minimum time is configured)
SlotIsLastCommand == \A p \in 1..16 : (p = 6 /\ HasMinOnOff) \/ slot[p] = last[p]

\* refused writes are refused ...
BadWriteRefused == act.op = "bad" => res = "err"
\* ... and change nothing (action property)
BadWriteChangesNothing == [][act'.op = "bad" => UNCHANGED <<slot, pv, dl>>]_vars

\* a new active (inactive) state is held at priority 6 for the minimum on (off) time and released afterwards
MinOnOffHold ==
    /\ xh.rem >= 0 => slot[6] = xh.v
    /\ (HasMinOnOff /\ xh.rem \in {NONE, OVERDUE}) => slot[6] = Null

\* the timer of the design is exactly the demanded hold (only checked on the design: ties dl to xh)
TimerIsHold == (dl = xh.rem) /\ (dl # NONE => slot[6] = xh.v)
=============================================================================
