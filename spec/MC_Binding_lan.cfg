SPECIFICATION Spec
CONSTANTS
  Lans <- c_Lans
  Queries <- c_Queries
  Rogues <- c_Rogues
  Mutations <- c_Mutations
  MaxOps = 2
  Dev_HighExclusive = FALSE
  Dev_WhoHasNoRange = FALSE
  Dev_LearnUnchecked = FALSE
INVARIANT TypeOK
INVARIANT AtMostOnce
INVARIANT OnlyJustified
INVARIANT Complete
INVARIANT ReplyReachesRequester
INVARIANT KnownWellFormed
INVARIANT BindingEstablished
INVARIANT ObjectsStayWF
CHECK_DEADLOCK FALSE
