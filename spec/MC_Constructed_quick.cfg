SPECIFICATION Spec
CONSTANT Tab <- Schemas
CONSTANT Depth = 4
CONSTANT Rich = TRUE
CONSTANT Sample = 0
INVARIANT ValidCase
INVARIANT RoundTrip
INVARIANT Stable
INVARIANT BalancedTags
INVARIANT Framing
INVARIANT TrailingRejected
INVARIANT AnnexFSpec
INVARIANT Emit
CHECK_DEADLOCK FALSE
