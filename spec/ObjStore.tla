------------------------------ MODULE ObjStore ------------------------------
(***************************************************************************)
(* The property store of a BACnet device as seen through ReadProperty,     *)
(* WriteProperty and ReadPropertyMultiple (property C15).                  *)
(*                                                                         *)
(* Code anchors (one action per service handler):                          *)
(*   Read   service/object.py do_ReadPropertyRequest -> Object.ReadProperty*)
(*          -> Property.ReadProperty (array index handling)                *)
(*   Write  do_WritePropertyRequest (existence check by a read, cast_out)  *)
(*          -> Property.WriteProperty (mutable, datatype, array index)     *)
(*          -> ArrayOf.__setitem__ / fix_length                            *)
(*   RPM    do_ReadPropertyMultipleRequest, read_property_to_result_element*)
(*          (all / required / optional selectors)                          *)
(*   Scan   (a client's walk over an array) ReadProperty of index 0, then   *)
(*          -- if that answers a length n -- of 1..n, n+1, Big, and of the *)
(*          whole property                                                 *)
(*   exceptions -> Error / Reject: app.py Application.indication,          *)
(*          appservice.py ApplicationServiceAccessPoint.indication         *)
(*                                                                         *)
(* Values are opaque tokens (the harness uses the hex of the encoded tag   *)
(* list of one element); every value on the wire is a SEQUENCE of element  *)
(* tokens (a scalar is a sequence of length 1: that is what the wire shows)*)
(*   written value  x == [e |-> <<tok..>>, ty |-> type tag, n |-> number]  *)
(*                  (n: the number an unsigned token denotes, else -1)     *)
(*   store cell     [st |-> "val", e |-> <<tok..>>]   readable value       *)
(*                  [st |-> "abs", e |-> <<>>]        declared, no value   *)
(*                  [st |-> "err", e |-> <<k, c>>]    reading it is refused*)
(*   result         [k |-> "val"|"len"|"ack"|"rpmack"|"err"|"rej"|"abort"| *)
(*                  "none", c |-> code, e |-> tokens, n |-> length]        *)
(* The schema is data (regenerated from the object classes of the working  *)
(* tree by the harness): sch[o] = [order |-> <<property ids>>,             *)
(*   d |-> [p |-> [kind |-> "scalar"|"array"|"list", ty |-> element type   *)
(*   tag, opt, mut |-> BOOLEAN, fix |-> fixed array length or -1,          *)
(*   dflt |-> token of the element a growing array is padded with]]]       *)
(***************************************************************************)
EXTENDS Naturals, Integers, Sequences, FiniteSets, TLC

CONSTANTS
    Schema,         \* the schema used by the model-checking configurations
    Store0,         \* the initial store used by the model-checking configurations
    TokTy,          \* [token -> type tag] for the tokens of the model-checking configurations
    OpObjs, OpProps, OpIdx, OpVals, OpPrios, OpRefs,    \* argument grids of the operations
    WrongTypeRefusals,  \* documented set of <<k, c>> a value of the wrong datatype may be refused with
    MaxLevel,       \* bound on behaviour length for exhaustive checking
    Dev_ValidateAfterAssign     \* named deviation (sanity): an element of the wrong type is stored, then refused

VARIABLES
    val,    \* the store: [object -> [property -> cell]]
    sch,    \* the schema (constant along a behaviour; a variable so that every recorded trace brings its own)
    act,    \* the operation of the last step
    res,    \* its result
    rb,     \* after an acknowledged write: result of ReadProperty of the same property (and array element)
    out     \* RPM / Scan: the result elements, in order
vars == <<val, sch, act, res, rb, out>>

NoIdx == -1
BigIdx == 1000000
Selectors == {"all", "required", "optional"}
AtomicTags == {"boolean", "unsigned", "integer", "real", "double", "octetString", "characterString", "bitString",
               "enumerated", "date", "time", "objectIdentifier"}

NoVal  == [e |-> <<>>, ty |-> "none", n |-> -1]
NoRes  == [k |-> "none", c |-> "", e |-> <<>>, n |-> -1]
AckR   == [k |-> "ack", c |-> "", e |-> <<>>, n |-> -1]
RpmAck == [k |-> "rpmack", c |-> "", e |-> <<>>, n |-> -1]
ValR(e)  == [k |-> "val", c |-> "", e |-> e, n |-> -1]
LenR(n)  == [k |-> "len", c |-> "", e |-> <<>>, n |-> n]
Ref(k, c) == [k |-> k, c |-> c, e |-> <<>>, n |-> -1]
ErrR(c)  == Ref("err", c)
Refusal(r) == r.k \in {"err", "rej", "abort"}

E_UnknownObject   == ErrR("object:unknownObject")
E_UnknownProperty == ErrR("property:unknownProperty")
E_NotAnArray      == ErrR("property:propertyIsNotAnArray")
E_BadIndex        == ErrR("property:invalidArrayIndex")
E_WriteDenied     == ErrR("property:writeAccessDenied")

----------------------------------------------------------------------------
\* schema / store access (parameterised so that they can be used on primed and unprimed stores alike)
Known(s, o)   == o \in DOMAIN s
Decl(s, o, p) == Known(s, o) /\ p \in DOMAIN s[o].d
IsArr(s, o, p) == s[o].d[p].kind = "array"

TyMatch(vty, pty) == vty = pty \/ (pty = "anyAtomic" /\ vty \in AtomicTags)
ElemOK(d, x) == Len(x.e) = 1 /\ TyMatch(x.ty, d.ty)
SeqOK(d, x)  == Len(x.e) = 0 \/ TyMatch(x.ty, d.ty)
\* does the value fit the datatype of what the request addresses
TypeOK(s, o, p, i, x) ==
    LET d == s[o].d[p] IN
    CASE d.kind = "scalar" -> ElemOK(d, x)
      [] d.kind = "list"   -> SeqOK(d, x)
      [] OTHER             -> IF i = NoIdx THEN SeqOK(d, x) /\ (d.fix = -1 \/ Len(x.e) = d.fix)
                              ELSE IF i = 0 THEN Len(x.e) = 1 /\ x.ty = "unsigned" /\ x.n >= 0 /\ (d.fix = -1 \/ x.n = d.fix)
                              ELSE ElemOK(d, x)

\* ---- the faults of a request (property-level vocabulary: what the statement of C15 enumerates) ----
ReadFaults(s, v, o, p, i) ==
    IF ~Known(s, o) THEN {"unknownObject"}
    ELSE IF ~Decl(s, o, p) THEN {"unknownProperty"}
    ELSE (IF v[o][p].st = "abs" THEN {"unknownProperty"} ELSE {})
         \cup (IF i # NoIdx /\ ~IsArr(s, o, p) THEN {"notArray"} ELSE {})
         \cup (IF i # NoIdx /\ IsArr(s, o, p) /\ v[o][p].st = "val" /\ i > Len(v[o][p].e) THEN {"badIndex"} ELSE {})
WriteFaults(s, v, o, p, i, x) ==
    ReadFaults(s, v, o, p, i)
    \cup (IF Decl(s, o, p) /\ ~s[o].d[p].mut THEN {"readOnly"} ELSE {})
    \cup (IF Decl(s, o, p) /\ ~TypeOK(s, o, p, i, x) THEN {"wrongType"} ELSE {})
Match(f) ==
    CASE f = "unknownObject"   -> {E_UnknownObject}
      [] f = "unknownProperty" -> {E_UnknownProperty}
      [] f = "notArray"        -> {E_NotAnArray}
      [] f = "badIndex"        -> {E_BadIndex}
      [] f = "readOnly"        -> {E_WriteDenied}
      [] f = "wrongType"       -> {Ref(w[1], w[2]) : w \in WrongTypeRefusals}
Allowed(F) == UNION {Match(f) : f \in F}
\* the monitor's reading of "answered with the matching error": the codes of the five unambiguous classes are
\* required, a value of the wrong datatype may be refused in any way
Matches(r, F) == r \in Allowed(F \ {"wrongType"}) \/ ("wrongType" \in F /\ Refusal(r))

\* ---- the design: what the handlers answer, in the order in which the code checks ----
Pre(s, v, o, p, i) ==
    IF ~Known(s, o) THEN E_UnknownObject
    ELSE IF ~Decl(s, o, p) THEN E_UnknownProperty
    ELSE IF i # NoIdx /\ ~IsArr(s, o, p) THEN E_NotAnArray
    ELSE IF v[o][p].st = "abs" THEN E_UnknownProperty
    ELSE IF i # NoIdx /\ v[o][p].st = "val" /\ i > Len(v[o][p].e) THEN E_BadIndex
    ELSE NoRes
ReadRes(s, v, o, p, i) ==
    LET r == Pre(s, v, o, p, i) IN
    IF r # NoRes THEN r
    ELSE LET c == v[o][p] IN
         IF c.st = "err" THEN Ref(c.e[1], c.e[2])
         ELSE IF i = NoIdx THEN ValR(c.e)
         ELSE IF i = 0 THEN LenR(Len(c.e))
         ELSE ValR(<<c.e[i]>>)
WriteOutcomes(s, v, o, p, i, x) ==
    LET r == Pre(s, v, o, p, i) IN
    IF r # NoRes THEN {r}
    ELSE LET F == (IF ~s[o].d[p].mut THEN {"readOnly"} ELSE {}) \cup (IF ~TypeOK(s, o, p, i, x) THEN {"wrongType"} ELSE {})
         IN  IF F = {} THEN {AckR} ELSE Allowed(F)
Resize(e, n, dflt) == IF n <= Len(e) THEN SubSeq(e, 1, n) ELSE e \o [j \in 1..(n - Len(e)) |-> dflt]
NewCell(s, v, o, p, i, x) ==
    LET c == v[o][p] IN
    IF i = NoIdx THEN [st |-> "val", e |-> x.e]
    ELSE IF c.st # "val" THEN c
    ELSE IF i = 0 THEN [st |-> "val", e |-> Resize(c.e, x.n, s[o].d[p].dflt)]
    ELSE [st |-> "val", e |-> [c.e EXCEPT ![i] = x.e[1]]]

El(g, o, p, i, r) == [g |-> g, o |-> o, p |-> p, i |-> i, r |-> r, rp |-> r]
InClass(d, sel) == sel = "all" \/ (sel = "required" /\ ~d.opt) \/ (sel = "optional" /\ d.opt)
\* one property reference of a ReadPropertyMultiple request; propertyList and properties without a value are left
\* out of the expansion of a selector (do_ReadPropertyMultipleRequest)
Expand(s, v, g, ref) ==
    IF ref.p \in Selectors
    THEN IF ~Known(s, ref.o) THEN << El(g, ref.o, ref.p, ref.i, E_UnknownObject) >>
         ELSE LET ps == SelectSeq(s[ref.o].order, LAMBDA p : p # "propertyList" /\ InClass(s[ref.o].d[p], ref.p)
                                                            /\ ReadRes(s, v, ref.o, p, ref.i) # E_UnknownProperty)
              IN  [j \in 1..Len(ps) |-> El(g, ref.o, ps[j], ref.i, ReadRes(s, v, ref.o, ps[j], ref.i))]
    ELSE << El(g, ref.o, ref.p, ref.i, ReadRes(s, v, ref.o, ref.p, ref.i)) >>
RECURSIVE Cat(_, _, _, _)
Cat(s, v, refs, g) == IF g > Len(refs) THEN <<>> ELSE Expand(s, v, g, refs[g]) \o Cat(s, v, refs, g + 1)

----------------------------------------------------------------------------
Init ==
    /\ val = Store0 /\ sch = Schema
    /\ act = [op |-> "init", o |-> "", p |-> "", i |-> NoIdx, x |-> NoVal, pr |-> 0, refs |-> <<>>]
    /\ res = NoRes /\ rb = NoRes /\ out = <<>>

Read(o, p, i) ==
    /\ res' = ReadRes(sch, val, o, p, i)
    /\ act' = [op |-> "read", o |-> o, p |-> p, i |-> i, x |-> NoVal, pr |-> 0, refs |-> <<>>]
    /\ rb' = NoRes /\ out' = <<>> /\ UNCHANGED <<val, sch>>

Write(o, p, i, x, pr) ==
    /\ \/ \E r \in WriteOutcomes(sch, val, o, p, i, x) :
            /\ res' = r
            /\ val' = IF r = AckR THEN [val EXCEPT ![o][p] = NewCell(sch, val, o, p, i, x)] ELSE val
       \/ \* the named deviation: Property.WriteProperty validating after the assignment
          /\ Dev_ValidateAfterAssign /\ Pre(sch, val, o, p, i) = NoRes /\ sch[o].d[p].mut /\ ~TypeOK(sch, o, p, i, x)
          /\ i = NoIdx /\ res' \in Allowed({"wrongType"}) /\ val' = [val EXCEPT ![o][p] = [st |-> "val", e |-> x.e]]
    /\ rb' = IF res' = AckR THEN ReadRes(sch, val', o, p, i) ELSE NoRes
    /\ act' = [op |-> "write", o |-> o, p |-> p, i |-> i, x |-> x, pr |-> pr, refs |-> <<>>]
    /\ out' = <<>> /\ UNCHANGED sch

RPM(refs) ==
    /\ out' = Cat(sch, val, refs, 1) /\ res' = RpmAck
    /\ act' = [op |-> "rpm", o |-> "", p |-> "", i |-> NoIdx, x |-> NoVal, pr |-> 0, refs |-> refs]
    /\ rb' = NoRes /\ UNCHANGED <<val, sch>>

Scan(o, p) ==
    /\ LET r0 == ReadRes(sch, val, o, p, 0) IN
        /\ res' = ReadRes(sch, val, o, p, NoIdx)
        /\ out' = IF r0.k # "len" THEN << El(0, o, p, 0, r0) >>
                  ELSE LET e == val[o][p].e
                           n == Len(e)
                       IN  << El(0, o, p, 0, r0) >> \o [j \in 1..n |-> El(0, o, p, j, ValR(<<e[j]>>))]
                           \o << El(0, o, p, n + 1, E_BadIndex), El(0, o, p, BigIdx, E_BadIndex) >>
    /\ act' = [op |-> "scan", o |-> o, p |-> p, i |-> NoIdx, x |-> NoVal, pr |-> 0, refs |-> <<>>]
    /\ rb' = NoRes /\ UNCHANGED <<val, sch>>

Next ==
    \/ \E o \in OpObjs, p \in OpProps, i \in OpIdx : Read(o, p, i)
    \/ \E o \in OpObjs, p \in OpProps, i \in OpIdx, x \in OpVals, pr \in OpPrios : Write(o, p, i, x, pr)
    \/ \E refs \in OpRefs : RPM(refs)
    \/ \E o \in OpObjs, p \in OpProps : Scan(o, p)

Spec == Init /\ [][Next]_vars
Bound == TLCGet("level") <= MaxLevel
\* What an operation answers and how it changes the store depends on the store only, and every property below is a
\* step formula over <<val, act', res', rb', out', val'>> or an invariant of val: states that differ in the record of
\* the LAST operation only have the same successors, so TLC may identify them (VIEW) -- it still evaluates the step
\* formulas on every generated step.
ViewVal == <<val, sch>>

----------------------------------------------------------------------------
\* The property (C15) as step formulas over <<val, val', act', res', rb', out'>>: TLC proves them on the design
\* ([][M]_vars below) and evaluates the very same formulas on every recorded step of the implementation
\* (Trace_ObjStore.tla).

\* an acknowledged write is readable back: through the same property and array element (rb) and in the full read-back
M_ReadYourWrite ==
    (act'.op = "write" /\ res' = AckR) =>
        LET a == act' IN
        /\ rb' = (IF a.i = 0 THEN LenR(a.x.n) ELSE ValR(a.x.e))
        /\ Decl(sch, a.o, a.p) /\ val'[a.o][a.p].st = "val"
        /\ LET e2 == val'[a.o][a.p].e IN
             IF a.i = NoIdx THEN e2 = a.x.e
             ELSE IF a.i = 0 THEN Len(e2) = a.x.n
             ELSE a.i <= Len(e2) /\ Len(a.x.e) = 1 /\ e2[a.i] = a.x.e[1]

\* a refused write leaves EVERY property of every object unchanged
M_RefusalChangesNothing == (act'.op = "write" /\ res' # AckR) => val' = val

\* a request with a fault is answered with an error matching one of its faults (never acknowledged / answered)
M_MatchingError ==
    /\ act'.op = "read" =>
          LET F == ReadFaults(sch, val, act'.o, act'.p, act'.i) IN F # {} => Matches(res', F)
    /\ act'.op = "write" =>
          LET F == WriteFaults(sch, val, act'.o, act'.p, act'.i, act'.x) IN F # {} => Matches(res', F)

\* an array that has a value answers index 0 with its length n, 1..n with its elements (the ones the whole read
\* shows), n+1 and a large index with invalid-array-index
M_ArrayIndexing ==
  /\ \* a single indexed read of an array whose value the last full read-back shows
     (act'.op = "read" /\ act'.i # NoIdx /\ Decl(sch, act'.o, act'.p) /\ IsArr(sch, act'.o, act'.p)
                      /\ val[act'.o][act'.p].st = "val") =>
        LET e == val[act'.o][act'.p].e IN
        res' = (IF act'.i = 0 THEN LenR(Len(e)) ELSE IF act'.i <= Len(e) THEN ValR(<<e[act'.i]>>) ELSE E_BadIndex)
  /\ \* a walk over the array
    (act'.op = "scan" /\ Decl(sch, act'.o, act'.p) /\ IsArr(sch, act'.o, act'.p) /\ val[act'.o][act'.p].st # "abs") =>
        /\ Len(out') >= 1 /\ out'[1].i = 0 /\ out'[1].r.k = "len"
        /\ LET n == out'[1].r.n IN
             /\ Len(out') = n + 3
             /\ \A j \in 1..n : out'[j + 1].i = j /\ out'[j + 1].r.k = "val" /\ Len(out'[j + 1].r.e) = 1
             /\ out'[n + 2].i = n + 1 /\ out'[n + 2].r = E_BadIndex
             /\ out'[n + 3].i = BigIdx /\ out'[n + 3].r = E_BadIndex
             /\ res'.k = "val" /\ res'.e = [j \in 1..n |-> out'[j + 1].r.e[1]]

\* ReadPropertyMultiple: every returned element is exactly what ReadProperty returns for it (rp is the answer of
\* the implementation's own ReadProperty, asked right after), a specific reference yields exactly one element, a
\* selector yields elements of declared properties of its class only, none twice, and at least every property of
\* that class that has a value (propertyList may be left out)
ElsOf(g) == SelectSeq(out', LAMBDA el : el.g = g)
M_RPMEqualsRP ==
    act'.op = "rpm" =>
        /\ res' = RpmAck
        /\ \A j \in 1..Len(out') : out'[j].r = out'[j].rp /\ out'[j].g \in 1..Len(act'.refs)
        /\ \A g \in 1..Len(act'.refs) :
             LET ref == act'.refs[g]
                 els == ElsOf(g)
             IN  IF ref.p \notin Selectors \/ ~Known(sch, ref.o)
                 THEN Len(els) = 1 /\ els[1].o = ref.o /\ els[1].p = ref.p /\ els[1].i = ref.i
                      /\ (~Known(sch, ref.o) => els[1].r = E_UnknownObject)
                 ELSE /\ \A j \in 1..Len(els) : /\ els[j].o = ref.o /\ els[j].i = ref.i
                                                /\ Decl(sch, ref.o, els[j].p) /\ InClass(sch[ref.o].d[els[j].p], ref.p)
                      /\ \A j, k \in 1..Len(els) : els[j].p = els[k].p => j = k
                      /\ \A p \in DOMAIN sch[ref.o].d :
                            (p # "propertyList" /\ InClass(sch[ref.o].d[p], ref.p) /\ val[ref.o][p].st # "abs")
                            => \E j \in 1..Len(els) : els[j].p = p

ReadYourWrite         == [][M_ReadYourWrite]_vars
RefusalChangesNothing == [][M_RefusalChangesNothing]_vars
MatchingError         == [][M_MatchingError]_vars
ArrayIndexing         == [][M_ArrayIndexing]_vars
RPMEqualsRP           == [][M_RPMEqualsRP]_vars

\* state invariants of the design
Shape ==
    \A o \in DOMAIN sch : \A p \in DOMAIN sch[o].d :
        LET c == val[o][p]
            d == sch[o].d[p]
        IN  /\ c.st \in {"val", "abs"}
            /\ c.st = "val" => /\ (d.kind = "scalar" => Len(c.e) = 1)
                               /\ (d.kind = "array" /\ d.fix # -1 => Len(c.e) = d.fix)
\* "typed": every stored token has the element type its property declares
Typed ==
    \A o \in DOMAIN sch : \A p \in DOMAIN sch[o].d :
        \A j \in 1..Len(val[o][p].e) : TyMatch(TokTy[val[o][p].e[j]], sch[o].d[p].ty)
\* the immutable part of the store never changes
ReadOnlyStable == \A o \in DOMAIN sch : \A p \in DOMAIN sch[o].d : ~sch[o].d[p].mut => val[o][p] = Store0[o][p]
=============================================================================
