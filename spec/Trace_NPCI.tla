----------------------------- MODULE Trace_NPCI -----------------------------
(***************************************************************************)
(* Code -> spec validation for C08.  Each line of TRACE_FILE is one call   *)
(* of the real bacpypes network layer codec, recorded by the harness:      *)
(*   {"id":n, "kind":"enc", "r":{header [+ body]}, "o":[octets produced]}  *)
(*   {"id":n, "kind":"dec", "o":[octets given], "h":{header read | err},   *)
(*                                              "b":{body read | err}}     *)
(* err is "DecodingError" (the library's decoding error), "Other" (any     *)
(* other exception) or, for b, "NoHeader".  TLC evaluates Enc / Dec of     *)
(* NPCI.tla on the recorded input and prints one verdict per record that   *)
(* fails a monitor; nothing halts the run.                                 *)
(*                                                                         *)
(* Monitors (C08):                                                         *)
(*   OctetsEqualSpec    the octets produced are Enc of the fields given    *)
(*   FieldsEqualSpec    a valid NPDU is read back as the fields Dec gives  *)
(*   ForbiddenRefused   what Dec refuses (version, broadcast / empty       *)
(*                      source, truncation) is not read as anything        *)
(*   OnlyDecodingError  no exception other than the decoding error         *)
(***************************************************************************)
EXTENDS NPCI, TLC, Json, IOUtils

Recs == ndJsonDeserialize(IOEnv.TRACE_FILE)

VARIABLE i

IsOther(x) == IsErr(x) /\ x.err = "Other"

\* got: what the implementation returned; exp: what the spec says
Judge(got, exp) ==
    IF IsOther(got) THEN "OnlyDecodingError"
    ELSE IF exp = Unspecified THEN "ok"
    ELSE IF exp = DecodingError THEN (IF got = DecodingError THEN "ok" ELSE "ForbiddenRefused")
    ELSE IF got = exp THEN "ok" ELSE "FieldsEqualSpec"

Verdict(rec) ==
    IF rec.kind = "enc" THEN
        LET o == IF "body" \in DOMAIN rec.r THEN EncNPDU(rec.r) ELSE Enc(rec.r) IN
        IF rec.o = o THEN [why |-> "ok"] ELSE [why |-> "OctetsEqualSpec", part |-> "npdu", exp |-> o]
    ELSE
        LET d  == DecBoth(rec.o)
            jh == Judge(rec.h, d.h)
        IN IF jh # "ok" THEN [why |-> jh, part |-> "header", exp |-> d.h]
           ELSE IF IsErr(d.h) \/ IsErr(rec.h) THEN [why |-> "ok"]
           ELSE LET jb == Judge(rec.b, d.b) IN
                IF jb # "ok" THEN [why |-> jb, part |-> "body", exp |-> d.b] ELSE [why |-> "ok"]

Init == i \in 1..Len(Recs)
Next == UNCHANGED i
Spec == Init /\ [][Next]_i

\* always TRUE; prints the failing records
Report ==
    LET v == Verdict(Recs[i]) IN
    v.why = "ok" \/ PrintT(<<"@@", [id |-> Recs[i].id, why |-> v.why, part |-> v.part, exp |-> v.exp]>>)
=============================================================================
