---------------------------- MODULE MC_StreamConn ----------------------------
(* X05, obligation D for StreamConn.tla: two peers, every history of at most MaxOps application calls / socket events  *)
(* with every placement of the timer expiries up to MaxTime.                                                           *)
EXTENDS StreamConn
c_Packets == {<<7, 0>>}
c_Chunks == {<<5>>, <<1, 9>>, <<5, 0, 6, 1>>}
c_Client == {[role |-> "client", connT |-> 2, idle |-> 3]}
c_ClientNoIdle == {[role |-> "client", connT |-> 2, idle |-> 0]}
c_Server == {[role |-> "server", connT |-> 0, idle |-> 2]}
c_Both == c_Client \cup c_Server \cup {[role |-> "client", connT |-> 0, idle |-> 0]}
c_Hows == {"inprogress", "now"}
c_HowsSlow == {"inprogress"}
=============================================================================
