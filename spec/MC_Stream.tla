------------------------------ MODULE MC_Stream ------------------------------
(* X05, obligation D for Stream.tla: scenario tables for exhaustive checking.  TLC enumerates EVERY way of cutting the  *)
(* streams into chunks (a state is the position in every stream plus the last chunk) and every interleaving of the     *)
(* chunks of different streams.                                                                                        *)
(*   c_One    one stream (up, p1): every sequence of at most MaxPk packets with body lengths 0..MaxBody, for every      *)
(*            framing in Frs                                                                                            *)
(*   c_Mix    four streams (both directions x two peers), each with a few packets: interleavings, independence          *)
(* Packets are made so that any confusion shows: the tag octet names stream and position, body octets name position    *)
(* and index; BSLL bodies start with the BSLL type octet on purpose.                                                    *)
EXTENDS Stream
CONSTANTS MaxPk, MaxBody, Frs

LenSeqs(n, m) == UNION {[1..k -> 0..m] : k \in 0..n}
Body(f, j, n) == [i \in 1..n |-> IF f = "bsll" /\ i = 1 THEN BSLLType ELSE 100 + 10 * j + i]
Header(f, id, j, n) ==
    CASE f = "tl"   -> <<10 * id + j, n>>
      [] f = "lp"   -> <<0, n>>
      [] f = "bsll" -> <<BSLLType, 10 * id + j, 0, 4 + n>>
Mk(f, id, ls) == [j \in 1..Len(ls) |-> Header(f, id, j, ls[j]) \o Body(f, j, ls[j])]
Nothing == [d \in Dirs |-> [p \in Peers |-> <<>>]]

c_One == {[fr |-> f, pkts |-> [Nothing EXCEPT !["up"]["p1"] = Mk(f, 1, ls)]] : f \in Frs, ls \in LenSeqs(MaxPk, MaxBody)}

\* the same in the other direction (the code has one routine for both, fed from two entry points)
c_OneDown == {[fr |-> f, pkts |-> [Nothing EXCEPT !["down"]["p2"] = Mk(f, 2, ls)]] : f \in Frs, ls \in LenSeqs(MaxPk, MaxBody)}

MixA == {<<1>>, <<0, 2>>}
MixB == {<<>>, <<2>>, <<1, 0>>}
c_Mix == {[fr |-> f, pkts |-> [up |-> [p1 |-> Mk(f, 1, a), p2 |-> Mk(f, 2, b)],
                                        down |-> [p1 |-> Mk(f, 3, c), p2 |-> Mk(f, 4, e)]]] :
                        f \in Frs, a \in MixA, b \in MixB, c \in MixB, e \in {<<>>, <<0>>}}

\* two streams only (same direction, two peers / same peer, two directions)
c_Pair == {[fr |-> f, pkts |-> [Nothing EXCEPT !["up"]["p1"] = Mk(f, 1, a), ![x[1]][x[2]] = Mk(f, 2, b)]] :
                        f \in Frs, a \in LenSeqs(2, 1), b \in LenSeqs(2, 1), x \in {<<"up", "p2">>, <<"down", "p1">>}}

\* smaller tables of the same kinds (replayed path by path on the implementation)
c_MixS == {[fr |-> f, pkts |-> [up |-> [p1 |-> Mk(f, 1, a), p2 |-> Mk(f, 2, <<0>>)],
                                down |-> [p1 |-> Mk(f, 3, b), p2 |-> <<>>]]] : f \in Frs, a \in {<<1>>, <<0, 0>>}, b \in {<<0>>, <<>>}}
c_PairS == {[fr |-> f, pkts |-> [Nothing EXCEPT !["up"]["p1"] = Mk(f, 1, a), ![x[1]][x[2]] = Mk(f, 2, <<0>>)]] :
                f \in Frs, a \in {<<1>>, <<0, 1>>}, x \in {<<"up", "p2">>, <<"down", "p1">>}}

c_NoAddrOnly == {NoAddr}
c_WithLocal == {NoAddr, "L"}
=============================================================================
