\* needs TRACE_FILE=<ndjson of recorded calls> in the environment
SPECIFICATION Spec
INVARIANT Report
CHECK_DEADLOCK FALSE
