------------------------------- MODULE MC_Cmd -------------------------------
(* Static model-checking configurations of Cmd.tla (the driver harness/drivers/c17.py generates the same ones):  *)
(*   MC_Cmd_plain.cfg       4 priorities (+ omitted) x 3 values x {write, relinquish} + refused writes           *)
(*   MC_Cmd_timers.cfg      binary values, minimum on/off times {0..3}^2, clock steps 1..3                        *)
(*   MC_Cmd_timers_dev.cfg  the same with Dev_MinOnOffSwapped = TRUE: MinOnOffHold must be violated (F12)        *)
(* The reachable graph is finite, so every command sequence of every length is covered (diameter 7-8).          *)
EXTENDS Cmd
=============================================================================
