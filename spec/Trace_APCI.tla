----------------------------- MODULE Trace_APCI -----------------------------
(***************************************************************************)
(* C07, code -> spec.  Every line of $TRACE_FILE is one evaluation of the  *)
(* real bacpypes code recorded by harness/drivers/c07.py:                  *)
(*                                                                         *)
(*  {"id":n,"k":"enc","hdr":{header record},                               *)
(*        "out":{"ok":true,"o":[octets]} | {"ok":false,"exc":"TypeError"}} *)
(*      the header built with the real PDU class and encoded through       *)
(*      APCI/APDU.encode into a PDU                                        *)
(*  {"id":n,"k":"dec","s":[octets],                                        *)
(*        "out":{"ok":true,"hdr":{header record},"bad":[..]}               *)
(*            | {"ok":false,"exc":"DecodingError"}}                        *)
(*      an octet string run through APDU.decode + <type class>.decode      *)
(*      (`bad` lists attributes whose Python value had no image in the     *)
(*      header record, e.g. a flag left at None)                           *)
(*  {"id":n,"k":"tab","fn":"enc_segs"|"dec_segs"|"enc_apdu"|"dec_apdu",    *)
(*        "arg":n,"out":{"ok":true,"v":n (None = -1)} | {"ok":false,..}}   *)
(*                                                                         *)
(* One TLC state per record.  For a record that does not satisfy its       *)
(* monitor one verdict record is printed ("@@"); nothing halts the run.    *)
(*   kind "violation": the real code falsifies a clause of C07             *)
(*        OctetsEqualSpec   encoding differs from Enc                      *)
(*        FieldsEqualSpec   decoded fields / payload differ from Dec, or a *)
(*                          clause-20.1 encoding is refused                *)
(*        TableRoundsDown   a table function differs from 20.1.2.4/20.1.2.5*)
(*                          or does not round down to the largest code     *)
(*        OnlyDecodingError decoding failed with something else than       *)
(*                          DecodingError                                  *)
(*   kind "deviation": spec and code disagree on *which* strings are       *)
(*        refused (the property only says "a header or a decoding error")  *)
(*   kind "badinput": the harness produced a malformed record (machinery)  *)
(***************************************************************************)
EXTENDS APCI, Json, IOUtils

Recs == ndJsonDeserialize(IOEnv.TRACE_FILE)
VARIABLE i

OK == [kind |-> "ok"]
Viol(m, exp, note) == [kind |-> "violation", monitor |-> m, exp |-> exp, note |-> note]
Dev(exp, note)     == [kind |-> "deviation", monitor |-> "-", exp |-> exp, note |-> note]
Bad(note)          == [kind |-> "badinput", monitor |-> "-", exp |-> 0, note |-> note]

\* ---- monitors -------------------------------------------------------------------------------------
OctetsEqualSpec(hdr, octets) == octets = Enc(hdr)
FieldsEqualSpec(octets, hdr) == hdr = Dec(octets)

VEnc(r) ==
    IF ~WF(r.hdr) THEN Bad("header record is not well-formed")
    ELSE IF r.out.ok
         THEN IF OctetsEqualSpec(r.hdr, r.out.o) THEN OK
              ELSE Viol("OctetsEqualSpec", Enc(r.hdr), "octets differ from the clause 20.1 layout")
         ELSE Viol("OctetsEqualSpec", Enc(r.hdr), "encoding a well-formed header raised")

VDec(r) ==
    LET exp == Dec(r.s) IN
    IF ~IsOctets(r.s) THEN Bad("not an octet string")
    ELSE IF r.out.ok
         THEN IF exp = Err THEN Dev(exp, "accepted, the spec refuses this string")
              ELSE IF r.out.bad # <<>> THEN Viol("FieldsEqualSpec", exp, "a header field was not restored")
              ELSE IF FieldsEqualSpec(r.s, r.out.hdr) THEN OK
              ELSE Viol("FieldsEqualSpec", exp, "decoded fields / payload differ from the clause 20.1 layout")
         ELSE IF r.out.exc = "DecodingError"
              THEN IF exp = Err THEN OK
                   ELSE IF Enc(exp) = r.s
                        THEN Viol("FieldsEqualSpec", exp, "a clause 20.1 encoding is refused")
                        ELSE Dev(exp, "refused, the spec ignores the reserved bits that are set")
              ELSE Viol("OnlyDecodingError", exp, "decoding failed with another exception class")

\* TableRoundsDown: the four table functions against 20.1.2.4 / 20.1.2.5
VTab(r) ==
    LET a == r.arg
        got == IF r.out.ok THEN r.out.v ELSE NoCode      \* an encoder that raises announces no code
    IN
    CASE r.fn = "enc_segs" ->
            IF SegRoundsDown(a, got) THEN OK
            ELSE IF SegCode(a) = NoCode /\ got = 0
                 THEN Dev(SegCode(a), "announces 'unspecified' for a capability no code point expresses")
                 ELSE Viol("TableRoundsDown", SegCode(a), "not the largest code whose meaning <= capability")
      [] r.fn = "enc_apdu" ->
            IF ApduRoundsDown(a, got) THEN OK
            ELSE Viol("TableRoundsDown", ApduCode(a), "not the largest code whose meaning <= capability")
      [] r.fn = "dec_segs" ->
            LET m == SegMeaning(a) IN
            IF r.out.ok /\ ((m.kind = "n" /\ r.out.v = m.n) \/ (m.kind # "n" /\ r.out.v = NONE)) THEN OK
            ELSE Viol("TableRoundsDown", m, "meaning of the code point differs from 20.1.2.4")
      [] r.fn = "dec_apdu" ->
            LET m == ApduMeaning(a) IN
            IF m.kind = "n" THEN IF r.out.ok /\ r.out.v = m.n THEN OK
                                 ELSE Viol("TableRoundsDown", m, "meaning of the code point differs from 20.1.2.5")
            ELSE IF ~r.out.ok \/ r.out.v = NONE THEN OK
                 ELSE Viol("TableRoundsDown", m, "a reserved code point is given a meaning")
      [] OTHER -> Bad("unknown table function")

Verdict(r) ==
    CASE r.k = "enc" -> VEnc(r)
      [] r.k = "dec" -> VDec(r)
      [] r.k = "tab" -> VTab(r)
      [] OTHER -> Bad("unknown record kind")

Report(r) ==
    LET v == Verdict(r) IN
    IF v.kind = "ok" THEN TRUE
    ELSE PrintT(<<"@@", [id |-> r.id, kind |-> v.kind, monitor |-> v.monitor, exp |-> v.exp, note |-> v.note]>>)

Init == i \in 1..Len(Recs)
Next == UNCHANGED i
Spec == Init /\ [][Next]_i
Reported == Report(Recs[i])      \* INVARIANT: always TRUE, prints the verdict of a failing record
=============================================================================
