CONSTANTS
  TopoAt <- ipraise_TopoAt
  NTopos <- ipraise_N
  SendNodes = {2, 5}
  Dests <- ip_Dests
  Claims <- ip_Claims
  Payloads = {7}
  MutPayloads = {9}
  ChurnNodes = {6}
  Draws <- None
  MaxSends = 2
  MaxChurn = 1
  MaxMut = 0
  SendByReference = FALSE
  BcastExcludesByAddress = FALSE
  RaiseCutsDelivery = TRUE
SPECIFICATION Spec
CHECK_DEADLOCK FALSE
INVARIANT RoutedExactlyOnce
