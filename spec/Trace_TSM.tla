----------------------------- MODULE Trace_TSM -----------------------------
(***************************************************************************)
(* Trace validation for TSM.tla.  Each line of TRACE_FILE is one execution *)
(* of the real ClientSSM / ServerSSM pair recorded by harness/tsmrig.py:   *)
(*   {"tid":n, "evs":[{"ev":"Deliver","i":1,"st":{projected post-state}}]} *)
(* Per step TLC decides (a) conformance -- the logged post-state is the    *)
(* successor of the current state under the TSM action named by the event  *)
(* (checked until the first rejected step, after which the trace is only   *)
(* monitored) and (b) the C04/C05 monitors, which are the invariants and   *)
(* action properties of TSM.tla evaluated on the logged states.            *)
(* One verdict record per trace is printed; nothing halts the run.         *)
(***************************************************************************)
EXTENDS TSM, Json, IOUtils, TLCExt

Traces == ndJsonDeserialize(IOEnv.TRACE_FILE)
VARIABLES tid, l, rej, viol,
          ackd     \* ghost: [cs, sc -> BOOLEAN] a segment ack travelling in that direction has been DELIVERED (the harness's own
                   \* record of what it handed to a stack): the receiver has granted a window
tvars == <<tid, l, rej, viol, ackd>>
T == Traces[tid].evs

TInit == Init /\ tid \in 1..Len(Traces) /\ l = 1 /\ rej = 0 /\ viol = {} /\ ackd = [cs |-> FALSE, sc |-> FALSE]
AckdNext(e) == IF e.ev = "Deliver" /\ e.i \in 1..Len(net) /\ net[e.i].k = "ACK"
               THEN [ackd EXCEPT ![net[e.i].dir] = TRUE] ELSE ackd
\* until the receiver has granted a window (its first segment ack has arrived) a sender has at most ONE segment under way:
\* the first one, alone -- also when it repeats it after a timeout
SegsIn(fs, kind) == Len(SelectSeq(fs, LAMBDA f : f.k = kind /\ f.seg))
FirstSegmentAlone(e) == LET a == AckdNext(e) IN
                        /\ (~a.cs => SegsIn(tx', "CA") <= 1)
                        /\ (~a.sc => SegsIn(tx', "CR") <= 1)

Act(e) ==
    CASE e.ev = "Submit"     -> (IF Traces[tid].refused THEN \E r \in LocalRefusals : SubmitRefused(r) ELSE Submit)
                                /\ Emit0 /\ act' = [n |-> "Submit", i |-> 0]
      [] e.ev = "Deliver"    -> Deliver(e.i)
      [] e.ev = "Drop"       -> Drop(e.i)
      [] e.ev = "Dup"        -> Dup(e.i)
      [] e.ev = "Delay"      -> Delay(e.i)
      [] e.ev = "Shrink"     -> Shrink(e.i)
      [] e.ev = "CTimeout"   -> C_timeout /\ Emit0 /\ act' = [n |-> "CTimeout", i |-> 0]
      [] e.ev = "STimeout"   -> S_timeout /\ Emit0 /\ act' = [n |-> "STimeout", i |-> 0]
      [] e.ev = "AppRespond" -> AppRespond /\ Emit0 /\ act' = [n |-> "AppRespond", i |-> 0]
      [] e.ev = "Tick"       -> Tick
      [] OTHER               -> FALSE

FrameEq(a, b) == /\ a.k = b.k /\ a.dir = b.dir /\ a.srv = b.srv /\ a.seg = b.seg /\ a.mor = b.mor /\ a.seq = b.seq
                 /\ a.win = b.win /\ a.nak = b.nak /\ a.tok = b.tok /\ a.at = b.at /\ a.late = b.late
FramesEq(p, q) == Len(p) = Len(q) /\ \A i \in 1..Len(p) : FrameEq(p[i], q[i])

CMatch(lc) == IF lc.st = "NONE" THEN c'.st \in {"IDLE", "COMPLETED", "ABORTED"}
              ELSE /\ c'.st = lc.st /\ c'.retry = lc.retry /\ c'.segRetry = lc.segRetry
                   /\ c'.init = lc.init /\ c'.last = lc.last /\ c'.win = lc.win
                   /\ c'.sentAll = lc.sentAll /\ c'.ddl = lc.ddl
                   /\ (lc.st = "SEG_CONF" => c'.rx = lc.rx) /\ (lc.st = "SEG_REQ" => c'.base = lc.base)
SMatch(ls) == IF ls.st = "NONE" THEN s'.st \in {"NOTXN", "GONE"}
              ELSE /\ s'.st = ls.st /\ s'.segRetry = ls.segRetry
                   /\ s'.init = ls.init /\ s'.last = ls.last /\ s'.win = ls.win
                   /\ s'.sentAll = ls.sentAll /\ s'.ddl = ls.ddl
                   /\ (ls.st = "SEG_REQ" => s'.rx = ls.rx) /\ (ls.st = "SEG_RESP" => s'.base = ls.base)
OutEq(p, q) == Len(p) = Len(q) /\ \A i \in 1..Len(p) : p[i].k = q[i].k /\ p[i].rx = q[i].rx /\ p[i].at = q[i].at

\* conformance: the state computed by the spec action agrees with the logged projection
Match(st) == /\ now' = st.now /\ CMatch(st.c) /\ SMatch(st.s) /\ FramesEq(net', st.net) /\ FramesEq(tx', st.tx)
             /\ OutEq(cOut', st.cOut) /\ sInd' = st.sInd /\ sApp' = st.sApp

\* monitor mode: every variable is bound to the logged value
Strip(fs) == [i \in 1..Len(fs) |-> [k |-> fs[i].k, dir |-> fs[i].dir, srv |-> fs[i].srv, seg |-> fs[i].seg,
                                    mor |-> fs[i].mor, seq |-> fs[i].seq, win |-> fs[i].win, nak |-> fs[i].nak,
                                    tok |-> fs[i].tok, at |-> fs[i].at, late |-> fs[i].late]]
CBind(lc) == IF lc.st = "NONE" THEN [CInit EXCEPT !.st = IF cOut' = <<>> THEN "IDLE" ELSE "COMPLETED"]
             ELSE [st |-> lc.st, retry |-> lc.retry, segRetry |-> lc.segRetry, init |-> lc.init, last |-> lc.last,
                   win |-> lc.win, sentAll |-> lc.sentAll, ddl |-> lc.ddl, rx |-> lc.rx, base |-> lc.base]
SBind(ls) == IF ls.st = "NONE" THEN [SInit EXCEPT !.st = "GONE"]
             ELSE [st |-> ls.st, segRetry |-> ls.segRetry, init |-> ls.init, last |-> ls.last,
                   win |-> ls.win, sentAll |-> ls.sentAll, ddl |-> ls.ddl, rx |-> ls.rx, base |-> ls.base]
Bind(e) == /\ now' = e.st.now /\ net' = Strip(e.st.net) /\ tx' = Strip(e.st.tx) /\ wire' = wire \o Strip(e.st.tx)
           /\ cOut' = [i \in 1..Len(e.st.cOut) |-> [k |-> e.st.cOut[i].k, rx |-> e.st.cOut[i].rx, at |-> e.st.cOut[i].at]]
           /\ sInd' = e.st.sInd /\ sApp' = e.st.sApp
           /\ c' = CBind(e.st.c) /\ s' = SBind(e.st.s)
           /\ nDrop' = nDrop + (IF e.ev = "Drop" THEN 1 ELSE 0) /\ nDup' = nDup + (IF e.ev = "Dup" THEN 1 ELSE 0)
           /\ nDelay' = nDelay + (IF e.ev = "Delay" THEN 1 ELSE 0) /\ nShrink' = nShrink + (IF e.ev = "Shrink" THEN 1 ELSE 0)
           /\ act' = [n |-> e.ev, i |-> e.i]

\* monitors on the step just taken (primed = logged post-state); res = what the real stacks still hold
Failing(e) ==
    LET res == e.st.residue IN
    (IF AtMostOneOutcome' THEN {} ELSE {"AtMostOneOutcome"}) \cup
    (IF OutcomeKind' THEN {} ELSE {"OutcomeKind"}) \cup
    (IF ExactlyOneAtQuiescence' THEN {} ELSE {"ExactlyOneAtQuiescence"}) \cup
    (IF BoundedTime' THEN {} ELSE {"BoundedTime"}) \cup
    (IF ResponseIntegrity' THEN {} ELSE {"ResponseIntegrity"}) \cup
    (IF RequestIntegrity' THEN {} ELSE {"RequestIntegrity"}) \cup
    (IF MoreFollows' THEN {} ELSE {"MoreFollows"}) \cup
    (IF SeqMatchesIndex' THEN {} ELSE {"SeqConsecutive"}) \cup
    (IF WindowBound' THEN {} ELSE {"WindowBound"}) \cup
    (IF WindowRange' THEN {} ELSE {"WindowRange"}) \cup
    (IF A_WindowRespectsAck THEN {} ELSE {"WindowBound"}) \cup
    (IF FirstSegmentAlone(e) THEN {} ELSE {"WindowBound"}) \cup
    (IF SingleFaultRepaired' THEN {} ELSE {"SingleFaultRepaired"}) \cup
    (IF A_SilenceAfterOutcome THEN {} ELSE {"SilenceAfterOutcome"}) \cup
    (IF A_AbortOnlyAfterAllRetries THEN {} ELSE {"AbortOnlyAfterAllRetries"}) \cup
    (IF A_NoDoubleIndication THEN {} ELSE {"NoDoubleIndication"}) \cup
    \* once the outcome has been delivered the client holds no transaction and no timer for it
    (IF Len(cOut') >= 1 => res.ct = 0 /\ res.ctimers = 0 THEN {} ELSE {"NoResidue"}) \cup
    \* at quiescence neither side holds a transaction, a timer or a deferred call
    (IF Quiescent' => res.ct = 0 /\ res.st = 0 /\ res.timers = 0 /\ res.deferred = 0 THEN {} ELSE {"NoResidue"}) \cup
    \* a request the harness built to be within what the peer is known to accept (trace field "feasible", an input) is
    \* taken on: the submission puts a frame on the wire and is not answered with a local refusal
    (IF (e.ev = "Submit" /\ Traces[tid].feasible) => (cOut' = <<>> /\ tx' # <<>>) THEN {} ELSE {"RefusedThoughFeasible"}) \cup
    (IF e.exc = "" THEN {} ELSE {})

Step ==
    /\ l <= Len(T)
    /\ LET e == T[l] IN
        /\ IF rej = 0 /\ ENABLED (Act(e) /\ Match(e.st))
             THEN Act(e) /\ Match(e.st) /\ rej' = rej
             ELSE Bind(e) /\ rej' = IF rej = 0 THEN l ELSE rej
        /\ viol' = viol \cup {<<m, l>> : m \in {x \in Failing(e) : \A v \in viol : v[1] # x}}
        /\ ackd' = AckdNext(e)
    /\ l' = l + 1 /\ UNCHANGED tid

\* end of trace: the run ended because nothing was left to do -- or it is reported as not terminated
Final == IF T[Len(T)].ev = "Livelock" THEN {"Terminates"}
         ELSE IF Traces[tid].refused /\ Len(T) = 1 /\ Len(cOut) = 1 /\ net = <<>> THEN {}
         ELSE (IF Quiescent THEN {} ELSE {"NotQuiescentAtEnd"})
Done ==
    /\ l = Len(T) + 1
    /\ PrintT(<<"@@", [tid |-> Traces[tid].tid, rej |-> rej, viol |-> viol, final |-> Final,
                       out |-> [i \in 1..Len(cOut) |-> cOut[i].k], faults |-> <<nDrop, nDup, nDelay>>]>>)
    /\ l' = l + 1 /\ UNCHANGED <<vars, tid, rej, viol, ackd>>

TNext == Step \/ Done
TSpec == TInit /\ [][TNext]_<<vars, tvars>>
=============================================================================
