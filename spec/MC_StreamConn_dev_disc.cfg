CONSTANTS
  Peers = {"p1", "p2"}
  Configs <- c_Client
  Delays = {0, 2}
  Hows <- c_HowsSlow
  Packets <- c_Packets
  Chunks <- c_Chunks
  MaxTime = 6
  MaxOps = 4
  DisconnectKeepsPendingReconnect = TRUE
  ImmediateConnectKeepsTimeout = FALSE
  ShortLengthStalls = FALSE
SPECIFICATION Spec
CHECK_DEADLOCK FALSE
INVARIANT TimersBelongToActors
INVARIANT DisconnectIsFinal
INVARIANT KeptAlive
INVARIANT SentInOrder
INVARIANT BuffersFollowTable
PROPERTY P_NotesMatchTable
PROPERTY P_ClosedForAReason
PROPERTY P_ReceivedGoesUp
PROPERTY P_ReceivedConserved
PROPERTY P_NothingOverdue
