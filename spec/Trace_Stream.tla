---------------------------- MODULE Trace_Stream ----------------------------
(***************************************************************************)
(* Trace validation for Stream.tla.  Each line of TRACE_FILE is one         *)
(* execution recorded from a real tcp.StreamToPacket bound between a        *)
(* recording client (above) and a recording server (below):                 *)
(*   {"tid":n, "scen":{"fr":"lp",                                           *)
(*                     "pkts":{"up":{"p1":[[..],..],..},"down":{..}}},      *)
(*    "evs":[{"d":"up","s":"p1","t":"","data":[..],"fail":0,                *)
(*            "em":[{"data":[..],"src":"p1","dst":""}],"raised":false,      *)
(*            "bufd":[{"d":"up","a":"p1","b":[..]}]}]}                      *)
(* One event = one chunk handed to StreamToPacket.confirmation (up) /       *)
(* .indication (down); em = the packets the consumer was handed during the  *)
(* call, with the addresses they carried; bufd = the buffers (both tables,  *)
(* every address) whose projected content differs from the previous step.   *)
(* For every step TLC decides (a) conformance: is the logged projection     *)
(* what the Chunk action yields from the logged pre-state, and (b) the X05  *)
(* formulas on the logged states.  One verdict record per trace ("@@"       *)
(* prefix); nothing halts the run.                                          *)
(***************************************************************************)
EXTENDS Stream, Json, IOUtils, TLCExt

Traces == ndJsonDeserialize(IOEnv.TRACE_FILE)
VARIABLES tid, l, rej, viol
tvars == <<tid, l, rej, viol>>
T == Traces[tid].evs

TInit ==
    /\ tid \in 1..Len(Traces) /\ l = 1 /\ rej = 0 /\ viol = {}
    /\ fr = Traces[tid].scen.fr /\ pkts = Traces[tid].scen.pkts
    /\ todo = [d \in Dirs |-> [p \in Peers |-> Flatten(Traces[tid].scen.pkts[d][p])]]
    /\ sent = [d \in Dirs |-> [a \in Addrs |-> <<>>]]
    /\ buf = [d \in Dirs |-> [a \in Addrs |-> <<>>]]
    /\ out = [d \in Dirs |-> [a \in Addrs |-> <<>>]]
    /\ rz = [d \in Dirs |-> [a \in Addrs |-> FALSE]]
    /\ act = InitAct

DataOf(em) == [i \in 1..Len(em) |-> em[i].data]
Changed(e, d, a) == {i \in 1..Len(e.bufd) : e.bufd[i].d = d /\ e.bufd[i].a = a}

\* the projection logged by the harness after the step; the consumer files every packet under the stream its own
\* addresses name
Bind(e) ==
    LET p == KeyOf(e.d, e.s, e.t) IN
    /\ buf' = [d \in Dirs |-> [a \in Addrs |->
                 IF Changed(e, d, a) = {} THEN buf[d][a] ELSE e.bufd[CHOOSE i \in Changed(e, d, a) : TRUE].b]]
    /\ out' = [d \in Dirs |-> [a \in Addrs |->
                 IF d # e.d THEN out[d][a]
                 ELSE out[d][a] \o DataOf(SelectSeq(e.em, LAMBDA x : KeyOf(d, x.src, x.dst) = a))]]
    /\ sent' = [sent EXCEPT ![e.d][p] = @ \o e.data]
    /\ todo' = [todo EXCEPT ![e.d][p] = Drop(@, Len(e.data))]
    /\ rz' = [rz EXCEPT ![e.d][p] = e.raised]
    /\ act' = [d |-> e.d, s |-> e.s, t |-> e.t, data |-> e.data, fail |-> e.fail, em |-> e.em, raised |-> e.raised]
    /\ UNCHANGED <<fr, pkts>>

Failing ==
    (IF OutputIsPrefixOfPackets' THEN {} ELSE {"OutputIsPrefixOfPackets"}) \cup
    (IF NoEarlyEmission' THEN {} ELSE {"NoEarlyEmission"}) \cup
    (IF BufferIsRemainder' THEN {} ELSE {"BufferIsRemainder"}) \cup
    (IF NothingHeldBack' THEN {} ELSE {"NothingHeldBack"}) \cup
    (IF Complete' THEN {} ELSE {"Complete"}) \cup
    (IF Independent THEN {} ELSE {"Independent"}) \cup
    (IF AddressesPropagated THEN {} ELSE {"AddressesPropagated"}) \cup
    (IF OctetsConserved THEN {} ELSE {"OctetsConserved"})

\* the first failing step of every monitor is reported
Step ==
    /\ l <= Len(T)
    /\ LET e == T[l] IN
        /\ Bind(e)
        /\ rej' = IF rej = 0 /\ ~ENABLED (Chunk(e.d, e.s, e.t, e.data, e.fail) /\ Bind(e)) THEN l ELSE rej
        /\ viol' = viol \cup {<<m, l>> : m \in {x \in Failing : \A v \in viol : v[1] # x}}
    /\ l' = l + 1 /\ UNCHANGED tid

Done ==
    /\ l = Len(T) + 1
    /\ PrintT(<<"@@", [tid |-> Traces[tid].tid, rej |-> rej, viol |-> viol]>>)
    /\ l' = l + 1 /\ UNCHANGED <<vars, tid, rej, viol>>

TNext == Step \/ Done
TSpec == TInit /\ [][TNext]_<<vars, tvars>>
=============================================================================
