-------------------------------- MODULE Prims --------------------------------
(***************************************************************************)
(* Canonical encodings of the BACnet primitive datatypes (ASHRAE 135       *)
(* clauses 20.2.2 .. 20.2.14), on top of the framing of Tags.tla.          *)
(* Oracle for C01.  Written from the standard.                             *)
(*                                                                         *)
(* Every abstract value is a SEQUENCE OF INTEGERS (so that cases of all    *)
(* types live in one set and travel through JSON):                         *)
(*   Null             <<>>                                                 *)
(*   Boolean          <<b>>              b in {0,1}                        *)
(*   Unsigned, Unsigned8, Unsigned16, Enumerated, Integer                  *)
(*                    <<sign>> \o limbs  sign 1 = negative; limbs = the    *)
(*                                       magnitude in 16-bit limbs, least  *)
(*                                       significant first, no high zero   *)
(*                                       limb (0 = no limbs)               *)
(*   Real             <<s, e, mh, ml>>   IEEE-754 binary32: sign, 8-bit    *)
(*                                       exponent, mantissa 7 + 16 bits    *)
(*   Double           <<s, e, m3, m2, m1, m0>>  binary64: 11-bit exponent, *)
(*                                       mantissa 4 + 16 + 16 + 16 bits    *)
(*   RealFromDouble   a Double value handed to Real (only refusal of       *)
(*                    clear overflow is specified; rounding is out of      *)
(*                    scope)                                               *)
(*   OctetString      items (octets; -n = n opaque octets, see Tags)       *)
(*   CharacterString  <<encoding>> \o items   (character set octet + raw)  *)
(*   Utf8String       code points (-n = n ASCII characters): a Python str  *)
(*                    handed to CharacterString, encoding 0 (UTF-8)        *)
(*   BitString        bits, first bit first                                *)
(*   Date, Time       four octets                                          *)
(*   ObjectIdentifier <<type, instance>>                                   *)
(***************************************************************************)
EXTENDS Tags

Types == {"Null", "Boolean", "Unsigned", "Unsigned8", "Unsigned16", "Integer", "Real", "Double", "RealFromDouble",
          "OctetString", "CharacterString", "Utf8String", "BitString", "Enumerated", "Date", "Time", "ObjectIdentifier"}
AppNum(ty) ==
    CASE ty = "Null" -> 0 [] ty = "Boolean" -> 1 [] ty \in {"Unsigned", "Unsigned8", "Unsigned16"} -> 2 [] ty = "Integer" -> 3
      [] ty \in {"Real", "RealFromDouble"} -> 4 [] ty = "Double" -> 5 [] ty = "OctetString" -> 6
      [] ty \in {"CharacterString", "Utf8String"} -> 7 [] ty = "BitString" -> 8 [] ty = "Enumerated" -> 9
      [] ty = "Date" -> 10 [] ty = "Time" -> 11 [] ty = "ObjectIdentifier" -> 12
IntKinds == {"Unsigned", "Unsigned8", "Unsigned16", "Enumerated", "Integer"}

Bad == <<-1000000>>                      \* "no value": the decoder's answer for octets that are not an encoding
All(s, P(_)) == \A i \in 1..Len(s) : P(s[i])
Octet(x) == x >= 0 /\ x <= 255
Item(x) == x <= 255                      \* an octet or a blob

\* ---- natural numbers as limbs <-> big-endian octets --------------------------------------------------------
Limb(x) == x >= 0 /\ x <= 65535
NormalLimbs(m) == All(m, Limb) /\ (m = <<>> \/ m[Len(m)] # 0)
RECURSIVE StripZeros(_)
StripZeros(b) == IF b = <<>> THEN <<>> ELSE IF b[1] = 0 THEN StripZeros(Tail(b)) ELSE b
\* shortest big-endian octet string of the magnitude (one zero octet for 0)
MagOctets(m) ==
    LET k == Len(m)
        raw == [j \in 1..(2 * k) |-> LET l == m[k - (j - 1) \div 2] IN IF j % 2 = 1 THEN l \div 256 ELSE l % 256]
        s == StripZeros(raw)
    IN  IF s = <<>> THEN <<0>> ELSE s
\* magnitude of a big-endian octet string (leading zeros allowed)
OctetsMag(b) ==
    LET s == StripZeros(b)
        p == IF Len(s) % 2 = 1 THEN <<0>> \o s ELSE s
        k == Len(p) \div 2
    IN  [i \in 1..k |-> p[2 * (k - i) + 1] * 256 + p[2 * (k - i) + 2]]

\* two's complement negation of a big-endian octet string, modulo 2^(8 * Len)
RECURSIVE AddOne(_)
AddOne(b) == IF b = <<>> THEN <<>>
             ELSE LET n == Len(b) IN IF b[n] = 255 THEN AddOne(SubSeq(b, 1, n - 1)) \o <<0>> ELSE SubSeq(b, 1, n - 1) \o <<b[n] + 1>>
TwosNeg(b) == AddOne([i \in 1..Len(b) |-> 255 - b[i]])
ZeroExt(b, n) == [i \in 1..(n - Len(b)) |-> 0] \o b
AllZero(b) == \A i \in 1..Len(b) : b[i] = 0

Sign(v) == v[1]
Mag(v) == Tail(v)
IntShape(v) == Len(v) >= 1 /\ v[1] \in {0, 1} /\ NormalLimbs(Mag(v)) /\ (v[1] = 1 => Mag(v) # <<>>)

\* 20.2.4 / 20.2.11: unsigned and enumerated: the magnitude in the fewest octets
EncUnsigned(v) == MagOctets(Mag(v))
DecUnsigned(d) == IF d = <<>> \/ ~All(d, Octet) THEN Bad ELSE <<0>> \o OctetsMag(d)
\* 20.2.5: signed: two's complement in the fewest octets
EncInteger(v) ==
    LET B == MagOctets(Mag(v)) IN
    IF Sign(v) = 0 THEN (IF B[1] >= 128 THEN <<0>> \o B ELSE B)
    ELSE LET fits == B[1] < 128 \/ (B[1] = 128 /\ AllZero(Tail(B)))         \* -2^(8n-1) is the most negative n-octet value
         IN  TwosNeg(ZeroExt(B, IF fits THEN Len(B) ELSE Len(B) + 1))
DecInteger(d) ==
    IF d = <<>> \/ ~All(d, Octet) THEN Bad
    ELSE IF d[1] >= 128 THEN <<1>> \o OctetsMag(TwosNeg(d)) ELSE <<0>> \o OctetsMag(d)

\* ---- IEEE 754 (20.2.6, 20.2.7) -----------------------------------------------------------------------------
RealShape(v) == Len(v) = 4 /\ v[1] \in {0, 1} /\ v[2] \in 0..255 /\ v[3] \in 0..127 /\ Limb(v[4])
EncReal(v) == <<v[1] * 128 + v[2] \div 2, (v[2] % 2) * 128 + v[3], v[4] \div 256, v[4] % 256>>
DecReal(d) == IF Len(d) # 4 \/ ~All(d, Octet) THEN Bad
              ELSE <<d[1] \div 128, (d[1] % 128) * 2 + d[2] \div 128, d[2] % 128, d[3] * 256 + d[4]>>
RealNaN(v) == v[2] = 255 /\ (v[3] # 0 \/ v[4] # 0)
DoubleShape(v) == Len(v) = 6 /\ v[1] \in {0, 1} /\ v[2] \in 0..2047 /\ v[3] \in 0..15 /\ Limb(v[4]) /\ Limb(v[5]) /\ Limb(v[6])
EncDouble(v) == <<v[1] * 128 + v[2] \div 16, (v[2] % 16) * 16 + v[3], v[4] \div 256, v[4] % 256,
                  v[5] \div 256, v[5] % 256, v[6] \div 256, v[6] % 256>>
DecDouble(d) == IF Len(d) # 8 \/ ~All(d, Octet) THEN Bad
                ELSE <<d[1] \div 128, (d[1] % 128) * 16 + d[2] \div 16, d[2] % 16, d[3] * 256 + d[4], d[5] * 256 + d[6], d[7] * 256 + d[8]>>
DoubleNaN(v) == v[2] = 2047 /\ (v[3] # 0 \/ v[4] # 0 \/ v[5] # 0 \/ v[6] # 0)
\* a finite double whose binary exponent is beyond binary32's largest (127) cannot be carried by a Real
DoubleFitsReal(v) == v[2] = 2047 \/ v[2] <= 1023 + 127

\* ---- strings (20.2.8, 20.2.9) -------------------------------------------------------------------------------
ValidCp(c) == c < 0 \/ (c <= 1114111 /\ ~(c >= 55296 /\ c <= 57343))
Utf8One(c) ==
    IF c < 128 THEN <<c>>                                   \* (a blob of ASCII characters encodes as itself)
    ELSE IF c < 2048 THEN <<192 + c \div 64, 128 + (c % 64)>>
    ELSE IF c < 65536 THEN <<224 + c \div 4096, 128 + ((c \div 64) % 64), 128 + (c % 64)>>
    ELSE <<240 + c \div 262144, 128 + ((c \div 4096) % 64), 128 + ((c \div 64) % 64), 128 + (c % 64)>>
RECURSIVE Utf8(_)
Utf8(cps) == IF cps = <<>> THEN <<>> ELSE Utf8One(Head(cps)) \o Utf8(Tail(cps))
Cont(b, i) == i <= Len(b) /\ b[i] >= 128 /\ b[i] <= 191
RECURSIVE Utf8DecFrom(_, _, _)
Utf8DecFrom(b, i, acc) ==
    IF i > Len(b) THEN acc
    ELSE LET x == b[i] IN
         IF x < 128 THEN Utf8DecFrom(b, i + 1, Append(acc, x))
         ELSE IF x >= 194 /\ x <= 223 /\ Cont(b, i + 1) THEN Utf8DecFrom(b, i + 2, Append(acc, (x - 192) * 64 + b[i + 1] - 128))
         ELSE IF x >= 224 /\ x <= 239 /\ Cont(b, i + 1) /\ Cont(b, i + 2) THEN
              LET c == (x - 224) * 4096 + (b[i + 1] - 128) * 64 + b[i + 2] - 128 IN
              IF c < 2048 \/ ~ValidCp(c) THEN Bad ELSE Utf8DecFrom(b, i + 3, Append(acc, c))
         ELSE IF x >= 240 /\ x <= 244 /\ Cont(b, i + 1) /\ Cont(b, i + 2) /\ Cont(b, i + 3) THEN
              LET c == (x - 240) * 262144 + (b[i + 1] - 128) * 4096 + (b[i + 2] - 128) * 64 + b[i + 3] - 128 IN
              IF c < 65536 \/ c > 1114111 THEN Bad ELSE Utf8DecFrom(b, i + 4, Append(acc, c))
         ELSE Bad
Utf8Dec(b) == Utf8DecFrom(b, 1, <<>>)

\* ---- bit strings (20.2.10) ----------------------------------------------------------------------------------
Bit(x) == x \in {0, 1}
Pow2(n) == 2 ^ n
EncBits(v) ==
    LET n == Len(v)
        k == (n + 7) \div 8
        at(i) == IF i <= n THEN v[i] ELSE 0
    IN  <<8 * k - n>> \o [j \in 1..k |-> at(8 * j - 7) * 128 + at(8 * j - 6) * 64 + at(8 * j - 5) * 32 + at(8 * j - 4) * 16
                                        + at(8 * j - 3) * 8 + at(8 * j - 2) * 4 + at(8 * j - 1) * 2 + at(8 * j)]
DecBits(d) ==
    IF d = <<>> \/ ~All(d, Octet) \/ d[1] > 7 \/ (Len(d) = 1 /\ d[1] # 0) THEN Bad
    ELSE [i \in 1..(8 * (Len(d) - 1) - d[1]) |-> (d[2 + (i - 1) \div 8] \div Pow2(7 - ((i - 1) % 8))) % 2]

\* ---- object identifiers (20.2.14): 10-bit type, 22-bit instance ---------------------------------------------
EncOid(v) == <<v[1] \div 4, (v[1] % 4) * 64 + v[2] \div 65536, (v[2] \div 256) % 256, v[2] % 256>>
DecOid(d) == IF Len(d) # 4 \/ ~All(d, Octet) THEN Bad
             ELSE <<d[1] * 4 + d[2] \div 64, (d[2] % 64) * 65536 + d[3] * 256 + d[4]>>

\* ---- per type: domain, contents octets, decoder -----------------------------------------------------------
\* the values the standard's encoding can carry
Representable(ty, v) ==
    CASE ty = "Null" -> v = <<>>
      [] ty = "Boolean" -> Len(v) = 1 /\ Bit(v[1])
      [] ty \in {"Unsigned", "Enumerated"} -> IntShape(v) /\ Sign(v) = 0
      [] ty = "Unsigned8" -> IntShape(v) /\ Sign(v) = 0 /\ Len(v) <= 2 /\ (Len(v) = 2 => v[2] <= 255)
      [] ty = "Unsigned16" -> IntShape(v) /\ Sign(v) = 0 /\ Len(v) <= 2
      [] ty = "Integer" -> IntShape(v)
      [] ty = "Real" -> RealShape(v)
      [] ty = "Double" -> DoubleShape(v)
      [] ty = "RealFromDouble" -> DoubleShape(v) /\ DoubleFitsReal(v)
      [] ty = "OctetString" -> All(v, Item)
      [] ty = "CharacterString" -> Len(v) >= 1 /\ Octet(v[1]) /\ All(v, Item)
      [] ty = "Utf8String" -> All(v, ValidCp)
      [] ty = "BitString" -> All(v, Bit)
      [] ty \in {"Date", "Time"} -> Len(v) = 4 /\ All(v, Octet)
      [] ty = "ObjectIdentifier" -> Len(v) = 2 /\ v[1] \in 0..1023 /\ v[2] \in 0..4194303

Contents(ty, v) ==
    CASE ty = "Null" -> <<>>
      [] ty = "Boolean" -> v                           \* context form; the application form has no contents
      [] ty \in {"Unsigned", "Unsigned8", "Unsigned16", "Enumerated"} -> EncUnsigned(v)
      [] ty = "Integer" -> EncInteger(v)
      [] ty = "Real" -> EncReal(v)
      [] ty = "Double" -> EncDouble(v)
      [] ty \in {"OctetString", "CharacterString", "Date", "Time"} -> v
      [] ty = "Utf8String" -> <<0>> \o Utf8(v)
      [] ty = "BitString" -> EncBits(v)
      [] ty = "ObjectIdentifier" -> EncOid(v)

DecContents(ty, d) ==
    CASE ty = "Null" -> IF d = <<>> THEN <<>> ELSE Bad
      [] ty = "Boolean" -> IF Len(d) = 1 /\ Bit(d[1]) THEN d ELSE Bad
      [] ty \in {"Unsigned", "Unsigned8", "Unsigned16", "Enumerated"} -> DecUnsigned(d)
      [] ty = "Integer" -> DecInteger(d)
      [] ty = "Real" -> DecReal(d)
      [] ty = "Double" -> DecDouble(d)
      [] ty = "OctetString" -> d
      [] ty = "CharacterString" -> IF d = <<>> THEN Bad ELSE d
      [] ty = "Utf8String" -> IF d = <<>> \/ d[1] # 0 THEN Bad ELSE Utf8Dec(Tail(d))
      [] ty = "BitString" -> DecBits(d)
      [] ty \in {"Date", "Time"} -> IF Len(d) = 4 /\ All(d, Octet) THEN d ELSE Bad
      [] ty = "ObjectIdentifier" -> DecOid(d)

\* An encoder of bounded capacity may refuse a representable number that needs more than 4 contents octets (the
\* standard puts no bound on Unsigned / Integer; every range it actually uses fits 32 bits) -- but if it emits
\* octets they are the ones below.
WithinCapacity(ty, v) == ty \in IntKinds => Len(Contents(ty, v)) <= 4

\* ---- tagging --------------------------------------------------------------------------------------------------
\* n = -1: application tag; n in 0..254: context tag n.  Boolean: the application form carries the value in the
\* LVT field and has no contents; the context form has one contents octet (20.2.3).
Tagged(n, ty, v) ==
    IF n < 0 THEN (IF ty = "Boolean" THEN Tag(APP, 1, v[1], <<>>)
                   ELSE LET d == Contents(ty, v) IN Tag(APP, AppNum(ty), Size(d), d))
    ELSE LET d == Contents(ty, v) IN Tag(CTX, n, Size(d), d)
Enc(n, ty, v) == EncTag(Tagged(n, ty, v))

Untag(n, ty, t) ==
    IF n < 0 THEN
        IF t.cls # APP \/ t.num # AppNum(ty) THEN Bad
        ELSE IF ty = "Boolean" THEN (IF t.lvt <= 1 THEN <<t.lvt>> ELSE Bad)
        ELSE DecContents(ty, t.data)
    ELSE IF t.cls # CTX \/ t.num # n THEN Bad ELSE DecContents(ty, t.data)
Dec(n, ty, o) == LET r == DecTag(o, 1) IN IF r.ok /\ r.next = Len(o) + 1 THEN Untag(n, ty, r.tag) ELSE Bad

\* equality of values: NaNs are one value (payloads are not BACnet data and hardware may quieten them)
Same(ty, a, b) ==
    \/ a = b
    \/ ty = "Real" /\ RealShape(a) /\ RealShape(b) /\ RealNaN(a) /\ RealNaN(b)
    \/ ty = "Double" /\ DoubleShape(a) /\ DoubleShape(b) /\ DoubleNaN(a) /\ DoubleNaN(b)

\* octets o are an acceptable encoding of v: the canonical ones -- or, for a NaN, those of any NaN of that width
IsNaN(ty, v) == (ty = "Real" /\ RealNaN(v)) \/ (ty = "Double" /\ DoubleNaN(v))
EncOK(n, ty, v, o) ==
    \/ o = Enc(n, ty, v)
    \/ IsNaN(ty, v) /\ Len(o) = Len(Enc(n, ty, v)) /\ Same(ty, Dec(n, ty, o), v)

\* ---- theorems (checked by TLC over the grids of MC_Prims) -----------------------------------------------------
Encodable(ty) == ty # "RealFromDouble"
RoundTripP(n, ty, v) == Dec(n, ty, Enc(n, ty, v)) = v
\* canonical form: no shorter contents carry the same number; fixed sizes; unused-bit count and zero padding
CanonicalP(ty, v) ==
    LET d == Contents(ty, v) IN
    CASE ty \in IntKinds -> Len(d) >= 1 /\ (Len(d) > 1 => DecContents(ty, Tail(d)) # v)
      [] ty = "Real" -> Len(d) = 4
      [] ty = "Double" -> Len(d) = 8
      [] ty \in {"Date", "Time", "ObjectIdentifier"} -> Len(d) = 4
      [] ty = "BitString" -> /\ Len(d) = 1 + (Len(v) + 7) \div 8
                             /\ d[1] = 8 * (Len(d) - 1) - Len(v) /\ d[1] <= 7
                             /\ (d[1] > 0 => d[Len(d)] % Pow2(d[1]) = 0)
      [] ty = "Null" -> d = <<>>
      [] OTHER -> TRUE
\* the context form differs from the application form in the header only -- except for Boolean
CtxVsApp(n, ty, v) ==
    LET a == Tagged(-1, ty, v)
        c == Tagged(n, ty, v)
    IN  IF ty = "Boolean" THEN a.data = <<>> /\ a.lvt = v[1] /\ c.data = v /\ c.lvt = 1
        ELSE a.data = c.data /\ a.lvt = c.lvt
=============================================================================
