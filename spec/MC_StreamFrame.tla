--------------------------- MODULE MC_StreamFrame ---------------------------
(* X05, obligation D for the framing functions: function-evaluation pattern.  One state = one (framing, buffer); the   *)
(* buffers are ALL octet sequences of up to MaxLen octets over a small alphabet that contains the BSLL type octet,     *)
(* lengths below / at / above the header length, and a plain data octet.  MC_StreamFrame.cfg: intended design;         *)
(* MC_StreamFrame_dev.cfg: ShortLengthStalls = TRUE must violate FrameProgress (vacuity).                              *)
EXTENDS StreamFrame
CONSTANTS Framings, Alphabet, MaxLen
VARIABLES f, b
Buffers == UNION {[1..n -> Alphabet] : n \in 0..MaxLen}
Init == f \in Framings /\ b \in Buffers
Next == UNCHANGED <<f, b>>
Spec == Init /\ [][Next]_<<f, b>>
I_FrameProgress == FrameProgress(f, b, Frame(f, b))
I_FrameSplits == FrameSplits(f, b, Frame(f, b))
I_FrameExact == FrameExact(f, b, Frame(f, b))
I_FrameIsFrame == FrameIsFrame(f, b, Frame(f, b))
I_ExtractExhausts == ExtractExhausts(f, b)
=============================================================================
