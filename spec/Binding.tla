------------------------------ MODULE Binding ------------------------------
(***************************************************************************)
(* X02 - dynamic device and object binding: Who-Is / I-Am (clause 16.10)   *)
(* and Who-Has / I-Have (clause 16.9) as bacpypes implements them in        *)
(* service/device.py (WhoIsIAmServices, WhoHasIHaveServices) and            *)
(* app.py (Application object tables, DeviceInfoCache.iam_device_info).     *)
(*                                                                         *)
(* Part 1 - pure operators (the oracle of the case grid and of the record  *)
(* judge):                                                                 *)
(*   WellFormedWhoIs(w)          no limits, or both with 0 <= lo <= hi <= 4194303 *)
(*   Answers(w, inst)            the device with that instance sends an I-Am*)
(*   IAmOf(cfg)                  the I-Am a device with that configuration  *)
(*                               sends                                     *)
(*   WellFormedWhoHas(q), HasAnswer(q, cfg, objects)   set (0 or 1) of     *)
(*                               I-Haves the device sends                  *)
(*   WellFormedIAm(m), Learn(known, m, a)   what a client that feeds good  *)
(*                               I-Ams to its DeviceInfoCache knows after  *)
(*   ClientSendsWellFormed(q, api)   who_is() does not refuse a good range *)
(*                                                                         *)
(* Part 2 - a LAN: one client, devices 1..N with distinct instances and    *)
(* addresses, each with a (changing) set of objects.  One action per       *)
(* critical section of the code:                                           *)
(*   Send(q)      client: who_is() / request(WhoIsRequest|WhoHasRequest)   *)
(*   Announce(d)  device: i_am() without address (startup)                 *)
(*   Rogue(a, m)  some station at address a sends the client an I-Am m     *)
(*                (possibly inconsistent)                                  *)
(*   Deliver(d)   device d: do_WhoIsRequest / do_WhoHasRequest (a request  *)
(*                that raises or is refused by the decoder = no reply)     *)
(*   Receive(k)   client: do_IAmRequest (library validation, then          *)
(*                deviceInfoCache.iam_device_info) / do_IHaveRequest       *)
(*   Drop(k)      client: the decoder refuses a frame with missing         *)
(*                parameters before the application sees it                *)
(*   Close        the exchange is over (nothing pending, nothing in flight)*)
(*   Mutate(d,mu) application: add_object / delete_object / rename /       *)
(*                re-identify (WriteableObjectName / ...Identifier MixIn)  *)
(*                                                                         *)
(* Values: a limit / field that is absent is NONE (-1); object types and   *)
(* segmentation are the numeric code points (device = 8; segmentation      *)
(* 0 both, 1 transmit, 2 receive, 3 none); names are strings (compared for *)
(* equality only).                                                         *)
(*   query  [kind, to, lo, hi, by, t, i, n]  kind "whois" | "whohas",      *)
(*          by "id" | "name" | "-" , to = destination                      *)
(*   dest   [k, a]  k "lb" local broadcast | "gb" global broadcast |       *)
(*          "u" station a | "r" anything else (remote)                     *)
(*   msg    [svc |-> "iam", dt, inst, maxapdu, seg, vendor]                *)
(*          [svc |-> "ihave", dt, inst, t, i, n]                           *)
(*   frame  [src, dst, msg]                                                *)
(*   object [t, i, n]                                                      *)
(*   device [addr, inst, name, maxapdu, seg, vendor]                       *)
(***************************************************************************)
EXTENDS Naturals, Integers, Sequences, FiniteSets, TLC

NONE       == -1
MaxInst    == 4194303
DeviceType == 8

CONSTANTS
    Lans,        \* candidate LANs: records [lan |-> [client, devs], objs |-> [dev -> set of objects]]
    Queries,     \* queries the client may send
    Rogues,      \* <<address, I-Am message>> pairs a foreign station may send to the client
    Mutations,   \* <<device, mutation>> pairs
    MaxOps,      \* bound on the number of exchanges / mutations of one behaviour
    \* named deviations (vacuity checks: with one of them TRUE a monitor must fail)
    Dev_HighExclusive,   \* the device tests  instance < high limit
    Dev_WhoHasNoRange,   \* Who-Has ignores its device range
    Dev_LearnUnchecked   \* the client hands any decodable I-Am to its cache

----------------------------------------------------------------------------
\* Part 1: operators

\* ---- device instance range (Who-Is, and the optional limits of Who-Has)
LimitsWF(lo, hi) ==
    \/ lo = NONE /\ hi = NONE
    \/ lo # NONE /\ hi # NONE /\ 0 <= lo /\ lo <= hi /\ hi <= MaxInst

InLimits(lo, hi, inst) == lo = NONE \/ (lo <= inst /\ inst <= hi)

WellFormedWhoIs(w) == LimitsWF(w.lo, w.hi)
Answers(w, inst)   == WellFormedWhoIs(w) /\ InLimits(w.lo, w.hi, inst)

IAmOf(c) == [svc |-> "iam", dt |-> DeviceType, inst |-> c.inst,
             maxapdu |-> c.maxapdu, seg |-> c.seg, vendor |-> c.vendor]

\* ---- objects of a device: its own device object plus what the application added
DevObj(c)        == [t |-> DeviceType, i |-> c.inst, n |-> c.name]
AllObjs(c, objs) == objs \cup {DevObj(c)}
ObjectsWF(c, objs) ==        \* identifiers and names are unique within a device (12.1.x)
    \A x, y \in AllObjs(c, objs) : (x.t = y.t /\ x.i = y.i) \/ x.n = y.n => x = y

WellFormedWhoHas(q) == LimitsWF(q.lo, q.hi) /\ q.by \in {"id", "name"}
Matches(q, o)       == IF q.by = "id" THEN o.t = q.t /\ o.i = q.i ELSE o.n = q.n
IHaveOf(c, o)       == [svc |-> "ihave", dt |-> DeviceType, inst |-> c.inst, t |-> o.t, i |-> o.i, n |-> o.n]
HasAnswer(q, c, objs) ==
    IF WellFormedWhoHas(q) /\ InLimits(q.lo, q.hi, c.inst)
    THEN {IHaveOf(c, o) : o \in {x \in AllObjs(c, objs) : Matches(q, x)}}
    ELSE {}

\* ---- I-Am on reception
Decodable(m) ==             \* every parameter is there (else the decoder refuses the APDU)
    \/ m.svc = "ihave"
    \/ m.svc = "iam" /\ m.dt # NONE /\ m.inst # NONE /\ m.maxapdu # NONE /\ m.seg # NONE /\ m.vendor # NONE
WellFormedIAm(m) ==
    /\ m.svc = "iam" /\ Decodable(m)
    /\ 0 <= m.inst /\ m.inst <= MaxInst
    /\ m.seg \in 0..3
\* consistent beyond what X02 states (reported as notes, never as violations)
StrictIAm(m) == WellFormedIAm(m) /\ m.dt = DeviceType /\ m.maxapdu >= 50 /\ m.vendor \in 0..65535

Binding(m, a) == [inst |-> m.inst, addr |-> a, maxapdu |-> m.maxapdu, seg |-> m.seg, vendor |-> m.vendor]

\* DeviceInfoCache.iam_device_info + update_device_info, seen through the integer keys: the record of that
\* instance is overwritten; failing that the record kept for that address is re-keyed; failing that a new one
Learn(known, m, a) ==
    LET mine == {k \in known : k.inst = m.inst}
        here == {k \in known : k.addr = a}
    IN  IF mine # {} THEN (known \ mine) \cup {Binding(m, a)}
                     ELSE (known \ here) \cup {Binding(m, a)}

\* client side of an I-Am: the effect on what the client knows
IAmEffect(known, m, a) == IF WellFormedIAm(m) THEN Learn(known, m, a) ELSE known

----------------------------------------------------------------------------
\* Part 2: the LAN

VARIABLES
    lan,        \* [client |-> address, devs |-> <<device records>>]  (never changes)
    objs,       \* [device -> set of objects]  what each application holds besides its device object
    req,        \* the exchange in progress (a query, [kind "ann", d], [kind "rogue", a, m]) or NoReq
    delivered,  \* devices whose stack has processed the frame that opened the exchange
    wire,       \* frames put on the medium towards the client and not yet taken by it (sequence)
    got,        \* what the client application received in this exchange: sequence of [src, msg]
    known,      \* the client's view of its peers: set of [inst, addr, maxapdu, seg, vendor]
    ops         \* exchanges and mutations so far
vars == <<lan, objs, req, delivered, wire, got, known, ops>>

NoReq == [kind |-> "none"]
D     == 1..Len(lan.devs)
Cfg(d) == lan.devs[d]
ToClient == [k |-> "u", a |-> lan.client]
GB == [k |-> "gb", a |-> 0]
LB == [k |-> "lb", a |-> 0]

LanWF(l, o) ==
    /\ \A d, e \in 1..Len(l.devs) : d # e => l.devs[d].inst # l.devs[e].inst /\ l.devs[d].addr # l.devs[e].addr
    /\ \A d \in 1..Len(l.devs) : l.devs[d].addr # l.client /\ ObjectsWF(l.devs[d], o[d])

\* who gets the frame that opens the exchange
Receives(r, d) ==
    CASE r.kind \in {"whois", "whohas"} -> r.to.k \in {"lb", "gb"} \/ (r.to.k = "u" /\ r.to.a = Cfg(d).addr)
      [] r.kind = "ann"                 -> d # r.d
      [] OTHER                          -> FALSE

\* what device d has to say in this exchange (a set with at most one message)
Expected(r, d) ==
    CASE r.kind = "whois"  -> IF Receives(r, d) /\ Answers(r, Cfg(d).inst) THEN {IAmOf(Cfg(d))} ELSE {}
      [] r.kind = "whohas" -> IF Receives(r, d) THEN HasAnswer(r, Cfg(d), objs[d]) ELSE {}
      [] r.kind = "ann"    -> IF r.d = d THEN {IAmOf(Cfg(d))} ELSE {}
      [] OTHER             -> {}

\* the same under the named deviations (only the design actions use it, never a monitor)
DevExpected(r, d) ==
    CASE r.kind = "whois" /\ Dev_HighExclusive ->
            IF Receives(r, d) /\ WellFormedWhoIs(r) /\ (r.lo = NONE \/ (r.lo <= Cfg(d).inst /\ Cfg(d).inst < r.hi))
            THEN {IAmOf(Cfg(d))} ELSE {}
      [] r.kind = "whohas" /\ Dev_WhoHasNoRange ->
            IF Receives(r, d) /\ WellFormedWhoHas(r)
            THEN HasAnswer([r EXCEPT !.lo = NONE, !.hi = NONE], Cfg(d), objs[d]) ELSE {}
      [] OTHER -> Expected(r, d)

SetToSeq(S) == IF S = {} THEN <<>> ELSE <<CHOOSE x \in S : TRUE>>
RemoveAt(s, k) == SubSeq(s, 1, k - 1) \o SubSeq(s, k + 1, Len(s))

\* ---- mutations of a device's object table
\*  [op "add", t, i, n]  [op "del", t, i]  [op "rename", t, i, n]  [op "reid", t, i, j]
Has(S, t, i) == \E o \in S : o.t = t /\ o.i = i
Get(S, t, i) == CHOOSE o \in S : o.t = t /\ o.i = i
Apply(c, S, mu) ==
    LET all == AllObjs(c, S) IN
    CASE mu.op = "add" ->
            IF Has(all, mu.t, mu.i) \/ (\E o \in all : o.n = mu.n) \/ mu.i >= MaxInst \/ mu.n = "" THEN S
            ELSE S \cup {[t |-> mu.t, i |-> mu.i, n |-> mu.n]}
      [] mu.op = "del" ->
            IF Has(S, mu.t, mu.i) THEN S \ {Get(S, mu.t, mu.i)} ELSE S
      [] mu.op = "rename" ->
            IF Has(S, mu.t, mu.i) /\ ~(\E o \in all : o.n = mu.n)
            THEN (S \ {Get(S, mu.t, mu.i)}) \cup {[Get(S, mu.t, mu.i) EXCEPT !.n = mu.n]} ELSE S
      [] mu.op = "reid" ->
            IF Has(S, mu.t, mu.i) /\ ~Has(all, mu.t, mu.j)
            THEN (S \ {Get(S, mu.t, mu.i)}) \cup {[Get(S, mu.t, mu.i) EXCEPT !.i = mu.j]} ELSE S
      [] OTHER -> S

----------------------------------------------------------------------------
\* actions
Init ==
    /\ \E L \in Lans : lan = L.lan /\ objs = L.objs
    /\ req = NoReq /\ delivered = {} /\ wire = <<>> /\ got = <<>> /\ known = {} /\ ops = 0

Idle == req = NoReq /\ wire = <<>> /\ ops < MaxOps

Send(q) ==
    /\ Idle
    /\ req' = q /\ delivered' = {} /\ got' = <<>> /\ ops' = ops + 1
    /\ UNCHANGED <<lan, objs, wire, known>>

Announce(d) ==
    /\ Idle /\ d \in D
    /\ req' = [kind |-> "ann", d |-> d] /\ delivered' = {} /\ got' = <<>> /\ ops' = ops + 1
    /\ wire' = << [src |-> Cfg(d).addr, dst |-> GB, msg |-> IAmOf(Cfg(d))] >>
    /\ UNCHANGED <<lan, objs, known>>

Rogue(a, m) ==
    /\ Idle /\ a # lan.client /\ \A d \in D : a # Cfg(d).addr
    /\ req' = [kind |-> "rogue", a |-> a, m |-> m] /\ delivered' = {} /\ got' = <<>> /\ ops' = ops + 1
    /\ wire' = << [src |-> a, dst |-> ToClient, msg |-> m] >>
    /\ UNCHANGED <<lan, objs, known>>

Deliver(d) ==
    /\ req # NoReq /\ d \in D \ delivered /\ Receives(req, d)
    /\ delivered' = delivered \cup {d}
    /\ wire' = wire \o [k \in 1..Len(SetToSeq(DevExpected(req, d))) |->
                            [src |-> Cfg(d).addr, dst |-> ToClient, msg |-> SetToSeq(DevExpected(req, d))[k]]]
    /\ UNCHANGED <<lan, objs, req, got, known, ops>>

Receive(k) ==
    /\ k \in 1..Len(wire)
    /\ LET f == wire[k] IN
        /\ got' = Append(got, [src |-> f.src, msg |-> f.msg])
        /\ known' = IF f.msg.svc = "iam"
                    THEN IF Dev_LearnUnchecked /\ Decodable(f.msg) THEN Learn(known, f.msg, f.src)
                         ELSE IAmEffect(known, f.msg, f.src)
                    ELSE known
    /\ wire' = RemoveAt(wire, k)
    /\ UNCHANGED <<lan, objs, req, delivered, ops>>

Drop(k) ==
    /\ k \in 1..Len(wire) /\ ~Decodable(wire[k].msg)
    /\ wire' = RemoveAt(wire, k)
    /\ UNCHANGED <<lan, objs, req, delivered, got, known, ops>>

Quiet == req # NoReq /\ wire = <<>> /\ \A d \in D : Receives(req, d) => d \in delivered

Close ==
    /\ Quiet
    /\ req' = NoReq /\ delivered' = {} /\ got' = <<>>
    /\ UNCHANGED <<lan, objs, wire, known, ops>>

Mutate(d, mu) ==
    /\ Idle /\ d \in D
    /\ objs' = [objs EXCEPT ![d] = Apply(Cfg(d), objs[d], mu)]
    /\ ops' = ops + 1
    /\ UNCHANGED <<lan, req, delivered, wire, got, known>>

Next ==
    \/ \E q \in Queries : Send(q)
    \/ \E d \in D : Announce(d) \/ Deliver(d)
    \/ \E r \in Rogues : Rogue(r[1], r[2])
    \/ \E k \in 1..Len(wire) : Receive(k) \/ Drop(k)
    \/ Close
    \/ \E x \in Mutations : Mutate(x[1], x[2])
Spec == Init /\ [][Next]_vars

----------------------------------------------------------------------------
\* monitors (observation variables only: wire, got, known, and the configuration)
AddrOf(d)  == Cfg(d).addr
\* every message device d has produced in this exchange, received or still in flight
RepliesOf(d) ==
    [k \in 1..Len(SelectSeq(got, LAMBDA g : g.src = AddrOf(d))) |-> SelectSeq(got, LAMBDA g : g.src = AddrOf(d))[k].msg]
    \o [k \in 1..Len(SelectSeq(wire, LAMBDA f : f.src = AddrOf(d))) |-> SelectSeq(wire, LAMBDA f : f.src = AddrOf(d))[k].msg]
GotFrom(d) == SelectSeq(got, LAMBDA g : g.src = AddrOf(d))

\* a device never says the same thing twice in one exchange
AtMostOnce == \A d \in D : Len(RepliesOf(d)) <= 1
\* whatever a device says is what the spec expects of it: in range, has the object, right contents
OnlyJustified == \A d \in D : \A k \in 1..Len(RepliesOf(d)) : RepliesOf(d)[k] \in Expected(req, d)
\* at the end of an exchange every device that had to answer was heard, exactly once
CompleteNow == \A d \in D : Len(GotFrom(d)) = Cardinality(Expected(req, d))
Complete    == Quiet => CompleteNow
\* a solicited reply is sent so that the requester gets it (unicast to it, or a broadcast);
\* an unsolicited I-Am is a broadcast
ReplyReachesRequester ==
    \A k \in 1..Len(wire) :
        LET f == wire[k] IN
        IF req.kind = "ann" THEN f.dst.k \in {"lb", "gb"}
        ELSE f.dst.k \in {"lb", "gb"} \/ (f.dst.k = "u" /\ f.dst.a = lan.client)
\* nothing inconsistent is ever remembered
KnownWellFormed == \A k \in known : 0 <= k.inst /\ k.inst <= MaxInst /\ k.seg \in 0..3
\* after a Who-Is / an announcement the client knows every device that answered, as configured, at its address
BindingNow ==
    req.kind \in {"whois", "ann"} =>
        \A d \in D : Expected(req, d) # {} => Binding(IAmOf(Cfg(d)), AddrOf(d)) \in known
BindingEstablished == Quiet => BindingNow
\* the tables of a device stay well-formed under mutation
ObjectsStayWF == \A d \in D : ObjectsWF(Cfg(d), objs[d])
TypeOK == LanWF(lan, objs)

\* the client API (who_is) does not refuse a well-formed range
ClientSendsWellFormed(q, api) == (q.kind = "whois" /\ WellFormedWhoIs(q)) => api # "refused"

\* step monitors for the reception of an I-Am (used on recorded steps; in the design they hold by construction)
A_BadIAmNoEffect(f)  == (f.msg.svc = "iam" /\ ~WellFormedIAm(f.msg)) => known' = known
A_GoodIAmLearned(f)  == (f.msg.svc = "iam" /\ WellFormedIAm(f.msg)) => Binding(f.msg, f.src) \in known'
A_IHaveNoEffect(f)   == f.msg.svc = "ihave" => known' = known
A_DropNoEffect       == known' = known
=============================================================================
