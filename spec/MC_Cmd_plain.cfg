CONSTANTS
  Values = {"a", "b", "c"}
  RDefs = {"d", "a"}
  Prios = {0, 1, 6, 8, 16}
  BadPrios = {0, 17, 255}
  MinTimes = {0}
  Ticks = {}
  Dev_MinOnOffSwapped = FALSE
SPECIFICATION Spec
CHECK_DEADLOCK FALSE
INVARIANT TypeOK
INVARIANT PVIsHighest
INVARIANT SlotIsLastCommand
INVARIANT BadWriteRefused
INVARIANT MinOnOffHold
INVARIANT TimerIsHold
PROPERTY BadWriteChangesNothing
