SPECIFICATION Spec
CONSTANT Tab <- Schemas
CONSTANT Depth = 4
CONSTANT Sample = 0
INVARIANT ValidCase
INVARIANT RoundTrip
INVARIANT Stable
INVARIANT BalancedTags
INVARIANT Framing
INVARIANT TrailingRejected
INVARIANT AnnexFSpec
CHECK_DEADLOCK FALSE
