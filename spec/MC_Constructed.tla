--------------------------- MODULE MC_Constructed ---------------------------
(***************************************************************************)
(* C03, design model + spec -> code grid.  One TLC state per case:          *)
(*   <<"wf", n, 0, _>>   class n of the golden tables: Broken(class) is     *)
(*                       emitted when not empty (the WellFormedSchema       *)
(*                       monitor; TLC does not stop on it)                  *)
(*   <<"grid", n, j, v>> value j of class n (ConstructedVals; Sample = 0:   *)
(*                       all, otherwise about Sample values per class,      *)
(*                       evenly spread over the list)                       *)
(*   <<"annexf", i, 0, v>> worked example i of Annex F (literal octets,       *)
(*                       reproduced from memory; service parameters only,   *)
(*                       the APCI header octets are C07's)                  *)
(* Invariants (the design obligations of C03):                              *)
(*   ValidCase, RoundTrip  Dec(s, Enc(s, v)) = v, nothing left over         *)
(*   Stable                Enc(s, Dec(s, Enc(s, v))) = Enc(s, v)            *)
(*   BalancedTags, Framing, TrailingRejected, AnnexFSpec                    *)
(*   Emit (always TRUE): one JSON line per state to $OUT_FILE.              *)
(***************************************************************************)
EXTENDS ConstructedVals, Schemas, Json, IOUtils, CSV, SequencesExt

CONSTANT Sample
VARIABLE c

NC == Len(ClassNames)

Idx(N) == IF Sample = 0 \/ N <= Sample THEN 1..N ELSE {1 + ((j - 1) * N) \div Sample : j \in 1..Sample}

AnnexF == <<
    [name |-> "ReadProperty request", cls |-> "ReadPropertyRequest",
     v |-> <<"s", <<<<"a", <<0, 0, 0, 5>>>>, <<"a", <<85>>>>, Absent>>>>,
     o |-> <<12, 0, 0, 0, 5, 25, 85>>],
    [name |-> "ReadProperty ack", cls |-> "ReadPropertyACK",
     v |-> <<"s", <<<<"a", <<0, 0, 0, 5>>>>, <<"a", <<85>>>>, Absent, <<"y", <<Tag("app", 4, <<66, 144, 153, 154>>)>>>>>>>>,
     o |-> <<12, 0, 0, 0, 5, 25, 85, 62, 68, 66, 144, 153, 154, 63>>],
    [name |-> "WriteProperty request", cls |-> "WritePropertyRequest",
     v |-> <<"s", <<<<"a", <<0, 128, 0, 1>>>>, <<"a", <<85>>>>, Absent, <<"y", <<Tag("app", 4, <<67, 52, 0, 0>>)>>>>, Absent>>>>,
     o |-> <<12, 0, 128, 0, 1, 25, 85, 62, 68, 67, 52, 0, 0, 63>>],
    [name |-> "Who-Is unbounded", cls |-> "WhoIsRequest",
     v |-> <<"s", <<Absent, Absent>>>>,
     o |-> <<>>],
    [name |-> "Who-Is 3..3", cls |-> "WhoIsRequest",
     v |-> <<"s", <<<<"a", <<3>>>>, <<"a", <<3>>>>>>>>,
     o |-> <<9, 3, 25, 3>>],
    [name |-> "I-Am", cls |-> "IAmRequest",
     v |-> <<"s", <<<<"a", <<2, 0, 0, 1>>>>, <<"a", <<1, 224>>>>, <<"a", <<1>>>>, <<"a", <<99>>>>>>>>,
     o |-> <<196, 2, 0, 0, 1, 34, 1, 224, 145, 1, 33, 99>>],
    [name |-> "SubscribeCOV", cls |-> "SubscribeCOVRequest",
     v |-> <<"s", <<<<"a", <<18>>>>, <<"a", <<0, 0, 0, 10>>>>, <<"a", <<1>>>>, <<"a", <<0>>>>>>>>,
     o |-> <<9, 18, 28, 0, 0, 0, 10, 41, 1, 57, 0>>],
    [name |-> "ReadPropertyMultiple request", cls |-> "ReadPropertyMultipleRequest",
     v |-> <<"s", <<<<"l", <<<<"s", <<<<"a", <<0, 0, 0, 16>>>>, <<"l", <<<<"s", <<<<"a", <<85>>>>, Absent>>>>, <<"s", <<<<"a", <<103>>>>, Absent>>>>>>>>>>>>>>>>>>>>,
     o |-> <<12, 0, 0, 0, 16, 30, 9, 85, 9, 103, 31>>],
    [name |-> "ReadPropertyMultiple ack", cls |-> "ReadPropertyMultipleACK",
     v |-> <<"s", <<<<"l", <<<<"s", <<<<"a", <<0, 0, 0, 16>>>>, <<"l", <<<<"s", <<<<"a", <<85>>>>, Absent, <<"c", 1, <<"y", <<Tag("app", 4, <<66, 144, 153, 154>>)>>>>>>>>>>, <<"s", <<<<"a", <<103>>>>, Absent, <<"c", 1, <<"y", <<Tag("app", 9, <<0>>)>>>>>>>>>>>>>>>>>>>>>>>>>>,
     o |-> <<12, 0, 0, 0, 16, 30, 41, 85, 78, 68, 66, 144, 153, 154, 79, 41, 103, 78, 145, 0, 79, 31>>],
    [name |-> "AtomicReadFile request (stream)", cls |-> "AtomicReadFileRequest",
     v |-> <<"s", <<<<"a", <<2, 128, 0, 1>>>>, <<"c", 1, <<"s", <<<<"a", <<0>>>>, <<"a", <<27>>>>>>>>>>>>>>,
     o |-> <<196, 2, 128, 0, 1, 14, 49, 0, 33, 27, 15>>],
    [name |-> "AtomicReadFile ack (stream)", cls |-> "AtomicReadFileACK",
     v |-> <<"s", <<<<"a", <<0>>>>, <<"c", 1, <<"s", <<<<"a", <<0>>>>, <<"a", <<67, 104, 105, 108, 108, 101, 114, 48, 49, 32, 79, 110, 45, 84, 105, 109, 101, 61, 52, 46, 51, 32, 72, 111, 117, 114, 115>>>>>>>>>>>>>>,
     o |-> <<16, 14, 49, 0, 101, 27, 67, 104, 105, 108, 108, 101, 114, 48, 49, 32, 79, 110, 45, 84, 105, 109, 101, 61, 52, 46, 51, 32, 72, 111, 117, 114, 115, 15>>],
    [name |-> "DeviceCommunicationControl", cls |-> "DeviceCommunicationControlRequest",
     v |-> <<"s", <<<<"a", <<5>>>>, <<"a", <<1>>>>, <<"a", <<0, 35, 101, 103, 98, 100, 102, 33>>>>>>>>,
     o |-> <<9, 5, 25, 1, 45, 8, 0, 35, 101, 103, 98, 100, 102, 33>>],
    [name |-> "ReinitializeDevice", cls |-> "ReinitializeDeviceRequest",
     v |-> <<"s", <<<<"a", <<1>>>>, <<"a", <<0, 65, 98, 67, 100, 69, 102, 71, 104>>>>>>>>,
     o |-> <<9, 1, 29, 9, 0, 65, 98, 67, 100, 69, 102, 71, 104>>],
    [name |-> "TimeSynchronization", cls |-> "TimeSynchronizationRequest",
     v |-> <<"s", <<<<"s", <<<<"a", <<92, 11, 17, 2>>>>, <<"a", <<22, 45, 30, 70>>>>>>>>>>>>,
     o |-> <<164, 92, 11, 17, 2, 180, 22, 45, 30, 70>>],
    [name |-> "Who-Has by name", cls |-> "WhoHasRequest",
     v |-> <<"s", <<Absent, <<"c", 2, <<"a", <<0, 79, 65, 84, 101, 109, 112>>>>>>>>>>,
     o |-> <<61, 7, 0, 79, 65, 84, 101, 109, 112>>],
    [name |-> "I-Have", cls |-> "IHaveRequest",
     v |-> <<"s", <<<<"a", <<2, 0, 0, 8>>>>, <<"a", <<0, 0, 0, 3>>>>, <<"a", <<0, 79, 65, 84, 101, 109, 112>>>>>>>>,
     o |-> <<196, 2, 0, 0, 8, 196, 0, 0, 0, 3, 117, 7, 0, 79, 65, 84, 101, 109, 112>>],
    [name |-> "ConfirmedCOVNotification", cls |-> "ConfirmedCOVNotificationRequest",
     v |-> <<"s", <<<<"a", <<18>>>>, <<"a", <<2, 0, 0, 4>>>>, <<"a", <<0, 0, 0, 10>>>>, <<"a", <<0>>>>, <<"l", <<<<"s", <<<<"a", <<85>>>>, Absent, <<"y", <<Tag("app", 4, <<66, 130, 0, 0>>)>>>>, Absent>>>>, <<"s", <<<<"a", <<111>>>>, Absent, <<"y", <<Tag("app", 8, <<4, 0>>)>>>>, Absent>>>>>>>>>>>>,
     o |-> <<9, 18, 28, 2, 0, 0, 4, 44, 0, 0, 0, 10, 57, 0, 78, 9, 85, 46, 68, 66, 130, 0, 0, 47, 9, 111, 46, 130, 4, 0, 47, 79>>]
  >>

\* root -> one "cls" state per class -> one "vals" state holding the value list of the class (computed once, in that
\* step; the classes are spread over the TLC workers) -> its cases; the case states carry their value
\* ---- the rules of WellFormed are not vacuous: toy tables that break them, and what that does to decoding -------
U == TAtomic(2, "Unsigned")
Rules(s) == {b[3] : b \in BrokenS("toy", s)}
Toy1 == TSeq(<<El("a", 0, TRUE, U), El("b", 0, FALSE, U)>>)                    \* optional [0] before a required [0]
Toy2 == TChoice(<<El("x", NoCtx, FALSE, U), El("y", NoCtx, FALSE, U)>>)        \* two untagged Unsigned alternatives
Toy3 == TSeq(<<El("l", NoCtx, TRUE, TSeqOf(U)), El("z", 1, FALSE, U)>>)        \* optional untagged list: absent = empty
Toy4 == TSeq(<<El("a", NoCtx, TRUE, U), El("b", NoCtx, FALSE, TAnyAtomic)>>)   \* optional Unsigned before any primitive
Toy5 == TSeq(<<El("a", 3, FALSE, TAnyAtomic)>>)                                \* context tag hides the primitive type
Toy6 == TSeq(<<El("n", 0, FALSE, U), El("l", 1, FALSE, TSeqOf(TSeq(<<El("p", NoCtx, FALSE, U), El("q", NoCtx, TRUE, U)>>)))>>)
Good == TSeq(<<El("a", 0, TRUE, U), El("l", NoCtx, FALSE, TSeqOf(U)), El("c", 1, TRUE, TChoice(<<El("x", 0, FALSE, U), El("y", 1, FALSE, TSeqOf(U))>>))>>)
ASSUME Rules(Toy1) = {"ctx_unique", "opt_ambiguous"}
ASSUME Rules(Toy2) = {"alt_ambiguous"}
ASSUME Rules(Toy3) = {"opt_nullable"}
ASSUME Rules(Toy4) = {"opt_ambiguous"}
ASSUME Rules(Toy5) = {"anyatomic_ctx"}
ASSUME Rules(Toy6) = {"item_ambiguous"}
ASSUME Rules(Good) = {}
ASSUME LET v == <<"s", <<Absent, <<"a", <<5>>>>>>>> IN Valid(Toy1, v) /\ ~DecAll(Toy1, Enc(Toy1, v)).ok
ASSUME LET v == <<"c", 2, <<"a", <<5>>>>>> IN Valid(Toy2, v) /\ DecAll(Toy2, Enc(Toy2, v)) # Ok(v, <<>>)
ASSUME LET v == <<"s", <<Absent, <<"l", <<>>>>, <<"c", 2, <<"l", <<>>>>>>>>>> IN
       /\ Enc(Good, v) = <<Tag("open", 1, <<>>), Tag("open", 1, <<>>), Tag("close", 1, <<>>), Tag("close", 1, <<>>)>>
       /\ DecAll(Good, Enc(Good, v)) = Ok(v, <<>>)
\* the situations of the known defects, as the clause 20.2 rules see them: an empty untagged list in front of a closing
\* tag is an empty list; a list alternative of a choice is bracketed by opening / closing tags
ASSUME LET rec == TChoice(<<El("stream", 0, FALSE, TSeq(<<El("p", NoCtx, FALSE, U)>>)),
                            El("record", 1, FALSE, TSeq(<<El("n", NoCtx, FALSE, U), El("data", NoCtx, FALSE, TSeqOf(TAtomic(6, "OctetString")))>>))>>)
           v == <<"c", 2, <<"s", <<(<<"a", <<0>>>>), (<<"l", <<>>>>)>>>>>>
       IN  /\ Enc(rec, v) = <<Tag("open", 1, <<>>), Tag("app", 2, <<0>>), Tag("close", 1, <<>>)>>
           /\ DecAll(rec, Enc(rec, v)) = Ok(v, <<>>)

Init == c = <<"root", 0, 0, <<>>>>
Next == \/ /\ c[1] = "root"
           /\ \/ \E n \in 1..NC : c' = <<"wf", n, 0, <<>>>> \/ c' = <<"cls", n, 0, <<>>>>
              \/ \E i \in 1..Len(AnnexF) : c' = <<"annexf", i, 0, AnnexF[i].v>>
        \/ /\ c[1] = "cls"
           /\ c' = <<"vals", c[2], 0, Vals(Ref(ClassNames[c[2]]), Depth)>>
        \/ /\ c[1] = "vals"
           /\ \E j \in Idx(Len(c[4])) : c' = <<"grid", c[2], j, c[4][j]>>
Spec == Init /\ [][Next]_c

IsCase == c[1] \in {"grid", "annexf"}
Cls  == IF c[1] = "annexf" THEN AnnexF[c[2]].cls ELSE ClassNames[c[2]]
T    == Ref(Cls)
V    == c[4]
Tags == Enc(T, V)
Stray == Tag("close", 0, <<>>)

ValidCase        == IsCase => Valid(T, V)
RoundTrip        == IsCase => DecAll(T, Tags) = Ok(V, <<>>)
Stable           == IsCase => LET r == DecAll(T, Tags) IN r.ok => Enc(T, r.v) = Tags
BalancedTags     == IsCase => Balanced(Tags)
Framing          == IsCase => (Encodable(Tags) => Parse(Octets(Tags)) = Tags)
TrailingRejected == IsCase => ~DecAll(T, Tags \o <<Stray>>).ok
AnnexFSpec       == c[1] = "annexf" => LET x == AnnexF[c[2]] IN
                                       /\ Octets(Enc(Ref(x.cls), x.v)) = x.o
                                       /\ DecAll(Ref(x.cls), Parse(x.o)) = Ok(x.v, <<>>)

Out(rec) == CSVWrite("%1$s", <<ToJson(rec)>>, IOEnv.OUT_FILE)
Emit ==
    CASE c[1] \in {"root", "cls", "vals"} -> TRUE
      [] c[1] = "wf" ->
            LET b == Broken(Cls) IN IF b = {} THEN TRUE ELSE Out([k |-> "wf", cls |-> Cls, broken |-> SetToSeq(b)])
      [] c[1] = "grid" ->
            Out([k |-> "grid", cls |-> Cls, j |-> c[3], v |-> V, tags |-> Tags,
                 o |-> IF Encodable(Tags) THEN Octets(Tags) ELSE <<-1>>])
      [] OTHER ->
            Out([k |-> "annexf", cls |-> Cls, name |-> AnnexF[c[2]].name, v |-> V, tags |-> Tags, o |-> AnnexF[c[2]].o])
=============================================================================
