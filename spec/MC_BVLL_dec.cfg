\* C09 quick: octet strings (short strings over the class alphabet, all function codes, mutated frames)
INIT InitDec
NEXT Next
CONSTANTS
  PayLens = {0, 1, 2, 3, 4, 5, 6, 7, 8, 9, 10, 11, 12, 13, 14, 15, 16, 17, 100, 249, 250, 251, 252, 253, 254, 255, 256, 257, 500, 511, 512, 513, 1000, 1019, 1020, 1021, 1022, 1023, 1024, 1025, 1400, 1470, 1471, 1472, 1473, 1474, 1475, 1476, 1490, 1491, 1492, 1493, 1494, 1495, 1496, 1497}
  PaySeeds = {0, 1}
  PayLensAll = {}
  TableSizes = {0, 1, 2, 3, 4, 5, 6, 7, 8, 9, 10, 11, 12, 13, 14, 15, 16, 17, 18, 19, 20, 21, 22, 23, 24, 25, 26, 27, 28, 29, 30, 31, 32, 33, 34, 35, 36, 37, 38, 39, 40}
  TableSeeds = {0, 1}
  FullCross = FALSE
  Alphabet = {0, 2, 4, 10, 129, 255}
  MaxStr = 4
  BodyLens = {0, 1, 2, 5, 6, 7, 10, 11, 20}
CHECK_DEADLOCK FALSE
INVARIANT DecTotal
INVARIANT DecRefusesBadFrames
INVARIANT DecCanonical
INVARIANT DecUnknownIff
INVARIANT DecLenientOnlyAddsTrailing
