SPECIFICATION Spec
CONSTANT Tab <- Schemas
CONSTANT Depth = 4
CONSTANT Sample = 0
INVARIANT ValidCase
CHECK_DEADLOCK FALSE
