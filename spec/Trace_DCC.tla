----------------------------- MODULE Trace_DCC -----------------------------
(***************************************************************************)
(* Trace validation for DCC.tla (X01).  Each line of TRACE_FILE is one     *)
(* execution recorded from a REAL device stack driven by a REAL client     *)
(* stack over a vlan under virtual time:                                   *)
(*   {"tid":n, "cfgpw":"none"|"set",                                       *)
(*    "evs":[{"op":"dcc","k":"","m":"disable","d":1,"pw":"good",           *)
(*            "st":{now, mode, deadline, blocked, resp, sent, up}}, ...]}  *)
(* For every step TLC decides                                              *)
(*  (a) conformance: the logged post-state is a successor of the logged    *)
(*      pre-state under the DCC action named by the event (either value of *)
(*      the two named deviations is accepted, so a known finding does not  *)
(*      end the conformance check) -> rej = first non-conformant step;     *)
(*  (b) the X01 monitors M_* on the observations (resp, sent) against the  *)
(*      ghost, which TLC computes from the inputs alone (it is NOT bound    *)
(*      to anything logged)  -> viol.                                      *)
(* hits[i] counts the steps at which the antecedent of monitor i was true. *)
(* One verdict record per trace is printed; nothing halts the run.         *)
(***************************************************************************)
EXTENDS DCC, Json, IOUtils, TLCExt

Traces == ndJsonDeserialize(IOEnv.TRACE_FILE)
VARIABLES tid, l, rej, viol, hits
tvars == <<tid, l, rej, viol, hits>>
T == Traces[tid].evs

MonNames == <<"M_CorrectPasswordAcked", "M_WrongPasswordRefused", "M_DisableSilent", "M_DisableAnswersReinit",
              "M_DisableInitiatesNothing", "M_DisInitResponds", "M_DisInitInitiatesNothing", "M_EnableNormal">>

TInit ==
    /\ tid \in 1..Len(Traces) /\ l = 1 /\ rej = 0 /\ viol = {} /\ hits = [i \in 1..Len(MonNames) |-> 0]
    /\ now = 0 /\ mode = "enable" /\ deadline = NONE /\ cfgpw = Traces[tid].cfgpw /\ blocked = FALSE
    /\ g = G0 /\ act = Ev("start", "", "", 0, "") /\ resp = "none" /\ sent = FALSE /\ up = FALSE

ActOf(e) ==
    CASE e.op = "dcc"    -> DCCRequest(e.m, e.d, e.pw)
      [] e.op = "in"     -> Incoming(e.k)
      [] e.op = "init"   -> \E b, i \in BOOLEAN : InitiateD(e.k, b, i)
      [] e.op = "tick"   -> Tick
      [] e.op = "expire" -> Expire
      [] OTHER           -> FALSE

\* the projection logged by the harness after the step (the ghost is not part of it)
Bind(e) ==
    /\ now' = e.st.now /\ mode' = e.st.mode /\ deadline' = e.st.deadline /\ blocked' = e.st.blocked
    /\ resp' = e.st.resp /\ sent' = e.st.sent /\ up' = e.st.up
    /\ act' = Ev(e.op, e.k, e.m, e.d, e.pw)
    /\ UNCHANGED cfgpw

GhostStep(e) ==
    CASE e.op = "dcc"  -> GhostDCC(e.m, e.d, e.pw)
      [] e.op = "tick" -> GhostTick(now')
      [] OTHER         -> g

Ante == <<A_CorrectPasswordAcked, A_WrongPasswordRefused, A_DisableSilent, A_DisableAnswersReinit,
          A_DisableInitiatesNothing, A_DisInitResponds, A_DisInitInitiatesNothing, A_EnableNormal>>
Cons == <<C_CorrectPasswordAcked, C_WrongPasswordRefused, C_DisableSilent, C_DisableAnswersReinit,
          C_DisableInitiatesNothing, C_DisInitResponds, C_DisInitInitiatesNothing, C_EnableNormal>>

Step ==
    /\ l <= Len(T)
    /\ LET e == T[l] IN
        /\ Bind(e)
        /\ g' = GhostStep(e)
        /\ rej' = IF rej = 0 /\ ~ENABLED (ActOf(e) /\ Bind(e)) THEN l ELSE rej
        /\ LET failing == {i \in 1..Len(MonNames) : Ante[i] /\ ~Cons[i]} IN
             \* the first failing step per (monitor, event kind, queue blocked before), with the ghost it was judged against
             viol' = viol \cup {<<MonNames[i], l, g.mode, g.via, g.until # NONE, e.op, e.k, blocked>> :
                                   i \in {j \in failing : \A v \in viol :
                                              ~(v[1] = MonNames[j] /\ v[6] = e.op /\ v[7] = e.k /\ v[8] = blocked)}}
        /\ hits' = [i \in 1..Len(MonNames) |-> hits[i] + (IF Ante[i] THEN 1 ELSE 0)]
    /\ l' = l + 1 /\ UNCHANGED tid

Done ==
    /\ l = Len(T) + 1
    /\ PrintT(<<"@@", [tid |-> Traces[tid].tid, rej |-> rej, viol |-> viol, hits |-> hits]>>)
    /\ l' = l + 1 /\ UNCHANGED <<vars, tid, rej, viol, hits>>

TNext == Step \/ Done
TSpec == TInit /\ [][TNext]_<<vars, tvars>>
=============================================================================
