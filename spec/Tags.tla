-------------------------------- MODULE Tags --------------------------------
(***************************************************************************)
(* BACnet tag framing (ASHRAE 135 clause 20.2.1), written from the         *)
(* standard.  Oracle for C02 (and the framing layer of C01 / C03).         *)
(*                                                                         *)
(* Initial octet:   7..4 tag number | 3 class | 2..0 length/value/type     *)
(*   tag number 0..14 in the nibble; nibble 15 = "extended": the number    *)
(*   (15..254) follows in one octet.                                       *)
(*   class 0 = application, 1 = context specific.                          *)
(*   LVT 0..4 = data length; 5 = extended length: one octet 5..253, or     *)
(*   254 + two octets (254..65535), or 255 + four octets (65536..);        *)
(*   LVT 6 = opening tag, 7 = closing tag (no length, no data);            *)
(*   application tag 1 (Boolean): LVT carries the VALUE, there is no data. *)
(*                                                                         *)
(* A tag is  [cls, num, lvt, data].  Octet streams are sequences of ITEMS: *)
(* an item >= 0 is one literal octet; an item -n < 0 stands for n opaque   *)
(* data octets (a "blob": the harness renders it as n position-coded       *)
(* octets).  Blobs keep 65 536-octet data symbolic; a stream without blobs *)
(* is a plain octet string and the same decoder is the concrete decoder.   *)
(*                                                                         *)
(* Decoder liberality.  The standard fixes what an ENCODER emits; for a    *)
(* decoder three inputs are not covered: a length escape that is longer    *)
(* than necessary, an extended tag-number octet below 15 or equal to 255,  *)
(* and LVT 6/7 with the class bit clear.  DecTag accepts all three (unique *)
(* parse is not endangered); Canonical(o) says when a stream is exactly    *)
(* what an encoder emits, and the theorems below relate the two.           *)
(***************************************************************************)
EXTENDS Naturals, Integers, Sequences, FiniteSets, TLC

APP == 0
CTX == 1
OPN == 2
CLS == 3
BoolTag == 1                    \* application tag number of Boolean

Tag(c, n, l, d) == [cls |-> c, num |-> n, lvt |-> l, data |-> d]

\* ---- items -------------------------------------------------------------------------------------------
Width(x) == IF x < 0 THEN 0 - x ELSE 1
Literal(o, a, b) == \A i \in a..b : o[i] >= 0          \* items a..b are octets
RECURSIVE SizeFrom(_, _)
SizeFrom(o, i) == IF i > Len(o) THEN 0 ELSE Width(o[i]) + SizeFrom(o, i + 1)
Size(o) == IF Literal(o, 1, Len(o)) THEN Len(o) ELSE SizeFrom(o, 1)

IsValueTag(t) == t.cls \in {APP, CTX}
IsBool(t) == t.cls = APP /\ t.num = BoolTag

\* the tags the property quantifies over
WFTag(t) ==
    /\ t.cls \in {APP, CTX, OPN, CLS}
    /\ t.num \in 0..254
    /\ t.lvt \in Nat
    /\ (t.cls \in {OPN, CLS}) => (t.lvt = 0 /\ t.data = <<>>)
    /\ IsBool(t) => t.data = <<>>
    /\ (IsValueTag(t) /\ ~IsBool(t)) => t.lvt = Size(t.data)
WFList(l) == \A i \in 1..Len(l) : WFTag(l[i])

\* ---- encoder -----------------------------------------------------------------------------------------
LenEscape(n) ==
    IF n <= 4 THEN <<>>
    ELSE IF n <= 253 THEN <<n>>
    ELSE IF n <= 65535 THEN <<254, n \div 256, n % 256>>
    ELSE <<255, n \div 16777216, (n \div 65536) % 256, (n \div 256) % 256, n % 256>>

EncTagHdr(cls, num, lvt) ==
    LET nib  == IF num <= 14 THEN num ELSE 15
        cbit == IF cls = APP THEN 0 ELSE 1
        bits == CASE cls = OPN -> 6 [] cls = CLS -> 7 [] OTHER -> IF lvt <= 4 THEN lvt ELSE 5
    IN  <<nib * 16 + cbit * 8 + bits>>
        \o (IF num <= 14 THEN <<>> ELSE <<num>>)
        \o (IF cls \in {OPN, CLS} THEN <<>> ELSE LenEscape(lvt))

EncTag(t) == EncTagHdr(t.cls, t.num, t.lvt) \o t.data

RECURSIVE EncList(_)
EncList(l) == IF l = <<>> THEN <<>> ELSE EncTag(Head(l)) \o EncList(Tail(l))

\* ---- decoder -----------------------------------------------------------------------------------------
NoTag == Tag(0, 0, 0, <<>>)
Fail == [ok |-> FALSE, tag |-> NoTag, next |-> 0]
Got(c, n, l, d, nx) == [ok |-> TRUE, tag |-> Tag(c, n, l, d), next |-> nx]

\* the length field that follows the tag number when LVT = bits; [ok, val, next]
NoLen == [ok |-> FALSE, val |-> 0, next |-> 0]
LenField(o, p, bits) ==
    IF bits < 5 THEN [ok |-> TRUE, val |-> bits, next |-> p]
    ELSE IF p > Len(o) \/ o[p] < 0 THEN NoLen
    ELSE IF o[p] <= 253 THEN [ok |-> TRUE, val |-> o[p], next |-> p + 1]
    ELSE IF o[p] = 254 THEN
        IF p + 2 > Len(o) \/ ~Literal(o, p + 1, p + 2) THEN NoLen
        ELSE [ok |-> TRUE, val |-> o[p + 1] * 256 + o[p + 2], next |-> p + 3]
    ELSE
        \* lengths of 2^31 and more exceed every stream this model can hold (and TLC's integers)
        IF p + 4 > Len(o) \/ ~Literal(o, p + 1, p + 4) \/ o[p + 1] >= 128 THEN NoLen
        ELSE [ok |-> TRUE, val |-> o[p + 1] * 16777216 + o[p + 2] * 65536 + o[p + 3] * 256 + o[p + 4], next |-> p + 5]

\* position after exactly L data octets starting at item p; 0 if the stream is too short (or a blob straddles)
RECURSIVE TakeItems(_, _, _)
TakeItems(o, p, L) ==
    IF L = 0 THEN p
    ELSE IF p > Len(o) THEN 0
    ELSE LET w == Width(o[p]) IN IF w > L THEN 0 ELSE TakeItems(o, p + 1, L - w)
Take(o, p, L) ==
    IF L <= Len(o) - p + 1 /\ Literal(o, p, p + L - 1) THEN p + L
    ELSE IF Literal(o, p, Len(o)) THEN 0
    ELSE TakeItems(o, p, L)

\* one tag starting at item p:  [ok, tag, next]
DecTag(o, p) ==
    IF p > Len(o) \/ p < 1 \/ o[p] < 0 THEN Fail ELSE
    LET b    == o[p]
        nib  == b \div 16
        cbit == (b \div 8) % 2
        bits == b % 8
        ext  == nib = 15
        p1   == IF ext THEN p + 2 ELSE p + 1
    IN  IF ext /\ (p + 1 > Len(o) \/ o[p + 1] < 0) THEN Fail ELSE
        LET num == IF ext THEN o[p + 1] ELSE nib IN
        IF bits = 6 THEN Got(OPN, num, 0, <<>>, p1)
        ELSE IF bits = 7 THEN Got(CLS, num, 0, <<>>, p1)
        ELSE LET L == LenField(o, p1, bits) IN
             IF ~L.ok THEN Fail
             ELSE IF cbit = 0 /\ num = BoolTag THEN Got(APP, num, L.val, <<>>, L.next)
             ELSE LET e == Take(o, L.next, L.val) IN
                  IF e = 0 THEN Fail ELSE Got(cbit, num, L.val, SubSeq(o, L.next, e - 1), e)

Invalid == [ok |-> FALSE, tags |-> <<>>]
Valid(l) == [ok |-> TRUE, tags |-> l]

\* the whole stream: a list, or Invalid; nothing is left over by construction
RECURSIVE DecFrom(_, _, _)
DecFrom(o, p, acc) ==
    IF p = Len(o) + 1 THEN Valid(acc)
    ELSE LET r == DecTag(o, p) IN IF ~r.ok THEN Invalid ELSE DecFrom(o, r.next, Append(acc, r.tag))
DecList(o) == DecFrom(o, 1, <<>>)

\* octets (items) consumed by decoding one tag at the front
Consumed(o) == LET r == DecTag(o, 1) IN IF r.ok THEN r.next - 1 ELSE 0

Canonical(o) == LET d == DecList(o) IN d.ok /\ WFList(d.tags) /\ EncList(d.tags) = o

\* ---- theorems about the framing (checked by TLC over the grids of MC_Tags) ----------------------------
RoundTrip(l) == DecList(EncList(l)) = Valid(l)
\* minimal-length clause: each escape is used only from its threshold on
EscapeMinimal(n) ==
    LET e == LenEscape(n) IN
    /\ (Len(e) = 0) <=> (n <= 4)
    /\ (Len(e) = 1) <=> (5 <= n /\ n <= 253)
    /\ (Len(e) = 3) <=> (254 <= n /\ n <= 65535)
    /\ (Len(e) = 5) <=> (n >= 65536)
HdrLen(t) == Len(EncTagHdr(t.cls, t.num, t.lvt))
HdrCanonical(t) ==
    HdrLen(t) = 1 + (IF t.num >= 15 THEN 1 ELSE 0)
                  + (IF ~IsValueTag(t) \/ t.lvt <= 4 THEN 0 ELSE IF t.lvt <= 253 THEN 1 ELSE IF t.lvt <= 65535 THEN 3 ELSE 5)
\* decoder total and stable on an arbitrary stream; never reads past the end
NoOverRead(o) == \A p \in 1..Len(o) : LET r == DecTag(o, p) IN r.ok => (r.next > p /\ r.next <= Len(o) + 1)
StableOrInvalid(o) ==
    LET d == DecList(o) IN
    d.ok => /\ DecList(EncList(d.tags)) = d
            /\ Size(EncList(d.tags)) <= Size(o)             \* re-encoding never grows: escapes are minimal
            /\ Canonical(o) => EncList(d.tags) = o
\* what the decoder returns is a well-formed tag, up to the reserved tag number 255
DecodedWF(o) == LET d == DecList(o) IN d.ok => \A i \in 1..Len(d.tags) : WFTag(d.tags[i]) \/ d.tags[i].num = 255

\* ---- open/close structure ----------------------------------------------------------------------------
\* declarative: depth after the first i tags
Depth(l, i) == Cardinality({j \in 1..i : l[j].cls = OPN}) - Cardinality({j \in 1..i : l[j].cls = CLS})
Balanced(l) == (\A i \in 1..Len(l) : Depth(l, i) >= 0) /\ Depth(l, Len(l)) = 0
\* (pairing is by nesting level, as in clause 20.2.1.3.2's bracket structure; that the closing tag repeats the
\*  opening tag's number is checked by the constructed-type decoders, not at this layer -- see C03)

\* operational: index of the closing tag that ends the group opened at i, 0 if there is none
RECURSIVE CloseFrom(_, _, _)
CloseFrom(l, j, lvl) ==
    IF j > Len(l) THEN 0
    ELSE IF l[j].cls = OPN THEN CloseFrom(l, j + 1, lvl + 1)
    ELSE IF l[j].cls = CLS THEN (IF lvl = 0 THEN j ELSE CloseFrom(l, j + 1, lvl - 1))
    ELSE CloseFrom(l, j + 1, lvl)
MatchClose(l, i) == CloseFrom(l, i + 1, 0)

\* TagList.get_context: scan the top level for context number n.
\*   [kind |-> "none"]                        no element with that context
\*   [kind |-> "tag",   from = to = i]        the context-tagged primitive at i
\*   [kind |-> "group", from..to]             the tags strictly between opening tag n and its closing tag
\*   [kind |-> "invalid"]                     the brackets met on the way do not balance
Pos(k, a, b) == [kind |-> k, from |-> a, to |-> b]
RECURSIVE ScanContext(_, _, _)
ScanContext(l, n, i) ==
    IF i > Len(l) THEN Pos("none", 0, 0)
    ELSE CASE l[i].cls = APP -> ScanContext(l, n, i + 1)
           [] l[i].cls = CTX -> IF l[i].num = n THEN Pos("tag", i, i) ELSE ScanContext(l, n, i + 1)
           [] l[i].cls = OPN -> LET j == MatchClose(l, i) IN
                                IF j = 0 THEN Pos("invalid", 0, 0)
                                ELSE IF l[i].num = n THEN Pos("group", i + 1, j - 1)
                                ELSE ScanContext(l, n, j + 1)
           [] OTHER          -> Pos("invalid", 0, 0)
GetContextPos(l, n) == ScanContext(l, n, 1)
GetContext(l, n) == LET r == GetContextPos(l, n) IN
                    [kind |-> r.kind, tags |-> IF r.kind \in {"tag", "group"} THEN SubSeq(l, r.from, r.to) ELSE <<>>]

\* declarative counterpart, in terms of Balanced only.  D is the depth profile DepthVec(l), computed once;
\* BalancedIn(D, a, b) is Balanced(SubSeq(l, a, b)) read off the profile.
\* (TLC applies a function constructor lazily, re-evaluating its body at every application: Mat forces a tuple)
Mat(f) == <<>> \o f
DepthVec(l) == Mat([i \in 1..(Len(l) + 1) |-> Depth(l, i - 1)])          \* D[k + 1] = depth after k tags
BalancedIn(D, a, b) == (\A k \in a..b : D[k + 1] >= D[a]) /\ D[b + 1] = D[a]
BalancedInOK(l) == LET D == DepthVec(l) IN
                   \A a \in 1..(Len(l) + 1) : \A b \in (a - 1)..Len(l) : BalancedIn(D, a, b) <=> Balanced(SubSeq(l, a, b))
TopLevel(D, i) == BalancedIn(D, 1, i - 1)
\* positions j that close a balanced group opened at i
Closers(l, D, i) == {j \in (i + 1)..Len(l) : l[j].cls = CLS /\ BalancedIn(D, i + 1, j - 1)}
\* the scan stumbles at k: a top-level closing tag, or a top-level opening tag whose group never closes
Stumble(l, D, k) == TopLevel(D, k) /\ (l[k].cls = CLS \/ (l[k].cls = OPN /\ Closers(l, D, k) = {}))
Least(S) == CHOOSE i \in S : \A k \in S : i <= k
GetContextDeclD(l, D, n) ==
    LET H == {i \in 1..Len(l) : TopLevel(D, i) /\ l[i].num = n /\ l[i].cls \in {CTX, OPN}}       \* top-level elements with context n
        h == IF H = {} THEN 0 ELSE Least(H)
        S == {k \in 1..(IF h = 0 THEN Len(l) ELSE h) : Stumble(l, D, k)}
    IN  IF S # {} THEN Pos("invalid", 0, 0)
        ELSE IF h = 0 THEN Pos("none", 0, 0)
        ELSE IF l[h].cls = CTX THEN Pos("tag", h, h)
        ELSE Pos("group", h + 1, Least(Closers(l, D, h)) - 1)
GetContextDecl(l, n) == GetContextDeclD(l, DepthVec(l), n)
ContextIffBalancedD(l, D, n) ==
    LET r == GetContextPos(l, n) IN
    /\ r = GetContextDeclD(l, D, n)
    /\ r.kind = "group" => BalancedIn(D, r.from, r.to)
    /\ BalancedIn(D, 1, Len(l)) => r.kind # "invalid"
ContextIffBalanced(l, n) == ContextIffBalancedD(l, DepthVec(l), n)

\* Any.decode: take tags up to (not including) the first closing tag that has no partner; error if an opening
\* tag is still open at the end.   [ok, taken]
RECURSIVE AnyFrom(_, _, _)
AnyFrom(l, i, lvl) ==
    IF i > Len(l) THEN [ok |-> lvl = 0, taken |-> IF lvl = 0 THEN Len(l) ELSE 0]
    ELSE IF l[i].cls = OPN THEN AnyFrom(l, i + 1, lvl + 1)
    ELSE IF l[i].cls = CLS THEN (IF lvl = 0 THEN [ok |-> TRUE, taken |-> i - 1] ELSE AnyFrom(l, i + 1, lvl - 1))
    ELSE AnyFrom(l, i + 1, lvl)
AnyTake(l) == AnyFrom(l, 1, 0)
AnyTakeDeclD(l, D) ==
    LET N == {i \in 1..Len(l) : D[i + 1] < 0} IN
    IF N # {} THEN [ok |-> TRUE, taken |-> Least(N) - 1]
    ELSE [ok |-> D[Len(l) + 1] = 0, taken |-> IF D[Len(l) + 1] = 0 THEN Len(l) ELSE 0]
AnyIffBalancedD(l, D) ==
    LET r == AnyTake(l) IN
    /\ r = AnyTakeDeclD(l, D)
    /\ r.ok => BalancedIn(D, 1, r.taken)
AnyIffBalanced(l) == AnyIffBalancedD(l, DepthVec(l))
=============================================================================
