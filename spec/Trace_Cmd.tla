----------------------------- MODULE Trace_Cmd -----------------------------
(***************************************************************************)
(* Trace validation for Cmd.tla.  Each line of TRACE_FILE is one execution *)
(* recorded from a real commandable object (direct property access or      *)
(* WriteProperty / ReadProperty requests over a VLAN):                     *)
(*   {"tid":n, "rdef":"d", "minOn":0, "minOff":0,                          *)
(*    "st0":{"slot":[16 tokens],"pv":tok,"dl":-1},                         *)
(*    "evs":[{"op":"write","p":8,"v":"a","res":"ok",                       *)
(*            "slot":[16 tokens],"pv":"a","dl":-1}, ...]}                  *)
(* op/p/v is the command (Cmd.tla's act record), the rest the projected    *)
(* post-state read back through presentValue / priorityArray (and the      *)
(* scheduler for dl).  For every step TLC decides (a) conformance: is the  *)
(* logged post-state a successor of the logged pre-state under the Cmd     *)
(* action named by the event (rej = first step that is not), and (b) the   *)
(* C17 monitors -- the invariants of Cmd.tla -- on the logged states       *)
(* (viol).  One verdict record per trace is printed ("@@" prefix); nothing *)
(* halts the run.                                                          *)
(***************************************************************************)
EXTENDS Cmd, Sequences, Json, IOUtils, TLCExt

Traces == ndJsonDeserialize(IOEnv.TRACE_FILE)
VARIABLES tid, l, rej, viol
tvars == <<tid, l, rej, viol>>
T == Traces[tid].evs

\* a freshly built object is in the initial state of the design
InitConsistent(st0, rd) == st0.slot = AllNull /\ st0.pv = rd /\ st0.dl = NONE

TInit ==
    /\ tid \in 1..Len(Traces) /\ l = 1 /\ rej = 0
    /\ rdef = Traces[tid].rdef /\ minOn = Traces[tid].minOn /\ minOff = Traces[tid].minOff
    /\ slot = Traces[tid].st0.slot /\ pv = Traces[tid].st0.pv /\ dl = Traces[tid].st0.dl
    /\ viol = IF InitConsistent(Traces[tid].st0, Traces[tid].rdef) THEN {} ELSE {<<"InitConsistent", 0>>}
    /\ res = "ok" /\ last = AllNull /\ xh = NoHold
    /\ act = [op |-> "init", p |-> 0, v |-> Null]

Act(e) ==
    CASE e.op = "write"      -> Write(e.p, e.v)
      [] e.op = "relinquish" -> Relinquish(e.p)
      [] e.op = "bad"        -> IF e.v = "idx0" THEN BadIndex0 ELSE BadWrite(e.p, e.v)
      [] e.op = "obs"        -> Observe(TRUE)
      [] e.op = "unobs"      -> Observe(FALSE)
      [] e.op = "expire"     -> HoldExpire
      [] e.op = "tick"       -> Tick(e.p)
      [] OTHER               -> FALSE

\* the projection logged by the harness after the step; the history variables follow from the observed step by the
\* definitions of Cmd.tla
Bind(e) ==
    /\ slot' = e.slot /\ pv' = e.pv /\ dl' = e.dl /\ res' = e.res
    /\ act' = [op |-> e.op, p |-> e.p, v |-> e.v]
    /\ Fixed /\ Hist

A_BadWriteChangesNothing == act'.op = "bad" => UNCHANGED <<slot, pv, dl>>

Failing ==
    (IF PVIsHighest' THEN {} ELSE {"PVIsHighest"}) \cup
    (IF SlotIsLastCommand' THEN {} ELSE {"SlotIsLastCommand"}) \cup
    (IF BadWriteRefused' THEN {} ELSE {"BadWriteRefused"}) \cup
    (IF MinOnOffHold' THEN {} ELSE {"MinOnOffHold"}) \cup
    (IF A_BadWriteChangesNothing THEN {} ELSE {"BadWriteChangesNothing"})

Step ==
    /\ l <= Len(T)
    /\ LET e == T[l] IN
        /\ Bind(e)
        /\ rej' = IF rej = 0 /\ ~ENABLED (Act(e) /\ Bind(e)) THEN l ELSE rej
        /\ viol' = viol \cup {<<m, l>> : m \in {x \in Failing : \A v \in viol : v[1] # x}}   \* first failing step per monitor
    /\ l' = l + 1 /\ UNCHANGED tid

Done ==
    /\ l = Len(T) + 1
    /\ PrintT(<<"@@", [tid |-> Traces[tid].tid, rej |-> rej, viol |-> viol]>>)
    /\ l' = l + 1 /\ UNCHANGED <<vars, tid, rej, viol>>

TNext == Step \/ Done
TSpec == TInit /\ [][TNext]_<<vars, tvars>>
=============================================================================
