SPECIFICATION TSpec
CONSTANTS
  Lans = {}
  Queries = {}
  Rogues = {}
  Mutations = {}
  MaxOps = 1000000
  Dev_HighExclusive = FALSE
  Dev_WhoHasNoRange = FALSE
  Dev_LearnUnchecked = FALSE
CHECK_DEADLOCK FALSE
