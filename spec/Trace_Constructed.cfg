SPECIFICATION Spec
CONSTANT Tab <- Schemas
INVARIANT Reported
CHECK_DEADLOCK FALSE
