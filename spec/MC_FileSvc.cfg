CONSTANTS
  F = {1, 2}
  Files0 <- c_Files0
  Positions <- c_Positions
  Counts <- c_Counts
  Data <- c_Data
  PadS = 0
  PadR = 0
  MaxLen = 4
  MaxLevel = 4
  RefuseStartAtEnd = FALSE
  EmptyIsUnknown = FALSE
  SizeNotMaintained = FALSE
SPECIFICATION Spec
CHECK_DEADLOCK FALSE
INVARIANT Shape
PROPERTY P_RefusalIffInvalid
PROPERTY P_ReadIsSlice
PROPERTY P_EofExact
PROPERTY P_WriteExact
PROPERTY P_WriteThenRead
PROPERTY P_RefusalChangesNothing
PROPERTY P_ReadsChangeNothing
PROPERTY P_SizeTracksContent
