\* one chain object (encode / decode raising or not), a second IOCB, a group and the controller
CONSTANTS
  B = {1, 2}
  C = {3}
  G = {4}
  PrioMaps <- c_Prio4
  KindMaps <- c_Norm4
  Waits = {0}
  Delays = {1}
  EncFails = {FALSE, TRUE}
  DecFails = {FALSE, TRUE}
  MaxCb = 1
  MaxTrig = 2
  MaxFire = 3
  CbOn = {1, 4}
  TimerOn = {1}
  Ops = {"request", "complete", "abort", "cabort", "qabort", "gabort", "settle"}
  AddCallbackRefires = FALSE
  CompleteOverridesDone = FALSE
  GroupAbortUnguarded = FALSE
  QueueAbortRaises = FALSE
  AbortIdleNoop = FALSE
  IdleBypass = FALSE
SPECIFICATION Spec
VIEW view
CHECK_DEADLOCK FALSE
INVARIANT TypeOK
INVARIANT OneCompletion
INVARIANT GroupDoneIffMembers
INVARIANT OneActive
INVARIANT QueueOrder
INVARIANT PendingIffQueued
INVARIANT QueuedAreBound
INVARIANT NotEmptyEvent
INVARIANT NoStall
INVARIANT NoResidue
INVARIANT ChainLinked
PROPERTY P_Absorbing
PROPERTY P_CallbackPerCompletion
PROPERTY P_TimerCancelled
PROPERTY P_StartInOrder
PROPERTY P_TriggerProgress
PROPERTY P_AbortRemovesPending
PROPERTY P_AbortFreesController
PROPERTY P_AbortAllPending
PROPERTY P_NoException
PROPERTY P_RefusalChangesNothing
PROPERTY P_TimeoutAborts
PROPERTY P_GroupAbort
PROPERTY P_ChainOutcome
