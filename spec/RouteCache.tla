----------------------------- MODULE RouteCache -----------------------------
(***************************************************************************)
(* The routing knowledge of a BACnet node: netservice.RouterInfoCache.      *)
(*                                                                         *)
(* Two indexes that must agree:                                            *)
(*   routers[s][a]  the destinations credited to router a on attached      *)
(*                  network s (RouterInfoCache.routers[s][a].dnets,         *)
(*                  a function  dnet -> status)                            *)
(*   path[<<s,d>>]  the next hop looked up for destination d via s          *)
(*                  (RouterInfoCache.path_info[(s, d)].address)             *)
(* and the set of attached networks (keys of NetworkServiceAccessPoint     *)
(* .adapters; for a bare cache: the networks its owner feeds it with).     *)
(*                                                                         *)
(* One action per method of the code:                                      *)
(*   Update(s, a, D, st)       update_router_info (I-Am-Router-To-Network, *)
(*                             SADR of routed traffic)                     *)
(*   DeleteRouter(s, a)        delete_router_info(s, a)                     *)
(*   DeleteDnets(s, x, D)      delete_router_info(s, x or None, D)          *)
(*   Renumber(old, new)        update_source_network (Network-Number-Is)    *)
(*   UpdateStatus(s, a, st)    update_router_status                         *)
(* The actions are written from the meaning of the property (C19); where   *)
(* the code is known to differ there is a named deviation constant.        *)
(***************************************************************************)
EXTENDS Naturals, FiniteSets, TLC

CONSTANTS
    SNets,          \* network numbers a port of the node can have (positive integers)
    Addrs,          \* router addresses (positive integers)
    DNets,          \* destination networks
    Statuses,       \* per-destination status values (0 = available)
    AttachedInits,  \* set of subsets of SNets: candidates for the initially attached networks
    UpdSets,        \* argument grid of Update: a set of subsets of DNets (may contain {})
    DelSets,        \* argument grid of DeleteDnets: a set of non-empty subsets of DNets
    MaxLevel,       \* bound on behaviour length for exhaustive checking
    Dev_EmptyUpdateCreatesRouter,   \* an announcement without destinations from an unknown router leaves an
                                    \* empty router record (today's code; not excluded by the property)
    Dev_DeleteDnetsDropsRouter,     \* finding F14: forgetting destinations of a named router drops the whole
                                    \* record and the named lookups, leaving the router's other lookups behind
    Dev_DeleteDnetsNoAddrFails      \* finding F14: forgetting destinations without naming a router fails
                                    \* (NameError) whenever one of them is known: nothing is removed

VARIABLES
    routers,    \* [SNets -> [known addresses -> [credited dnets -> Statuses]]]
    path,       \* [subset of SNets \X DNets -> Addrs]
    attached,   \* subset of SNets
    act         \* the step that produced this state (makes state-graph dumps self-describing)

vars == <<routers, path, attached, act>>
NoAddr == 0
Restrict(f, S) == [k \in S |-> f[k]]
Act(op, s, a, ds, x) == [op |-> op, s |-> s, a |-> a, ds |-> ds, x |-> x]

Init ==
    /\ routers = [s \in SNets |-> <<>>]
    /\ path = <<>>
    /\ attached \in AttachedInits
    /\ act = Act("init", 0, 0, {}, 0)

----------------------------------------------------------------------------
\* update_router_info(s, a, D, st): router a on network s announces the destinations D.
\* Every d in D is from now on reached through a; whoever was credited with it before loses it (and only it);
\* a competitor that loses its last destination disappears.
Update(s, a, D, st) ==
    /\ s \in attached
    /\ LET R     == routers[s]
           known == a \in DOMAIN R
           keep  == {b \in DOMAIN R \ {a} : (DOMAIN R[b]) \cap D = {} \/ (DOMAIN R[b]) \ D # {}}
           mine  == IF known THEN R[a] ELSE <<>>
           newA  == [d \in (DOMAIN mine) \cup D |-> IF d \in D THEN st ELSE mine[d]]
           has   == known \/ D # {} \/ Dev_EmptyUpdateCreatesRouter
       IN  /\ routers' = [routers EXCEPT ![s] =
                            [b \in keep \cup (IF has THEN {a} ELSE {}) |->
                                IF b = a THEN newA ELSE Restrict(R[b], (DOMAIN R[b]) \ D)]]
           /\ path' = [k \in (DOMAIN path) \cup {<<s, d>> : d \in D} |->
                            IF k[1] = s /\ k[2] \in D THEN a ELSE path[k]]
    /\ attached' = attached
    /\ act' = Act("update", s, a, D, st)

\* delete_router_info(s, a): the router and every lookup that leads to it are forgotten; an unknown router: no-op
DeleteRouter(s, a) ==
    /\ s \in attached
    /\ routers' = [routers EXCEPT ![s] = Restrict(@, (DOMAIN @) \ {a})]
    /\ path' = Restrict(path, {k \in DOMAIN path : ~(k[1] = s /\ path[k] = a)})
    /\ attached' = attached
    /\ act' = Act("del_router", s, a, {}, 0)

\* delete_router_info(s, x, D): the destinations D are forgotten -- those credited to router x, or (x = NoAddr)
\* whoever has them.  Destinations that are not known (or are another router's) are left alone.
DeleteDnets(s, x, D) ==
    /\ s \in attached
    /\ LET R       == routers[s]
           victims == {d \in D : <<s, d>> \in DOMAIN path /\ (x = NoAddr \/ path[<<s, d>>] = x)}
           \* a router left without destinations disappears: the named one in any case, others if they lost one
           keep    == {b \in DOMAIN R : (DOMAIN R[b]) \ victims # {} \/ (b # x /\ (DOMAIN R[b]) \cap victims = {})}
       IN  IF x # NoAddr /\ Dev_DeleteDnetsDropsRouter /\ x \in DOMAIN R
           THEN /\ routers' = [routers EXCEPT ![s] = Restrict(R, (DOMAIN R) \ {x})]
                /\ path' = Restrict(path, {k \in DOMAIN path : ~(k[1] = s /\ k[2] \in D)})
           ELSE IF x = NoAddr /\ Dev_DeleteDnetsNoAddrFails /\ victims # {}
           THEN UNCHANGED <<routers, path>>
           ELSE /\ routers' = [routers EXCEPT ![s] = [b \in keep |-> Restrict(R[b], (DOMAIN R[b]) \ victims)]]
                /\ path' = Restrict(path, {k \in DOMAIN path : ~(k[1] = s /\ k[2] \in victims)})
    /\ attached' = attached
    /\ act' = Act("del_dnets", s, x, D, 0)

\* update_source_network(old, new): the port on network `old` learns that its network number is `new`
\* (precondition: `new` is not the number of another port); the knowledge moves with it
Renumber(old, new) ==
    /\ old \in attached /\ new \in SNets \ attached
    /\ routers' = [s \in DOMAIN routers |-> IF s = new THEN routers[old] ELSE IF s = old THEN <<>> ELSE routers[s]]
    /\ path' = [k \in {IF j[1] = old THEN <<new, j[2]>> ELSE j : j \in DOMAIN path} |->
                    IF k[1] = new /\ <<old, k[2]>> \in DOMAIN path THEN path[<<old, k[2]>>] ELSE path[k]]
    /\ attached' = (attached \ {old}) \cup {new}
    /\ act' = Act("renumber", old, 0, {}, new)

\* update_router_status(s, a, st): a router-wide flag; the indexes are not touched
UpdateStatus(s, a, st) ==
    /\ s \in attached
    /\ UNCHANGED <<routers, path, attached>>
    /\ act' = Act("status", s, a, {}, st)

Next ==
    \/ \E s \in SNets, a \in Addrs, D \in UpdSets, st \in Statuses : Update(s, a, D, st)
    \/ \E s \in SNets, a \in Addrs : DeleteRouter(s, a)
    \/ \E s \in SNets, x \in Addrs \cup {NoAddr}, D \in DelSets : DeleteDnets(s, x, D)
    \/ \E old \in SNets, new \in SNets : Renumber(old, new)
    \/ \E s \in SNets, a \in Addrs, st \in Statuses : UpdateStatus(s, a, st)

Spec == Init /\ [][Next]_vars
\* exhaustive checking: all behaviours of at most MaxLevel steps (the initial state has level 1)
BoundedNext == TLCGet("level") <= MaxLevel /\ Next
BoundedSpec == Init /\ [][BoundedNext]_vars
NoActView == <<routers, path, attached>>      \* VIEW for exhaustive runs: the history variable does not split states

----------------------------------------------------------------------------
\* Properties (C19)

\* what the router records say: <<s, a, d>> = router a on network s is credited with destination d
Credited == UNION {UNION {{<<s, a, d>> : d \in DOMAIN routers[s][a]} : a \in DOMAIN routers[s]} : s \in DOMAIN routers}
\* what can be looked up: <<s, a, d>> = the lookup of d via s names a
Named == {<<k[1], path[k], k[2]>> : k \in DOMAIN path}

\* for each pair of attached network and destination network at most one next-hop router
OneNextHop   == LET K == Credited \cup Named IN Cardinality({<<x[1], x[3]>> : x \in K}) = Cardinality(K)
\* every destination credited to a router can be looked up and leads to that router
LookupsLead  == Credited \subseteq Named
\* and nothing else can
NothingElse  == Named \subseteq Credited
\* knowledge is held for attached networks only (a lookup goes through a port of the node)
OnlyAttached == \A x \in Credited \cup Named : x[1] \in attached
Coherent == OneNextHop /\ LookupsLead /\ NothingElse /\ OnlyAttached

\* design-level housekeeping, not demanded by the property: no router record without destinations lingers
NoEmptyRouter == \A s \in DOMAIN routers : \A a \in DOMAIN routers[s] : DOMAIN routers[s][a] # {}

TypeOK ==
    /\ DOMAIN routers = SNets /\ attached \subseteq SNets
    /\ \A s \in SNets : DOMAIN routers[s] \subseteq Addrs
                        /\ \A a \in DOMAIN routers[s] : DOMAIN routers[s][a] \subseteq DNets
                                                         /\ \A d \in DOMAIN routers[s][a] : routers[s][a][d] \in Statuses
    /\ DOMAIN path \subseteq SNets \X DNets /\ \A k \in DOMAIN path : path[k] \in Addrs

\* A newer announcement for a destination replaces the older router for it -- and touches nothing else.
A_NewestWins ==
    act'.op = "update" =>
        LET s == act'.s  a == act'.a  D == act'.ds
            mine(x) == x[1] = s /\ x[3] \in D
            C1 == Credited'
        IN  /\ \A d \in D : <<s, d>> \in DOMAIN path' /\ path'[<<s, d>>] = a
            /\ {x \in C1 : mine(x)} = {<<s, a, d>> : d \in D}
            /\ {x \in C1 : ~mine(x)} = {x \in Credited : ~mine(x)}
            /\ {x \in Named' : ~mine(x)} = {x \in Named : ~mine(x)}

\* Forgetting a router or a destination removes exactly that and keeps the rest usable.
A_DeleteExact ==
    act'.op \in {"del_router", "del_dnets"} =>
        LET s == act'.s  a == act'.a  D == act'.ds
            gone(x) == IF act'.op = "del_router" THEN x[1] = s /\ x[2] = a
                       ELSE x[1] = s /\ x[3] \in D /\ (a = NoAddr \/ x[2] = a)
        IN  /\ Credited' = {x \in Credited : ~gone(x)}
            /\ Named' = {x \in Named : ~gone(x)}
            /\ act'.op = "del_router" => a \notin DOMAIN routers'[s]

NewestWins  == [][A_NewestWins]_vars
DeleteExact == [][A_DeleteExact]_vars
=============================================================================
