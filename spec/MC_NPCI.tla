------------------------------ MODULE MC_NPCI ------------------------------
(***************************************************************************)
(* Case grids for NPCI.tla (C08), evaluated with the function-evaluation   *)
(* pattern: one TLC state per case, invariants = theorems about Enc / Dec  *)
(* on that case.  The same cases are written to IOEnv.OUT_FILE as ndjson   *)
(* (case, expected octets, expected decoding) for the harness, which runs  *)
(* each of them through the real bacpypes classes.                         *)
(*                                                                         *)
(* Grids is the set of grids to evaluate in this run:                      *)
(*        "ctl"  all 256 control octets x address shapes                   *)
(*        "hdr"  address shapes for DADR x SADR x hop counts x types       *)
(*        "mt"   all 256 message types (x vendor ids from X'80')           *)
(*        "msg"  the 12 network layer messages                             *)
(*        "bad"  forbidden / truncated / unspecified headers               *)
(*        "cut"  every prefix of small complete messages (truncated body)  *)
(*        "str"  all octet strings up to StrLen over Alphabet              *)
(*        "v1"   all strings <<1, a, b>>                                   *)
(*        "ver"  all strings of 1..3 octets whose first octet is not 1      *)
(*               (no output, invariant only)                               *)
(***************************************************************************)
EXTENDS NPCI, TLC, Json, IOUtils, SequencesExt, FiniteSets

CONSTANTS Grids, MacLens, Hops, Vendors, ListLens, TableLens, BadMacLens, Alphabet, StrLen

VARIABLE c

\* ---- position-coded contents: an octet that lands in the wrong place is visible ----------------------
PMac(len, base) == [i \in 1..len |-> (base + 3 * i) % 256]
PData(len)      == [i \in 1..len |-> (224 + 5 * i) % 256]
PNet(i)         == IF i <= 6 THEN <<0, 1, 255, 256, 65534, 65535>>[i] ELSE (i * 3001) % 65536
NetVals         == {0, 1, 255, 256, 65534, 65535}

DNetFor(l) == CASE l = 1 -> 1 [] l = 2 -> 255 [] l = 6 -> 256 [] l = 7 -> 65534 [] OTHER -> 4660 + l
SNetFor(l) == CASE l = 1 -> 65534 [] l = 2 -> 256 [] l = 6 -> 1 [] l = 7 -> 255 [] OTHER -> 2 * l + 7

DShapes == {Global, RBcast(1), RBcast(65534)} \cup {Station(DNetFor(l), PMac(l, 64)) : l \in MacLens}
SShapes == {Station(SNetFor(l), PMac(l, 160)) : l \in MacLens}

Hdr(rsv, der, prio, d, s, hop, mt, v, data) ==
    [rsv |-> rsv, der |-> der, prio |-> prio, dadr |-> d, sadr |-> s, hop |-> IF d = NoAddr THEN NONE ELSE hop,
     mtype |-> mt, vendor |-> v, data |-> data]

\* ---- "ctl": every control octet, with address blocks / message type as its bits demand ------------------
\* (message types whose body may be the 4 payload octets: two network numbers, or opaque)
CtlMsgs == {<<1, NONE>>, <<5, NONE>>, <<128, 4660>>, <<255, 65535>>}
CtlCases == IF "ctl" \notin Grids THEN {} ELSE
    { [cc |-> t[1],
       h  |-> Hdr(64 * Bit(t[1], 6) + 16 * Bit(t[1], 4), Bit(t[1], 2) = 1, t[1] % 4, t[2], t[3], (t[1] * 37) % 256,
                  t[4][1], t[4][2], PData(4))] :
      t \in { u \in (0..255) \X ({NoAddr} \cup DShapes) \X ({NoAddr} \cup SShapes) \X ({<<NONE, NONE>>} \cup CtlMsgs) :
                /\ (u[2] = NoAddr) <=> (Bit(u[1], 5) = 0)
                /\ (u[3] = NoAddr) <=> (Bit(u[1], 3) = 0)
                /\ (u[4][1] = NONE) <=> (Bit(u[1], 7) = 0) } }

\* ---- "hdr": DADR shape x hop count x SADR shape x message kind x payload length -------------------------
HdrMsgs == {<<NONE, NONE>>, <<0, NONE>>, <<127, NONE>>, <<128, 0>>, <<255, 65535>>}
HdrCases == IF "hdr" \notin Grids THEN {} ELSE
    { Hdr(0, dp[1], dp[2], dh[1], s, dh[2], m[1], m[2], PData(n)) :
        dp \in {<<FALSE, 0>>, <<TRUE, 3>>},
        dh \in {<<NoAddr, NONE>>} \cup (DShapes \X Hops),
        s  \in {NoAddr} \cup SShapes,
        m  \in HdrMsgs,
        n  \in {0, 2} }

\* ---- "mt": every message type ----------------------------------------------------------------------------
Ctx == { <<NoAddr, NoAddr, NONE, FALSE, 0>>,
         <<Global, NoAddr, 255, TRUE, 1>>,
         <<Station(260, PMac(6, 64)), Station(7, PMac(1, 160)), 1, FALSE, 3>> }
MtCases == IF "mt" \notin Grids THEN {} ELSE
    { Hdr(0, t[2][4], t[2][5], t[2][1], t[2][2], t[2][3], t[1], t[3], PData(2)) :
      t \in { u \in (0..255) \X Ctx \X ({NONE} \cup Vendors) : (u[3] = NONE) <=> (u[1] < 128) } }

\* ---- "msg": the 12 messages ------------------------------------------------------------------------------
InfoPats == { <<0, 0, 0, 0, 0>>, <<1, 1, 1, 1, 1>>, <<255, 255, 255, 255, 255>>, <<0, 1, 255, 1, 0>>, <<255, 0, 1, 0, 255>> }
Tbl(n, pat) == [i \in 1..n |-> [net |-> PNet(i + 1), port |-> (i * 85) % 256, info |-> PMac(pat[i], 16 * i)]]

Bodies(lens, tlens, pats) ==
         { [mt |-> MT_WhoIsRouter, net |-> n] : n \in {NONE} \cup NetVals }
    \cup { [mt |-> m, nets |-> [i \in 1..l |-> PNet(i)]] : m \in {MT_IAmRouter, MT_RouterBusy, MT_RouterAvail}, l \in lens }
    \cup { [mt |-> MT_ICouldBeRouter, net |-> n, perf |-> p] : n \in NetVals, p \in {0, 1, 255} }
    \cup { [mt |-> MT_Reject, reason |-> x, net |-> n] : x \in {0, 1, 2, 3, 4, 5, 6, 127, 128, 255}, n \in NetVals }
    \cup { [mt |-> m, table |-> Tbl(n, pat)] : m \in {MT_InitRT, MT_InitRTAck}, n \in tlens, pat \in pats }
    \cup { [mt |-> MT_Establish, net |-> n, time |-> t] : n \in NetVals, t \in {0, 1, 255} }
    \cup { [mt |-> MT_Disconnect, net |-> n] : n \in NetVals }
    \cup { [mt |-> MT_WhatIsNet] }
    \cup { [mt |-> MT_NetIs, net |-> n, flag |-> f] : n \in NetVals, f \in {0, 1} }

Msg(x, b) == [rsv |-> 0, der |-> x[4], prio |-> x[5], dadr |-> x[1], sadr |-> x[2], hop |-> x[3],
              mtype |-> b.mt, vendor |-> NONE, body |-> b]
MsgCases == IF "msg" \notin Grids THEN {} ELSE { Msg(x, b) : x \in Ctx, b \in Bodies(ListLens, TableLens, InfoPats) }

\* ---- "bad": headers the standard forbids, truncated ones, and the unspecified combination -----------------
BadD == {NoAddr, Global, RBcast(5)} \cup {Station(DNetFor(l), PMac(l, 64)) : l \in BadMacLens}
BadS == {NoAddr} \cup {Station(SNetFor(l), PMac(l, 160)) : l \in BadMacLens}
BadM == {<<NONE, NONE>>, <<0, NONE>>, <<128, 4660>>}
BaseHdrs == { Hdr(0, TRUE, 2, d, s, 200, m[1], m[2], PData(n)) : d \in BadD, s \in BadS, m \in BadM, n \in {0, 2} }

\* a source block that is not a station: global (FFFF, 0), broadcast (n, 0), FFFF with an address
BadSources == { [k |-> "global", net |-> 65535, mac |-> <<>>], [k |-> "bcast", net |-> 9, mac |-> <<>>],
                [k |-> "bcast", net |-> 0, mac |-> <<>>] }
              \cup { [k |-> "station", net |-> 65535, mac |-> PMac(l, 160)] : l \in BadMacLens }
SrcTag(s) == IF s.net = 65535 /\ s.mac = <<>> THEN "src-global" ELSE IF s.mac = <<>> THEN "src-bcast" ELSE "src-ffff"

MaxHL == 530              \* no header is longer: 2 + (4 + 255) + (3 + 255) + 1 + 3
\* (four separate sets, concatenated as sequences below: TLC's \cup and UNION are quadratic on big sets)
BadTrunc == IF "bad" \notin Grids THEN {} ELSE
    { [o |-> SubSeq(Enc(p[1]), 1, p[2]), tag |-> "trunc"] : p \in { q \in BaseHdrs \X (0..MaxHL) : q[2] < HeaderLen(q[1]) } }
BadVersion == IF "bad" \notin Grids THEN {} ELSE
    { [o |-> <<v>> \o Tail(Enc(h)), tag |-> "version"] : h \in BaseHdrs, v \in {0, 2, 3, 17, 129, 255} }
BadSource == IF "bad" \notin Grids THEN {} ELSE
    { [o |-> Enc([h EXCEPT !.sadr = s]), tag |-> SrcTag(s)] : h \in BaseHdrs, s \in BadSources }
BadDnet == IF "bad" \notin Grids THEN {} ELSE
    { [o |-> Enc([h EXCEPT !.dadr = [k |-> "station", net |-> 65535, mac |-> PMac(l, 64)]]), tag |-> "dnet-ffff-dadr"] :
        h \in {x \in BaseHdrs : x.dadr # NoAddr}, l \in BadMacLens }
RefusedTags == {"trunc", "version", "src-global", "src-bcast", "src-ffff"}

\* ---- "cut": every prefix of small complete messages (truncated header, then truncated body) -----------------
CutBodies == Bodies({0, 1, 2, 3}, {0, 1, 2}, { <<0, 0>>, <<1, 2>>, <<3, 0>> })
CutMsgs(ctxs) == { Msg(x, b) : x \in ctxs, b \in CutBodies }
CutCases == IF "cut" \notin Grids THEN {} ELSE
    { [o |-> SubSeq(EncNPDU(p[1]), 1, p[2]), tag |-> "cut"] :
        p \in { q \in CutMsgs({y \in Ctx : y[2] = NoAddr}) \X (0..40) : q[2] <= Len(EncNPDU(q[1])) } }
    \cup  \* and bodies followed by extra octets
    { [o |-> EncNPDU(r) \o PData(n), tag |-> "trail"] : r \in CutMsgs({<<NoAddr, NoAddr, NONE, FALSE, 0>>}), n \in {1, 2} }

\* ---- strings ---------------------------------------------------------------------------------------------
\* (no UNION over big sets: TLC's UNION is quadratic in the number of elements)
Strip(s) == SelectSeq(s, LAMBDA x : x # NONE)
StrCases == IF "str" \notin Grids THEN {} ELSE
    { [o |-> Strip(s), tag |-> "str"] :
        s \in { t \in [1..StrLen -> Alphabet \cup {NONE}] : \A j \in 1..(StrLen - 1) : t[j] = NONE => t[j + 1] = NONE } }
V1Cases  == IF "v1" \notin Grids THEN {} ELSE { [o |-> <<1, a, b>>, tag |-> "v1"] : a \in 0..255, b \in 0..255 }
\* "ver" is grown by Next (one octet per step) so that TLC's workers share the 16.7 M strings
VerCases == IF "ver" \notin Grids THEN {} ELSE { <<v>> : v \in (0..255) \ {1} }

Tagged(g, S) == SetToSeq({ [g |-> g, x |-> x] : x \in S })
\* a case is [g |-> grid, x |-> the case proper]; all cases of this run except those of "ver", as one sequence
CaseSeq ==    Tagged("ctl", CtlCases) \o Tagged("hdr", HdrCases) \o Tagged("mt", MtCases) \o Tagged("msg", MsgCases)
           \o Tagged("bad", BadTrunc) \o Tagged("bad", BadVersion) \o Tagged("bad", BadSource) \o Tagged("bad", BadDnet)
           \o Tagged("cut", CutCases) \o Tagged("str", StrCases) \o Tagged("v1", V1Cases)

HdrGrids == {"hdr", "mt"}
DecGrids == {"bad", "cut", "str", "v1"}

\* ---- output for the harness ------------------------------------------------------------------------------
Out(cs) ==
    LET g == cs.g  x == cs.x IN
    CASE g = "ctl"      -> LET o == Enc(x.h) d == DecBoth(o) IN
                           [tag |-> g, enc |-> x.h.rsv = 0, r |-> x.h, o |-> o, h |-> d.h, b |-> d.b]
      [] g \in HdrGrids -> LET o == Enc(x) d == DecBoth(o) IN
                           [tag |-> g, enc |-> TRUE, r |-> x, o |-> o, h |-> d.h, b |-> d.b]
      [] g = "msg"      -> LET o == EncNPDU(x) d == DecBoth(o) IN
                           [tag |-> g, enc |-> TRUE, r |-> x, o |-> o, h |-> d.h, b |-> d.b]
      [] g \in DecGrids -> LET d == DecBoth(x.o) IN [tag |-> x.tag, enc |-> FALSE, o |-> x.o, h |-> d.h, b |-> d.b]

OutSeq == [i \in 1..Len(CaseSeq) |-> Out(CaseSeq[i])]

ASSUME Emit == \/ "OUT_FILE" \notin DOMAIN IOEnv
               \/ Grids = {"ver"}
               \/ ndJsonSerialize(IOEnv.OUT_FILE, OutSeq)

\* ---- theorems checked by TLC on every case ---------------------------------------------------------------
Init == \/ \E i \in 1..Len(CaseSeq) : c = CaseSeq[i]
        \/ c \in { [g |-> "ver", x |-> x] : x \in VerCases }
Next == IF c.g = "ver" /\ Len(c.x) < 3
        THEN \E a \in 0..255 : c' = [c EXCEPT !.x = Append(@, a)]
        ELSE UNCHANGED c
Spec == Init /\ [][Next]_c

\* the control octet is assembled from / taken apart into the clause 6.2.2 bits
ControlSweep == c.g = "ctl" => /\ Enc(c.x.h)[2] = c.x.cc
                               /\ WellFormed([c.x.h EXCEPT !.rsv = 0])
                               /\ Dec(Enc(c.x.h)) = c.x.h
CasesWellFormed == c.g \in HdrGrids => WellFormed(c.x)
RoundTripHeader == c.g \in HdrGrids => Dec(Enc(c.x)) = c.x
RoundTripNPDU   == c.g = "msg" => /\ WellFormed(WithData(c.x, <<>>)) /\ WellFormedBody(c.x.body)
                                  /\ DecNPDU(EncNPDU(c.x)) = c.x
\* layout: the header has exactly the length clause 6.2 gives it
HeaderLength ==
    c.g \in HdrGrids =>
        LET h == c.x IN
        HeaderLen(h) = 2 + (IF h.dadr = NoAddr THEN 0 ELSE 4 + Len(h.dadr.mac))
                         + (IF h.sadr = NoAddr THEN 0 ELSE 3 + Len(h.sadr.mac))
                         + (IF h.mtype = NONE THEN 0 ELSE IF h.mtype >= 128 THEN 3 ELSE 1)
ForbiddenRefused ==
    c.g = "bad" => /\ c.x.tag \in RefusedTags => Dec(c.x.o) = DecodingError
                   /\ c.x.tag = "dnet-ffff-dadr" => Dec(c.x.o) = Unspecified
\* Dec is total, and whatever it accepts is exactly what Enc lays out (no two octet strings share a reading)
DecTotalAndExact ==
    c.g \in DecGrids =>
        LET h == Dec(c.x.o) IN
        IF IsErr(h) THEN h \in {DecodingError, Unspecified}
        ELSE /\ WellFormed([h EXCEPT !.rsv = 0]) /\ Enc(h) = c.x.o
             /\ LET b == DecBody(h.mtype, h.data) IN
                IF IsErr(b) THEN b \in {DecodingError, Unspecified}
                ELSE WellFormedBody(b) /\ EncBody(b) = h.data
VersionRefused == c.g = "ver" => Dec(c.x) = DecodingError
=============================================================================
