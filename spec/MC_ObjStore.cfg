CONSTANTS
  Schema <- c_Schema
  Store0 <- c_Store0
  TokTy <- c_TokTy
  OpVals <- c_OpVals
  OpRefs <- c_OpRefs
  OpIdx <- c_OpIdx
  WrongTypeRefusals <- c_WrongTypeRefusals
  OpObjs = {"o1", "o2", "ox"}
  OpProps = {"pa", "pr", "pv", "pl", "po", "px"}
  OpPrios = {0, 16}
  MaxLevel = 99
  Dev_ValidateAfterAssign = FALSE
SPECIFICATION Spec
VIEW ViewVal
CONSTRAINT Bound
CHECK_DEADLOCK FALSE
INVARIANT Shape
INVARIANT Typed
INVARIANT ReadOnlyStable
PROPERTY ReadYourWrite
PROPERTY RefusalChangesNothing
PROPERTY MatchingError
PROPERTY ArrayIndexing
PROPERTY RPMEqualsRP
