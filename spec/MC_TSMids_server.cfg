SPECIFICATION Spec
CONSTANTS Peers = {1, 2} Foreign = 9 IdMod = 4 Ids = {0, 1, 3} StartIds = {0, 2, 3} MaxLive = 2 MaxReq = 3 SkipLive = TRUE Side = "server" Kinds = {"SA", "CA", "ERR", "ABTs", "ABTc", "ACKs", "ACKc"}
INVARIANT IdUniquePerPeer
INVARIANT ServerKeysUnique
INVARIANT OutcomeMatches
INVARIANT AtMostOneOutcomePerRequest
PROPERTY ReplyMatches
PROPERTY LateAndForeignIgnored
PROPERTY DirectionRespected
PROPERTY NoDoubleIndication
PROPERTY SameIdDifferentPeersIndependent
PROPERTY NewRequestGetsFreshKey
PROPERTY NewRequestIndicated
CONSTRAINT Bounded
VIEW View
CHECK_DEADLOCK FALSE
