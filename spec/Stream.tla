------------------------------- MODULE Stream -------------------------------
(***************************************************************************)
(* X05 -- byte streams cut into packets again: tcp.StreamToPacket           *)
(* (code: py34/bacpypes/tcp.py StreamToPacket.packetize/chop, .indication   *)
(* = downstream, .confirmation = upstream; the buffers upstreamBuffer /     *)
(* downstreamBuffer are dictionaries keyed by peer address).                *)
(*                                                                          *)
(* A scenario fixes the framing and, for every direction and peer, the      *)
(* sequence of packets the sender writes into its byte stream.  The         *)
(* transport delivers each stream in arbitrary chunks, interleaved with     *)
(* the chunks of the other streams.  One action = one chunk handed to       *)
(* StreamToPacket (one call of confirmation / indication):                  *)
(*     Chunk(d, s, t, data, fail)                                           *)
(* d direction, s / t the source / destination address the chunk PDU        *)
(* carries (NoAddr = None), data its octets, fail = k > 0: the consumer of  *)
(* the packets raises an exception when it is handed the k-th packet of     *)
(* this call (0: it never raises).                                          *)
(*                                                                          *)
(* The peer a chunk belongs to is its source (upstream) / its destination   *)
(* (downstream): that is how the TCP directors address PDUs (upstream:      *)
(* source = peer, no destination; downstream: destination = peer).          *)
(*                                                                          *)
(* Observation variables: sent (octets delivered so far), out (packets      *)
(* handed on so far, as the consumer saw them), buf (the buffers), rz (did  *)
(* the last call for that stream end with the consumer's exception).        *)
(*                                                                          *)
(* Named deviations (FALSE in the intended design; each describes what the  *)
(* pinned code does and must make TLC find a violation):                    *)
(*   BothKeys          a chunk that carries BOTH addresses is filed under   *)
(*        both keys of the direction's table, source first; the second      *)
(*        filing takes the last packet emitted by the first (the loop       *)
(*        variable `pdu` of packetize is rebound) or the chunk itself if    *)
(*        there was none, and emits again                                   *)
(*   LoseChunkOnRaise  when the consumer raises, the buffer keeps its old   *)
(*        content: the chunk (and what was already handed on) is forgotten  *)
(*        (the buffer is stored only after the generator has run dry)       *)
(***************************************************************************)
EXTENDS StreamFrame

CONSTANTS
    Peers,          \* addresses that have streams
    Addrs,          \* every address a chunk may carry (Peers and the local address)
    Scen,           \* model checking: the set of scenarios [fr |-> framing, pkts |-> [Dirs -> [Peers -> Seq(packet)]]]
    MinChunk, MaxChunk,   \* model checking: chunk lengths
    Fails,          \* model checking: the k at which the consumer may raise ({0}: never)
    Others,         \* model checking: what the second address of a chunk may be ({NoAddr}: always absent)
    BothKeys, LoseChunkOnRaise

Dirs == {"up", "down"}
NoAddr == ""

VARIABLES fr, pkts,      \* the scenario (never changes)
          todo,          \* octets of every stream that the transport has not delivered yet
          sent, buf, out, rz, act
vars == <<fr, pkts, todo, sent, buf, out, rz, act>>

Pk(d, p) == pkts[d][p]

InitAct == [d |-> "init", s |-> NoAddr, t |-> NoAddr, data |-> <<>>, fail |-> 0, em |-> <<>>, raised |-> FALSE]
KeyOf(d, s, t) == IF d = "up" THEN s ELSE t
Min(a, b) == IF a < b THEN a ELSE b

Init ==
    /\ \E s \in Scen : fr = s.fr /\ pkts = s.pkts /\ todo = [d \in Dirs |-> [p \in Peers |-> Flatten(s.pkts[d][p])]]
    /\ sent = [d \in Dirs |-> [a \in Addrs |-> <<>>]]
    /\ buf = [d \in Dirs |-> [a \in Addrs |-> <<>>]]
    /\ out = [d \in Dirs |-> [a \in Addrs |-> <<>>]]
    /\ rz = [d \in Dirs |-> [a \in Addrs |-> FALSE]]
    /\ act = InitAct

(***************************************************************************)
(* One chunk.  The shape follows packetize(): for each address of the PDU   *)
(* that is used as a key (intended: the peer's; BothKeys: source, then      *)
(* destination), append to that key's buffer, cut packets off while there   *)
(* are any, hand each on with the chunk's addresses, store the remainder.   *)
(***************************************************************************)
Chunk(d, s, t, data, fail) ==
    LET p    == KeyOf(d, s, t)
        o    == IF d = "up" THEN t ELSE s
        f    == fr
        two  == BothKeys /\ o # NoAddr
        k1   == IF two THEN s ELSE p
        b1   == buf[d][k1] \o data
        x1   == ExtractN(f, b1, IF fail > 0 THEN fail ELSE Len(b1) + 1)
        cut  == fail > 0 /\ Len(x1[1]) = fail                    \* the consumer raised at packet `fail`
        r1   == IF cut /\ LoseChunkOnRaise THEN buf[d][k1] ELSE x1[2]
        d2   == IF x1[1] # <<>> THEN Last(x1[1]) ELSE data
        x2   == IF two THEN Extract(f, buf[d][t] \o d2) ELSE <<<<>>, <<>>>>
        pks  == x1[1] \o x2[1]
    IN  /\ p \in Peers /\ o \in Addrs \cup {NoAddr} /\ o # p
        /\ fail > 0 => o = NoAddr
        /\ data = Take(todo[d][p], Len(data))                                              \* the stream goes on
        /\ todo' = [todo EXCEPT ![d][p] = Drop(@, Len(data))]
        /\ sent' = [sent EXCEPT ![d][p] = @ \o data]
        /\ buf' = IF two THEN [buf EXCEPT ![d][k1] = r1, ![d][t] = x2[2]] ELSE [buf EXCEPT ![d][k1] = r1]
        /\ out' = [out EXCEPT ![d][p] = @ \o pks]
        /\ rz' = [rz EXCEPT ![d][p] = cut]
        /\ act' = [d |-> d, s |-> s, t |-> t, data |-> data, fail |-> fail,
                   em |-> [i \in 1..Len(pks) |-> [data |-> pks[i], src |-> s, dst |-> t]], raised |-> cut]
        /\ UNCHANGED <<fr, pkts>>

\* (only streams that exist have chunks)
Next ==
    \E d \in Dirs, p \in Peers, o \in Others, fail \in Fails :
        /\ pkts[d][p] # <<>>
        /\ \E n \in MinChunk..Min(MaxChunk, Len(todo[d][p])) :
            Chunk(d, IF d = "up" THEN p ELSE o, IF d = "up" THEN o ELSE p, Take(todo[d][p], n), fail)

Spec == Init /\ [][Next]_vars

(***************************************************************************)
(* The property                                                             *)
(***************************************************************************)
Streams == Dirs \X Peers

\* what was handed on so far is the beginning of what was sent as packets: right packets, right order, none twice,
\* none skipped
OutputIsPrefixOfPackets == \A x \in Streams : IsPrefix(out[x[1]][x[2]], Pk(x[1], x[2]))

\* nothing is handed on before its last octet has arrived
NoEarlyEmission == \A x \in Streams : IsPrefix(Flatten(out[x[1]][x[2]]), sent[x[1]][x[2]])

\* a buffer holds exactly the octets that arrived and were not handed on; addresses without a stream have no buffer content
BufferIsRemainder ==
    /\ \A x \in Streams : Flatten(out[x[1]][x[2]]) \o buf[x[1]][x[2]] = sent[x[1]][x[2]]
    /\ \A d \in Dirs, a \in Addrs \ Peers : buf[d][a] = <<>>

\* nothing that could be handed on is kept back (unless the consumer's exception ended the last call for that stream)
NothingHeldBack == \A x \in Streams : ~rz[x[1]][x[2]] => ~Frame(fr, buf[x[1]][x[2]]).ok

\* when a stream has been delivered completely, every packet has been handed on and its buffer is empty
Complete ==
    \A x \in Streams :
        (todo[x[1]][x[2]] = <<>> /\ ~rz[x[1]][x[2]])
            => (out[x[1]][x[2]] = Pk(x[1], x[2]) /\ buf[x[1]][x[2]] = <<>>)

\* ---- step formulas
\* a chunk touches only its own stream
Independent ==
    LET p == KeyOf(act'.d, act'.s, act'.t) IN
    \A d \in Dirs, a \in Addrs :
        <<d, a>> # <<act'.d, p>> => (buf'[d][a] = buf[d][a] /\ out'[d][a] = out[d][a] /\ sent'[d][a] = sent[d][a])

\* the packets cut from a chunk carry the chunk's addresses
AddressesPropagated == \A i \in 1..Len(act'.em) : act'.em[i].src = act'.s /\ act'.em[i].dst = act'.t

\* octets are conserved by every step: old remainder + chunk = packets handed on + new remainder
OctetsConserved ==
    LET d == act'.d
        p == KeyOf(d, act'.s, act'.t)
    IN  buf[d][p] \o act'.data = Flatten([i \in 1..Len(act'.em) |-> act'.em[i].data]) \o buf'[d][p]

Shape ==
    /\ DOMAIN buf = Dirs /\ DOMAIN out = Dirs /\ DOMAIN sent = Dirs
    /\ \A d \in Dirs : DOMAIN buf[d] = Addrs /\ DOMAIN out[d] = Addrs

P_Independent == [][Independent]_vars
P_AddressesPropagated == [][AddressesPropagated]_vars
P_OctetsConserved == [][OctetsConserved]_vars
=============================================================================
