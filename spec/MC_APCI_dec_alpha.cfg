SPECIFICATION SpecAlpha
INVARIANT DecTotal
INVARIANT ErrIffRefused
INVARIANT ReEncode
INVARIANT PayloadAppends
INVARIANT TruncationRefused
CHECK_DEADLOCK FALSE
