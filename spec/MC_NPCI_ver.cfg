\* every string of 1..3 octets whose first octet is not 1 (16 777 215 states): Dec refuses each (thorough tier)
SPECIFICATION Spec
CONSTANTS
  Grids = {"ver"}
  MacLens = {1}
  Hops = {0}
  Vendors = {0}
  ListLens = {0}
  TableLens = {0}
  BadMacLens = {1}
  Alphabet = {0}
  StrLen = 1
INVARIANT VersionRefused
CHECK_DEADLOCK FALSE
