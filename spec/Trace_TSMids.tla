--------------------------- MODULE Trace_TSMids ---------------------------
(* Trace validation for TSMids.tla: executions of a real StateMachineAccessPoint recorded by harness/idsrig.py.   *)
(* Per step: conformance (ENABLED of the named action with the logged post-state) and the C11 monitors, which are  *)
(* the invariants / action properties of TSMids.tla evaluated on the logged states.  One verdict per trace.        *)
EXTENDS TSMids, Json, IOUtils, TLCExt

Traces == ndJsonDeserialize(IOEnv.TRACE_FILE)
VARIABLES tid, l, rej, viol
tvars == <<tid, l, rej, viol>>
T == Traces[tid].evs
ToSet(s) == {s[i] : i \in 1..Len(s)}

TInit == /\ tid \in 1..Len(Traces) /\ l = 1 /\ rej = 0 /\ viol = {}
         /\ nextId = Traces[tid].start /\ ctab = <<>> /\ nreq = 0 /\ outs = <<>> /\ sent = <<>>
         /\ stab = <<>> /\ inds = <<>> /\ owed = {} /\ resp = <<>>
         /\ act = [op |-> "init", a |-> 0, id |-> 0, k |-> ""]

Act(e) ==
    CASE e.op = "auto"     -> CSubmitAuto(e.a)
      [] e.op = "chosen"   -> CSubmitChosen(e.a, e.id)
      [] e.op = "cdeliver" -> CDeliver(e.k, e.a, e.id)
      [] e.op = "cgiveup"  -> CGiveUp(e.a)
      [] e.op = "scr"      -> SDeliverCR(e.a, e.id)
      [] e.op = "sabort"   -> SDeliverAbort(e.a, e.id)
      [] e.op = "sresp"    -> SAppRespond(e.a, e.id)
      [] e.op = "sgiveup"  -> SGiveUp(e.a)
      [] OTHER             -> FALSE

Bind(e) ==
    /\ nextId' = e.st.nextId /\ ctab' = e.st.ctab /\ nreq' = e.st.nreq /\ outs' = e.st.outs /\ sent' = e.st.sent
    /\ stab' = e.st.stab /\ inds' = e.st.inds /\ owed' = ToSet(e.st.owed) /\ resp' = e.st.resp
    /\ act' = [op |-> e.op, a |-> e.a, id |-> e.id, k |-> e.k]

Failing ==
    (IF IdUniquePerPeer' THEN {} ELSE {"IdUniquePerPeer"}) \cup
    (IF ServerKeysUnique' THEN {} ELSE {"SameIdDifferentPeersIndependent"}) \cup
    (IF OutcomeMatches' THEN {} ELSE {"ReplyMatches"}) \cup
    (IF AtMostOneOutcomePerRequest' THEN {} ELSE {"ReplyMatches"}) \cup
    (IF A_ReplyMatches THEN {} ELSE {"ReplyMatches"}) \cup
    (IF A_LateAndForeignIgnored THEN {} ELSE {"LateAndForeignIgnored"}) \cup
    (IF A_DirectionRespected THEN {} ELSE {"DirectionRespected"}) \cup
    (IF A_NoDoubleIndication THEN {} ELSE {"NoDoubleIndication"}) \cup
    (IF A_SameIdDifferentPeersIndependent THEN {} ELSE {"SameIdDifferentPeersIndependent"}) \cup
    (IF A_NewRequestIndicated THEN {} ELSE {"SameIdDifferentPeersIndependent"}) \cup
    (IF A_NewRequestGetsFreshKey THEN {} ELSE {"IdUniquePerPeer"})

Step ==
    /\ l <= Len(T)
    /\ LET e == T[l] IN
        /\ Bind(e)
        /\ rej' = IF rej = 0 /\ ~ENABLED (Act(e) /\ Bind(e)) THEN l ELSE rej
        /\ viol' = viol \cup {<<m, l>> : m \in {x \in Failing : \A v \in viol : v[1] # x}}
    /\ l' = l + 1 /\ UNCHANGED tid

Done ==
    /\ l = Len(T) + 1
    /\ PrintT(<<"@@", [tid |-> Traces[tid].tid, rej |-> rej, viol |-> viol]>>)
    /\ l' = l + 1 /\ UNCHANGED <<vars, tid, rej, viol>>

TNext == Step \/ Done
TSpec == TInit /\ [][TNext]_<<vars, tvars>>
=============================================================================
