-------------------------------- MODULE Addr --------------------------------
(***************************************************************************)
(* BACnet addresses as pdu.Address understands them (property C18).        *)
(*                                                                         *)
(* TLC cannot manipulate characters, so the specification works on         *)
(* NOTATION DESCRIPTORS: records that say which notation is used and with  *)
(* which numbers.  A ~40-line renderer in harness/drivers/c18.py turns a   *)
(* descriptor into the concrete str / int / bytes / tuple argument (this   *)
(* renderer is trusted base).  Fields that only choose among spellings of  *)
(* the same notation (lz, nlz = leading zeros, uc = upper-case hex digits, *)
(* spell = bytes|bytearray, str|int|empty) are ignored here.               *)
(*                                                                         *)
(*   form            fields                rendered as                     *)
(*   "station"       st                    "5"                             *)
(*   "station_int"   st                    5                               *)
(*   "net_station"   net, st               "1:5"                           *)
(*   "net_bcast"     net                   "1:*"                           *)
(*   "local_bcast"                         "*"                             *)
(*   "global_bcast"                        "*:*"                           *)
(*   "ip"            a, mask, port, net    "[1:]1.2.3.4[/24][:47809]"      *)
(*   "hex"           octets, net           "[1:]0x0102"                    *)
(*   "xquote"        octets, net           "[1:]X'0102'"                   *)
(*   "tuple"         a, port, spell        ("1.2.3.4", 47808), (int, port) *)
(*   "raw"           octets, spell         b"\x01\x02", bytearray(..)      *)
(*   "ctor2"         net, arg              Address(net, <arg rendered>)    *)
(*   "LocalStation"  arg                   LocalStation(<int | raw>)       *)
(*   "RemoteStation" net, arg              RemoteStation(net, <int | raw>) *)
(*   "LocalBroadcast" / "RemoteBroadcast" net / "GlobalBroadcast"          *)
(*   "junk"          cls                   text outside every notation     *)
(*                                                                         *)
(* Denotes(d) is the address the notation denotes, or Refused(why).        *)
(* Network numbers: 0..65534 are accepted.  65535 is the global-broadcast  *)
(* DNET of the standard and is only written "*:*"; "65535:*", "65535:5"    *)
(* are refused like every number above 65534.  Network 0 is NOT refused:   *)
(* the property only refuses numbers above 65534 and the library treats 0  *)
(* as an ordinary (remote) network number (the standard reserves 0 for     *)
(* "this network / unknown" in a few network-layer messages).              *)
(* Out of scope (property's list of notations): "@route" suffixes,         *)
(* settings.route_aware, interface names, the aa:bb:cc:dd:ee:ff form.      *)
(***************************************************************************)
EXTENDS Integers, Sequences, TLC

NoNet  == -1
NoLen  == -1
NoPort == -1
NoMask == -1
DefaultPort == 47808        \* 0xBAC0
MaxNet == 65534
MaxStation == 255
MaxPort == 65535

Min2(a, b) == IF a < b THEN a ELSE b
Max2(a, b) == IF a > b THEN a ELSE b
Pow2(k) == <<1, 2, 4, 8, 16, 32, 64, 128, 256>>[k + 1]          \* k \in 0..8
IsOctets(s) == \A i \in 1..Len(s) : s[i] \in 0..255

----------------------------------------------------------------------------
(* IPv4 arithmetic, per octet (TLC integers are 32 bit: a 32-bit address   *)
(* is never formed as one integer).  A /m mask puts NetBits(m, i) network  *)
(* bits into octet i; the remaining bits of that octet span HostSpan.      *)
NetBits(m, i)  == Max2(0, Min2(8, m - 8 * (i - 1)))
HostSpan(m, i) == Pow2(8 - NetBits(m, i))
MaskOctets(m)      == LET f(i) == 256 - HostSpan(m, i) IN <<f(1), f(2), f(3), f(4)>>
SubnetOctets(a, m) == LET f(i) == a[i] - (a[i] % HostSpan(m, i)) IN <<f(1), f(2), f(3), f(4)>>
HostOctets(a, m)   == LET f(i) == a[i] % HostSpan(m, i) IN <<f(1), f(2), f(3), f(4)>>
BcastOctets(a, m)  == LET f(i) == a[i] - (a[i] % HostSpan(m, i)) + (HostSpan(m, i) - 1) IN <<f(1), f(2), f(3), f(4)>>
PortOctets(p) == <<p \div 256, p % 256>>

----------------------------------------------------------------------------
(* Abstract addresses.  type: "lb" local broadcast, "ls" local station,    *)
(* "rb" remote broadcast, "rs" remote station, "gb" global broadcast.      *)
(* ip.kind says which IP helper values the notation denotes; a field that  *)
(* is absent from the ip record is not denoted by the notation and is not  *)
(* compared (e.g. raw octets and tuples carry no mask, so no subnet/host). *)
NoIP == [kind |-> "none"]
Station(t, n, o, ip) == [type |-> t, net |-> n, octets |-> o, len |-> Len(o), ip |-> ip, why |-> ""]
Bcast(t, n) == [type |-> t, net |-> n, octets |-> <<>>, len |-> NoLen, ip |-> NoIP, why |-> ""]
Refused(w) == [type |-> "refused", net |-> NoNet, octets |-> <<>>, len |-> NoLen, ip |-> NoIP, why |-> w]
IsRefused(x) == x.type = "refused"

\* dotted text with optional mask and port: everything is denoted
FullIP(a, m, p) ==
    [kind |-> "full", tuple_ip |-> a, tuple_port |-> p, port |-> p, ip |-> a, mask |-> MaskOctets(m),
     subnet |-> SubnetOctets(a, m), host |-> HostOctets(a, m), bcast_ip |-> BcastOctets(a, m), bcast_port |-> p]
\* (host, port) tuple: a single host (/32), its directed broadcast is the host itself; `tip` is the host part of
\* addrTuple: the address, or <<>> for the empty string (INADDR_ANY spelling)
TupleIP(a, p, tip) ==
    [kind |-> "tuple", tuple_ip |-> tip, tuple_port |-> p, port |-> p, ip |-> a, mask |-> <<255, 255, 255, 255>>,
     bcast_ip |-> tip, bcast_port |-> p]
\* six raw octets given to Address(): address and port only
RawIP(o) ==
    [kind |-> "raw", tuple_ip |-> SubSeq(o, 1, 4), tuple_port |-> o[5] * 256 + o[6], port |-> o[5] * 256 + o[6],
     ip |-> SubSeq(o, 1, 4)]

NetOK(n) == n \in 0..MaxNet
\* wrap a local denotation into the network n (n = NoNet: stays local)
InNet(n, x) ==
    IF IsRefused(x) \/ n = NoNet THEN x
    ELSE IF ~NetOK(n) THEN Refused("net")
    ELSE IF x.type = "ls" THEN [x EXCEPT !.type = "rs", !.net = n]
    ELSE IF x.type = "lb" THEN [x EXCEPT !.type = "rb", !.net = n]
    ELSE Refused("ctor_form")

StationNo(st) == IF st \in 0..MaxStation THEN Station("ls", NoNet, <<st>>, NoIP) ELSE Refused("station")
OctetString(o) == IF Len(o) >= 1 /\ IsOctets(o) THEN Station("ls", NoNet, o, NoIP) ELSE Refused("octets")

IPText(d) ==
    LET m == IF d.mask = NoMask THEN 32 ELSE d.mask
        p == IF d.port = NoPort THEN DefaultPort ELSE d.port
    IN  IF ~IsOctets(d.a) THEN Refused("ip_octet")
        ELSE IF m \notin 0..32 THEN Refused("mask")
        ELSE IF p \notin 0..MaxPort THEN Refused("port")
        ELSE Station("ls", NoNet, d.a \o PortOctets(p), FullIP(d.a, m, p))

IPTuple(d) ==
    IF ~IsOctets(d.a) THEN Refused("ip_octet")
    ELSE IF d.port \notin 0..MaxPort THEN Refused("port")
    ELSE Station("ls", NoNet, d.a \o PortOctets(d.port),
                 TupleIP(d.a, d.port, IF d.spell = "empty" THEN <<>> ELSE d.a))

RawOctets(d) ==
    LET x == OctetString(d.octets)
    IN  IF ~IsRefused(x) /\ Len(d.octets) = 6 THEN [x EXCEPT !.ip = RawIP(d.octets)] ELSE x

\* everything except the constructors that take another notation as argument
DenotesBase(d) ==
    CASE d.form = "station"      -> StationNo(d.st)
      [] d.form = "station_int"  -> StationNo(d.st)
      [] d.form = "net_station"  -> IF ~NetOK(d.net) THEN Refused("net") ELSE InNet(d.net, StationNo(d.st))
      [] d.form = "net_bcast"    -> InNet(d.net, Bcast("lb", NoNet))
      [] d.form = "local_bcast"  -> Bcast("lb", NoNet)
      [] d.form = "global_bcast" -> Bcast("gb", NoNet)
      [] d.form = "ip"           -> IF d.net # NoNet /\ ~NetOK(d.net) THEN Refused("net") ELSE InNet(d.net, IPText(d))
      [] d.form = "hex"          -> IF d.net # NoNet /\ ~NetOK(d.net) THEN Refused("net") ELSE InNet(d.net, OctetString(d.octets))
      [] d.form = "xquote"       -> IF d.net # NoNet /\ ~NetOK(d.net) THEN Refused("net") ELSE InNet(d.net, OctetString(d.octets))
      [] d.form = "tuple"        -> IPTuple(d)
      [] d.form = "raw"          -> RawOctets(d)
      [] d.form = "LocalBroadcast"  -> Bcast("lb", NoNet)
      [] d.form = "GlobalBroadcast" -> Bcast("gb", NoNet)
      [] d.form = "RemoteBroadcast" -> InNet(d.net, Bcast("lb", NoNet))
      [] OTHER                   -> Refused("junk")

\* the typed station constructors take an int or raw octets and set no IP helper values
TypedArg(a) ==
    IF a.form \in {"station_int", "raw"} THEN [DenotesBase(a) EXCEPT !.ip = NoIP] ELSE Refused("ctor_form")

Denotes(d) ==
    CASE d.form = "ctor2"         -> IF d.net = NoNet THEN Refused("net") ELSE InNet(d.net, DenotesBase(d.arg))
      [] d.form = "LocalStation"  -> TypedArg(d.arg)
      [] d.form = "RemoteStation" -> IF d.net = NoNet THEN Refused("net") ELSE InNet(d.net, TypedArg(d.arg))
      [] d.form = "RemoteBroadcast" -> IF d.net = NoNet THEN Refused("net") ELSE DenotesBase(d)
      [] OTHER                    -> DenotesBase(d)

----------------------------------------------------------------------------
(* Equality and hashing are decided by (type, network, octets) alone.      *)
Key(a) == <<a.type, a.net, a.octets>>
Equiv(d1, d2) == Key(Denotes(d1)) = Key(Denotes(d2))
HashKey(a) == Key(a)

(* The printer (Address.__str__): one-octet stations in decimal, six       *)
(* octets whose last two are a BACnet/IP port 47808..47823 as dotted IPv4  *)
(* (port omitted when 47808), every other octet string as 0x....           *)
PrintStation(o, n) ==
    IF Len(o) = 1 THEN (IF n = NoNet THEN [form |-> "station", st |-> o[1]] ELSE [form |-> "net_station", net |-> n, st |-> o[1]])
    ELSE LET p == o[Len(o) - 1] * 256 + o[Len(o)]
         IN  IF Len(o) = 6 /\ p \in 47808..47823
             THEN [form |-> "ip", a |-> SubSeq(o, 1, 4), mask |-> NoMask, port |-> IF p = DefaultPort THEN NoPort ELSE p, net |-> n]
             ELSE [form |-> "hex", octets |-> o, net |-> n]
Printed(a) ==
    CASE a.type = "lb" -> [form |-> "local_bcast"]
      [] a.type = "ls" -> PrintStation(a.octets, NoNet)
      [] a.type = "rb" -> [form |-> "net_bcast", net |-> a.net]
      [] a.type = "rs" -> PrintStation(a.octets, a.net)
      [] a.type = "gb" -> [form |-> "global_bcast"]

----------------------------------------------------------------------------
(* Theorems about the notation system itself (checked by TLC over the      *)
(* grids of MC_Addr.tla).                                                  *)
T_PrintParse(d) ==
    LET a == Denotes(d) IN ~IsRefused(a) => /\ ~IsRefused(Denotes(Printed(a)))
                                            /\ Key(Denotes(Printed(a))) = Key(a)
                                            /\ Printed(Denotes(Printed(a))) = Printed(a)
\* range refusals, two-sided: a network / station number is refused iff it is out of range
HasNet(d) == d.form \in {"net_station", "net_bcast", "ctor2", "RemoteStation", "RemoteBroadcast"} \/
             (d.form \in {"ip", "hex", "xquote"} /\ d.net # NoNet)
T_NetRange(d) == (HasNet(d) /\ ~NetOK(d.net)) => IsRefused(Denotes(d))
T_StationRange(d) ==
    /\ d.form \in {"station", "station_int", "net_station"} /\ d.st \notin 0..MaxStation => IsRefused(Denotes(d))
    /\ d.form \in {"ctor2", "LocalStation", "RemoteStation"} /\ d.arg.form \in {"station", "station_int"}
            /\ d.arg.st \notin 0..MaxStation => IsRefused(Denotes(d))
    /\ d.form \in {"station", "station_int"} /\ d.st \in 0..MaxStation => Denotes(d) = Station("ls", NoNet, <<d.st>>, NoIP)
    /\ d.form = "net_station" /\ d.st \in 0..MaxStation /\ NetOK(d.net) => Denotes(d) = Station("rs", d.net, <<d.st>>, NoIP)
T_WellFormed(d) ==
    LET a == Denotes(d) IN ~IsRefused(a) =>
        /\ a.type \in {"lb", "ls", "rb", "rs", "gb"}
        /\ (a.type \in {"rb", "rs"}) = (a.net # NoNet) /\ (a.net # NoNet => NetOK(a.net))
        /\ (a.type \in {"ls", "rs"}) = (a.len # NoLen) /\ IsOctets(a.octets)
        /\ a.len # NoLen => a.len = Len(a.octets) /\ a.len >= 1
        /\ a.ip.kind # "none" => /\ a.len = 6 /\ a.octets = a.ip.ip \o PortOctets(a.ip.port)
                                 /\ a.ip.tuple_port = a.ip.port
\* the IPv4 values are consistent with each other (the independent oracle is Python's ipaddress, in the harness)
T_IPConsistent(d) ==
    LET a == Denotes(d) IN (~IsRefused(a) /\ a.ip.kind = "full") =>
        LET ip == a.ip IN
        /\ \A i \in 1..4 : /\ ip.subnet[i] + ip.host[i] = ip.ip[i]
                           /\ ip.bcast_ip[i] = ip.subnet[i] + (255 - ip.mask[i])
                           /\ ip.mask[i] \in {0, 128, 192, 224, 240, 248, 252, 254, 255}
                           /\ ip.host[i] <= 255 - ip.mask[i]
                           /\ (i < 4 /\ ip.mask[i] # 255) => ip.mask[i + 1] = 0
        /\ ip.bcast_port = ip.port
Theorems(d) == T_PrintParse(d) /\ T_NetRange(d) /\ T_StationRange(d) /\ T_WellFormed(d) /\ T_IPConsistent(d)

----------------------------------------------------------------------------
(* Monitors: the clauses of C18 over one OBSERVATION of the implementation *)
(* r = [d, raised, obs, pr] where obs is the projection of the constructed *)
(* Address (type, has_net, net, has_octets, octets, len, ip fields) and pr *)
(* what happened when its text was parsed again.                           *)
IpAgrees(dip, oip) == \A k \in DOMAIN dip \ {"kind"} : k \in DOMAIN oip /\ oip[k] = dip[k]
Agrees(den, obs) ==
    /\ obs.type = den.type
    /\ obs.has_net = (den.net # NoNet) /\ (den.net # NoNet => obs.net = den.net)
    /\ obs.has_octets = (den.len # NoLen)
    /\ obs.octets = den.octets
    /\ obs.len = den.len
    /\ IpAgrees(den.ip, obs.ip)
SameObsKey(o1, o2) ==
    /\ o1.type = o2.type /\ o1.has_net = o2.has_net /\ (o1.has_net => o1.net = o2.net)
    /\ o1.has_octets = o2.has_octets /\ o1.octets = o2.octets

\* out-of-range numbers and junk are refused.  (A port that does not fit 16 bits is judged by
\* FieldsEqualDenotation: the property's refusal clause names networks and stations only.)
RangeRefused(r) == (IsRefused(Denotes(r.d)) /\ Denotes(r.d).why # "port") => r.raised
FieldsEqualDenotation(r) ==
    LET den == Denotes(r.d) IN
    /\ (IsRefused(den) /\ den.why = "port") => r.raised     \* no six station octets denote such a port
    /\ ~IsRefused(den) => (~r.raised /\ Agrees(den, r.obs))
PrintParse(r) ==
    (~IsRefused(Denotes(r.d)) /\ ~r.raised) =>
        /\ r.pr.printed /\ ~r.pr.raised
        /\ r.pr.eq /\ r.pr.eq_rev /\ ~r.pr.ne
        /\ SameObsKey(r.pr.obs, r.obs)
PrintParseHash(r) ==
    (~IsRefused(Denotes(r.d)) /\ ~r.raised /\ r.pr.printed /\ ~r.pr.raised /\ r.pr.eq) => (r.pr.hasheq /\ r.pr.indict)

Failing(r) ==
    (IF RangeRefused(r) THEN {} ELSE {"RangeRefused"}) \cup
    (IF FieldsEqualDenotation(r) THEN {} ELSE {"FieldsEqualDenotation"}) \cup
    (IF PrintParse(r) THEN {} ELSE {"PrintParse"}) \cup
    (IF PrintParseHash(r) THEN {} ELSE {"EqualImpliesHashEqual"})

(* Pool monitors: ds = descriptors, eq/ne/hasheq/indict/inset = matrices   *)
(* of what ==, !=, hash equality, dict and set lookup said about the       *)
(* addresses built from them.  Row i:                                      *)
EqIsEquivalence(p, i) ==
    LET N == Len(p.ds) IN
    /\ p.eq[i][i]
    /\ \A j \in 1..N : /\ p.eq[i][j] = p.eq[j][i]
                       /\ p.ne[i][j] = ~p.eq[i][j]
                       /\ p.eq[i][j] = Equiv(p.ds[i], p.ds[j])
                       /\ p.eq[i][j] => \A k \in 1..N : p.eq[j][k] => p.eq[i][k]
EqualImpliesHashEqual(p, i) ==
    \A j \in 1..Len(p.ds) : (p.eq[i][j] \/ Equiv(p.ds[i], p.ds[j])) => (p.hasheq[i][j] /\ p.indict[i][j] /\ p.inset[i][j])
=============================================================================
