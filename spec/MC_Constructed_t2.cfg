SPECIFICATION Spec
CONSTANT Tab <- Schemas
CONSTANT Depth = 4
CONSTANT Sample = 0
INVARIANT Emit
CHECK_DEADLOCK FALSE
