--------------------------- MODULE MC_Binding_lan ---------------------------
(***************************************************************************)
(* X02, the design model: a LAN with three devices (instances 0, 1000,     *)
(* 4194303), every interleaving of deliveries and receptions, up to MaxOps *)
(* exchanges / mutations in any order: Who-Is (no range, ranges touching   *)
(* each instance from both sides, malformed, unicast), Who-Has (by         *)
(* identifier / by name, with and without device range, malformed range,   *)
(* for objects that exist only after / before a mutation), unsolicited     *)
(* I-Am, foreign I-Ams (good, inconsistent, claiming a known instance or a *)
(* known address), add / delete / rename / re-identify.                    *)
(***************************************************************************)
EXTENDS Binding

O(t, i, n) == [t |-> t, i |-> i, n |-> n]
c_Lans == {[lan |-> [client |-> 200, devs |-> <<
                [addr |-> 11, inst |-> 0,       name |-> "dev-a", maxapdu |-> 50,   seg |-> 3, vendor |-> 0],
                [addr |-> 12, inst |-> 1000,    name |-> "dev-b", maxapdu |-> 480,  seg |-> 1, vendor |-> 999],
                [addr |-> 13, inst |-> 4194303, name |-> "dev-c", maxapdu |-> 1476, seg |-> 0, vendor |-> 65535] >>],
            objs |-> << {O(2, 1, "temp")}, {O(2, 1, "temp"), O(5, 1, "fan")}, {O(2, 1, "room")} >>]}

LBc == [k |-> "lb", a |-> 0]
WhoIs(to, lo, hi) == [kind |-> "whois", to |-> to, lo |-> lo, hi |-> hi, by |-> "-", t |-> 0, i |-> 0, n |-> ""]
ById(lo, hi, t, i)  == [kind |-> "whohas", to |-> LBc, lo |-> lo, hi |-> hi, by |-> "id", t |-> t, i |-> i, n |-> ""]
ByName(lo, hi, n)   == [kind |-> "whohas", to |-> LBc, lo |-> lo, hi |-> hi, by |-> "name", t |-> 0, i |-> 0, n |-> n]
c_Queries ==
    { WhoIs(LBc, NONE, NONE), WhoIs(LBc, 0, 0), WhoIs(LBc, 1, 1000), WhoIs(LBc, 1000, 4194303), WhoIs(LBc, 1001, 4194302),
      WhoIs(LBc, 5, NONE), WhoIs(LBc, 1000, 0), WhoIs(LBc, 0, 4194304), WhoIs([k |-> "u", a |-> 12], NONE, NONE),
      ById(NONE, NONE, 2, 1), ById(0, 999, 2, 1), ById(NONE, 7, 2, 1), ById(NONE, NONE, 2, 2), ById(1000, 1000, 8, 1000),
      ByName(NONE, NONE, "temp"), ByName(1000, 4194303, "new"), ByName(NONE, NONE, "dev-c") }
IAm(inst, ma, sg, v) == [svc |-> "iam", dt |-> 8, inst |-> inst, maxapdu |-> ma, seg |-> sg, vendor |-> v]
c_Rogues ==
    { <<33, IAm(77, 206, 3, 7)>>, <<33, IAm(78, 206, 4, 7)>>, <<33, IAm(79, 206, 0, NONE)>>, <<34, IAm(1000, 50, 3, 1)>>,
      <<33, IAm(4194304, 206, 0, 7)>> }
c_Mutations ==
    { <<1, [op |-> "add", t |-> 2, i |-> 2, n |-> "new"]>>, <<1, [op |-> "del", t |-> 2, i |-> 1]>>,
      <<2, [op |-> "rename", t |-> 2, i |-> 1, n |-> "new"]>>, <<2, [op |-> "reid", t |-> 2, i |-> 1, j |-> 2]>>,
      <<2, [op |-> "rename", t |-> 2, i |-> 1, n |-> "dev-b"]>>, <<3, [op |-> "add", t |-> 2, i |-> 1, n |-> "dup"]>> }
=============================================================================
