------------------------- MODULE Trace_Constructed -------------------------
(***************************************************************************)
(* C03, code -> spec.  One TLC state per record of $TRACE_FILE (ndjson):    *)
(*                                                                         *)
(*  {k:"rt", id, cls, v, enc:{ok,tags|exc}, dec:{ok,v|exc}, re:{ok,tags|exc}} *)
(*      a value v of class cls (abstract, Constructed.tla) that the harness *)
(*      built in the implementation; enc = tag list of the real encode(),   *)
(*      dec = projection of the real decode() of those tags, re = tag list  *)
(*      of encoding the decoded object again                                *)
(*  {k:"schema", id, cls, s}   the table of class cls re-extracted from the *)
(*      working tree (same JSON shape as golden/Schemas.tla)                *)
(*  {k:"classes", id, names}   the class names found in the working tree    *)
(*  {k:"registry", id, reg}    the four service registries of the tree      *)
(*                                                                         *)
(* A verdict record is printed ("@@") for every record that fails a monitor *)
(*   OctetsEqualSpec  enc.tags = Enc(schema, v)                             *)
(*   RoundTrip        dec.v = v = Dec(schema, enc.tags), re.tags = enc.tags *)
(*   SchemaDrift      s = Tab[cls]; class list and registries unchanged     *)
(* kind "violation" / "deviation" (the spec itself cannot round-trip the    *)
(* value: ambiguous schema) / "badinput" (harness bug).  Nothing halts.     *)
(***************************************************************************)
EXTENDS Constructed, Schemas, Json, IOUtils

Recs == ndJsonDeserialize(IOEnv.TRACE_FILE)
VARIABLE i

OK == [kind |-> "ok"]
Viol(m, exp, note) == [kind |-> "violation", monitor |-> m, exp |-> exp, note |-> note]
Dev(exp, note)     == [kind |-> "deviation", monitor |-> "-", exp |-> exp, note |-> note]
Bad(note)          == [kind |-> "badinput", monitor |-> "-", exp |-> 0, note |-> note]

Known(cls) == cls \in DOMAIN Tab

\* ---- monitors -------------------------------------------------------------------------------------
OctetsEqualSpec(cls, v, tags) == tags = Enc(Ref(cls), v)
RoundTrip(cls, v, tags, dv, tags2) == dv = v /\ DecAll(Ref(cls), tags) = Ok(v, <<>>) /\ tags2 = tags

VRt(r) ==
    IF ~Known(r.cls) THEN Viol("SchemaDrift", 0, "a class that the golden tables do not have")
    ELSE IF ~Valid(Ref(r.cls), r.v)
         THEN Viol("SchemaDrift", 0, "a value built from the implementation's table is not a value of the golden schema")
    ELSE LET t == Ref(r.cls)
             exp == Enc(t, r.v)
             sd == DecAll(t, exp)
         IN  IF ~r.enc.ok THEN Viol("OctetsEqualSpec", exp, "encoding a structurally valid value raised")
             ELSE IF r.enc.tags # exp THEN Viol("OctetsEqualSpec", exp, "tag list differs from the clause 20.2 encoding")
             ELSE IF sd # Ok(r.v, <<>>) THEN Dev(sd.v, "the specification itself does not decode this encoding back (ambiguous schema)")
             ELSE IF ~r.dec.ok THEN Viol("RoundTrip", r.v, "decoding the value's own encoding raised")
             ELSE IF r.dec.v # r.v THEN Viol("RoundTrip", r.v, "decoded value differs from the encoded one")
             ELSE IF ~r.re.ok THEN Viol("RoundTrip", exp, "re-encoding the decoded value raised")
             ELSE IF r.re.tags # exp THEN Viol("RoundTrip", exp, "re-encoding is not stable")
             ELSE OK

\* first field of the first element in which two tables differ
ElDiff(g, s) ==
    CASE g.name # s.name -> "name"
      [] g.ctx # s.ctx   -> "ctx"
      [] g.opt # s.opt   -> "opt"
      [] OTHER           -> "ty"
FirstDiff(g, s) == CHOOSE j \in 1..Len(g.els) : g.els[j] # s.els[j] /\ \A m \in 1..(j - 1) : g.els[m] = s.els[m]
SchemaDiff(cls, s) ==
    LET g == Tab[cls] IN
    IF g.k # s.k THEN [element |-> "(class)", field |-> "kind", golden |-> g.k, tree |-> s.k]
    ELSE IF g.k \in {"seq", "choice"}
         THEN IF Len(g.els) # Len(s.els)
              THEN [element |-> "(class)", field |-> "length", golden |-> Len(g.els), tree |-> Len(s.els)]
              ELSE LET j == FirstDiff(g, s) IN
                   [element |-> g.els[j].name, field |-> ElDiff(g.els[j], s.els[j]), golden |-> g.els[j], tree |-> s.els[j]]
         ELSE [element |-> "(item)", field |-> "ty", golden |-> g, tree |-> s]

VSchema(r) ==
    IF ~Known(r.cls) THEN Viol("SchemaDrift", [element |-> "(class)", field |-> "new", golden |-> 0, tree |-> r.s],
                               "a class that the golden tables do not have")
    ELSE IF r.s = Tab[r.cls] THEN OK
    ELSE Viol("SchemaDrift", SchemaDiff(r.cls, r.s), "the table differs from the pinned transcription")

Range(f) == {f[x] : x \in DOMAIN f}
VClasses(r) ==
    LET gone == Range(ClassNames) \ Range(r.names) IN
    IF gone = {} THEN OK ELSE Viol("SchemaDrift", gone, "classes of the golden tables that the tree no longer has")
VRegistry(r) ==
    IF r.reg = Registry THEN OK
    ELSE Viol("SchemaDrift", (Range(Registry) \ Range(r.reg)) \cup (Range(r.reg) \ Range(Registry)),
              "service registration differs (entries only in golden or only in the tree)")

Verdict(r) ==
    CASE r.k = "rt"       -> VRt(r)
      [] r.k = "schema"   -> VSchema(r)
      [] r.k = "classes"  -> VClasses(r)
      [] r.k = "registry" -> VRegistry(r)
      [] OTHER -> Bad("unknown record kind")

Report(r) ==
    LET v == Verdict(r) IN
    IF v.kind = "ok" THEN TRUE
    ELSE PrintT(<<"@@", [id |-> r.id, kind |-> v.kind, monitor |-> v.monitor, exp |-> v.exp, note |-> v.note]>>)

Init == i \in 1..Len(Recs)
Next == UNCHANGED i
Spec == Init /\ [][Next]_i
Reported == Report(Recs[i])      \* INVARIANT: always TRUE, prints the verdict of a failing record
=============================================================================
