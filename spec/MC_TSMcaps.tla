---------------------------- MODULE MC_TSMcaps ----------------------------
(* Exhaustive evaluation of TSMcaps.Decide over the capability cross product: the intended design satisfies C12. *)
EXTENDS TSMcaps
CONSTANTS MSizes,      \* max-APDU sizes explored (subset of Sizes)
          MSegs,       \* max-segments settings explored (0 = unspecified, 65 = "more than 64")
          MPW          \* proposed window sizes explored
VARIABLE c

\* payload lengths around every boundary that a limit L creates (unsegmented fit with either header size, 1, 2, 4 and 5 segments)
Lens(L) == {1, L - 7, L - 6, L - 5, L - 4, L - 3, L - 2, L, 2 * (L - 6), 2 * (L - 6) + 1, 2 * (L - 5), 2 * (L - 5) + 1,
            4 * (L - 6), 4 * (L - 6) + 1, 5 * L}

Init == \E cSeg \in SegSupport, sSeg \in SegSupport, cMax \in MSizes, sMax \in MSizes, cSegs \in MSegs, known \in BOOLEAN,
           cPW \in MPW, sPW \in MPW :
        \E lq \in Lens(IF known THEN sMax ELSE cMax), lr \in Lens(cMax) :
           c = [cSeg |-> cSeg, cMax |-> cMax, cSegs |-> cSegs, cPW |-> cPW, sSeg |-> sSeg, sMax |-> sMax, sSegs |-> 0,
                sPW |-> sPW, known |-> known, lq |-> lq, lr |-> lr]
Next == UNCHANGED c
Spec == Init /\ [][Next]_c

DesignApduFits == ApduFits(c, ObsOfDecide(c))
DesignSegmentedOnlyIfAllowed == SegmentedOnlyIfAllowed(c, ObsOfDecide(c))
DesignAbortInsteadOfOversize == AbortInsteadOfOversize(c, ObsOfDecide(c))
DesignWindowRange == WindowRange(c, ObsOfDecide(c))
\* vacuity: a design that ignores the header when sizing (the pinned tree, finding F5) must violate ApduFits
NoHeaderObs == LET o == ObsOfDecide(c) IN
               [o EXCEPT !.reqMax = IF o.reqSegd THEN o.reqMax + HdrReqSeg ELSE @, !.respMax = IF o.respSegd THEN o.respMax + HdrAckSeg ELSE @]
SanityNoHeaderStillFits == ApduFits(c, NoHeaderObs)
=============================================================================
