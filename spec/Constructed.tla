---------------------------- MODULE Constructed ----------------------------
(***************************************************************************)
(* C03 -- the generic encoding of BACnet constructed data (clause 20.2.15- *)
(* 20.2.20: SEQUENCE, SEQUENCE OF, CHOICE, ABSTRACT-SYNTAX.&Type, context   *)
(* tagging 20.2.1.3), driven by declarative schemas, at the TAG-LIST level. *)
(*                                                                         *)
(* A tag is  [cls |-> "app" | "ctx" | "open" | "close", num, data]          *)
(*   data = the content octets of a primitive (opaque here: the primitive   *)
(*   encodings are C01's business, the octet framing of a tag C02's), for   *)
(*   an application Boolean the one octet <<0>> / <<1>> that the framing    *)
(*   folds into the length field; <<>> for opening / closing tags.          *)
(*                                                                         *)
(* Schema algebra (type expressions; literal records, see golden/Schemas)   *)
(*   TAtomic(app, cls)   primitive with application tag number app          *)
(*   TEnum(cls)          = TAtomic(9, cls)                                  *)
(*   TAnyAtomic          any one application-tagged primitive               *)
(*   TAny                ABSTRACT-SYNTAX.&Type: any balanced tag list       *)
(*   Ref(name)           a named class of the table Tab                     *)
(*   TSeq(els), TChoice(els) els: sequence of [name, ctx | NoCtx, opt, ty]  *)
(*   TSeqOf(t), TListOf(t), TArrayOf(t, fixed | -1)                         *)
(*                                                                         *)
(* Abstract values (first component = kind, so that values of different     *)
(* kinds are comparable in TLC):                                            *)
(*   <<"a", data>>  <<"aa", app, data>>  <<"y", tags>>  <<"s", <<v | Absent>>>> *)
(*   <<"c", index, v>>  <<"l", <<v...>>>>   Absent = <<"absent">>           *)
(*                                                                         *)
(* Enc(t, v) -> tags;  Dec(t, tags) -> [ok, v, rest] (v = <<"reject", kind>> *)
(* if not ok);  DecAll = Dec + "nothing may be left over".  Dec is an LL(1)  *)
(* parser: what an element is, is decided from the next tag alone (First     *)
(* sets), which is what WellFormed(schema) guarantees to be possible.        *)
(***************************************************************************)
EXTENDS Integers, Sequences, FiniteSets, TLC

CONSTANT Tab            \* class name -> named schema (a record; golden/Schemas.tla : Schemas)

NoCtx  == -1
Absent == <<"absent">>

\* ---- schema constructors (documentation + toy schemas; the golden tables are literal records) ----
\* (T-prefixed: Seq, Any, SeqOf are taken by the standard modules)
TAtomic(app, cls) == [k |-> "atom", app |-> app, cls |-> cls]
TEnum(cls)        == TAtomic(9, cls)
TAnyAtomic        == [k |-> "anyatomic"]
TAny              == [k |-> "any", cls |-> "Any"]
Ref(n)            == [k |-> "ref", name |-> n]
El(n, c, o, t)    == [name |-> n, ctx |-> c, opt |-> o, ty |-> t]
TSeq(els)         == [k |-> "seq", els |-> els]
TChoice(els)      == [k |-> "choice", els |-> els]
TSeqOf(t)         == [k |-> "seqof", of |-> t, fixed |-> -1]
TListOf(t)        == [k |-> "listof", of |-> t, fixed |-> -1]
TArrayOf(t, n)    == [k |-> "arrayof", of |-> t, fixed |-> n]

IsList(t) == t.k \in {"seqof", "listof", "arrayof"}

Tag(c, n, d) == [cls |-> c, num |-> n, data |-> d]

\* ======================================== encoding ===========================================
RECURSIVE Enc(_, _), EncEls(_, _, _), EncItems(_, _, _)

\* 20.2.1.3: a context-tagged primitive keeps its content octets and swaps the tag; a context-tagged
\* constructed element (sequence, choice, list, any) is bracketed by an opening / closing tag pair
EncEl(e, v) ==
    IF e.ctx = NoCtx THEN Enc(e.ty, v)
    ELSE IF e.ty.k = "atom" THEN <<Tag("ctx", e.ctx, v[2])>>
    ELSE <<Tag("open", e.ctx, <<>>)>> \o Enc(e.ty, v) \o <<Tag("close", e.ctx, <<>>)>>

EncEls(els, vs, i) ==
    IF i > Len(els) THEN <<>>
    ELSE (IF vs[i] = Absent THEN <<>> ELSE EncEl(els[i], vs[i])) \o EncEls(els, vs, i + 1)

EncItems(t, vs, i) == IF i > Len(vs) THEN <<>> ELSE Enc(t, vs[i]) \o EncItems(t, vs, i + 1)

Enc(t, v) ==
    CASE t.k = "atom"      -> <<Tag("app", t.app, v[2])>>
      [] t.k = "anyatomic" -> <<Tag("app", v[2], v[3])>>
      [] t.k = "any"       -> v[2]
      [] t.k = "ref"       -> Enc(Tab[t.name], v)
      [] t.k = "seq"       -> EncEls(t.els, v[2], 1)
      [] t.k = "choice"    -> EncEl(t.els[v[2]], v[3])
      [] IsList(t)         -> EncItems(t.of, v[2], 1)

\* ======================================== First sets ==========================================
\* heads: <<cls, num>>.  The universe is finite: application 0..15, context / opening 0..MaxCtx
MaxCtx   == 254
AppHeads == {<<"app", n>> : n \in 0..15}
AllHeads == AppHeads \cup {<<c, n>> : c \in {"ctx", "open"}, n \in 0..MaxCtx}
HeadOf(tag) == <<tag.cls, tag.num>>

RECURSIVE Nullable(_), FirstTy(_), FirstEls(_, _)
\* can a value of the type have the empty encoding?
Nullable(t) ==
    CASE t.k \in {"atom", "anyatomic"} -> FALSE
      [] t.k = "any"    -> TRUE
      [] t.k = "ref"    -> Nullable(Tab[t.name])
      [] t.k = "seq"    -> \A i \in 1..Len(t.els) : t.els[i].opt \/ (t.els[i].ctx = NoCtx /\ Nullable(t.els[i].ty))
      [] t.k = "choice" -> \E i \in 1..Len(t.els) : t.els[i].ctx = NoCtx /\ Nullable(t.els[i].ty)
      [] IsList(t)      -> t.fixed <= 0 \/ Nullable(t.of)

Skippable(e) == e.opt \/ (e.ctx = NoCtx /\ Nullable(e.ty))

FirstEl(e) ==
    IF e.ctx = NoCtx THEN FirstTy(e.ty)
    ELSE IF e.ty.k = "atom" THEN {<<"ctx", e.ctx>>} ELSE {<<"open", e.ctx>>}

FirstEls(els, i) ==
    IF i > Len(els) THEN {}
    ELSE FirstEl(els[i]) \cup (IF Skippable(els[i]) THEN FirstEls(els, i + 1) ELSE {})

FirstTy(t) ==
    CASE t.k = "atom"      -> {<<"app", t.app>>}
      [] t.k = "anyatomic" -> AppHeads
      [] t.k = "any"       -> AllHeads
      [] t.k = "ref"       -> FirstTy(Tab[t.name])
      [] t.k = "seq"       -> FirstEls(t.els, 1)
      [] t.k = "choice"    -> UNION {FirstEl(t.els[i]) : i \in 1..Len(t.els)}
      [] IsList(t)         -> FirstTy(t.of)

\* the same question asked of one tag (no set construction: this is what the decoder uses)
RECURSIVE StartsTy(_, _), StartsEls(_, _, _)
StartsEl(e, h) ==
    IF e.ctx = NoCtx THEN StartsTy(e.ty, h)
    ELSE IF e.ty.k = "atom" THEN h.cls = "ctx" /\ h.num = e.ctx ELSE h.cls = "open" /\ h.num = e.ctx
StartsEls(els, i, h) ==
    IF i > Len(els) THEN FALSE
    ELSE StartsEl(els[i], h) \/ (Skippable(els[i]) /\ StartsEls(els, i + 1, h))
StartsTy(t, h) ==
    CASE t.k = "atom"      -> h.cls = "app" /\ h.num = t.app
      [] t.k = "anyatomic" -> h.cls = "app"
      [] t.k = "any"       -> h.cls # "close"
      [] t.k = "ref"       -> StartsTy(Tab[t.name], h)
      [] t.k = "seq"       -> StartsEls(t.els, 1, h)
      [] t.k = "choice"    -> \E i \in 1..Len(t.els) : StartsEl(t.els[i], h)
      [] IsList(t)         -> StartsTy(t.of, h)

\* ======================================== decoding ===========================================
Ok(v, rest) == [ok |-> TRUE, v |-> v, rest |-> rest]
Rej(kind)   == [ok |-> FALSE, v |-> <<"reject", kind>>, rest |-> <<>>]
Reject(kind) == Rej(kind)

RECURSIVE TakeAny(_, _, _)
\* ABSTRACT-SYNTAX.&Type: everything up to the closing tag of the enclosing context (or the end)
TakeAny(ts, lvl, acc) ==
    IF ts = <<>> THEN (IF lvl = 0 THEN Ok(<<"y", acc>>, <<>>) ELSE Rej("Unbalanced"))
    ELSE IF ts[1].cls = "close" /\ lvl = 0 THEN Ok(<<"y", acc>>, ts)
    ELSE TakeAny(Tail(ts), lvl + (IF ts[1].cls = "open" THEN 1 ELSE IF ts[1].cls = "close" THEN -1 ELSE 0),
                 Append(acc, ts[1]))

RECURSIVE Dec(_, _), DecEls(_, _, _, _), DecItems(_, _, _, _), DecChoice(_, _, _)

DecEl(e, ts) ==
    IF e.ctx = NoCtx THEN Dec(e.ty, ts)
    ELSE IF ts = <<>> THEN Rej("MissingRequired")
    ELSE IF e.ty.k = "atom"
         THEN IF ts[1].cls = "ctx" /\ ts[1].num = e.ctx THEN Ok(<<"a", ts[1].data>>, Tail(ts)) ELSE Rej("InvalidTag")
    ELSE IF ~(ts[1].cls = "open" /\ ts[1].num = e.ctx) THEN Rej("InvalidTag")
    ELSE LET r == Dec(e.ty, Tail(ts)) IN
         IF ~r.ok THEN r
         ELSE IF r.rest = <<>> \/ r.rest[1].cls # "close" \/ r.rest[1].num # e.ctx THEN Rej("InvalidTag")
         ELSE Ok(r.v, Tail(r.rest))

\* a sequence: elements in order; an element that the next tag cannot start is absent if OPTIONAL, empty if
\* its type can be empty (a list at a closing tag or at the end), otherwise it is missing
DecEls(els, i, ts, acc) ==
    IF i > Len(els) THEN Ok(<<"s", acc>>, ts)
    ELSE LET e == els[i] IN
         IF (ts # <<>> /\ StartsEl(e, ts[1])) \/ (~e.opt /\ e.ctx = NoCtx /\ Nullable(e.ty))
         THEN LET r == DecEl(e, ts) IN IF ~r.ok THEN r ELSE DecEls(els, i + 1, r.rest, Append(acc, r.v))
         ELSE IF e.opt THEN DecEls(els, i + 1, ts, Append(acc, Absent))
         ELSE IF ts = <<>> \/ ts[1].cls = "close" THEN Rej("MissingRequired") ELSE Rej("InvalidTag")

\* a list ends where the next tag cannot start an item: at a closing tag, at the end of the input, or at the
\* tag of the element that follows the list
DecItems(t, ts, acc, fixed) ==
    IF ts # <<>> /\ StartsTy(t, ts[1])
    THEN LET r == Dec(t, ts) IN
         IF ~r.ok THEN r
         ELSE IF Len(r.rest) = Len(ts) THEN Rej("EmptyItem")
         ELSE DecItems(t, r.rest, Append(acc, r.v), fixed)
    ELSE IF fixed >= 0 /\ Len(acc) # fixed THEN Rej("InvalidLength") ELSE Ok(<<"l", acc>>, ts)

DecChoice(els, i, ts) ==
    IF i > Len(els) THEN Rej("MissingChoice")
    ELSE IF StartsEl(els[i], ts[1])
         THEN LET r == DecEl(els[i], ts) IN IF ~r.ok THEN r ELSE Ok(<<"c", i, r.v>>, r.rest)
         ELSE DecChoice(els, i + 1, ts)

Dec(t, ts) ==
    CASE t.k = "atom"      -> IF ts = <<>> THEN Rej("MissingRequired")
                              ELSE IF ts[1].cls = "app" /\ ts[1].num = t.app THEN Ok(<<"a", ts[1].data>>, Tail(ts))
                              ELSE Rej("InvalidTag")
      [] t.k = "anyatomic" -> IF ts = <<>> THEN Rej("MissingRequired")
                              ELSE IF ts[1].cls = "app" THEN Ok(<<"aa", ts[1].num, ts[1].data>>, Tail(ts))
                              ELSE Rej("InvalidTag")
      [] t.k = "any"       -> TakeAny(ts, 0, <<>>)
      [] t.k = "ref"       -> Dec(Tab[t.name], ts)
      [] t.k = "seq"       -> DecEls(t.els, 1, ts, <<>>)
      [] t.k = "choice"    -> IF ts = <<>> THEN Rej("MissingChoice") ELSE DecChoice(t.els, 1, ts)
      [] IsList(t)         -> DecItems(t.of, ts, <<>>, t.fixed)

\* a complete production (an APDU's service parameters, a property value): nothing may be left over
DecAll(t, ts) ==
    LET r == Dec(t, ts) IN IF r.ok /\ r.rest # <<>> THEN Rej("TooManyArguments") ELSE r

\* ======================================== well-formedness ======================================
\* open / close tags nest properly
RECURSIVE BalancedFrom(_, _, _)
BalancedFrom(ts, i, stack) ==
    IF i > Len(ts) THEN stack = <<>>
    ELSE CASE ts[i].cls = "open"  -> BalancedFrom(ts, i + 1, <<ts[i].num>> \o stack)
           [] ts[i].cls = "close" -> stack # <<>> /\ stack[1] = ts[i].num /\ BalancedFrom(ts, i + 1, Tail(stack))
           [] OTHER               -> BalancedFrom(ts, i + 1, stack)
Balanced(ts) == BalancedFrom(ts, 1, <<>>)

\* is v a value of type t?  (guards Enc on recorded implementation values)
RECURSIVE Valid(_, _)
IsOctets(d) == \A i \in 1..Len(d) : d[i] \in 0..255
IsTag(x) == /\ x.cls \in {"app", "ctx", "open", "close"} /\ x.num \in Nat /\ IsOctets(x.data)
ValidEl(e, v) == IF v = Absent THEN e.opt ELSE Valid(e.ty, v)
Valid(t, v) ==
    CASE t.k = "atom"      -> Len(v) = 2 /\ v[1] = "a" /\ IsOctets(v[2])
      [] t.k = "anyatomic" -> Len(v) = 3 /\ v[1] = "aa" /\ v[2] \in 0..15 /\ IsOctets(v[3])
      [] t.k = "any"       -> Len(v) = 2 /\ v[1] = "y" /\ (\A i \in 1..Len(v[2]) : IsTag(v[2][i])) /\ Balanced(v[2])
      [] t.k = "ref"       -> Valid(Tab[t.name], v)
      [] t.k = "seq"       -> Len(v) = 2 /\ v[1] = "s" /\ Len(v[2]) = Len(t.els)
                              /\ \A i \in 1..Len(t.els) : ValidEl(t.els[i], v[2][i])
      [] t.k = "choice"    -> Len(v) = 3 /\ v[1] = "c" /\ v[2] \in 1..Len(t.els) /\ Valid(t.els[v[2]].ty, v[3])
      [] IsList(t)         -> Len(v) = 2 /\ v[1] = "l" /\ (t.fixed < 0 \/ Len(v[2]) = t.fixed)
                              /\ \A i \in 1..Len(v[2]) : Valid(t.of, v[2][i])

(* WellFormed(name): the table entry is uniquely decodable by the generic algorithm.  Each broken rule is
   reported as <<class, element, rule>>:
     ctx_range      context tag numbers are 0..254 (20.2.1.2: 255 is reserved, one octet of extension)
     ctx_unique     context numbers are unique within a sequence / choice scope
     anyatomic_ctx  a context tag hides the application tag that says which primitive an any-atomic is
     opt_ambiguous  an OPTIONAL (or possibly empty) element shares a first tag with an element that may follow it
     opt_nullable   an OPTIONAL element whose present-but-empty and absent encodings coincide
     alt_ambiguous  two alternatives of a choice share a first tag
     alt_untagged   an alternative that is constructed carries no context tag: BACnet does not encode the
                    universal tag of a SEQUENCE / CHOICE / SEQUENCE OF, so nothing identifies the alternative
     alt_nullable   an alternative with an empty encoding
     item_nullable / item_ambiguous   a list item with an empty encoding / whose optional tail collides with the
                    start of the next item                                                                   *)
RECURSIVE TailFirst(_, _)
\* first tags of the elements of a sequence that may be what is left of it after element i
TailFirst(els, i) ==
    IF i > Len(els) THEN {} ELSE FirstEl(els[i]) \cup (IF Skippable(els[i]) THEN TailFirst(els, i + 1) ELSE {})

RECURSIVE SkippableTail(_, _)
\* first tags of the trailing run of skippable elements of a sequence (what may or may not be there at its end)
SkippableTail(els, i) ==
    IF i < 1 \/ ~Skippable(els[i]) THEN {} ELSE FirstEl(els[i]) \cup SkippableTail(els, i - 1)

ListTypesOf(s) == {s.els[i].ty : i \in {j \in 1..Len(s.els) : IsList(s.els[j].ty)}}

Resolve(t) == IF t.k = "ref" THEN Tab[t.name] ELSE t

BrokenS(name, s) ==
    LET els == IF s.k \in {"seq", "choice"} THEN s.els ELSE <<>>
        N == Len(els)
        items == IF IsList(s) THEN {s} ELSE ListTypesOf([els |-> els])
    IN    {<<name, els[i].name, "ctx_range">> : i \in {j \in 1..N : els[j].ctx # NoCtx /\ els[j].ctx \notin 0..MaxCtx}}
     \cup {<<name, els[i].name, "ctx_unique">> :
               i \in {j \in 1..N : els[j].ctx # NoCtx /\ \E m \in 1..(j - 1) : els[m].ctx = els[j].ctx}}
     \cup {<<name, els[i].name, "anyatomic_ctx">> : i \in {j \in 1..N : els[j].ty.k = "anyatomic" /\ els[j].ctx # NoCtx}}
     \cup (IF s.k = "seq"
           THEN {<<name, els[i].name, "opt_ambiguous">> :
                     i \in {j \in 1..N : Skippable(els[j]) /\ FirstEl(els[j]) \cap TailFirst(els, j + 1) # {}}}
                \cup {<<name, els[i].name, "opt_nullable">> :
                     i \in {j \in 1..N : els[j].opt /\ els[j].ctx = NoCtx /\ Nullable(els[j].ty)}}
           ELSE {})
     \cup (IF s.k = "choice"
           THEN {<<name, els[i].name, "alt_ambiguous">> :
                     i \in {j \in 1..N : \E m \in 1..(j - 1) : FirstEl(els[m]) \cap FirstEl(els[j]) # {}}}
                \cup {<<name, els[i].name, "alt_untagged">> :
                     i \in {j \in 1..N : els[j].ctx = NoCtx /\ els[j].ty.k \notin {"atom", "anyatomic"}}}
                \cup {<<name, els[i].name, "alt_nullable">> :
                     i \in {j \in 1..N : els[j].ctx = NoCtx /\ Nullable(els[j].ty)}}
           ELSE {})
     \cup {<<name, "(item)", "item_nullable">> : t \in {x \in items : Nullable(x.of)}}
     \cup {<<name, "(item)", "item_ambiguous">> :
               t \in {x \in items : LET it == Resolve(x.of) IN
                                    it.k = "seq" /\ SkippableTail(it.els, Len(it.els)) \cap FirstTy(it) # {}}}

Broken(name) == BrokenS(name, Tab[name])
WellFormed(name) == Broken(name) = {}

\* ======================================== tag framing (simple cases) ===========================
(* 20.2.1: the octets of a tag list -- only what Annex F needs and what keeps the implementation's
   TagList.encode / decode in the loop: tag numbers 0..254, content of 0..65535 octets, the application
   Boolean folded into the length field.  Everything else about framing is C02's (Tags.tla).          *)
Encodable(ts) == \A i \in 1..Len(ts) : ts[i].num \in 0..254 /\ Len(ts[i].data) <= 65535
                                       /\ (ts[i].cls = "app" /\ ts[i].num = 1 => Len(ts[i].data) = 1 /\ ts[i].data[1] \in 0..7)

TagOctets(t) ==
    LET classBit == IF t.cls = "app" THEN 0 ELSE 8
        numHi    == IF t.num < 15 THEN t.num * 16 ELSE 240
        numExt   == IF t.num < 15 THEN <<>> ELSE <<t.num>>
        n        == Len(t.data)
    IN  CASE t.cls = "open"  -> <<numHi + classBit + 6>> \o numExt
          [] t.cls = "close" -> <<numHi + classBit + 7>> \o numExt
          [] t.cls = "app" /\ t.num = 1 -> <<numHi + t.data[1]>>
          [] n <= 4   -> <<numHi + classBit + n>> \o numExt \o t.data
          [] n <= 253 -> <<numHi + classBit + 5>> \o numExt \o <<n>> \o t.data
          [] OTHER    -> <<numHi + classBit + 5>> \o numExt \o <<254, n \div 256, n % 256>> \o t.data

RECURSIVE ListOctets(_, _)
ListOctets(ts, i) == IF i > Len(ts) THEN <<>> ELSE TagOctets(ts[i]) \o ListOctets(ts, i + 1)
Octets(ts) == ListOctets(ts, 1)

RECURSIVE ParseFrom(_, _, _)
\* octets -> tag list (<<"invalid">> for anything outside the simple cases)
ParseFrom(o, p, acc) ==
    IF p > Len(o) THEN acc
    ELSE LET b == o[p]
             ext == (b \div 16) = 15
             q == IF ext THEN p + 1 ELSE p                     \* last octet of the tag number
             num == IF ext THEN (IF q <= Len(o) THEN o[q] ELSE 255) ELSE b \div 16
             ctx == ((b \div 8) % 2) = 1
             lvt == b % 8
         IN  IF q > Len(o) \/ num = 255 THEN <<"invalid">>
             ELSE IF ctx /\ lvt = 6 THEN ParseFrom(o, q + 1, Append(acc, Tag("open", num, <<>>)))
             ELSE IF ctx /\ lvt = 7 THEN ParseFrom(o, q + 1, Append(acc, Tag("close", num, <<>>)))
             ELSE IF ~ctx /\ num = 1 THEN ParseFrom(o, q + 1, Append(acc, Tag("app", 1, <<lvt>>)))
             ELSE LET long == lvt = 5
                      l1 == IF long /\ q + 1 <= Len(o) THEN o[q + 1] ELSE 255
                      big == long /\ l1 = 254
                      n == IF ~long THEN lvt
                           ELSE IF big THEN (IF q + 3 <= Len(o) THEN o[q + 2] * 256 + o[q + 3] ELSE 70000)
                           ELSE l1
                      d == q + 1 + (IF ~long THEN 0 ELSE IF big THEN 3 ELSE 1)      \* first content octet
                  IN  IF (long /\ l1 = 255) \/ d + n - 1 > Len(o) THEN <<"invalid">>
                      ELSE ParseFrom(o, d + n, Append(acc, Tag(IF ctx THEN "ctx" ELSE "app", num, SubSeq(o, d, d + n - 1))))
Parse(o) == ParseFrom(o, 1, <<>>)
=============================================================================
