---------------------------- MODULE Trace_Binding ----------------------------
(***************************************************************************)
(* X02, code -> spec.  Each line of $TRACE_FILE is one session recorded by *)
(* harness/drivers/x02.py from real bacpypes stacks on one vlan:           *)
(*   {"tid":n, "lan":{client, devs:[..]}, "objs":[[..],..],                *)
(*    "evs":[{"op":"send","q":{..},"st":{..}}, {"op":"deliver","d":2,..},  *)
(*           {"op":"recv","k":1,..}, {"op":"drop","k":1,..}, {"op":"close"},*)
(*           {"op":"ann","d":1}, {"op":"rogue","a":33,"m":{..}},           *)
(*           (send carries "api": "ok" | "refused" | "n/a" = what the       *)
(*           client's who_is() did with the range)                         *)
(*           {"op":"mutate","d":1,"mu":{..}} ]}                            *)
(* st = projection after the step: req, delivered, wire (frames handed to  *)
(* the medium by device / foreign nodes and not yet arrived at the client  *)
(* node, parsed from the octets), got (messages whose frame reached the    *)
(* client application), known (client DeviceInfoCache by instance), objs   *)
(* (identifier and name of every object each application holds), ops.      *)
(* Per step TLC decides (a) conformance: the logged post-state is a        *)
(* successor under the Binding action named by the event; (b) the X02      *)
(* monitors on the logged states.  One verdict record per session ("@@").  *)
(***************************************************************************)
EXTENDS Binding, Json, IOUtils, TLCExt

Traces == ndJsonDeserialize(IOEnv.TRACE_FILE)
VARIABLES tid, l, rej, viol
tvars == <<tid, l, rej, viol>>
T == Traces[tid].evs
ToSet(s) == {s[i] : i \in 1..Len(s)}

TInit ==
    /\ tid \in 1..Len(Traces) /\ l = 1 /\ rej = 0 /\ viol = {}
    /\ lan = Traces[tid].lan
    /\ objs = [d \in 1..Len(Traces[tid].lan.devs) |-> ToSet(Traces[tid].objs[d])]
    /\ req = NoReq /\ delivered = {} /\ wire = <<>> /\ got = <<>> /\ known = ToSet(Traces[tid].known0) /\ ops = 0

Act(e) ==
    CASE e.op = "send"    -> Send(e.q)
      [] e.op = "ann"     -> Announce(e.d)
      [] e.op = "rogue"   -> Rogue(e.a, e.m)
      [] e.op = "deliver" -> Deliver(e.d)
      [] e.op = "recv"    -> Receive(e.k)
      [] e.op = "drop"    -> Drop(e.k)
      [] e.op = "close"   -> Close
      [] e.op = "mutate"  -> Mutate(e.d, e.mu)
      [] OTHER            -> FALSE

Bind(e) ==
    /\ req' = e.st.req /\ delivered' = ToSet(e.st.delivered) /\ wire' = e.st.wire /\ got' = e.st.got
    /\ known' = ToSet(e.st.known) /\ objs' = [d \in D |-> ToSet(e.st.objs[d])] /\ ops' = e.st.ops
    /\ UNCHANGED lan

Failing(e) ==
    (IF AtMostOnce' THEN {} ELSE {"AtMostOnce"}) \cup
    (IF OnlyJustified' THEN {} ELSE {"OnlyJustified"}) \cup
    (IF ReplyReachesRequester' THEN {} ELSE {"ReplyReachesRequester"}) \cup
    (IF KnownWellFormed' THEN {} ELSE {"KnownWellFormed"}) \cup
    (IF ObjectsStayWF' THEN {} ELSE {"ObjectsStayWF"}) \cup
    (IF e.op = "close" /\ ~CompleteNow THEN {"Complete"} ELSE {}) \cup
    (IF e.op = "close" /\ ~BindingNow THEN {"BindingEstablished"} ELSE {}) \cup
    (IF e.op = "recv" /\ e.k \in 1..Len(wire) /\ ~A_BadIAmNoEffect(wire[e.k]) THEN {"BadIAmNoEffect"} ELSE {}) \cup
    (IF e.op = "recv" /\ e.k \in 1..Len(wire) /\ ~A_GoodIAmLearned(wire[e.k]) THEN {"GoodIAmLearned"} ELSE {}) \cup
    (IF e.op = "recv" /\ e.k \in 1..Len(wire) /\ ~A_IHaveNoEffect(wire[e.k]) THEN {"IHaveNoEffect"} ELSE {}) \cup
    (IF e.op = "drop" /\ ~A_DropNoEffect THEN {"BadIAmNoEffect"} ELSE {}) \cup
    (IF e.op = "send" /\ ~ClientSendsWellFormed(e.q, e.api) THEN {"ClientSendsWellFormed"} ELSE {})

Step ==
    /\ l <= Len(T)
    /\ LET e == T[l] IN
        /\ Bind(e)
        /\ rej' = IF rej = 0 /\ ~ENABLED (Act(e) /\ Bind(e)) THEN l ELSE rej
        /\ viol' = viol \cup {<<m, l>> : m \in {x \in Failing(e) : \A v \in viol : v[1] # x}}   \* first failing step per monitor
    /\ l' = l + 1 /\ UNCHANGED tid

Done ==
    /\ l = Len(T) + 1
    /\ PrintT(<<"@@", [tid |-> Traces[tid].tid, rej |-> rej, viol |-> viol]>>)
    /\ l' = l + 1 /\ UNCHANGED <<vars, tid, rej, viol>>

TNext == Step \/ Done
TSpec == TInit /\ [][TNext]_<<vars, tvars>>
=============================================================================
