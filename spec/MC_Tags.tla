------------------------------ MODULE MC_Tags ------------------------------
(***************************************************************************)
(* Function-evaluation configurations for Tags.tla (C02).  One variable c  *)
(* ranges over a case set; the invariants are the theorems; POSTCONDITIONs *)
(* write the expected results the harness replays on bacpypes (OUT_FILE),  *)
(* TRACE_FILE carries results recorded from bacpypes.                      *)
(*   Grid : tag lists of 1..2 tags over class x Nums x Lens, 3 tags over   *)
(*          class x Nums3 x Lens3                                          *)
(*   Str  : all octet strings of length <= MaxStr, all strings over the    *)
(*          class alphabet Alpha of length <= MaxAlpha                     *)
(*   Word : all words over {open a, open b, close a, close b, ctx a, ctx b}*)
(*          of length <= MaxWord                                           *)
(*   Rec  : records {s, ok, tags, ...} produced by the implementation      *)
(***************************************************************************)
EXTENDS Tags, Json, IOUtils, SequencesExt

CONSTANTS Nums, Lens, Nums3, Lens3, MaxStr, Alpha, MaxAlpha, MaxWord, CtxA, CtxB, EmitStr, EmitAlpha
VARIABLE c
\* TLC evaluates initial states (and the invariants on them) in one thread; the case sets are therefore generated
\* by Next from a small Init -- a tree of prefixes, or NChains arithmetic progressions over record indices -- so that
\* the workers share the evaluation.  Every state is one case.
NChains == 64

AsSeq(f) == [i \in 1..Len(f) |-> f[i]]
Strings(S, n) == UNION {[1..k -> S] : k \in 0..n}

\* ---- Grid --------------------------------------------------------------------------------------------
\* literal data that looks like escapes and tag octets; longer data is one blob
Hostile == <<255, 254, 15, 14, 5, 253>>
Data(L) == IF L <= 6 THEN SubSeq(Hostile, 1, L) ELSE <<0 - L>>
GridTags(nums, lens) ==
    {Tag(cl, n, L, IF cl = APP /\ n = BoolTag THEN <<>> ELSE Data(L)) : cl \in {APP, CTX}, n \in nums, L \in lens}
    \cup {Tag(cl, n, 0, <<>>) : cl \in {OPN, CLS}, n \in nums}
G2 == GridTags(Nums, Lens)
G3 == GridTags(Nums3, Lens3)
InitGrid == c = <<>>
NextGrid == \/ Len(c) < 2 /\ \E t \in G2 : c' = Append(c, t)
            \/ Len(c) = 2 /\ c[1] \in G3 /\ c[2] \in G3 /\ \E t \in G3 : c' = Append(c, t)
RECURSIVE SumHdrData(_)
SumHdrData(l) == IF l = <<>> THEN 0 ELSE HdrLen(Head(l)) + Size(Head(l).data) + SumHdrData(Tail(l))
\* RoundTrip, Canonical, HdrCanonical, EscapeMinimal and "every octet is accounted for", with the encoding computed once
InvGrid ==
    LET e == EncList(c) IN
    /\ WFList(c)
    /\ DecList(e) = Valid(c)                                        \* RoundTrip(c); with WFList(c) this is Canonical(e)
    /\ \A i \in 1..Len(c) : HdrCanonical(c[i]) /\ EscapeMinimal(c[i].lvt)
    /\ Size(e) = SumHdrData(c)
\* expected octets for every list of 1..2 tags (spec -> code)
WriteGrid ==
    LET L == SetToSeq(Strings(G2, 2)) IN
    ndJsonSerialize(IOEnv.OUT_FILE, [i \in 1..Len(L) |-> [l |-> AsSeq(L[i]), o |-> EncList(L[i])]])

\* ---- Str ---------------------------------------------------------------------------------------------
InitStr == c = <<>>
NextStr == \/ Len(c) < MaxStr /\ \E b \in 0..255 : c' = Append(c, b)
           \/ Len(c) < MaxAlpha /\ (\A i \in 1..Len(c) : c[i] \in Alpha) /\ \E b \in Alpha : c' = Append(c, b)
\* NoOverRead, StableOrInvalid and DecodedWF of Tags.tla with the decoding computed once.  (Every suffix of a case is
\* itself a case, so not over-reading from position 1 of every string is not over-reading from any position.)
InvStr ==
    LET r == DecTag(c, 1)
        d == DecList(c)
    IN  /\ r.ok => (r.next > 1 /\ r.next <= Len(c) + 1)
        /\ d.ok <=> (c = <<>> \/ (r.ok /\ DecList(SubSeq(c, r.next, Len(c))).ok))   \* self-delimiting: a list is empty, or a tag then a list
        /\ d.ok => LET e == EncList(d.tags) IN
                    /\ DecList(e) = d
                    /\ Len(e) <= Len(c)
                    /\ \A i \in 1..Len(d.tags) : WFTag(d.tags[i]) \/ d.tags[i].num = 255
                    /\ (\A i \in 1..Len(d.tags) : WFTag(d.tags[i])) => ((e = c) <=> Canonical(c))
        /\ (Len(c) <= 2 => (NoOverRead(c) /\ StableOrInvalid(c) /\ DecodedWF(c)))
Expected(s) ==
    LET d == DecList(s)
        r == DecTag(s, 1)
    IN  [s |-> AsSeq(s), ok |-> d.ok, tags |-> d.tags, canon |-> Canonical(s),
         ok1 |-> r.ok, tag1 |-> r.tag, used |-> IF r.ok THEN r.next - 1 ELSE 0,
         canon1 |-> r.ok /\ WFTag(r.tag) /\ EncTag(r.tag) = SubSeq(AsSeq(s), 1, r.next - 1)]
WriteStr ==
    LET L == SetToSeq(Strings(0..255, EmitStr) \cup Strings(Alpha, EmitAlpha)) IN
    ndJsonSerialize(IOEnv.OUT_FILE, [i \in 1..Len(L) |-> Expected(L[i])])

\* ---- Word --------------------------------------------------------------------------------------------
SymCls == <<OPN, OPN, CLS, CLS, CTX, CTX>>
SymTag(k) == Tag(SymCls[k + 1], IF k % 2 = 0 THEN CtxA ELSE CtxB, 0, <<>>)
WordOf(w) == Mat([i \in 1..Len(w) |-> SymTag(w[i])])
RECURSIVE WordIndex(_, _)
WordIndex(w, i) == IF i > Len(w) THEN 0 ELSE w[i] + 6 * WordIndex(w, i + 1)     \* first symbol = least digit
\* a result of get_context as one number (an empty group carries no position: 1000)
PosCode(r) == CASE r.kind = "none" -> 0 [] r.kind = "invalid" -> 1 [] r.kind = "tag" -> 100 + r.from
                [] OTHER -> IF r.to < r.from THEN 1000 ELSE 1000 + 10 * r.from + r.to
AnyCode(r) == IF r.ok THEN r.taken ELSE 99
Impl == ndJsonDeserialize(IOEnv.TRACE_FILE)     \* line L+1: results for all words of length L, by word index
InitWord == c = <<>>
NextWord == Len(c) < MaxWord /\ \E b \in 0..5 : c' = Append(c, b)
OtherCtx == CHOOSE n \in 0..254 : n # CtxA /\ n # CtxB
\* the theorems, and (second half) the implementation's results against the operators: one record is printed per
\* disagreeing word, the run never halts on them
InvWord ==
    LET l == WordOf(c)
        D == DepthVec(l)
        ga == GetContextPos(l, CtxA)
        gb == GetContextPos(l, CtxB)
        an == AnyTake(l)
        bal == BalancedIn(D, 1, Len(l))
        r == Impl[Len(c) + 1]
        k == WordIndex(c, 1) + 1
        e == <<PosCode(ga), PosCode(gb), AnyCode(an)>>
        g == <<r.a[k], r.b[k], r.any[k]>>
    IN
    /\ ga = GetContextDeclD(l, D, CtxA) /\ gb = GetContextDeclD(l, D, CtxB)
    /\ ga.kind = "group" => BalancedIn(D, ga.from, ga.to)
    /\ gb.kind = "group" => BalancedIn(D, gb.from, gb.to)
    /\ bal => (ga.kind # "invalid" /\ gb.kind # "invalid")
    /\ an = AnyTakeDeclD(l, D) /\ (an.ok => BalancedIn(D, 1, an.taken))
    /\ (Len(c) <= 6 => /\ bal <=> Balanced(l)
                        /\ GetContextPos(l, OtherCtx).kind = (IF bal THEN "none" ELSE "invalid")
                        /\ ContextIffBalanced(l, CtxA) /\ AnyIffBalanced(l))
    /\ (Len(c) <= 5 => BalancedInOK(l))
    /\ (e = g \/ PrintT(<<"@@", [w |-> AsSeq(c), exp |-> e, got |-> g]>>))

\* ---- Rec ---------------------------------------------------------------------------------------------
\* records produced by the implementation, one per line of TRACE_FILE:
\*   {id, k: "dec", s: octets, ok, tags, ctx, gc}   TagList.decode(s) gave tags (ok) or an invalid-tag error (~ok);
\*                                                 gc = code of get_context(ctx) on the decoded list (ctx >= 0)
\*   {id, k: "enc", l: tags, o: octets}            TagList(l).encode gave o
\* one verdict is printed per disagreeing record; the run never halts on them
Recs == ndJsonDeserialize(IOEnv.TRACE_FILE)
InitRec == c \in 1..NChains /\ c <= Len(Recs)
NextRec == c + NChains <= Len(Recs) /\ c' = c + NChains
Small(x) == IF Len(x) <= 80 THEN x ELSE <<>>
ImplRec ==
    LET r == Recs[c] IN
    IF r.k = "enc" THEN
        (EncList(r.l) = r.o /\ DecList(r.o) = Valid(r.l))
        \/ PrintT(<<"@@", [id |-> r.id, why |-> {"enc"}, exp |-> Small(EncList(r.l))]>>)
    ELSE
        LET d == DecList(r.s)
            gc == IF d.ok /\ r.ctx >= 0 THEN PosCode(GetContextPos(d.tags, r.ctx)) ELSE 0
            why == (IF d.ok # r.ok THEN {"ok"} ELSE {})
                   \cup (IF d.ok /\ r.ok /\ d.tags # r.tags THEN {"tags"} ELSE {})
                   \cup (IF d.ok /\ r.ok /\ d.tags = r.tags /\ r.ctx >= 0 /\ gc # r.gc THEN {"gc"} ELSE {})
                   \* over-read: a returned tag announces more (or less) data than it holds -- the decoder went on
                   \* although the octets had run out
                   \cup (IF r.ok /\ \E i \in 1..Len(r.tags) : LET t == r.tags[i] IN
                                      IsValueTag(t) /\ ~IsBool(t) /\ t.lvt # Size(t.data) THEN {"overread"} ELSE {})
        IN  why = {} \/ PrintT(<<"@@", [id |-> r.id, why |-> why, ok |-> d.ok, canon |-> Canonical(r.s),
                                       tags |-> IF Len(r.s) <= 80 THEN d.tags ELSE <<>>, gc |-> gc]>>)
=============================================================================
