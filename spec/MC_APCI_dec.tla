----------------------------- MODULE MC_APCI_dec -----------------------------
(***************************************************************************)
(* C07, the decoder on arbitrary octet strings (model side).               *)
(*   SpecExh2  : every octet string of length 0, 1, 2          (65 793)    *)
(*   SpecAlpha : class alphabet: every class of first octet (each PDU type,*)
(*               each flag pattern, reserved bits set, undefined types)    *)
(*               followed by 0..3 octets of {0,1,127,128,255,0x75,0xF5,    *)
(*               0x0F}; the segmented first octets followed by 4 and 5     *)
(*               octets of {0,1,128,255}                       (23 475)    *)
(* Theorems: Dec is total (Err or a well-formed header), refuses exactly   *)
(* the empty / undefined-type / truncated strings, re-encodes to the input *)
(* with reserved bits cleared, and appending payload never changes a field.*)
(***************************************************************************)
EXTENDS APCI

VARIABLE s

A1 == {0, 2, 4, 8, 14, 15,   16, 31,   32,   48, 52, 56, 60, 63,   64, 65, 66, 67, 76,   80,   96,
       112, 113, 126,   128, 240, 255}
A2 == {0, 1, 127, 128, 255, 117, 245, 15}
A3 == {0, 1, 128, 255}
SegFirst == {8, 14, 15, 56, 60, 63}

InitExh2 ==
    \/ s = <<>>
    \/ \E a \in Octet : s = <<a>>
    \/ \E a \in Octet, b \in Octet : s = <<a, b>>
InitAlpha ==
    \/ \E a \in A1 : s = <<a>>
    \/ \E a \in A1, b \in A2 : s = <<a, b>>
    \/ \E a \in A1, b \in A2, c \in A2 : s = <<a, b, c>>
    \/ \E a \in A1, b \in A2, c \in A2, d \in A2 : s = <<a, b, c, d>>
    \/ \E a \in SegFirst, b \in A3, c \in A3, d \in A3, e \in A3 : s = <<a, b, c, d, e>>
    \/ \E a \in SegFirst, b \in A3, c \in A3, d \in A3, e \in A3, f \in A3 : s = <<a, b, c, d, e, f>>
Next == UNCHANGED s
SpecExh2  == InitExh2 /\ [][Next]_s
SpecAlpha == InitAlpha /\ [][Next]_s

\* minimal length by PDU type, written independently of HeaderLen
BaseLen == <<4, 2, 3, 3, 4, 3, 3, 3>>
Refused ==
    \/ Len(s) = 0
    \/ s[1] \div 16 > 7
    \/ Len(s) < BaseLen[(s[1] \div 16) + 1] + (IF s[1] \div 16 \in {0, 3} /\ (s[1] \div 8) % 2 = 1 THEN 2 ELSE 0)

DecTotal     == Dec(s) = Err \/ WF(Dec(s))
ErrIffRefused == (Dec(s) = Err) <=> Refused
ReEncode     == Dec(s) # Err => /\ Enc(Dec(s)) = Canon(s)
                                /\ Dec(Canon(s)) = Dec(s)
                                /\ Dec(s).type = CHOOSE t \in Types : TypeCode(t) = s[1] \div 16
PayloadAppends ==
    Dec(s) # Err => \A x \in {0, 255} : Dec(s \o <<x>>) = [Dec(s) EXCEPT !.data = @ \o <<x>>]
TruncationRefused ==
    \* cutting a decodable string inside its fixed header is refused, cutting it in the payload only shortens data
    Dec(s) # Err => \A n \in 0..(Len(s) - 1) :
        IF n < HeaderLen(s[1]) THEN Dec(SubSeq(s, 1, n)) = Err
        ELSE Dec(SubSeq(s, 1, n)) = [Dec(s) EXCEPT !.data = SubSeq(@, 1, n - HeaderLen(s[1]))]
=============================================================================
