--------------------------- MODULE Trace_Kernel ---------------------------
(***************************************************************************)
(* Trace validation for Kernel.tla.  Each line of TRACE_FILE is one        *)
(* execution recorded from the real task.TaskManager / core.run_once:      *)
(*   {"tid":n, "traises":[..], "fraises":[..],                             *)
(*    "evs":[{"op":"at","k":1,"a":2,"st":{...projected post-state...}}]}   *)
(* For every step TLC decides (a) conformance: is the logged post-state a  *)
(* successor of the logged pre-state under the Kernel action named by the  *)
(* event, and (b) the C14 monitors on the logged states.  One verdict      *)
(* record per trace is printed ("@@" prefix); nothing halts the run.       *)
(***************************************************************************)
EXTENDS Kernel, Json, IOUtils, TLCExt

Traces == ndJsonDeserialize(IOEnv.TRACE_FILE)
VARIABLES tid, l, rej, viol
tvars == <<tid, l, rej, viol>>
T == Traces[tid].evs
ToSet(s) == {s[i] : i \in 1..Len(s)}

TInit ==
    /\ tid \in 1..Len(Traces) /\ l = 1 /\ rej = 0 /\ viol = {}
    /\ now = 0 /\ q = <<>> /\ sched = [k \in K |-> FALSE] /\ due = [k \in K |-> NONE]
    /\ instAt = [k \in K |-> NONE]
    /\ defq = <<>> /\ out = <<>> /\ called = <<>> /\ submitted = <<>> /\ calledLog = <<>>
    /\ act = [op |-> "init", k |-> 0, a |-> 0]
    /\ TaskRaises = ToSet(Traces[tid].traises) /\ FnRaises = ToSet(Traces[tid].fraises)

Act(e) ==
    CASE e.op = "at"      -> InstallAt(e.k, e.a)
      [] e.op = "after"   -> InstallAfter(e.k, e.a)
      [] e.op = "rec"     -> InstallRec(e.k)
      [] e.op = "suspend" -> Suspend(e.k)
      [] e.op = "resume"  -> Resume(e.k)
      [] e.op = "defer"   -> Defer(e.k)
      [] e.op = "run"     -> Run(e.a)
      [] OTHER            -> FALSE

\* the projection logged by the harness after the step
Bind(e) ==
    /\ now' = e.st.now /\ q' = e.st.q /\ sched' = e.st.sched /\ due' = e.st.due /\ instAt' = e.st.instAt
    /\ defq' = e.st.defq /\ out' = e.st.out /\ called' = e.st.called /\ submitted' = e.st.submitted
    /\ calledLog' = calledLog \o e.st.called
    /\ act' = [op |-> e.op, k |-> e.k, a |-> e.a]
    /\ UNCHANGED <<TaskRaises, FnRaises>>

A_FiresOnlyScheduled == \A i \in 1..Len(out') : sched[out'[i][1]] \/ out'[i][1] \in Rec
A_FifoAmongEquals ==
    \A i, j \in 1..Len(out') :
        (i < j /\ out'[i][2] = out'[j][2] /\ out'[i][1] \notin Rec /\ out'[j][1] \notin Rec)
        => \E a, b \in 1..Len(q) : a < b /\ q[a][2] = out'[i][1] /\ q[b][2] = out'[j][1]

Failing ==
    (IF Sorted' THEN {} ELSE {"Sorted"}) \cup
    (IF AtMostOneEntryPerTask' THEN {} ELSE {"AtMostOneEntryPerTask"}) \cup
    (IF SchedIffQueued' THEN {} ELSE {"SchedIffQueued"}) \cup
    (IF NeverEarly' THEN {} ELSE {"NeverEarly"}) \cup
    (IF FireOrderTime' THEN {} ELSE {"FireOrderTime"}) \cup
    (IF FireOrderVsQueued' THEN {} ELSE {"FireOrderVsQueued"}) \cup
    (IF OncePerInstall' THEN {} ELSE {"OncePerInstall"}) \cup
    (IF RecurringSlots' THEN {} ELSE {"RecurringSlots"}) \cup
    (IF DeferredExactlyOnceInOrder' THEN {} ELSE {"DeferredExactlyOnceInOrder"}) \cup
    (IF NothingDueLeftUnlessRaise' THEN {} ELSE {"NothingDueLeftUnlessRaise"}) \cup
    (IF A_FiresOnlyScheduled THEN {} ELSE {"FiresOnlyScheduled"}) \cup
    (IF A_FifoAmongEquals THEN {} ELSE {"FifoAmongEquals"})

Step ==
    /\ l <= Len(T)
    /\ LET e == T[l] IN
        /\ Bind(e)
        /\ rej' = IF rej = 0 /\ ~ENABLED (Act(e) /\ Bind(e)) THEN l ELSE rej
        /\ viol' = viol \cup {<<m, l>> : m \in {x \in Failing : \A v \in viol : v[1] # x}}   \* first failing step per monitor
    /\ l' = l + 1 /\ UNCHANGED tid

Done ==
    /\ l = Len(T) + 1
    /\ PrintT(<<"@@", [tid |-> Traces[tid].tid, rej |-> rej, viol |-> viol]>>)
    /\ l' = l + 1 /\ UNCHANGED <<vars, tid, rej, viol>>

TNext == Step \/ Done
TSpec == TInit /\ [][TNext]_<<vars, tvars>>
=============================================================================
