--------------------------- MODULE Trace_Kernel ---------------------------
(***************************************************************************)
(* Trace validation for Kernel.tla.  Each line of TRACE_FILE is one        *)
(* execution recorded from the real task.TaskManager / core.run_once:      *)
(*   {"tid":n, "traises":[..], "fraises":[..],                             *)
(*    "evs":[{"op":"at","k":1,"a":2,"st":{...projected post-state...}}]}   *)
(* For every step TLC decides (a) conformance: is the logged post-state a  *)
(* successor of the logged pre-state under the Kernel action named by the  *)
(* event, and (b) the C14 monitors on the logged states.  One verdict      *)
(* record per trace is printed ("@@" prefix); nothing halts the run.       *)
(***************************************************************************)
EXTENDS Kernel, Json, IOUtils, TLCExt

Traces == ndJsonDeserialize(IOEnv.TRACE_FILE)
VARIABLES tid, l, rej, viol,
          gq,     \* ghost: the queue of one-shot tasks as the CALLS alone determine it (time, then order of installation);
                  \* never bound to anything the implementation logs about its heap
          gdue    \* ghost: the time of each one-shot task's last installation (what resume_task re-installs at)
tvars == <<tid, l, rej, viol, gq, gdue>>
T == Traces[tid].evs
ToSet(s) == {s[i] : i \in 1..Len(s)}

TInit ==
    /\ tid \in 1..Len(Traces) /\ l = 1 /\ rej = 0 /\ viol = {}
    /\ gq = <<>> /\ gdue = [k \in K |-> NONE]
    /\ now = 0 /\ q = <<>> /\ sched = [k \in K |-> FALSE] /\ due = [k \in K |-> NONE]
    /\ instAt = [k \in K |-> NONE]
    /\ defq = <<>> /\ out = <<>> /\ called = <<>> /\ submitted = <<>> /\ calledLog = <<>>
    /\ act = [op |-> "init", k |-> 0, a |-> 0]
    /\ TaskRaises = ToSet(Traces[tid].traises) /\ FnRaises = ToSet(Traces[tid].fraises)

Act(e) ==
    CASE e.op = "at"      -> InstallAt(e.k, e.a)
      [] e.op = "after"   -> InstallAfter(e.k, e.a)
      [] e.op = "rec"     -> InstallRec(e.k)
      [] e.op = "suspend" -> Suspend(e.k)
      [] e.op = "resume"  -> Resume(e.k)
      [] e.op = "defer"   -> Defer(e.k)
      [] e.op = "run"     -> Run(e.a)
      [] e.op = "tick"    -> Tick(e.a)
      [] OTHER            -> FALSE

\* the projection logged by the harness after the step
Bind(e) ==
    /\ now' = e.st.now /\ q' = e.st.q /\ sched' = e.st.sched /\ due' = e.st.due /\ instAt' = e.st.instAt
    /\ defq' = e.st.defq /\ out' = e.st.out /\ called' = e.st.called /\ submitted' = e.st.submitted
    /\ calledLog' = calledLog \o e.st.called
    /\ act' = [op |-> e.op, k |-> e.k, a |-> e.a]
    /\ UNCHANGED <<TaskRaises, FnRaises>>

A_FiresOnlyScheduled == \A i \in 1..Len(out') : sched[out'[i][1]] \/ out'[i][1] \in Rec
A_FifoAmongEquals ==
    \A i, j \in 1..Len(out') :
        (i < j /\ out'[i][2] = out'[j][2] /\ out'[i][1] \notin Rec /\ out'[j][1] \notin Rec)
        => \E a, b \in 1..Len(q) : a < b /\ q[a][2] = out'[i][1] /\ q[b][2] = out'[j][1]

\* ---- the ghost queue: order of firing judged against the order of the calls, not against the implementation's heap ----
Fired(e) == {e.st.out[i][1] : i \in 1..Len(e.st.out)}
GhostNext(e) ==
    CASE e.op = "at" /\ e.k \notin Rec     -> /\ gq' = Insert(Remove(gq, e.k), e.a, e.k) /\ gdue' = [gdue EXCEPT ![e.k] = e.a]
      [] e.op = "after" /\ e.k \notin Rec  -> /\ gq' = Insert(Remove(gq, e.k), now + e.a, e.k)
                                             /\ gdue' = [gdue EXCEPT ![e.k] = now + e.a]
      [] e.op = "suspend" /\ e.k \notin Rec -> gq' = Remove(gq, e.k) /\ UNCHANGED gdue
      [] e.op = "resume" /\ e.k \notin Rec /\ gdue[e.k] # NONE
                                           -> gq' = Insert(Remove(gq, e.k), gdue[e.k], e.k) /\ UNCHANGED gdue
      [] e.op = "run"                      -> gq' = SelectSeq(gq, LAMBDA x : x[2] \notin Fired(e)) /\ UNCHANGED gdue
      [] OTHER                             -> UNCHANGED <<gq, gdue>>
GPos(k) == CHOOSE j \in 1..Len(gq) : gq[j][2] = k
OneShotFired(e) == SelectSeq(e.st.out, LAMBDA x : x[1] \notin Rec)
\* a one-shot task fires only if the calls scheduled it, and not before the time the calls gave it
G_NeverEarly(e) == \A i \in 1..Len(OneShotFired(e)) :
                       \E j \in 1..Len(gq) : gq[j][2] = OneShotFired(e)[i][1] /\ gq[j][1] <= e.st.now
\* tasks fired in one pass fire in the order of their times, and among equal times in the order the calls installed them
G_FireOrder(e) == LET o == OneShotFired(e) IN
                  \A i, j \in 1..Len(o) : (i < j /\ InQ(gq, o[i][1]) /\ InQ(gq, o[j][1]) /\ o[i][1] # o[j][1])
                                               => GPos(o[i][1]) < GPos(o[j][1])
\* unless something raised, nothing the calls made due is left behind by a pass
G_NothingDueLeft(e) ==
    (e.op = "run" /\ (\A i \in 1..Len(e.st.out) : e.st.out[i][1] \notin TaskRaises)
                  /\ (\A i \in 1..Len(e.st.called) : e.st.called[i] \notin FnRaises))
        => \A j \in 1..Len(gq) : gq[j][1] <= e.st.now => gq[j][2] \in Fired(e)
GhostFailing(e) ==
    (IF G_NeverEarly(e) THEN {} ELSE {"NeverEarly"}) \cup
    (IF G_FireOrder(e) THEN {} ELSE {"FifoAmongEquals"}) \cup
    (IF G_NothingDueLeft(e) THEN {} ELSE {"NothingDueLeftUnlessRaise"})

Failing ==
    (IF Sorted' THEN {} ELSE {"Sorted"}) \cup
    (IF AtMostOneEntryPerTask' THEN {} ELSE {"AtMostOneEntryPerTask"}) \cup
    (IF SchedIffQueued' THEN {} ELSE {"SchedIffQueued"}) \cup
    (IF NeverEarly' THEN {} ELSE {"NeverEarly"}) \cup
    (IF FireOrderTime' THEN {} ELSE {"FireOrderTime"}) \cup
    (IF FireOrderVsQueued' THEN {} ELSE {"FireOrderVsQueued"}) \cup
    (IF OncePerInstall' THEN {} ELSE {"OncePerInstall"}) \cup
    (IF RecurringSlots' THEN {} ELSE {"RecurringSlots"}) \cup
    (IF DeferredExactlyOnceInOrder' THEN {} ELSE {"DeferredExactlyOnceInOrder"}) \cup
    (IF NothingDueLeftUnlessRaise' THEN {} ELSE {"NothingDueLeftUnlessRaise"}) \cup
    (IF A_FiresOnlyScheduled THEN {} ELSE {"FiresOnlyScheduled"}) \cup
    (IF A_FifoAmongEquals THEN {} ELSE {"FifoAmongEquals"})

Step ==
    /\ l <= Len(T)
    /\ LET e == T[l] IN
        /\ Bind(e)
        /\ rej' = IF rej = 0 /\ ~ENABLED (Act(e) /\ Bind(e)) THEN l ELSE rej
        /\ viol' = viol \cup {<<m, l>> : m \in {x \in Failing \cup GhostFailing(e) : \A v \in viol : v[1] # x}}   \* first failing step per monitor
        /\ GhostNext(e)
    /\ l' = l + 1 /\ UNCHANGED tid

Done ==
    /\ l = Len(T) + 1
    /\ PrintT(<<"@@", [tid |-> Traces[tid].tid, rej |-> rej, viol |-> viol]>>)
    /\ l' = l + 1 /\ UNCHANGED <<vars, tid, rej, viol, gq, gdue>>

TNext == Step \/ Done
TSpec == TInit /\ [][TNext]_<<vars, tvars>>
=============================================================================
