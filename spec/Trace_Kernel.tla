--------------------------- MODULE Trace_Kernel ---------------------------
(***************************************************************************)
(* Trace validation for Kernel.tla.  Each line of TRACE_FILE is one        *)
(* execution recorded from the real task.TaskManager / core.run_once:      *)
(*   {"tid":n, "traises":[..], "fraises":[..],                             *)
(*    "evs":[{"op":"at","k":1,"a":2,"st":{...projected post-state...}}]}   *)
(* For every step TLC decides (a) conformance: is the logged post-state a  *)
(* successor of the logged pre-state under the Kernel action named by the  *)
(* event, and (b) the C14 monitors on the logged states.  One verdict      *)
(* record per trace is printed ("@@" prefix); nothing halts the run.       *)
(***************************************************************************)
EXTENDS Kernel, Json, IOUtils, TLCExt

Traces == ndJsonDeserialize(IOEnv.TRACE_FILE)
VARIABLES tid, l, rej, viol,
          gq,     \* ghost: the queue of one-shot tasks as the CALLS alone determine it (time, then order of installation);
                  \* never bound to anything the implementation logs about its heap
          gdue,   \* ghost: the time of each one-shot task's last installation (what resume_task re-installs at)
          goff    \* ghost: the offset each recurring task was last installed with, according to the calls
tvars == <<tid, l, rej, viol, gq, gdue, goff>>
T == Traces[tid].evs
ToSet(s) == {s[i] : i \in 1..Len(s)}

TInit ==
    /\ tid \in 1..Len(Traces) /\ l = 1 /\ rej = 0 /\ viol = {}
    /\ gq = <<>> /\ gdue = [k \in K |-> NONE] /\ goff = [k \in K |-> IF k \in Rec THEN Offset[k] ELSE 0]
    /\ off = [k \in K |-> IF k \in Rec THEN Offset[k] ELSE 0]
    /\ now = 0 /\ q = <<>> /\ sched = [k \in K |-> FALSE] /\ due = [k \in K |-> NONE]
    /\ instAt = [k \in K |-> NONE]
    /\ defq = <<>> /\ out = <<>> /\ called = <<>> /\ submitted = <<>> /\ calledLog = <<>>
    /\ act = [op |-> "init", k |-> 0, a |-> 0]
    /\ TaskRaises = ToSet(Traces[tid].traises) /\ FnRaises = ToSet(Traces[tid].fraises)
    /\ mgr = Traces[tid].mgr0 /\ early = <<>>

Act(e) ==
    CASE e.op = "at"      -> IF mgr THEN InstallAt(e.k, e.a) ELSE EarlyAt(e.k, e.a)
      [] e.op = "after"   -> InstallAfter(e.k, e.a)
      [] e.op = "rec"     -> IF mgr THEN InstallRec(e.k) ELSE EarlyRec(e.k)
      [] e.op = "reoff"   -> InstallRecOff(e.k, e.a)
      [] e.op = "start"   -> Start
      [] e.op = "suspend" -> IF mgr THEN Suspend(e.k) ELSE EarlySuspend(e.k)
      [] e.op = "resume"  -> Resume(e.k)
      [] e.op = "defer"   -> Defer(e.k)
      [] e.op = "run"     -> Run(e.a)
      [] e.op = "tick"    -> Tick(e.a)
      [] OTHER            -> FALSE

\* the projection logged by the harness after the step
Bind(e) ==
    /\ now' = e.st.now /\ q' = e.st.q /\ sched' = e.st.sched /\ due' = e.st.due /\ instAt' = e.st.instAt
    /\ defq' = e.st.defq /\ out' = e.st.out /\ called' = e.st.called /\ submitted' = e.st.submitted
    /\ calledLog' = calledLog \o e.st.called
    /\ act' = [op |-> e.op, k |-> e.k, a |-> e.a]
    /\ UNCHANGED <<TaskRaises, FnRaises>>
    /\ mgr' = e.st.mgr /\ early' = e.st.early /\ off' = e.st.off

A_FiresOnlyScheduled == \A i \in 1..Len(out') : sched[out'[i][1]] \/ out'[i][1] \in Rec
A_FifoAmongEquals ==
    \A i, j \in 1..Len(out') :
        (i < j /\ out'[i][2] = out'[j][2] /\ out'[i][1] \notin Rec /\ out'[j][1] \notin Rec)
        => \E a, b \in 1..Len(q) : a < b /\ q[a][2] = out'[i][1] /\ q[b][2] = out'[j][1]

\* ---- the ghost queue: order of firing judged against the order of the calls, not against the implementation's heap ----
\* gq holds every scheduled task as the CALLS (and what fired tasks are known to do) determine it: sorted by time, then by
\* order of installation.  A pass is walked task by task: each fired task must be the head of the ghost queue and due; it is
\* taken off, re-armed if recurring, and its effect on another task (TaskDoes) is applied -- so a task that an earlier task of
\* the same pass suspended or moved must not fire from a stale copy.
Fired(e) == {e.st.out[i][1] : i \in 1..Len(e.st.out)}
GEffect(g, k, n) ==
    LET a == TaskDoes[k] IN
    CASE a[1] = "suspend" -> Remove(g, a[2])
      [] a[1] = "at"      -> Insert(Remove(g, a[2]), n + a[3], a[2])
      [] OTHER            -> g
RECURSIVE Walk(_, _, _, _)
Walk(g, o, i, n) ==
    IF i > Len(o) THEN [why |-> "", g |-> g]
    ELSE LET k == o[i][1] IN
         IF ~InQ(g, k) THEN [why |-> "FiresOnlyScheduled", g |-> g]
         ELSE LET pos == CHOOSE j \in 1..Len(g) : g[j][2] = k IN
              IF g[pos][1] > n THEN [why |-> "NeverEarly", g |-> g]
              ELSE IF pos # 1 THEN [why |-> IF g[1][1] = g[pos][1] THEN "FifoAmongEquals" ELSE "FireOrderTime", g |-> g]
              ELSE LET g1 == Tail(g)
                       \* (a recurring task that raises is not re-armed: TaskManager.process_task re-installs it after
                       \*  the task's own process_task has returned)
                       g2 == IF k \in Rec /\ k \notin TaskRaises THEN Insert(g1, NextSlot(n, Interval[k], goff[k]), k) ELSE g1
                       g3 == IF k \in TaskRaises THEN g2 ELSE GEffect(g2, k, n)
                   IN  Walk(g3, o, i + 1, n)
GWalk(e) == Walk(gq, e.st.out, 1, e.st.now)
GhostNext(e) ==
    CASE e.op = "at"      -> /\ gq' = Insert(Remove(gq, e.k), e.a, e.k) /\ gdue' = [gdue EXCEPT ![e.k] = e.a]
      [] e.op = "after"   -> /\ gq' = Insert(Remove(gq, e.k), now + e.a, e.k) /\ gdue' = [gdue EXCEPT ![e.k] = now + e.a]
      [] e.op = "rec"     -> LET t == NextSlot(now, Interval[e.k], goff[e.k]) IN
                             /\ gq' = Insert(Remove(gq, e.k), t, e.k) /\ gdue' = [gdue EXCEPT ![e.k] = t]
      [] e.op = "reoff"   -> LET t == NextSlot(now, Interval[e.k], e.a) IN
                             /\ gq' = Insert(Remove(gq, e.k), t, e.k) /\ gdue' = [gdue EXCEPT ![e.k] = t]
      [] e.op = "suspend" -> gq' = Remove(gq, e.k) /\ UNCHANGED gdue
      [] e.op = "resume" /\ gdue[e.k] # NONE
                          -> gq' = Insert(Remove(gq, e.k), gdue[e.k], e.k) /\ UNCHANGED gdue
      [] e.op = "run"     -> LET w == GWalk(e)
                                 n == e.st.now
                                 movers(j) == {k \in Fired(e) \ TaskRaises : TaskDoes[k][1] = "at" /\ TaskDoes[k][2] = j}
                             IN
                             \* (after a failed walk the ghost follows the implementation's word on what fired)
                             /\ gq' = IF w.why = "" THEN w.g ELSE SelectSeq(gq, LAMBDA x : x[2] \notin Fired(e))
                             /\ gdue' = [j \in K |-> IF movers(j) # {} THEN n + TaskDoes[CHOOSE k \in movers(j) : TRUE][3]
                                                      ELSE IF j \in Rec /\ j \in Fired(e) \ TaskRaises THEN NextSlot(n, Interval[j], goff[j])
                                                      ELSE gdue[j]]
      [] OTHER            -> UNCHANGED <<gq, gdue>>
\* unless something raised, nothing the calls made due is left behind by a pass
G_NothingDueLeft(e) ==
    (e.op = "run" /\ GWalk(e).why = ""
                  /\ (\A i \in 1..Len(e.st.out) : e.st.out[i][1] \notin TaskRaises)
                  /\ (\A i \in 1..Len(e.st.called) : e.st.called[i] \notin FnRaises))
        => \A j \in 1..Len(GWalk(e).g) : GWalk(e).g[j][1] > e.st.now
GhostFailing(e) ==
    (IF e.op = "run" /\ GWalk(e).why # "" THEN {GWalk(e).why} ELSE {}) \cup
    (IF G_NothingDueLeft(e) THEN {} ELSE {"NothingDueLeftUnlessRaise"})

Failing ==
    (IF Sorted' THEN {} ELSE {"Sorted"}) \cup
    (IF AtMostOneEntryPerTask' THEN {} ELSE {"AtMostOneEntryPerTask"}) \cup
    (IF SchedIffQueued' THEN {} ELSE {"SchedIffQueued"}) \cup
    (IF NeverEarly' THEN {} ELSE {"NeverEarly"}) \cup
    (IF FireOrderTime' THEN {} ELSE {"FireOrderTime"}) \cup
    (IF FireOrderVsQueued' THEN {} ELSE {"FireOrderVsQueued"}) \cup
    (IF OncePerInstall' THEN {} ELSE {"OncePerInstall"}) \cup
    (IF RecurringSlots' THEN {} ELSE {"RecurringSlots"}) \cup
    (IF DeferredExactlyOnceInOrder' THEN {} ELSE {"DeferredExactlyOnceInOrder"}) \cup
    (IF NothingDueLeftUnlessRaise' THEN {} ELSE {"NothingDueLeftUnlessRaise"}) \cup
    (IF A_FiresOnlyScheduled THEN {} ELSE {"FiresOnlyScheduled"}) \cup
    (IF A_FifoAmongEquals THEN {} ELSE {"FifoAmongEquals"})

Step ==
    /\ l <= Len(T)
    /\ LET e == T[l] IN
        /\ Bind(e)
        /\ rej' = IF rej = 0 /\ ~ENABLED (Act(e) /\ Bind(e)) THEN l ELSE rej
        /\ viol' = viol \cup {<<m, l>> : m \in {x \in Failing \cup GhostFailing(e) : \A v \in viol : v[1] # x}}   \* first failing step per monitor
        /\ GhostNext(e)
        /\ goff' = IF e.op = "reoff" THEN [goff EXCEPT ![e.k] = e.a] ELSE goff
    /\ l' = l + 1 /\ UNCHANGED tid

Done ==
    /\ l = Len(T) + 1
    /\ PrintT(<<"@@", [tid |-> Traces[tid].tid, rej |-> rej, viol |-> viol]>>)
    /\ l' = l + 1 /\ UNCHANGED <<vars, tid, rej, viol, gq, gdue, goff>>

TNext == Step \/ Done
TSpec == TInit /\ [][TNext]_<<vars, tvars>>
=============================================================================
