\* the behaviour of the pinned tree (all named deviations on): TLC must report SingleFaultRepaired violated
SPECIFICATION Spec
CONSTANTS
  NQ = 3
  NR = 3
  RK = "ack"
  PWC = 2
  PWS = 2
  Retries = 1
  Tapdu = 6
  Tseg = 1
  Tapp = 3
  AppDelay = 0
  DelayBy = 1
  SeqMod = 256
  MaxDrop = 1
  MaxDup = 0
  MaxDelay = 0
  MaxNow = 1000000
  MaxShrink = 0
  RecvMult = 1
  ResendSeg0OnNoWin = FALSE
  IndexFromSeq = TRUE
  IgnoreStaleAck = FALSE
  FinalAckAnyInWindow = TRUE
  EchoClientAbort = TRUE
  IdleAcceptsAnySeq = TRUE
INVARIANT AtMostOneOutcome
INVARIANT ExactlyOneAtQuiescence
INVARIANT OutcomeKind
INVARIANT NoResidue
INVARIANT BoundedTime
INVARIANT ResponseIntegrity
INVARIANT RequestIntegrity
INVARIANT MoreFollows
INVARIANT SeqMatchesIndex
INVARIANT WindowBound
INVARIANT WindowRange
INVARIANT ClientRxIsPrefix
INVARIANT SingleFaultRepaired
PROPERTY SilenceAfterOutcome
PROPERTY AbortOnlyAfterAllRetries
PROPERTY NoDoubleIndicationWhileBusy
PROPERTY WindowRespectsAck
CHECK_DEADLOCK FALSE
