---- MODULE MC_Kernel_a ----
\* one-shot tasks with colliding times, a raising task, a task that defers, raising / deferring functions
EXTENDS Kernel
c_Interval == <<>>
c_Offset == <<>>
c_TaskDefers == <<0, 0, 1>>
c_FnDefers == <<3, 0, 0>>
====
