------------------------------ MODULE MC_APCI ------------------------------
(***************************************************************************)
(* C07, spec -> code grid.  One TLC state per header record:               *)
(*   - per PDU type the full cross product of its flag bits, the 8 x 16    *)
(*     code points of max-segments / max-APDU-length and the boundary      *)
(*     values {0,1,127,128,255} of every octet field;                      *)
(*     Full = FALSE replaces the 5^4 product of the four octet fields of a *)
(*     *segmented* ConfirmedRequest by a strength-2 orthogonal array of 25 *)
(*     rows (every pair of values of every two fields), all else unchanged *)
(*   - TLC checks  Dec(Enc(c)) = c,  the header length / type nibble /     *)
(*     reserved-bits-zero layout facts, and well-formedness of the case;   *)
(*   - Emit (an always-true INVARIANT with a side effect) appends one line  *)
(*     {c: case, o: Enc(case)} per state to $OUT_FILE for the harness.     *)
(***************************************************************************)
EXTENDS APCI, Json, IOUtils, CSV

CONSTANT Full
VARIABLE c

BV  == <<0, 1, 127, 128, 255>>
BVS == {BV[i] : i \in 1..5}
Payloads == << <<>>, <<0>>, <<255, 128>>, <<12, 2, 0, 0, 8, 25, 85>> >>
PaySet   == {Payloads[i] : i \in 1..4}
Pay(n)   == Payloads[(n % 4) + 1]

Quads == IF Full THEN BVS \X BVS \X BVS \X BVS
         ELSE {<<BV[i + 1], BV[j + 1], BV[((i + j) % 5) + 1], BV[((i + 2 * j) % 5) + 1]>> : i \in 0..4, j \in 0..4}

\* (written as a disjunction of \E so that TLC enumerates the grid state by state instead of first building
\*  and normalising one big constant set of records)
Init ==
    \/ \E m \in BOOLEAN, a \in BOOLEAN, ms \in SegCodes, mr \in ApduCodes, i \in BVS, sv \in BVS :
          c = [type |-> "ConfirmedRequest", seg |-> FALSE, mor |-> m, sa |-> a, maxsegs |-> ms, maxresp |-> mr,
               invoke |-> i, seq |-> NONE, win |-> NONE, service |-> sv, data |-> Pay(ms + mr + i + sv)]
    \/ \E m \in BOOLEAN, a \in BOOLEAN, ms \in SegCodes, mr \in ApduCodes, q \in Quads :
          c = [type |-> "ConfirmedRequest", seg |-> TRUE, mor |-> m, sa |-> a, maxsegs |-> ms, maxresp |-> mr,
               invoke |-> q[1], seq |-> q[2], win |-> q[3], service |-> q[4],
               data |-> Pay(ms + mr + q[1] + q[2] + q[3] + q[4])]
    \/ \E sv \in BVS, d \in PaySet :
          c = [type |-> "UnconfirmedRequest", service |-> sv, data |-> d]
    \/ \E i \in BVS, sv \in BVS :
          c = [type |-> "SimpleAck", invoke |-> i, service |-> sv, data |-> <<>>]
    \/ \E m \in BOOLEAN, i \in BVS, sv \in BVS, d \in PaySet :
          c = [type |-> "ComplexAck", seg |-> FALSE, mor |-> m, invoke |-> i, seq |-> NONE, win |-> NONE,
               service |-> sv, data |-> d]
    \/ \E m \in BOOLEAN, i \in BVS, sq \in BVS, w \in BVS, sv \in BVS, d \in PaySet :
          c = [type |-> "ComplexAck", seg |-> TRUE, mor |-> m, invoke |-> i, seq |-> sq, win |-> w,
               service |-> sv, data |-> d]
    \/ \E n \in BOOLEAN, s \in BOOLEAN, i \in BVS, sq \in BVS, w \in BVS :
          c = [type |-> "SegmentAck", nak |-> n, srv |-> s, invoke |-> i, seq |-> sq, win |-> w, data |-> <<>>]
    \/ \E i \in BVS, sv \in BVS, d \in PaySet :
          c = [type |-> "Error", invoke |-> i, service |-> sv, data |-> d]
    \/ \E i \in BVS, rs \in BVS :
          c = [type |-> "Reject", invoke |-> i, reason |-> rs, data |-> <<>>]
    \/ \E s \in BOOLEAN, i \in BVS, rs \in BVS :
          c = [type |-> "Abort", srv |-> s, invoke |-> i, reason |-> rs, data |-> <<>>]
Next == UNCHANGED c
Spec == Init /\ [][Next]_c

CaseWellFormed == Standard(c)
RoundTrip      == Dec(Enc(c)) = c
Layout ==
    LET o == Enc(c) IN
    /\ \A i \in 1..Len(o) : o[i] \in Octet
    /\ o[1] \div 16 = TypeCode(c.type)
    /\ Len(o) = HeaderLen(o[1]) + Len(c.data)
    /\ Canon(o) = o                                 \* reserved bits are zero
    /\ Rest(o, HeaderLen(o[1]) + 1) = c.data        \* payload untouched, at the end

\* always TRUE; side effect: one ndjson line {"c": case, "o": Enc(case)} appended to $OUT_FILE per state
Emit == CSVWrite("%1$s", <<ToJson([c |-> c, o |-> Enc(c)])>>, IOEnv.OUT_FILE)
=============================================================================
