----------------------------- MODULE MC_Binding -----------------------------
(***************************************************************************)
(* X02, spec -> code grid (TLC as a function evaluator).  One TLC state =  *)
(* one case on the grid LAN (five devices with the instances 0, 1, 1000,   *)
(* 4194302, 4194303, different configurations and object tables):          *)
(*   Who-Is   every pair (lo, hi) of  absent / 0 / i-1 / i / i+1 / 4194303 *)
(*            / 4194304 / 2^31-1  for the five instances i, broadcast;     *)
(*            a sub-grid also as global broadcast and unicast              *)
(*   Who-Has  targets (by identifier / by name: in one device, in several, *)
(*            in none, same identifier other name, same name other         *)
(*            identifier, device objects, unknown type, case variants)     *)
(*            x device ranges (absent, around each instance, malformed)    *)
(*   I-Am     received by a client that knows nothing / knows the instance *)
(*            at another address / knows another instance at the address:  *)
(*            all subsets of missing parameters, instance and segmentation *)
(*            at and beyond their limits                                   *)
(* TLC checks facts about the operators on every case and emits            *)
(* {q, lan, objs, exp} (exp[d] = messages device d has to send) resp.      *)
(* {q, known0, exp_known} to $OUT_FILE.                                    *)
(***************************************************************************)
EXTENDS Binding, Json, IOUtils, CSV

Big == 2147483647
GridLan == [client |-> 200, devs |-> <<
    [addr |-> 11, inst |-> 0,       name |-> "dev-zero",  maxapdu |-> 50,   seg |-> 3, vendor |-> 0],
    [addr |-> 12, inst |-> 1,       name |-> "dev-one",   maxapdu |-> 128,  seg |-> 1, vendor |-> 15],
    [addr |-> 13, inst |-> 1000,    name |-> "dev-1000",  maxapdu |-> 480,  seg |-> 2, vendor |-> 999],
    [addr |-> 14, inst |-> 4194302, name |-> "dev-max-1", maxapdu |-> 1024, seg |-> 0, vendor |-> 65535],
    [addr |-> 15, inst |-> 4194303, name |-> "dev-max",   maxapdu |-> 1476, seg |-> 0, vendor |-> 260] >>]
O(t, i, n) == [t |-> t, i |-> i, n |-> n]
AV == 2
BV == 5
MSV == 19
GridObjs == <<
    {O(AV, 1, "temp"), O(BV, 1, "fan")},
    {O(AV, 1, "temp"), O(AV, 2, "flow")},
    {O(AV, 1, "zone-temp"), O(BV, 1, "temp")},
    {},
    {O(AV, 4194302, "edge"), O(MSV, 0, "TEMP"), O(AV, 0, "dev-zero")} >>

Bounds == {0, 1, 2, 999, 1000, 1001, 4194301, 4194302, 4194303, 4194304, Big}
Lims   == {NONE} \cup Bounds

WhoIs(to, lo, hi) == [kind |-> "whois", to |-> to, lo |-> lo, hi |-> hi, by |-> "-", t |-> 0, i |-> 0, n |-> ""]
ById(to, lo, hi, t, i)  == [kind |-> "whohas", to |-> to, lo |-> lo, hi |-> hi, by |-> "id", t |-> t, i |-> i, n |-> ""]
ByName(to, lo, hi, n)   == [kind |-> "whohas", to |-> to, lo |-> lo, hi |-> hi, by |-> "name", t |-> 0, i |-> 0, n |-> n]
U(a) == [k |-> "u", a |-> a]
Dests == {LB, GB, U(11), U(13), U(15), U(99)}

SubRanges == { <<NONE, NONE>>, <<0, 4194303>>, <<1, 1000>>, <<1000, 1000>>, <<1001, 4194302>>, <<4194303, 4194303>>,
               <<5, NONE>>, <<1000, 999>> }
HasRanges == { <<NONE, NONE>>, <<0, 0>>, <<0, 1>>, <<1, 1000>>, <<1000, 4194303>>, <<0, 4194303>>, <<2, 999>>,
               <<4194303, 4194303>>, <<1001, 4194302>>,
               <<NONE, 5>>, <<5, NONE>>, <<1000, 1>>, <<0, 4194304>>, <<4194304, 4194304>> }
Ids   == { <<AV, 1>>, <<AV, 2>>, <<BV, 1>>, <<AV, 3>>, <<AV, 0>>, <<DeviceType, 0>>, <<DeviceType, 1000>>,
           <<DeviceType, 4194303>>, <<DeviceType, 5>>, <<AV, 4194302>>, <<AV, 4194303>>, <<MSV, 0>>, <<200, 1>> }
Names == { "temp", "TEMP", "Temp", "flow", "fan", "zone-temp", "edge", "nothing", "dev-zero", "dev-1000", "dev-max", "" }

WhoIsCases  == {WhoIs(LB, lo, hi) : lo \in Lims, hi \in Lims}
               \cup {WhoIs(to, r[1], r[2]) : to \in Dests, r \in SubRanges}
WhoHasCases == {ById(LB, r[1], r[2], x[1], x[2]) : r \in HasRanges, x \in Ids}
               \cup {ByName(LB, r[1], r[2], n) : r \in HasRanges, n \in Names}
               \cup {ById(to, 0, 1000, AV, 1) : to \in Dests} \cup {ByName(to, NONE, NONE, "temp") : to \in Dests}

\* ---- I-Am reception cases
IAm(dt, inst, ma, sg, v) == [svc |-> "iam", dt |-> dt, inst |-> inst, maxapdu |-> ma, seg |-> sg, vendor |-> v]
Opt(present, v) == IF present THEN v ELSE NONE
IAmMsgs ==
    \* every subset of missing parameters (identifier, max APDU, segmentation, vendor)
    {IAm(Opt(a, DeviceType), Opt(a, 1000), Opt(b, 480), Opt(c, 3), Opt(d, 15)) : a, b, c, d \in BOOLEAN}
    \* instance x segmentation at and beyond the limits
    \cup {IAm(DeviceType, i, 1024, s, 999) : i \in {0, 1000, 4194302, 4194303, 4194304}, s \in {0, 1, 2, 3, 4, 5, 255}}
    \* the rest of the contents (within X02's notion of a good I-Am; some are not StrictIAm)
    \cup {IAm(dt, 1000, ma, 0, v) : dt \in {DeviceType, AV}, ma \in {0, 49, 50, 1476, 65535}, v \in {0, 65535, 65536}}
Known0 == << {},
             {[inst |-> 1000, addr |-> 44, maxapdu |-> 206, seg |-> 1, vendor |-> 7]},     \* known at another address
             {[inst |-> 77, addr |-> 33, maxapdu |-> 206, seg |-> 1, vendor |-> 7]},       \* the address is known for another instance
             {[inst |-> 1000, addr |-> 44, maxapdu |-> 206, seg |-> 1, vendor |-> 7],
              [inst |-> 77, addr |-> 33, maxapdu |-> 206, seg |-> 1, vendor |-> 7]} >>
IAmCases == {[kind |-> "rogue", a |-> 33, m |-> m] : m \in IAmMsgs}

CONSTANT Part        \* "whois" | "whohas" | "iam" | "all"
Cases == (IF Part \in {"whois", "all"} THEN WhoIsCases ELSE {})
         \cup (IF Part \in {"whohas", "all"} THEN WhoHasCases ELSE {})

GInit ==
    /\ lan = GridLan /\ objs = GridObjs /\ delivered = {} /\ wire = <<>> /\ got = <<>> /\ ops = 0
    /\ \/ req \in Cases /\ known = {}
       \/ Part \in {"iam", "all"} /\ req \in IAmCases /\ \E k \in 1..Len(Known0) : known = Known0[k]
GNext == UNCHANGED vars
GSpec == GInit /\ [][GNext]_vars

----------------------------------------------------------------------------
\* facts about the operators, checked on every case
IsQuery == req.kind \in {"whois", "whohas"}
CaseWF  == LanWF(lan, objs)
AtMostOneAnswer == \A d \in D : Cardinality(Expected(req, d)) <= 1
MalformedIsSilent ==
    IsQuery => (~LimitsWF(req.lo, req.hi) => \A d \in D : Expected(req, d) = {})
NoRangeAllAnswer ==
    (req.kind = "whois" /\ req.lo = NONE /\ req.hi = NONE) => \A d \in D : Receives(req, d) <=> Expected(req, d) # {}
InclusiveLimits ==
    req.kind = "whois" =>
        \A d \in D : (Receives(req, d) /\ LimitsWF(req.lo, req.hi) /\ (req.lo = Cfg(d).inst \/ req.hi = Cfg(d).inst))
                        => Expected(req, d) = {IAmOf(Cfg(d))}
\* widening a range never loses an answer
Monotone ==
    req.kind = "whois" =>
        \A w \in WhoIsCases :
            (w.to = req.to /\ WellFormedWhoIs(w) /\ WellFormedWhoIs(req) /\ req.lo # NONE /\ w.lo # NONE
                /\ w.lo <= req.lo /\ req.hi <= w.hi)
            => \A d \in D : Expected(req, d) \subseteq Expected(w, d)
OnlyReceiversAnswer == IsQuery => \A d \in D : ~Receives(req, d) => Expected(req, d) = {}
IHaveNamesTheObject ==
    req.kind = "whohas" =>
        \A d \in D : \A m \in Expected(req, d) :
            /\ m.svc = "ihave" /\ m.dt = DeviceType /\ m.inst = Cfg(d).inst
            /\ [t |-> m.t, i |-> m.i, n |-> m.n] \in AllObjs(Cfg(d), objs[d])
            /\ IF req.by = "id" THEN m.t = req.t /\ m.i = req.i ELSE m.n = req.n
IAmEffectFacts ==
    req.kind = "rogue" =>
        LET k2 == IAmEffect(known, req.m, req.a) IN
        /\ \A k \in k2 : 0 <= k.inst /\ k.inst <= MaxInst /\ k.seg \in 0..3
        /\ WellFormedIAm(req.m) => Binding(req.m, req.a) \in k2 /\ Cardinality({k \in k2 : k.inst = req.m.inst}) = 1
        /\ ~WellFormedIAm(req.m) => k2 = known

\* always TRUE; side effect: one ndjson line per state
RECURSIVE AsSeq(_)
AsSeq(S) == IF S = {} THEN <<>> ELSE LET x == CHOOSE y \in S : TRUE IN <<x>> \o AsSeq(S \ {x})
Emit ==
    IF IsQuery
    THEN CSVWrite("%1$s", <<ToJson([q |-> req, lan |-> lan, objs |-> [d \in D |-> AsSeq(objs[d])],
                                    exp |-> [d \in D |-> AsSeq(Expected(req, d))]])>>, IOEnv.OUT_FILE)
    ELSE CSVWrite("%1$s", <<ToJson([q |-> req, lan |-> lan, known0 |-> AsSeq(known),
                                    wf |-> WellFormedIAm(req.m), strict |-> StrictIAm(req.m), dec |-> Decodable(req.m),
                                    exp_known |-> AsSeq(IAmEffect(known, req.m, req.a))])>>, IOEnv.OUT_FILE)
=============================================================================
