SPECIFICATION Spec
CONSTANT MaxCap = 2000
INVARIANT SegRoundDown
INVARIANT ApduRoundDown
INVARIANT NeverUp
INVARIANT Tight
INVARIANT Range
INVARIANT Monotonic
INVARIANT Idempotent
CHECK_DEADLOCK FALSE
