------------------------------ MODULE Schedule ------------------------------
(***************************************************************************)
(* The BACnet Schedule object (ANSI/ASHRAE 135 clause 12.24) as a function *)
(* of (configuration, date, time) plus the timer machine that keeps a      *)
(* schedule object's Present_Value current.  Code anchor:                  *)
(* bacpypes/local/schedule.py LocalScheduleInterpreter.eval / process_task *)
(* - but Value is written from the rule of 12.24.4, not from eval's loops. *)
(*                                                                         *)
(* A configuration is a record                                             *)
(*   eff     [s |-> bound, e |-> bound]     Effective_Period (Calendar!MatchRange bounds)   *)
(*   weekly  <<l1, .., l7>>                 Weekly_Schedule, Monday = 1; li = sequence of <<time, value>>  *)
(*   exc     sequence of [period, prio, tvs]  Exception_Schedule; prio 1 (highest) .. 16; tvs as above     *)
(*           period = [kind |-> "date"|"range"|"wnd"|"cal", p, s, e, id]  (calendar entry or Calendar object id)*)
(*   cals    sequence of date lists         the Calendar objects that periods of kind "cal" refer to by index *)
(*   default                                Schedule_Default                                 *)
(* Times of day are hundredths of a second 0 .. Midnight-1; time-value     *)
(* lists are in chronological order with distinct times.  Values are       *)
(* positive integers; NULL is the relinquish entry.                        *)
(***************************************************************************)
EXTENDS Calendar, TLC

NULL == 0               \* a BACnet Null in a time-value: "relinquish"
NOVAL == -1             \* no scheduled value: the date is outside the effective period
Midnight == 8640000     \* 24:00:00.00 = 00:00 of the next day

MinOf(S) == CHOOSE x \in S : \A y \in S : x <= y
Times(tvs) == {tvs[i][1] : i \in 1..Len(tvs)}

\* 12.24.4: "the method for evaluating the current value of a schedule (either exception or weekly) is to find the latest
\* element in the list of BACnetTimeValues that occurs on or before the current time, and then use that element's value
\* as the current value for the schedule.  If no such element is found, then the current value shall be NULL."
Current(tvs, t) ==
    LET S == {i \in 1..Len(tvs) : tvs[i][1] <= t}
    IN  IF S = {} THEN NULL
        ELSE tvs[CHOOSE i \in S : \A j \in S : tvs[j][1] < tvs[i][1] \/ (tvs[j][1] = tvs[i][1] /\ j <= i)][2]

\* (the D-variants carry the named deviation of Calendar!MatchRangeD; dev = FALSE is the property)
InPeriodD(dev, cfg, date) == MatchRangeD(dev, date, cfg.eff.s, cfg.eff.e)
InPeriod(cfg, date) == InPeriodD(FALSE, cfg, date)

PeriodInEffectD(dev, cfg, per, date) ==
    IF per.kind = "cal" THEN InDateListD(dev, date, cfg.cals[per.id]) ELSE InCalendarEntryD(dev, date, per)

\* the exceptions in force on a date (indices into cfg.exc)
InForceD(dev, cfg, date) == {i \in 1..Len(cfg.exc) : PeriodInEffectD(dev, cfg, cfg.exc[i].period, date)}
InForce(cfg, date) == InForceD(FALSE, cfg, date)

\* The property leaves the order among exceptions of equal priority that are in force on the same day open;
\* the value monitors are only applied to days on which this predicate holds.
TieFree(cfg, date) == \A i, j \in InForce(cfg, date) : i # j => cfg.exc[i].prio # cfg.exc[j].prio

\* everything about one day that does not depend on the time of day
PlanD(dev, cfg, date) ==
    [inp |-> InPeriodD(dev, cfg, date), force |-> InForceD(dev, cfg, date), wk |-> cfg.weekly[DayOfWeek(date)]]
Plan(cfg, date) == PlanD(FALSE, cfg, date)

\* exceptions in force whose current value is not NULL, and the one of them that wins
Live(cfg, plan, t) == {i \in plan.force : Current(cfg.exc[i].tvs, t) # NULL}
Best(cfg, S) == CHOOSE i \in S : \A j \in S : cfg.exc[i].prio < cfg.exc[j].prio \/ (cfg.exc[i].prio = cfg.exc[j].prio /\ i <= j)

\* 12.24.4 steps 1-3
ValueP(cfg, plan, t) ==
    IF ~plan.inp THEN NOVAL
    ELSE LET live == Live(cfg, plan, t)
         IN  IF live # {} THEN Current(cfg.exc[Best(cfg, live)].tvs, t)
             ELSE LET c == Current(plan.wk, t) IN IF c # NULL THEN c ELSE cfg.default

Value(cfg, date, t) == ValueP(cfg, Plan(cfg, date), t)

\* Instants of the day at which the value CAN change as seen from time t: the entries of the exceptions in force that are
\* not outranked by the one currently holding the value (the holder itself included: it may change or relinquish), and,
\* when no exception holds it, of the weekday's list as well.  Outside the effective period nothing can change before
\* midnight.
CanChangeAt(cfg, plan, t) ==
    IF ~plan.inp THEN {}
    ELSE LET live == Live(cfg, plan, t)
         IN  IF live # {}
             THEN UNION {Times(cfg.exc[i].tvs) : i \in {j \in plan.force : cfg.exc[j].prio <= cfg.exc[Best(cfg, live)].prio}}
             ELSE UNION {Times(cfg.exc[i].tvs) : i \in plan.force} \cup Times(plan.wk)

NextChangeP(cfg, plan, t) ==
    LET C == {c \in CanChangeAt(cfg, plan, t) : c > t} IN IF C = {} THEN Midnight ELSE MinOf(C)
NextChange(cfg, date, t) == NextChangeP(cfg, Plan(cfg, date), t)

\* every entry time of the day's lists (the loose bound), and the exact next change of Value
AnyEntry(cfg, plan) == IF ~plan.inp THEN {} ELSE UNION {Times(cfg.exc[i].tvs) : i \in plan.force} \cup Times(plan.wk)
LooseNextP(cfg, plan, t) == LET C == {c \in AnyEntry(cfg, plan) : c > t} IN IF C = {} THEN Midnight ELSE MinOf(C)
ExactNextP(cfg, plan, t) ==
    LET v == ValueP(cfg, plan, t)
        C == {c \in AnyEntry(cfg, plan) : c > t /\ ValueP(cfg, plan, c) # v}
    IN  IF C = {} THEN Midnight ELSE MinOf(C)
ExactNext(cfg, date, t) == ExactNextP(cfg, Plan(cfg, date), t)

----------------------------------------------------------------------------
\* Instants are <<date, time of day>>.
Later(a, b) == DayNo(a[1]) > DayNo(b[1]) \/ (a[1] = b[1] /\ a[2] > b[2])
Norm(date, t) == IF t >= Midnight THEN <<NextDay(date), 0>> ELSE <<date, t>>
NoDeadline == <<>>

\* Value depends on the time of day only through comparisons with entry times, so on one day it is constant between
\* consecutive elements of this set
BreakPoints(cfg) ==
    {0} \cup UNION {Times(cfg.exc[i].tvs) : i \in 1..Len(cfg.exc)} \cup UNION {Times(cfg.weekly[d]) : d \in 1..7}

\* Value equals v at every instant of [<<date, from>>, b)     (fuel bounds the number of days walked)
RECURSIVE StableDays(_, _, _, _, _, _, _, _)
StableDays(dev, cfg, bp, v, date, from, b, fuel) ==
    LET plan == PlanD(dev, cfg, date)
    IN  IF date = b[1]
        THEN \A q \in bp : (from <= q /\ q < b[2]) => ValueP(cfg, plan, q) = v
        ELSE /\ \A q \in bp : from <= q => ValueP(cfg, plan, q) = v
             /\ fuel > 0
             /\ StableDays(dev, cfg, bp, v, NextDay(date), 0, b, fuel - 1)

StableUntilD(dev, cfg, a, b) ==
    Later(b, a) => StableDays(dev, cfg, BreakPoints(cfg), ValueP(cfg, PlanD(dev, cfg, a[1]), a[2]), a[1], a[2], b, 400)
StableUntil(cfg, a, b) == StableUntilD(FALSE, cfg, a, b)

----------------------------------------------------------------------------
(* The timer machine (LocalScheduleInterpreter as a OneShotTask): at creation and at every expiry of its deadline the   *)
(* object evaluates the schedule at the current instant, shows the value and arms the deadline for the next change.     *)
(* Outside the effective period there is no scheduled value (Present_Value keeps what it had) but the timer is armed    *)
(* for the next midnight so that the period's first day is not missed.                                                  *)
(* Named deviations (today's behaviour of the code, finding F15), FALSE in the intended design:                         *)
(*   Dev_StopOutsidePeriod  an evaluation outside the effective period arms nothing                                     *)
(*   Dev_DropHundredths     the deadline is armed at the whole second below the transition time                         *)
CONSTANTS Dev_StopOutsidePeriod, Dev_DropHundredths
VARIABLES now, pv, deadline
tvars == <<now, pv, deadline>>

Arm(cfg, inst) ==
    IF Dev_StopOutsidePeriod /\ ~InPeriod(cfg, inst[1]) THEN NoDeadline
    ELSE LET n == NextChange(cfg, inst[1], inst[2])
         IN  Norm(inst[1], IF Dev_DropHundredths THEN n - (n % 100) ELSE n)

Show(cfg, inst, old) == LET v == Value(cfg, inst[1], inst[2]) IN IF v = NOVAL THEN old ELSE v

Create(cfg, start, pv0) == now = start /\ pv = Show(cfg, start, pv0) /\ deadline = Arm(cfg, start)

Fire(cfg) ==
    /\ deadline # NoDeadline
    /\ now' = deadline
    /\ pv' = Show(cfg, deadline, pv)
    /\ deadline' = Arm(cfg, deadline)

\* the C20 monitors on a state of the machine
ShowsScheduledValue(cfg) == InPeriod(cfg, now[1]) => pv = Value(cfg, now[1], now[2])
KeepsRunning == deadline # NoDeadline
NoLivelock == deadline # NoDeadline => Later(deadline, now)
NoChangeBeforeNext(cfg) == deadline # NoDeadline => StableUntil(cfg, now, deadline)
=============================================================================
