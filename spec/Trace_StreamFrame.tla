-------------------------- MODULE Trace_StreamFrame --------------------------
(***************************************************************************)
(* Evaluations of real framing functions judged by StreamFrame.tla.  Each   *)
(* line of TRACE_FILE is one call  fn(buffer):                              *)
(*   {"id":n, "f":"bsll", "b":[..], "ok":true, "pkt":[..], "rest":[..],     *)
(*    "exc":""}                                                             *)
(* ok = a (packet, rest) pair was returned, exc = name of the exception     *)
(* the function raised ("" if it returned).  One state per record; a        *)
(* verdict record is printed for every record that fails a formula or       *)
(* differs from the specified function ("@@" prefix).                       *)
(***************************************************************************)
EXTENDS StreamFrame, Json, IOUtils

Recs == ndJsonDeserialize(IOEnv.TRACE_FILE)
VARIABLE i

Res(e) == [ok |-> e.ok, pkt |-> e.pkt, rest |-> e.rest]
\* a framing function returns for every buffer of octets
FrameTotal(e) == e.exc = ""
FailingOf(e) ==
    LET r == Res(e) IN
    (IF FrameTotal(e) THEN {} ELSE {"FrameTotal"}) \cup
    (IF e.exc # "" \/ FrameProgress(e.f, e.b, r) THEN {} ELSE {"FrameProgress"}) \cup
    (IF e.exc # "" \/ FrameSplits(e.f, e.b, r) THEN {} ELSE {"FrameSplits"}) \cup
    (IF e.exc # "" \/ FrameExact(e.f, e.b, r) THEN {} ELSE {"FrameExact"}) \cup
    (IF e.exc # "" \/ FrameIsFrame(e.f, e.b, r) THEN {} ELSE {"FrameIsFrame"})
Differs(e) == e.exc # "" \/ Res(e) # Frame(e.f, e.b)

TInit ==
    /\ i \in 1..Len(Recs)
    /\ LET e == Recs[i] IN
        (FailingOf(e) # {} \/ Differs(e)) => PrintT(<<"@@", [id |-> e.id, viol |-> FailingOf(e), differs |-> Differs(e)]>>)
TNext == UNCHANGED i
TSpec == TInit /\ [][TNext]_i
=============================================================================
