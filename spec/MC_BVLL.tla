------------------------------ MODULE MC_BVLL ------------------------------
(***************************************************************************)
(* Case grids for BVLL.tla (C09), evaluated by TLC in the function          *)
(* evaluation idiom: one state = one case descriptor.                       *)
(*   INIT InitEnc : records of the twelve functions (+ raw frames for all   *)
(*                  256 function codes); TLC checks Dec(Enc(r)) = r, the    *)
(*                  length clause, well-formedness; ENC_OUT receives one    *)
(*                  vector {d, rec, oct} per case for the harness.          *)
(*   INIT InitDec : octet strings: all strings up to length 4 over a class  *)
(*                  alphabet, all 256 function codes x body lengths, valid  *)
(*                  frames with wrong type / wrong length / truncated /     *)
(*                  extended; TLC checks refusal, totality and canonicity;  *)
(*                  DEC_OUT receives {d, oct, dec, decL}.                   *)
(* Descriptors are uniform records [g, fn, a, b, c, d] of integers so that  *)
(* TLC can hold them in one set; Rec(d) / Oct(d) build the actual value.    *)
(***************************************************************************)
EXTENDS BVLL, Integers, TLC, Json, IOUtils, SequencesExt, FiniteSets

CONSTANTS PayLens,      \* NPDU lengths for functions 04 09 0A 0B, tried with every variant in PaySeeds
          PaySeeds,     \* position code variants of the payload
          PayLensAll,   \* NPDU lengths tried with variant 0 only (thorough: 0..1497)
          TableSizes,   \* numbers of BDT / FDT entries
          TableSeeds,   \* rotations of the boundary values inside a table
          FullCross,    \* TRUE: full ip x port x ttl x remaining product for single FDT entries
          Alphabet,     \* class alphabet for the short-string sweep
          MaxStr,       \* ... up to this length
          BodyLens      \* body lengths tried with every function code 0..255

VARIABLE c

\* ---- boundary values --------------------------------------------------------------------------------
IPs == << <<0, 0, 0, 0>>, <<255, 255, 255, 255>>, <<127, 0, 0, 1>>, <<10, 0, 0, 1>>, <<192, 168, 1, 255>>,
          <<1, 2, 3, 4>>, <<128, 0, 0, 0>>, <<129, 10, 4, 129>> >>
Ports == <<0, 1, 255, 256, 47808, 47823, 65535, 33034>>                   \* BAC0, BACF, 810A
Masks == << <<0, 0, 0, 0>>, <<255, 255, 255, 255>>, <<255, 255, 255, 0>>, <<255, 0, 0, 0>>, <<128, 0, 0, 0>>,
            <<255, 255, 255, 254>>, <<0, 0, 0, 1>>, <<255, 0, 255, 0>>, <<255, 255, 240, 0>> >>
Shorts == <<0, 1, 255, 256, 257, 30, 4660, 32767, 32768, 65534, 65535>>
ResultCodes == Shorts \o <<16, 32, 48, 64, 80, 96>>                       \* + the six NAK codes of J.2.1
SpecialPayloads == << <<129>>, <<255, 255>>, <<0>>, <<1, 32, 255, 255, 0, 255, 16, 8>>, <<129, 10, 0, 4>>,
                      <<1, 4, 0, 5, 1, 12, 12, 0, 128, 0, 1, 25, 85>> >>
Ix(s, k) == s[(k % Len(s)) + 1]

\* position coded payload: octet i depends on i only (and on the variant s)
Pay(n, s) == SubSeq([i \in 1..n |-> ((i - 1) * (2 * s + 1) + 7 * s) % 251], 1, n)

BDTE(j, s) == [ip |-> Ix(IPs, j + s), port |-> Ix(Ports, 3 * j + s), mask |-> Ix(Masks, 5 * j + 2 * s)]
FDTE(j, s) == [ip |-> Ix(IPs, j + s), port |-> Ix(Ports, 3 * j + s), ttl |-> Ix(Shorts, j + 2 * s),
               rem |-> Ix(Shorts, 7 * j + s + 3)]
BDT(n, s) == SubSeq([j \in 1..n |-> BDTE(j, s)], 1, n)
FDT(n, s) == SubSeq([j \in 1..n |-> FDTE(j, s)], 1, n)

D(g, fn, a, b, cc, dd) == [g |-> g, fn |-> fn, a |-> a, b |-> b, c |-> cc, d |-> dd]

\* ---- encode side --------------------------------------------------------------------------------------
EncCases ==
    {D("result", 0, a, 0, 0, 0) : a \in 0..(Len(ResultCodes) - 1)}
    \cup {D("short", 5, a, 0, 0, 0) : a \in 0..(Len(Shorts) - 1)}
    \cup {D("empty", fn, 0, 0, 0, 0) : fn \in {2, 6}}
    \cup {D("tbl", fn, n, s, 0, 0) : fn \in {1, 3, 7}, n \in TableSizes, s \in TableSeeds}
    \cup {D("bdt1", fn, a, b, m, 0) : fn \in {1, 3}, a \in 0..(Len(IPs) - 1), b \in 0..(Len(Ports) - 1), m \in 0..(Len(Masks) - 1)}
    \cup {D("fdt1", 7, a, b, t, r) : a \in 0..(Len(IPs) - 1), b \in 0..(Len(Ports) - 1),
                                     t \in IF FullCross THEN 0..(Len(Shorts) - 1) ELSE {5}, r \in IF FullCross THEN 0..(Len(Shorts) - 1) ELSE {6}}
    \cup {D("fdt1", 7, 5, 4, t, r) : t \in 0..(Len(Shorts) - 1), r \in 0..(Len(Shorts) - 1)}
    \cup {D("addr", fn, a, b, n, 0) : fn \in {4, 8}, a \in 0..(Len(IPs) - 1), b \in 0..(Len(Ports) - 1), n \in {0, 3}}
    \cup {D("pay", fn, n, s, 0, 0) : fn \in {4, 9, 10, 11}, n \in PayLens, s \in PaySeeds}
    \cup {D("pay", fn, n, 0, 0, 0) : fn \in {4, 9, 10, 11}, n \in PayLensAll}
    \cup {D("spay", fn, a, 0, 0, 0) : fn \in {4, 9, 10, 11}, a \in 0..(Len(SpecialPayloads) - 1)}
    \cup {D("raw", fn, n, 0, 0, 0) : fn \in 0..255, n \in {0, 1, 7}}

IsRaw(d) == d.g = "raw"

Rec(d) ==
    CASE d.g = "result" -> [fn |-> 0, code |-> Ix(ResultCodes, d.a)]
      [] d.g = "short"  -> [fn |-> 5, ttl |-> Ix(Shorts, d.a)]
      [] d.g = "empty"  -> [fn |-> d.fn]
      [] d.g = "tbl"    -> IF d.fn = 7 THEN [fn |-> 7, fdt |-> FDT(d.a, d.b)] ELSE [fn |-> d.fn, bdt |-> BDT(d.a, d.b)]
      [] d.g = "bdt1"   -> [fn |-> d.fn, bdt |-> << [ip |-> Ix(IPs, d.a), port |-> Ix(Ports, d.b), mask |-> Ix(Masks, d.c)] >>]
      [] d.g = "fdt1"   -> [fn |-> 7, fdt |-> << [ip |-> Ix(IPs, d.a), port |-> Ix(Ports, d.b), ttl |-> Ix(Shorts, d.c),
                                                  rem |-> Ix(Shorts, d.d)] >>]
      [] d.g = "addr"   -> IF d.fn = 4 THEN [fn |-> 4, addr |-> [ip |-> Ix(IPs, d.a), port |-> Ix(Ports, d.b)], npdu |-> Pay(d.c, 0)]
                                        ELSE [fn |-> 8, addr |-> [ip |-> Ix(IPs, d.a), port |-> Ix(Ports, d.b)]]
      [] d.g = "pay"    -> IF d.fn = 4 THEN [fn |-> 4, addr |-> [ip |-> Ix(IPs, d.a), port |-> Ix(Ports, d.a + 4)], npdu |-> Pay(d.a, d.b)]
                                        ELSE [fn |-> d.fn, npdu |-> Pay(d.a, d.b)]
      [] d.g = "spay"   -> IF d.fn = 4 THEN [fn |-> 4, addr |-> [ip |-> Ix(IPs, 5), port |-> Ix(Ports, 4)], npdu |-> Ix(SpecialPayloads, d.a)]
                                        ELSE [fn |-> d.fn, npdu |-> Ix(SpecialPayloads, d.a)]
      [] d.g = "raw"    -> [fn |-> d.fn, body |-> Pay(d.a, 1)]       \* a generic BVLPDU, not one of the twelve records

Oct(d) == IF IsRaw(d) THEN Frame(d.fn, Rec(d).body) ELSE Enc(Rec(d))

InitEnc == c \in EncCases
Next == UNCHANGED c

\* invariants of the encode side (checked by TLC on every case)
EncWellFormed == IsRaw(c) \/ WF(Rec(c))
EncRoundTrip == IsRaw(c) \/ (RoundTrip(Rec(c)) /\ DecLenient(Enc(Rec(c))) = Rec(c))
EncLengthFieldExact == LET o == Oct(c) IN LengthFieldExact(o) /\ o[2] = c.fn /\ Len(o) = HeaderLen + Len(IF IsRaw(c) THEN Rec(c).body ELSE Body(Rec(c)))
EncRawHeader ==
    IsRaw(c) => LET o == Oct(c) IN
        /\ DecHeader(o) = [type |-> 129, fn |-> c.fn, length |-> Len(o), body |-> Rec(c).body]
        /\ (c.fn \notin KnownFunctions) <=> (Dec(o) = UnknownFunction(c.fn))
        /\ (c.fn \notin KnownFunctions) <=> (DecLenient(o) = UnknownFunction(c.fn))

EncSeq == SetToSeq(EncCases)
ASSUME EncOut == "ENC_OUT" \in DOMAIN IOEnv =>
    ndJsonSerialize(IOEnv.ENC_OUT, [i \in 1..Len(EncSeq) |-> [d |-> EncSeq[i], rec |-> Rec(EncSeq[i]), oct |-> Oct(EncSeq[i]), known |-> EncSeq[i].fn \in KnownFunctions]])

\* ---- decode side --------------------------------------------------------------------------------------
AlphaSeq == SetToSeq(Alphabet)
NA == Len(AlphaSeq)
RECURSIVE Pow(_, _)
Pow(b, e) == IF e = 0 THEN 1 ELSE b * Pow(b, e - 1)
Str(n, k) == SubSeq([i \in 1..n |-> AlphaSeq[((k \div Pow(NA, n - i)) % NA) + 1]], 1, n)

\* representative valid frames that get mutated
Bases == << D("result", 0, 6, 0, 0, 0), D("tbl", 1, 2, 1, 0, 0), D("empty", 2, 0, 0, 0, 0), D("tbl", 3, 1, 0, 0, 0),
            D("pay", 4, 20, 1, 0, 0), D("short", 5, 5, 0, 0, 0), D("empty", 6, 0, 0, 0, 0), D("tbl", 7, 3, 2, 0, 0),
            D("addr", 8, 5, 4, 0, 0), D("pay", 9, 9, 0, 0, 0), D("pay", 10, 300, 0, 0, 0), D("pay", 11, 1497, 2, 0, 0),
            D("tbl", 7, 40, 0, 0, 0), D("pay", 4, 0, 0, 0, 0), D("pay", 10, 252, 1, 0, 0), D("tbl", 1, 0, 0, 0, 0) >>
TypeSubs == <<0, 1, 128, 130, 255, 10, 4>>
LenDeltas == <<-2, -1, 1, 2, 256, -256, 10, -10>>
LenAbs == <<0, 3, 4, 5, 6, 10, 65535, 33153>>
Cuts == <<1, 2, 3, 4, 5, 6, 9, 10, 11>>
Adds == <<1, 2, 6, 10>>
MutKinds == 1..8
NParam(k) == CASE k = 1 -> Len(TypeSubs) [] k = 2 -> Len(LenDeltas) [] k = 3 -> Len(LenAbs) [] k = 4 -> Len(Cuts)
               [] k = 5 -> Len(Adds) [] k = 6 -> 1 [] k = 7 -> Len(Cuts) [] k = 8 -> Len(Adds)

SetLen(o, n) == [o EXCEPT ![3] = Hi(n), ![4] = Lo(n)]
Max2(x, y) == IF x > y THEN x ELSE y
Mut(o, k, p) ==
    CASE k = 1 -> [o EXCEPT ![1] = TypeSubs[p]]                              \* wrong type
      [] k = 2 -> SetLen(o, Max2(0, Len(o) + LenDeltas[p]))                  \* length field off by a delta
      [] k = 3 -> SetLen(o, LenAbs[p])                                      \* length field absolute (may coincide)
      [] k = 4 -> SubSeq(o, 1, Max2(0, Len(o) - Cuts[p]))                    \* datagram truncated, header untouched
      [] k = 5 -> o \o Pay(Adds[p], 3)                                      \* datagram extended, header untouched
      [] k = 6 -> [o EXCEPT ![3] = o[4], ![4] = o[3]]                       \* length octets swapped
      [] k = 7 -> LET t == SubSeq(o, 1, Max2(HeaderLen, Len(o) - Cuts[p])) IN SetLen(t, Len(t))   \* body cut, header consistent
      [] k = 8 -> LET t == o \o Pay(Adds[p], 3) IN SetLen(t, Len(t))        \* body extended, header consistent

DecCases ==
    {D("str", 0, n, k, 0, 0) : n \in 0..MaxStr, k \in 0..(Pow(NA, MaxStr) - 1)}
    \cup {D("fc", fn, n, 0, 0, 0) : fn \in 0..255, n \in BodyLens}
    \cup {D("mut", 0, b, k, p, 0) : b \in 1..Len(Bases), k \in MutKinds, p \in 1..8}

DecCaseOK(d) == CASE d.g = "str" -> d.b < Pow(NA, d.a)
                  [] d.g = "mut" -> d.c <= NParam(d.b)
                  [] OTHER -> TRUE

DOct(d) ==
    CASE d.g = "str" -> Str(d.a, d.b)
      [] d.g = "fc"  -> Frame(d.fn, Pay(d.a, 2))
      [] d.g = "mut" -> Mut(Oct(Bases[d.a]), d.b, d.c)

InitDec == c \in {d \in DecCases : DecCaseOK(d)}

\* invariants of the decode side
DecTotal == LET r == Dec(DOct(c)) IN IF IsErr(r) THEN r = DecodingError \/ r = UnknownFunction(DOct(c)[2]) ELSE WF(r)
DecRefusesBadFrames == BadFrame(DOct(c)) => (Dec(DOct(c)) = DecodingError /\ DecLenient(DOct(c)) = DecodingError)
DecCanonical == LET o == DOct(c) IN ~IsErr(Dec(o)) => (Enc(Dec(o)) = o /\ DecLenient(o) = Dec(o))
DecUnknownIff == LET o == DOct(c) IN (~BadFrame(o) /\ o[2] \notin KnownFunctions) <=> (IsErr(Dec(o)) /\ Dec(o) # DecodingError)
DecLenientOnlyAddsTrailing ==
    LET o == DOct(c) r == DecLenient(o) IN
    (~IsErr(r) /\ IsErr(Dec(o))) => (r.fn \in {0, 2, 5, 6, 8} /\ Len(Enc(r)) < Len(o)
                                      /\ SubSeq(Enc(r), 5, Len(Enc(r))) = SubSeq(o, 5, Len(Enc(r))))

\* sanity (must be VIOLATED): the grid contains frames on which Annex J and the named deviation differ
SanityLenientEqualsStrict == DecLenient(DOct(c)) = Dec(DOct(c))

DecSeq == SetToSeq({d \in DecCases : DecCaseOK(d)})
ASSUME DecOut == "DEC_OUT" \in DOMAIN IOEnv =>
    ndJsonSerialize(IOEnv.DEC_OUT, [i \in 1..Len(DecSeq) |->
        [d |-> DecSeq[i], oct |-> DOct(DecSeq[i]), bad |-> BadFrame(DOct(DecSeq[i])), dec |-> Dec(DOct(DecSeq[i])), decL |-> DecLenient(DOct(DecSeq[i]))]])
=============================================================================
