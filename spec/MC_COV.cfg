CONSTANTS
  Inc <- c_Inc
  Vals <- c_Vals
  InitPV <- c_InitPV
  Objs = {1, 2}
  Analog = {1}
  FlagVals = {0, 1}
  Subs = {1, 2}
  Procs = {1}
  Lifetimes = {0, 1, 2}
  Confs = {TRUE, FALSE}
  TickSteps = {1}
  TPS = 1
  Strangers = FALSE
  MaxLevel = 5
  Dev_RenewKeepsOldParams = FALSE
SPECIFICATION Spec
CONSTRAINT Bound
VIEW View
CHECK_DEADLOCK FALSE
PROPERTY P_AckThenInitial
PROPERTY P_OnePerBurstPerSubscription
PROPERTY P_NoneForSubThreshold
PROPERTY P_NothingAfterCancelOrExpiry
PROPERTY P_ConfirmedAsRequested
PROPERTY P_TimeRemaining
PROPERTY P_RenewReplaces
PROPERTY P_ActiveListExact
PROPERTY P_DesignSane
