\* liveness of the design: 2 IOCBs (one of them may be refused by process_io), wait_time 0/1, one timeout
CONSTANTS
  B = {1, 2}
  C = {}
  G = {}
  PrioMaps <- c_Prio2
  KindMaps <- c_Kind2b
  Waits = {0, 1}
  Delays = {1}
  EncFails = {FALSE}
  DecFails = {FALSE}
  MaxCb = 0
  MaxTrig = 2
  MaxFire = 3
  CbOn = {}
  TimerOn = {1}
  Ops = {"request", "complete", "abort", "cabort", "qabort", "gabort", "settle"}
  AddCallbackRefires = FALSE
  CompleteOverridesDone = FALSE
  GroupAbortUnguarded = FALSE
  QueueAbortRaises = FALSE
  AbortIdleNoop = FALSE
  IdleBypass = FALSE
SPECIFICATION LiveSpec
CHECK_DEADLOCK FALSE
PROPERTY EventuallyFinished
