------------------------------- MODULE TSMids -------------------------------
(***************************************************************************)
(* Transaction identification in appservice.StateMachineAccessPoint:       *)
(* invoke-ID allocation (get_next_invoke_id, application-chosen IDs), the  *)
(* per-type lookup of clientTransactions / serverTransactions by           *)
(* (invoke ID, peer address) in confirmation(), sap_confirmation().        *)
(* Frames are unsegmented here (segmentation is TSM.tla); several          *)
(* transactions are live at once and an adversary may deliver any reply    *)
(* from any address with any ID at any point.                              *)
(*                                                                         *)
(* Client node:  CSubmitAuto, CSubmitChosen, CDeliver, CGiveUp             *)
(* Server node:  SDeliverCR, SDeliverAbort, SAppRespond, SGiveUp           *)
(***************************************************************************)
EXTENDS Naturals, Sequences, FiniteSets, TLC

CONSTANTS Peers,        \* addresses of the stations this node talks to
          Foreign,      \* an address that never is a peer of a live transaction
          IdMod,        \* 256 in reality
          Ids,          \* the invoke IDs the adversary / application may choose
          StartIds,     \* possible initial values of the allocation cursor
          MaxLive,      \* bound on simultaneously live client transactions (model bound)
          MaxReq,       \* bound on requests submitted (model bound)
          Kinds,        \* reply kinds the adversary uses (subset of {"SA","CA","ERR","ABTs","ABTc","ACKs","ACKc"})
          Side,         \* "client", "server" or "both": which half Next explores (the halves are independent)
          SkipLive      \* TRUE: allocation skips IDs that are live for that peer (the code); FALSE: named deviation

VARIABLES nextId,       \* allocation cursor (StateMachineAccessPoint.nextInvokeID)
          ctab,         \* clientTransactions: sequence of [peer, id, n]   (n = serial number of the request)
          nreq,         \* number of requests submitted so far
          outs,         \* observation: outcomes delivered to the client application: [n, src, id, kind]
          sent,         \* observation: requests put on the wire: [n, peer, id]
          stab,         \* serverTransactions: sequence of [peer, id]
          inds,         \* observation: requests indicated to the server application: [peer, id]
          owed,         \* responses the server application still owes: set of [peer, id]
          resp,         \* observation: responses put on the wire by the server side: [peer, id]
          act           \* last step

cvars == <<nextId, ctab, nreq, outs, sent>>
svars == <<stab, inds, owed, resp>>
vars == <<nextId, ctab, nreq, outs, sent, stab, inds, owed, resp, act>>

Init == /\ nextId \in StartIds /\ ctab = <<>> /\ nreq = 0 /\ outs = <<>> /\ sent = <<>>
        /\ stab = <<>> /\ inds = <<>> /\ owed = {} /\ resp = <<>>
        /\ act = [op |-> "init", a |-> 0, id |-> 0, k |-> ""]

LiveFor(tab, p, i) == \E j \in 1..Len(tab) : tab[j].peer = p /\ tab[j].id = i
FirstMatch(tab, p, i) == CHOOSE j \in 1..Len(tab) : tab[j].peer = p /\ tab[j].id = i
                             /\ \A k \in 1..(j - 1) : ~(tab[k].peer = p /\ tab[k].id = i)
RemoveAt(q, j) == SubSeq(q, 1, j - 1) \o SubSeq(q, j + 1, Len(q))

\* get_next_invoke_id: examine nextId, nextId+1, ... (IdMod - 1 candidates: the code gives up one candidate early)
RECURSIVE Alloc(_, _, _)
Alloc(cur, p, tried) ==
    IF tried = IdMod - 1 THEN [ok |-> FALSE, id |-> 0, next |-> (cur + 0) % IdMod]
    ELSE IF SkipLive /\ LiveFor(ctab, p, cur) THEN Alloc((cur + 1) % IdMod, p, tried + 1)
    ELSE [ok |-> TRUE, id |-> cur, next |-> (cur + 1) % IdMod]

Start(p, i) == /\ nreq' = nreq + 1
               /\ ctab' = Append(ctab, [peer |-> p, id |-> i, n |-> nreq + 1])
               /\ sent' = Append(sent, [n |-> nreq + 1, peer |-> p, id |-> i])

CSubmitAuto(p) ==
    /\ nreq < MaxReq /\ Len(ctab) < MaxLive
    /\ LET r == Alloc(nextId, p, 0) IN
        /\ r.ok                         \* (all IDs in use: RuntimeError, not modelled beyond MaxLive < IdMod - 1)
        /\ nextId' = r.next /\ Start(p, r.id)
    /\ act' = [op |-> "auto", a |-> p, id |-> 0, k |-> ""]
    /\ UNCHANGED <<outs, svars>>

\* an application-chosen invoke ID that is live for that peer is refused ("invoke ID in use"), nothing changes
CSubmitChosen(p, i) ==
    /\ nreq < MaxReq /\ Len(ctab) < MaxLive
    /\ IF LiveFor(ctab, p, i) THEN UNCHANGED <<ctab, nreq, sent>> ELSE Start(p, i)
    /\ act' = [op |-> "chosen", a |-> p, id |-> i, k |-> ""]
    /\ UNCHANGED <<nextId, outs, svars>>

\* reply kinds: "SA" simple ack, "CA" complex ack, "ERR" error/reject, "ABTs" abort with the server bit,
\*              "ABTc" abort without it, "ACKs" segment ack with the server bit, "ACKc" without it
Terminal == {"SA", "CA", "ERR", "ABTs"}
ToClientTable == {"SA", "CA", "ERR", "ABTs", "ACKs"}
CDeliver(k, src, i) ==
    /\ IF k \in ToClientTable /\ LiveFor(ctab, src, i)
         THEN LET j == FirstMatch(ctab, src, i) IN
              IF k \in Terminal
                THEN /\ ctab' = RemoveAt(ctab, j)
                     /\ outs' = Append(outs, [n |-> ctab[j].n, src |-> src, id |-> i, kind |-> k])
                ELSE UNCHANGED <<ctab, outs>>       \* stray segment ack: timer restarted, nothing else
         ELSE UNCHANGED <<ctab, outs>>              \* late, duplicate or foreign: ignored
    /\ act' = [op |-> "cdeliver", a |-> src, id |-> i, k |-> k]
    /\ UNCHANGED <<nextId, nreq, sent, svars>>

\* all retries spent: local abort
CGiveUp(j) ==
    /\ j \in 1..Len(ctab)
    /\ ctab' = RemoveAt(ctab, j)
    /\ outs' = Append(outs, [n |-> ctab[j].n, src |-> ctab[j].peer, id |-> ctab[j].id, kind |-> "TO"])
    /\ act' = [op |-> "cgiveup", a |-> j, id |-> 0, k |-> ""]
    /\ UNCHANGED <<nextId, nreq, sent, svars>>

\* ---- server side ---------------------------------------------------------------
SDeliverCR(src, i) ==
    /\ IF LiveFor(stab, src, i)
         THEN UNCHANGED <<stab, inds, owed>>                        \* retransmission while busy: not indicated again
         ELSE /\ stab' = Append(stab, [peer |-> src, id |-> i])
              /\ inds' = Append(inds, [peer |-> src, id |-> i])
              /\ owed' = owed \cup {[peer |-> src, id |-> i]}
    /\ act' = [op |-> "scr", a |-> src, id |-> i, k |-> ""]
    /\ UNCHANGED <<resp, cvars>>

SDeliverAbort(src, i) ==
    /\ IF LiveFor(stab, src, i) THEN stab' = RemoveAt(stab, FirstMatch(stab, src, i)) ELSE UNCHANGED stab
    /\ act' = [op |-> "sabort", a |-> src, id |-> i, k |-> ""]
    /\ UNCHANGED <<inds, owed, resp, cvars>>

SAppRespond(p, i) ==
    /\ [peer |-> p, id |-> i] \in owed
    /\ owed' = owed \ {[peer |-> p, id |-> i]}
    /\ IF LiveFor(stab, p, i)
         THEN /\ stab' = RemoveAt(stab, FirstMatch(stab, p, i)) /\ resp' = Append(resp, [peer |-> p, id |-> i])
         ELSE UNCHANGED <<stab, resp>>
    /\ act' = [op |-> "sresp", a |-> p, id |-> i, k |-> ""]
    /\ UNCHANGED <<inds, cvars>>

SGiveUp(j) ==
    /\ j \in 1..Len(stab)
    /\ stab' = RemoveAt(stab, j)
    /\ act' = [op |-> "sgiveup", a |-> j, id |-> 0, k |-> ""]
    /\ UNCHANGED <<inds, owed, resp, cvars>>

CNext == \/ \E p \in Peers : CSubmitAuto(p)
         \/ \E p \in Peers, i \in Ids : CSubmitChosen(p, i)
         \/ \E k \in Kinds, src \in Peers \cup {Foreign}, i \in Ids : CDeliver(k, src, i)
         \/ \E j \in 1..MaxLive : CGiveUp(j)
SNext == \/ \E src \in Peers, i \in Ids : SDeliverCR(src, i) \/ SDeliverAbort(src, i) \/ SAppRespond(src, i)
         \/ \E j \in 1..MaxLive : SGiveUp(j)
Next == (Side \in {"client", "both"} /\ CNext) \/ (Side \in {"server", "both"} /\ SNext)
Bounded == Len(inds) <= MaxReq
\* state identity for exhaustive checking ignores `act` (it only labels the step for the action properties and dumps)
View == <<nextId, ctab, nreq, outs, sent, stab, inds, owed, resp>>
Spec == Init /\ [][Next]_vars

\* ---- properties (C11) ------------------------------------------------------------
\* live requests to one peer carry distinct invoke IDs
IdUniquePerPeer == \A a, b \in 1..Len(ctab) : (a # b /\ ctab[a].peer = ctab[b].peer) => ctab[a].id # ctab[b].id
ServerKeysUnique == \A a, b \in 1..Len(stab) : a # b => ~(stab[a].peer = stab[b].peer /\ stab[a].id = stab[b].id)
\* every outcome went to a request with the same peer address and invoke ID, and each request has at most one
OutcomeMatches == \A a \in 1..Len(outs) : \E b \in 1..Len(sent) :
                      sent[b].n = outs[a].n /\ sent[b].peer = outs[a].src /\ sent[b].id = outs[a].id
AtMostOneOutcomePerRequest == \A a, b \in 1..Len(outs) : a # b => outs[a].n # outs[b].n
\* a frame touches only the live transaction with its (source, ID); anything else leaves the table alone
A_ReplyMatches ==
    act'.op = "cdeliver" =>
        /\ \A j \in 1..Len(ctab) : (\A m \in 1..Len(ctab') : ctab'[m] # ctab[j]) => (ctab[j].peer = act'.a /\ ctab[j].id = act'.id)
        /\ Len(ctab) - Len(ctab') <= 1
        /\ (outs' # outs => /\ Len(outs') = Len(outs) + 1
                            /\ outs'[Len(outs')].src = act'.a /\ outs'[Len(outs')].id = act'.id
                            /\ LiveFor(ctab, act'.a, act'.id))
ReplyMatches == [][A_ReplyMatches]_vars
A_LateAndForeignIgnored ==
    (act'.op = "cdeliver" /\ ~LiveFor(ctab, act'.a, act'.id)) => (ctab' = ctab /\ outs' = outs)
LateAndForeignIgnored == [][A_LateAndForeignIgnored]_vars
\* the two directions are separate ID spaces: an abort or segment ack WITHOUT the server bit comes from the peer's client
\* role and is about a request the peer made to us -- it never touches one of our own requests, equal (peer, ID) or not
A_DirectionRespected ==
    (act'.op = "cdeliver" /\ act'.k \notin ToClientTable) => (ctab' = ctab /\ outs' = outs)
DirectionRespected == [][A_DirectionRespected]_vars
\* a retransmitted request is not indicated again while the original is being processed
A_NoDoubleIndication == (act'.op = "scr" /\ LiveFor(stab, act'.a, act'.id)) => (inds' = inds /\ stab' = stab)
NoDoubleIndication == [][A_NoDoubleIndication]_vars
\* equal invoke IDs from different peers are served independently: a response goes to the peer it answers, once
A_SameIdDifferentPeersIndependent ==
    act'.op = "sresp" =>
        /\ (resp' # resp => resp' = Append(resp, [peer |-> act'.a, id |-> act'.id]) /\ LiveFor(stab, act'.a, act'.id))
        /\ \A j \in 1..Len(stab) : (stab[j].peer # act'.a \/ stab[j].id # act'.id) => \E m \in 1..Len(stab') : stab'[m] = stab[j]
SameIdDifferentPeersIndependent == [][A_SameIdDifferentPeersIndependent]_vars
\* a request whose (peer, ID) is not being processed is handed to the application, whatever other peers have in progress
A_NewRequestIndicated == (act'.op = "scr" /\ ~LiveFor(stab, act'.a, act'.id)) =>
                             (inds' = Append(inds, [peer |-> act'.a, id |-> act'.id]) /\ LiveFor(stab', act'.a, act'.id))
NewRequestIndicated == [][A_NewRequestIndicated]_vars
A_NewRequestGetsFreshKey ==
    act'.op \in {"auto", "chosen"} => (Len(ctab') > Len(ctab) => ~LiveFor(ctab, ctab'[Len(ctab')].peer, ctab'[Len(ctab')].id))
NewRequestGetsFreshKey == [][A_NewRequestGetsFreshKey]_vars
=============================================================================
