--------------------------------- MODULE IOQ ---------------------------------
(***************************************************************************)
(* The IOCB path of a confirmed request: app.ApplicationIOController       *)
(* (one SieveQueue per destination address, `queue_by_address`),           *)
(* iocb.IOQController (idle / active, `active_iocb`, `ioQueue`, the        *)
(* deferred `_trigger`) and iocb.IOCB (ioState, callbacks).                *)
(* The stack below is abstracted by what C04's core guarantees: for the    *)
(* one request in flight per destination, exactly one outcome eventually   *)
(* comes back (ack / error / reject / abort, incl. the local abort).       *)
(*                                                                         *)
(*   Request(k, d, u) IOController.request_io -> process_io -> SieveQueue  *)
(*                   (u: an unconfirmed request through an IOCB, complete  *)
(*                   as soon as it has been handed down: _app_request)     *)
(*   Direct(d)       ApplicationIOController.request: an unconfirmed       *)
(*                   request sent without an IOCB; touches no queue        *)
(*   Outcome(d, ok)  ApplicationIOController.confirmation -> _app_complete *)
(*                   -> complete_io / abort_io (+ deferred _trigger,       *)
(*                   + removal of the idle, empty queue)                   *)
(*   Trigger(d)      IOQController._trigger (a deferred call)              *)
(***************************************************************************)
EXTENDS Naturals, Sequences, FiniteSets, TLC

CONSTANTS K,        \* IOCB ids
          D         \* destination addresses

VARIABLES st,       \* [K -> {"idle", "pending", "active", "completed", "aborted"}]   IOCB.ioState
          dest,     \* [K -> D \cup {0}]
          cb,       \* [K -> Nat]  how many times the IOCB's callbacks / completion event fired
          active,   \* [D -> K \cup {0}]   SieveQueue.active_iocb (0 = none)
          pend,     \* [D -> Seq(K)]      SieveQueue.ioQueue
          trig,     \* [D -> Nat]         deferred _trigger calls outstanding
          qexists,  \* [D -> BOOLEAN]     destination has an entry in queue_by_address
          unc,      \* [K -> BOOLEAN]     the IOCB carries an unconfirmed request
          act
vars == <<st, dest, cb, active, pend, trig, qexists, unc, act>>

Init == /\ st = [k \in K |-> "idle"] /\ dest = [k \in K |-> 0] /\ cb = [k \in K |-> 0]
        /\ active = [d \in D |-> 0] /\ pend = [d \in D |-> <<>>] /\ trig = [d \in D |-> 0]
        /\ qexists = [d \in D |-> FALSE] /\ unc = [k \in K |-> FALSE] /\ act = [op |-> "init", k |-> 0, d |-> 0]

Request(k, d, u) ==
    /\ st[k] = "idle" /\ dest[k] = 0
    /\ dest' = [dest EXCEPT ![k] = d]
    /\ unc' = [unc EXCEPT ![k] = u]
    /\ IF active[d] # 0
         THEN /\ st' = [st EXCEPT ![k] = "pending"] /\ pend' = [pend EXCEPT ![d] = Append(@, k)]
              /\ qexists' = [qexists EXCEPT ![d] = TRUE]
              /\ UNCHANGED <<active, cb, trig>>
         ELSE IF u
         THEN \* sent and complete at once: _app_request -> _app_complete(destination, None)
              /\ st' = [st EXCEPT ![k] = "completed"] /\ cb' = [cb EXCEPT ![k] = @ + 1]
              /\ trig' = [trig EXCEPT ![d] = @ + 1]
              /\ qexists' = [qexists EXCEPT ![d] = (pend[d] # <<>>)]
              /\ UNCHANGED <<active, pend>>
         ELSE /\ st' = [st EXCEPT ![k] = "active"] /\ active' = [active EXCEPT ![d] = k]
              /\ qexists' = [qexists EXCEPT ![d] = TRUE]
              /\ UNCHANGED <<pend, cb, trig>>
    /\ act' = [op |-> "request", k |-> k, d |-> d]

\* an unconfirmed request sent without an IOCB (Who-Is, I-Am, a notification): nothing to complete, and in particular
\* not the confirmed request that happens to be in flight toward the same address
Direct(d) ==
    /\ act' = [op |-> "direct", k |-> 0, d |-> d]
    /\ UNCHANGED <<st, dest, cb, active, pend, trig, qexists, unc>>

\* the application gives up a request that is still waiting in the queue (IOCB.abort, or its IOCB timeout expiring there):
\* it leaves the queue with an abort; the request in flight and the rest of the queue are not affected
\* (modelled while a request is in flight toward that destination: its outcome then finds the queue as it is; giving up the
\*  last queued request in the instant between an outcome and the deferred trigger leaves an empty queue object behind
\*  until the next request to that address -- not exercised)
AbortPending(k) ==
    /\ st[k] = "pending" /\ active[dest[k]] # 0
    /\ st' = [st EXCEPT ![k] = "aborted"] /\ cb' = [cb EXCEPT ![k] = @ + 1]
    /\ pend' = [d \in D |-> SelectSeq(pend[d], LAMBDA x : x # k)]
    /\ act' = [op |-> "abortp", k |-> k, d |-> dest[k]]
    /\ UNCHANGED <<dest, active, trig, qexists, unc>>

\* the stack delivers the outcome of the request in flight toward d
Outcome(d, ok) ==
    /\ active[d] # 0
    /\ LET k == active[d] IN
        /\ st' = [st EXCEPT ![k] = IF ok THEN "completed" ELSE "aborted"]
        /\ cb' = [cb EXCEPT ![k] = @ + 1]
    /\ active' = [active EXCEPT ![d] = 0]
    /\ trig' = [trig EXCEPT ![d] = @ + 1]
    /\ qexists' = [qexists EXCEPT ![d] = (pend[d] # <<>>)]          \* idle and empty: forgotten
    /\ act' = [op |-> "outcome", k |-> active[d], d |-> d]
    /\ UNCHANGED <<dest, pend, unc>>

Trigger(d) ==
    /\ trig[d] > 0
    /\ IF active[d] = 0 /\ pend[d] # <<>>
         THEN LET k == Head(pend[d]) IN
              IF unc[k]
              THEN \* the queued unconfirmed request goes out and is complete; the next trigger is deferred
                   /\ st' = [st EXCEPT ![k] = "completed"] /\ cb' = [cb EXCEPT ![k] = @ + 1]
                   /\ pend' = [pend EXCEPT ![d] = Tail(@)]
                   /\ qexists' = [qexists EXCEPT ![d] = (Tail(pend[d]) # <<>>)]
                   /\ UNCHANGED <<active, trig>>
              ELSE /\ st' = [st EXCEPT ![k] = "active"] /\ active' = [active EXCEPT ![d] = k]
                   /\ pend' = [pend EXCEPT ![d] = Tail(@)]
                   /\ trig' = [trig EXCEPT ![d] = @ - 1]
                   /\ UNCHANGED <<cb, qexists>>
         ELSE /\ trig' = [trig EXCEPT ![d] = @ - 1]
              /\ UNCHANGED <<st, active, pend, cb, qexists>>
    /\ act' = [op |-> "trigger", k |-> 0, d |-> d]
    /\ UNCHANGED <<dest, unc>>

Next == \/ \E k \in K, d \in D, u \in BOOLEAN : Request(k, d, u)
        \/ \E d \in D : Direct(d)
        \/ \E k \in K : AbortPending(k)
        \/ \E d \in D, ok \in BOOLEAN : Outcome(d, ok)
        \/ \E d \in D : Trigger(d)
\* fairness: the stack keeps its promise (an outcome for the request in flight) and deferred calls are run; the
\* application may go on sending unconfirmed requests forever
Spec == Init /\ [][Next]_vars /\ WF_vars(\E d \in D, ok \in BOOLEAN : Outcome(d, ok)) /\ WF_vars(\E d \in D : Trigger(d))

\* ---- properties (C04, IOCB half) -------------------------------------------------------
Done(k) == st[k] \in {"completed", "aborted"}
AtMostOneCompletion == \A k \in K : cb[k] <= 1
DoneIffCompletion == \A k \in K : Done(k) <=> cb[k] = 1
OneActivePerDestination == \A d \in D : /\ (active[d] # 0 => st[active[d]] = "active" /\ dest[active[d]] = d)
                                        /\ Cardinality({k \in K : st[k] = "active" /\ dest[k] = d}) <= 1
PendingAreQueued == \A k \in K : st[k] = "pending" <=> \E d \in D : \E i \in 1..Len(pend[d]) : pend[d][i] = k
\* nothing is left behind: a queued request always has something that will start it
NoStall == \A d \in D : (active[d] = 0 /\ pend[d] # <<>>) => trig[d] > 0
Quiescent == \A d \in D : active[d] = 0 /\ trig[d] = 0
NoResidue == Quiescent => /\ \A k \in K : dest[k] # 0 => Done(k)
                          /\ \A d \in D : pend[d] = <<>> /\ ~qexists[d]
\* IOCB states only move forward
Rank(s) == CASE s = "idle" -> 0 [] s = "pending" -> 1 [] s = "active" -> 2 [] OTHER -> 3
A_Monotone == \A k \in K : Rank(st'[k]) >= Rank(st[k]) /\ (Rank(st[k]) = 3 => st'[k] = st[k]) /\ cb'[k] >= cb[k]
Monotone == [][A_Monotone]_vars
\* an outcome comes from the stack's answer to that very request: sending something else -- with or without an IOCB --
\* completes no confirmed request
A_OutcomeOnlyFromReply ==
    \A k \in K : (~unc[k] /\ st[k] \in {"pending", "active"} /\ Rank(st'[k]) = 3)
                      => (act'.op \in {"outcome", "abortp"} /\ act'.k = k)
OutcomeOnlyFromReply == [][A_OutcomeOnlyFromReply]_vars
EventuallyAllDone == <>[](\A k \in K : dest[k] # 0 => Done(k))
=============================================================================
