--------------------------------- MODULE IOQ ---------------------------------
(***************************************************************************)
(* The IOCB path of a confirmed request: app.ApplicationIOController       *)
(* (one SieveQueue per destination address, `queue_by_address`),           *)
(* iocb.IOQController (idle / active, `active_iocb`, `ioQueue`, the        *)
(* deferred `_trigger`) and iocb.IOCB (ioState, callbacks).                *)
(* The stack below is abstracted by what C04's core guarantees: for the    *)
(* one request in flight per destination, exactly one outcome eventually   *)
(* comes back (ack / error / reject / abort, incl. the local abort).       *)
(*                                                                         *)
(*   Request(k, d)   IOController.request_io -> process_io -> SieveQueue   *)
(*   Outcome(d, ok)  ApplicationIOController.confirmation -> _app_complete *)
(*                   -> complete_io / abort_io (+ deferred _trigger,       *)
(*                   + removal of the idle, empty queue)                   *)
(*   Trigger(d)      IOQController._trigger (a deferred call)              *)
(***************************************************************************)
EXTENDS Naturals, Sequences, FiniteSets, TLC

CONSTANTS K,        \* IOCB ids
          D         \* destination addresses

VARIABLES st,       \* [K -> {"idle", "pending", "active", "completed", "aborted"}]   IOCB.ioState
          dest,     \* [K -> D \cup {0}]
          cb,       \* [K -> Nat]  how many times the IOCB's callbacks / completion event fired
          active,   \* [D -> K \cup {0}]   SieveQueue.active_iocb (0 = none)
          pend,     \* [D -> Seq(K)]      SieveQueue.ioQueue
          trig,     \* [D -> Nat]         deferred _trigger calls outstanding
          qexists,  \* [D -> BOOLEAN]     destination has an entry in queue_by_address
          act
vars == <<st, dest, cb, active, pend, trig, qexists, act>>

Init == /\ st = [k \in K |-> "idle"] /\ dest = [k \in K |-> 0] /\ cb = [k \in K |-> 0]
        /\ active = [d \in D |-> 0] /\ pend = [d \in D |-> <<>>] /\ trig = [d \in D |-> 0]
        /\ qexists = [d \in D |-> FALSE] /\ act = [op |-> "init", k |-> 0, d |-> 0]

Request(k, d) ==
    /\ st[k] = "idle" /\ dest[k] = 0
    /\ dest' = [dest EXCEPT ![k] = d]
    /\ qexists' = [qexists EXCEPT ![d] = TRUE]
    /\ IF active[d] # 0
         THEN /\ st' = [st EXCEPT ![k] = "pending"] /\ pend' = [pend EXCEPT ![d] = Append(@, k)] /\ UNCHANGED active
         ELSE /\ st' = [st EXCEPT ![k] = "active"] /\ active' = [active EXCEPT ![d] = k] /\ UNCHANGED pend
    /\ act' = [op |-> "request", k |-> k, d |-> d]
    /\ UNCHANGED <<cb, trig>>

\* the stack delivers the outcome of the request in flight toward d
Outcome(d, ok) ==
    /\ active[d] # 0
    /\ LET k == active[d] IN
        /\ st' = [st EXCEPT ![k] = IF ok THEN "completed" ELSE "aborted"]
        /\ cb' = [cb EXCEPT ![k] = @ + 1]
    /\ active' = [active EXCEPT ![d] = 0]
    /\ trig' = [trig EXCEPT ![d] = @ + 1]
    /\ qexists' = [qexists EXCEPT ![d] = (pend[d] # <<>>)]          \* idle and empty: forgotten
    /\ act' = [op |-> "outcome", k |-> active[d], d |-> d]
    /\ UNCHANGED <<dest, pend>>

Trigger(d) ==
    /\ trig[d] > 0
    /\ trig' = [trig EXCEPT ![d] = @ - 1]
    /\ IF active[d] = 0 /\ pend[d] # <<>>
         THEN LET k == Head(pend[d]) IN
              /\ st' = [st EXCEPT ![k] = "active"] /\ active' = [active EXCEPT ![d] = k]
              /\ pend' = [pend EXCEPT ![d] = Tail(@)]
         ELSE UNCHANGED <<st, active, pend>>
    /\ act' = [op |-> "trigger", k |-> 0, d |-> d]
    /\ UNCHANGED <<dest, cb, qexists>>

Next == \/ \E k \in K, d \in D : Request(k, d)
        \/ \E d \in D, ok \in BOOLEAN : Outcome(d, ok)
        \/ \E d \in D : Trigger(d)
Spec == Init /\ [][Next]_vars /\ WF_vars(Next)

\* ---- properties (C04, IOCB half) -------------------------------------------------------
Done(k) == st[k] \in {"completed", "aborted"}
AtMostOneCompletion == \A k \in K : cb[k] <= 1
DoneIffCompletion == \A k \in K : Done(k) <=> cb[k] = 1
OneActivePerDestination == \A d \in D : /\ (active[d] # 0 => st[active[d]] = "active" /\ dest[active[d]] = d)
                                        /\ Cardinality({k \in K : st[k] = "active" /\ dest[k] = d}) <= 1
PendingAreQueued == \A k \in K : st[k] = "pending" <=> \E d \in D : \E i \in 1..Len(pend[d]) : pend[d][i] = k
\* nothing is left behind: a queued request always has something that will start it
NoStall == \A d \in D : (active[d] = 0 /\ pend[d] # <<>>) => trig[d] > 0
Quiescent == \A d \in D : active[d] = 0 /\ trig[d] = 0
NoResidue == Quiescent => /\ \A k \in K : dest[k] # 0 => Done(k)
                          /\ \A d \in D : pend[d] = <<>> /\ ~qexists[d]
\* IOCB states only move forward
Rank(s) == CASE s = "idle" -> 0 [] s = "pending" -> 1 [] s = "active" -> 2 [] OTHER -> 3
A_Monotone == \A k \in K : Rank(st'[k]) >= Rank(st[k]) /\ (Rank(st[k]) = 3 => st'[k] = st[k]) /\ cb'[k] >= cb[k]
Monotone == [][A_Monotone]_vars
EventuallyAllDone == <>[](\A k \in K : dest[k] # 0 => Done(k))
=============================================================================
