----------------------------- MODULE Trace_COV -----------------------------
(***************************************************************************)
(* Trace validation for COV.tla.  Each line of TRACE_FILE is one execution *)
(* recorded from a real device stack with ChangeOfValueServices and real   *)
(* subscriber stacks on a loss-free vlan.Network under virtual time:       *)
(*   {"tid":n, "init":{"pv":[..],"fl":[..]},                               *)
(*    "evs":[{"op":"sub","s":1,"p":1,"o":2,"c":true,"l":30,"v":0,          *)
(*            "st":{...projected post-state..., "orph":0}}, ...]}          *)
(* For every step TLC decides                                              *)
(*  (a) conformance: is the logged post-state a successor of the logged    *)
(*      pre-state under the COV action named by the event -- first with    *)
(*      the intended design (rej), and, if not, with the named deviation   *)
(*      Dev_RenewKeepsOldParams (dev = first step that only the deviation  *)
(*      explains);                                                         *)
(*  (b) the C16 monitors = the properties of COV.tla, evaluated on the     *)
(*      logged inputs/outputs and on the ghosts, which this module         *)
(*      computes itself from the events (they are never read from the log).*)
(* One verdict record per trace is printed ("@@" prefix); nothing halts.   *)
(***************************************************************************)
EXTENDS COV, Json, IOUtils, TLCExt

Traces == ndJsonDeserialize(IOEnv.TRACE_FILE)
VARIABLES tid, pos, rej, devAt, viol, orph
tvars == <<tid, pos, rej, devAt, viol, orph>>
T == Traces[tid].evs

TInit ==
    /\ tid \in 1..Len(Traces) /\ pos = 1 /\ rej = 0 /\ devAt = 0 /\ viol = {} /\ orph = 0
    /\ now = 0 /\ pv = Traces[tid].init.pv /\ fl = Traces[tid].init.fl
    /\ det = [o \in Objs |-> FALSE] /\ lastRep = [o \in Objs |-> NONE] /\ trig = [o \in Objs |-> FALSE]
    /\ subs = [o \in Objs |-> <<>>] /\ dq = <<>> /\ stuck = {} /\ out = NoOut /\ alist = {} /\ alen = NONE
    /\ want = [k \in Keys |-> NoWant]
    /\ gRep = [o \in Objs |-> NONE] /\ gq = [o \in Objs |-> 0] /\ act = Blank

\* the design action named by the event
Act(e, d) ==
    CASE e.op = "sub"    -> SubscribeD(e.s, e.p, e.o, e.c, e.l, d)
      [] e.op = "cancel" -> Cancel(e.s, e.p, e.o)
      [] e.op = "expire" -> Expire(e.s, e.p, e.o)
      [] e.op = "drain"  -> Drain
      [] e.op = "stranger" -> Stranger(e.o)
      [] e.op = "read"   -> Read(e.s)
      [] e.op = "tick"   -> Tick(e.v)
      [] e.op = "wpv"    -> WritePV(e.o, e.v)
      [] e.op = "wfl"    -> WriteFlags(e.o, e.v)
      [] OTHER           -> FALSE

\* the ghosts follow the inputs
Ghost(e) ==
    CASE e.op = "sub"    -> G_Subscribe(e.s, e.p, e.o, e.c, e.l)
      [] e.op = "cancel" -> G_Cancel(e.s, e.p, e.o)
      [] e.op = "expire" -> G_Expire(e.s, e.p, e.o)
      [] e.op = "drain"  -> G_Drain
      [] e.op = "stranger" -> G_Stranger(e.o)
      [] e.op = "read"   -> G_Read(e.s)
      [] e.op = "tick"   -> G_Tick(e.v)
      [] e.op = "wpv"    -> G_WritePV(e.o, e.v)
      [] e.op = "wfl"    -> G_WriteFlags(e.o, e.v)

\* the projection logged by the harness after the step
Bind(e) ==
    /\ now' = e.st.now /\ pv' = e.st.pv /\ fl' = e.st.fl /\ det' = e.st.det /\ lastRep' = e.st.lastRep
    /\ trig' = e.st.trig
    /\ subs' = [o \in Objs |-> [i \in 1..Len(e.st.subs[o]) |-> Norm(e.st.subs[o][i])]]
    /\ dq' = e.st.dq /\ stuck' = ToSet(e.st.stuck) /\ out' = e.st.out
    /\ alist' = ToSet(e.st.alist) /\ alen' = e.st.alen
    /\ Ghost(e)

Failing ==
    (IF AckThenInitial' THEN {} ELSE {"AckThenInitial"}) \cup
    (IF OnePerBurstPerSubscription' THEN {} ELSE {"OnePerBurstPerSubscription"}) \cup
    (IF NoneForSubThreshold' THEN {} ELSE {"NoneForSubThreshold"}) \cup
    (IF NothingAfterCancelOrExpiry' THEN {} ELSE {"NothingAfterCancelOrExpiry"}) \cup
    (IF ConfirmedAsRequested' THEN {} ELSE {"ConfirmedAsRequested"}) \cup
    (IF TimeRemaining' THEN {} ELSE {"TimeRemaining"}) \cup
    (IF RenewReplaces' /\ orph' = 0 THEN {} ELSE {"RenewReplaces"}) \cup
    (IF ActiveListExact' THEN {} ELSE {"ActiveListExact"})

Step ==
    /\ pos <= Len(T)
    /\ LET e == T[pos] IN
        /\ Bind(e) /\ orph' = e.st.orph
        /\ LET okD == ENABLED (Act(e, FALSE) /\ Bind(e))
               okV == ENABLED (Act(e, TRUE) /\ Bind(e))
           IN  /\ rej' = IF rej = 0 /\ ~okD /\ ~okV THEN pos ELSE rej
               /\ devAt' = IF devAt = 0 /\ ~okD /\ okV THEN pos ELSE devAt
        /\ viol' = viol \cup {<<m, pos>> : m \in {x \in Failing : \A v \in viol : v[1] # x}}   \* first failing step per monitor
    /\ pos' = pos + 1 /\ UNCHANGED tid

Done ==
    /\ pos = Len(T) + 1
    /\ PrintT(<<"@@", [tid |-> Traces[tid].tid, rej |-> rej, dev |-> devAt, viol |-> viol]>>)
    /\ pos' = pos + 1 /\ UNCHANGED <<vars, tid, rej, devAt, viol, orph>>

TNext == Step \/ Done
TSpec == TInit /\ [][TNext]_<<vars, tvars>>
=============================================================================
