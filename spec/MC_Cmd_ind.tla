----------------------------- MODULE MC_Cmd_ind -----------------------------
(***************************************************************************)
(* Apalache (best effort): the C17 invariants of Cmd.tla are INDUCTIVE     *)
(* over all 16 priorities (+ "omitted"), three values, two relinquish      *)
(* defaults and minimum times 0..3 -- i.e. they hold after command         *)
(* sequences of any length over the full priority range, which TLC only    *)
(* enumerates for 4-6 priorities.                                          *)
(*   apalache-mc check --cinit=CInit --init=Init --inv=Ind --length=0      *)
(*   apalache-mc check --cinit=CInit --init=Ind  --inv=Ind --length=1      *)
(***************************************************************************)
EXTENDS Cmd

CInit ==
    /\ Values = {"a", "b", "c"} /\ RDefs = {"d", "a"}
    /\ Prios = 0..16 /\ BadPrios = {0, 17, 255}
    /\ MinTimes = 0..3 /\ Ticks = {1, 2, 3}
    /\ Dev_MinOnOffSwapped = FALSE

Toks == Values \cup {Null}
TypeInd ==
    /\ slot \in [1..16 -> Toks] /\ last \in [1..16 -> Toks]
    /\ rdef \in RDefs /\ pv \in Values \cup RDefs
    /\ minOn \in MinTimes /\ minOff \in MinTimes
    /\ dl \in -1..3 /\ res \in {"ok", "err"}
    /\ xh \in [v : Toks, rem : -2..3]
    /\ act \in [op : {"init", "write", "relinquish", "bad", "expire", "tick", "obs", "unobs"}, p : {0, 1, 6, 16, 17, 255}, v : Toks \cup {"idx0", "x"}]

Ind == TypeInd /\ PVIsHighest /\ SlotIsLastCommand /\ BadWriteRefused /\ MinOnOffHold /\ TimerIsHold
=============================================================================
