------------------------------ MODULE MC_Vlan ------------------------------
(* Small configurations of Vlan.tla (X06).  Topologies:                                                          *)
(*   Lan(p3, s1, r2, d)  one plain Network (broadcast address <<0>>, drop_percent d), nodes 1 2 3 attached in    *)
(*                       that order (addresses <<1>> <<2>> <<3>>), node 4 (address <<4>>, spoofing) and node 5   *)
(*                       (a second node with address <<2>>) constructed but unattached; node 3 promiscuous iff   *)
(*                       p3, node 1 spoofing iff s1, what sits on node 2 raises iff r2                           *)
(*   IP(p3, s2, r2)      IPNetwork A = 10.0.0.0/25 with a2 (node 2), the router's node rA (node 1), a3 (node 3)  *)
(*                       in that order, IPNetwork B = 10.0.0.128/25 with rB (node 4), b2 (5), b3 (6); node 7 =   *)
(*                       10.0.0.70/27 unattached (another broadcast address); one IPRouter <<rA, rB>>; a3 is         *)
(*                       promiscuous iff p3, a2 spoofing iff s2, what sits on a2 listens to everything and raises  *)
(*                       iff r2                                                                                    *)
(*   IP3                 the same plus IPNetwork C = 10.0.1.0/24 with rC (node 8) and c2 (node 9)                *)
EXTENDS Vlan

PN(a, p, s, r) == [addr |-> <<a>>, plen |-> 0, ip |-> FALSE, prom |-> p, spoof |-> s, raises |-> r]
IPN(a, plen, p, s, r) == [addr |-> a, plen |-> plen, ip |-> TRUE, prom |-> p, spoof |-> s, raises |-> r]
PNet(d) == [ip |-> FALSE, bcast |-> <<0>>, drop |-> d]
IPNet(d) == [ip |-> TRUE, bcast |-> NoAddr, drop |-> d]
Port == 47808
IPA(a, b, c, d) == <<a, b, c, d, Port>>

Lan(p3, s1, r2, d) ==
    [node |-> <<PN(1, FALSE, s1, FALSE), PN(2, FALSE, FALSE, r2), PN(3, p3, FALSE, FALSE), PN(4, FALSE, TRUE, FALSE),
                PN(2, FALSE, FALSE, FALSE)>>,
     net |-> <<PNet(d)>>, router |-> <<>>, member |-> << <<1, 2, 3>> >>]

IP(p3, s2, r2) ==
    [node |-> <<IPN(IPA(10, 0, 0, 1), 25, TRUE, TRUE, FALSE), IPN(IPA(10, 0, 0, 2), 25, r2, s2, r2),
                IPN(IPA(10, 0, 0, 3), 25, p3, FALSE, FALSE),
                IPN(IPA(10, 0, 0, 129), 25, TRUE, TRUE, FALSE), IPN(IPA(10, 0, 0, 130), 25, FALSE, FALSE, FALSE),
                IPN(IPA(10, 0, 0, 131), 25, FALSE, FALSE, FALSE),
                IPN(IPA(10, 0, 0, 70), 27, FALSE, FALSE, FALSE)>>,
     net |-> <<IPNet(0), IPNet(0)>>, router |-> <<1, 4>>, member |-> << <<2, 1, 3>>, <<4, 5, 6>> >>]

IP3 ==
    [node |-> IP(TRUE, FALSE, FALSE).node \o
              <<IPN(IPA(10, 0, 1, 1), 24, TRUE, TRUE, FALSE), IPN(IPA(10, 0, 1, 2), 24, FALSE, FALSE, FALSE)>>,
     net |-> <<IPNet(0), IPNet(0), IPNet(0)>>, router |-> <<1, 4, 8>>,
     member |-> << <<2, 1, 3>>, <<4, 5, 6>>, <<8, 9>> >>]

\* ---- one plain network, three nodes, two sends, every interleaving with deliveries, one membership change, one mutation
lan_Topos == <<Lan(FALSE, FALSE, FALSE, 0), Lan(TRUE, FALSE, FALSE, 0), Lan(FALSE, TRUE, FALSE, 0), Lan(TRUE, TRUE, FALSE, 0)>>
lan_TopoAt(i) == lan_Topos[i]
lan_N == Len(lan_Topos)
lan_Dests == {<<1>>, <<2>>, <<3>>, <<0>>, <<9>>}
lan_Claims == {NoAddr, <<2>>}
\* ---- the same with an exception-raising receiver in the middle of the list
raise_Topos == <<Lan(TRUE, FALSE, TRUE, 0)>>
raise_TopoAt(i) == raise_Topos[i]
raise_N == Len(raise_Topos)
\* ---- a lossy network: the draws around the 50 % threshold
lossy_Topos == <<Lan(TRUE, FALSE, FALSE, 50), Lan(FALSE, FALSE, FALSE, 100), Lan(FALSE, FALSE, FALSE, 1)>>
lossy_TopoAt(i) == lossy_Topos[i]
lossy_N == Len(lossy_Topos)
lossy_Draws == {0, 81, 82, 4095, 4096, 8191}          \* 1 %: 81.92, 50 %: 4096, 100 %: 8192
lossy_Dests == {<<2>>, <<0>>}
\* ---- two IP networks and a router
ip_Topos == <<IP(FALSE, FALSE, FALSE), IP(TRUE, FALSE, FALSE), IP(FALSE, TRUE, FALSE), IP(TRUE, TRUE, FALSE)>>
ip_TopoAt(i) == ip_Topos[i]
ip_N == Len(ip_Topos)
ip_Dests == {IPA(10, 0, 0, 3), IPA(10, 0, 0, 130), IPA(10, 0, 0, 127), IPA(10, 0, 0, 255), IPA(10, 0, 0, 129), IPA(10, 0, 1, 5)}
ip_Claims == {NoAddr, IPA(10, 0, 0, 130)}
ipraise_Topos == <<IP(TRUE, FALSE, TRUE)>>
ipraise_TopoAt(i) == ipraise_Topos[i]
ipraise_N == Len(ipraise_Topos)
\* ---- three IP networks: only the network that contains the destination gets the frame
ip3_Topos == <<IP3>>
ip3_TopoAt(i) == ip3_Topos[i]
ip3_N == Len(ip3_Topos)
ip3_Dests == {IPA(10, 0, 0, 130), IPA(10, 0, 1, 2), IPA(10, 0, 1, 255), IPA(10, 0, 0, 127), IPA(10, 0, 2, 2)}
None == {}
=============================================================================
