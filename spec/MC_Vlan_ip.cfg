CONSTANTS
  TopoAt <- ip_TopoAt
  NTopos <- ip_N
  SendNodes = {2, 5}
  Dests <- ip_Dests
  Claims <- ip_Claims
  Payloads = {7}
  MutPayloads = {9}
  ChurnNodes = {6, 7}
  Draws <- None
  MaxSends = 2
  MaxChurn = 1
  MaxMut = 1
  SendByReference = FALSE
  BcastExcludesByAddress = FALSE
  RaiseCutsDelivery = FALSE
SPECIFICATION Spec
CHECK_DEADLOCK FALSE
INVARIANT Shape
INVARIANT RoutedExactlyOnce
INVARIANT EverySendOnItsOwnWire
PROPERTY P_UnicastToAddressed
PROPERTY P_UnicastNotToOthers
PROPERTY P_PromiscuousSeesOnce
PROPERTY P_BroadcastToAllOthers
PROPERTY P_BroadcastNotToSender
PROPERTY P_OnlyMembersReceive
PROPERTY P_DroppedReachesNobody
PROPERTY P_ReceptionOnlyOnDelivery
PROPERTY P_HistoryOnlyGrows
PROPERTY P_CopyIsFrame
PROPERTY P_OnlySentFramesArrive
PROPERTY P_SourceIsSender
PROPERTY P_PayloadIsWhatWasSent
PROPERTY P_AtMostOnce
PROPERTY P_PerSenderFifo
PROPERTY P_UnboundRefused
PROPERTY P_SpoofRefusedUnlessEnabled
PROPERTY P_RefusedSendsNothing
PROPERTY P_AcceptedSendInFlight
PROPERTY P_OnlySendsAndForwardsEmit
PROPERTY P_FlightKeepsPayload
PROPERTY P_OldestFirst
PROPERTY P_FlightWellFormed
PROPERTY P_WireLogsEveryFrame
PROPERTY P_NoLoop
PROPERTY P_ForwardToContainingNet
PROPERTY P_AddOutcome
PROPERTY P_RemoveOutcome
PROPERTY P_MembershipOnlyByAddRemove
