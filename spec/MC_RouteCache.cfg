SPECIFICATION BoundedSpec
CONSTANTS
  SNets = {1, 2}
  Addrs = {1, 2, 3}
  DNets = {1, 2, 3, 4}
  Statuses = {0}
  AttachedInits <- c_AttachedInits
  UpdSets <- c_UpdSets
  DelSets <- c_DelSets
  MaxLevel = 99
  Dev_EmptyUpdateCreatesRouter = FALSE
  Dev_DeleteDnetsDropsRouter = FALSE
  Dev_DeleteDnetsNoAddrFails = FALSE
VIEW NoActView
INVARIANT TypeOK
INVARIANT Coherent
INVARIANT NoEmptyRouter
PROPERTY NewestWins
PROPERTY DeleteExact
CHECK_DEADLOCK FALSE
