SPECIFICATION Spec
CONSTANTS
  N = 5
  Role <- c_Role
  Subnet <- c_Subnet
  BBMDof <- c_BBMDof
  TTL <- c_TTL
  BDT <- c_BDT
  Managers <- c_Managers
  Res = 1
  BGrace = 2
  FGrace = 4
  PGrace = 3
  StickyUnreg = FALSE
  MaxNow = 2
  MaxB = 1
  MaxEnv = 2
  MaxStep = 1
  Reduce = TRUE
INVARIANT TypeOK
INVARIANT OncePerNode
INVARIANT NeverToOriginator
INVARIANT TrueSource
INVARIANT ServedAtLeastTTL
INVARIANT GoneAfterGrace
INVARIANT DeleteIsImmediate
INVARIANT UnregisterWithinGrace
INVARIANT RenewsBeforeExpiry
INVARIANT ListedIffLive
CHECK_DEADLOCK FALSE
