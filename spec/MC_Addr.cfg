CONSTANTS
  Grid = "ip"
  Thorough = FALSE
INIT Init
NEXT Next
INVARIANT TheoremsHold
INVARIANT PoolEquivalence
CHECK_DEADLOCK FALSE
