-------------------------------- MODULE COV --------------------------------
(***************************************************************************)
(* Change-of-value reporting of bacpypes (service/cov.py, service/detect.py,*)
(* object.py Property.WriteProperty -> monitors).                           *)
(*                                                                         *)
(* One action per critical section of the code (DESIGN.md A.5):            *)
(*   Subscribe / Cancel   ChangeOfValueServices.do_SubscribeCOVRequest     *)
(*                        (find by (client, proc, obj); create Subscription*)
(*                        with lifetime task / renew_subscription /        *)
(*                        cancel_subscription; ack; deferred initial       *)
(*                        notification)                                    *)
(*   WritePV / WriteFlags Property.WriteProperty ->                        *)
(*                        DetectionMonitor.property_change (_triggered     *)
(*                        coalescing, filter or !=, deferred _execute);    *)
(*                        COVIncrementCriteria.present_value_filter        *)
(*   Drain                DetectionAlgorithm._execute ->                   *)
(*                        send_cov_notifications (values current THEN,     *)
(*                        time remaining, confirmed/unconfirmed,           *)
(*                        previous_reported_value)                         *)
(*   Expire               Subscription.process_task                        *)
(*   Tick                 the clock moves (never across a deadline)        *)
(*   Read                 ActiveCOVSubscriptions.ReadProperty over the wire*)
(*                                                                         *)
(* Granularity.  core.run_once is "one task, then drain the deferred       *)
(* functions" (DESIGN.md section 0), so every step that enters the event   *)
(* loop (Subscribe, Cancel, Expire, Read, Drain) ends with the drain of    *)
(* the deferred queue dq; only the property writes, which an application   *)
(* performs by direct calls, leave entries in dq (a burst = the writes     *)
(* between two drains).  A due lifetime task always runs before anything   *)
(* else that enters the loop at that instant (heap order), hence NoDue.    *)
(*                                                                         *)
(* Time is integral: TPS ticks per second.  Values and status flags are    *)
(* integers (the harness scales).  Objs = 1..n, Subs = 1..m.               *)
(*                                                                         *)
(* Two groups of variables:                                                *)
(*   design state   what the code keeps (projected from the real objects   *)
(*                  in trace validation)                                   *)
(*   ghosts         want, gRep, gq: computed from the INPUTS (requests,    *)
(*                  writes, clock) and the OUTPUTS (out, alist) only; the  *)
(*                  C16 monitors are phrased over ghosts and outputs, so   *)
(*                  they decide the property on an execution whatever the  *)
(*                  private state of the implementation says.              *)
(***************************************************************************)
EXTENDS Naturals, Integers, Sequences, FiniteSets, TLC

CONSTANTS
    Strangers,      \* BOOLEAN: stations outside Subs use SubscribeCOVProperty on the same objects (Stranger action)
    Objs,           \* monitored objects 1..n
    Analog,         \* subset of Objs with COVIncrementCriteria (analog-value, pulse-converter)
    Inc,            \* [Objs -> Nat] COV increment (only read for Analog)
    Vals,           \* [Objs -> SUBSET Nat] present-value grid (model checking only)
    FlagVals,       \* status-flag values (model checking only)
    Subs,           \* subscribers 1..m
    Procs,          \* subscriber process identifiers
    Lifetimes,      \* lifetimes in seconds, 0 = indefinite (model checking only)
    Confs,          \* subset of BOOLEAN: issueConfirmedNotifications values (model checking only)
    TickSteps,      \* clock steps in ticks (model checking only)
    TPS,            \* ticks per second
    InitPV,         \* [Objs -> Nat]
    MaxLevel,
    Dev_RenewKeepsOldParams  \* named deviation (finding F11): Subscription.renew_subscription re-times the
                             \* task but keeps the old lifetime / confirmed flag.  FALSE = intended design.

VARIABLES
    now,
    pv, fl,         \* [Objs -> Nat]  presentValue, statusFlags
    det,            \* [Objs -> BOOLEAN]  a detection algorithm is bound to the object (app.cov_detections)
    lastRep,        \* [Objs -> Int]  COVIncrementCriteria.previous_reported_value (NONE: unset / not analog)
    trig,           \* [Objs -> BOOLEAN]  DetectionAlgorithm._triggered
    subs,           \* [Objs -> Seq(record)]  cov_subscriptions of the object's detection, in list order
    dq,             \* core.deferredFns restricted to COV work: <<[k |-> "exec", o, s, p], [k |-> "init", ...]>>
    stuck,          \* subscribers whose IOCB queue at the device is blocked by a request that could not be encoded
    out,            \* observation: [Subs -> Seq] what each subscriber received during the last step, in order
    alist, alen,    \* observation: result of the last step if it was Read (set of entries, length; NONE = no read)
    want,           \* ghost: [Keys -> [on, conf, life, at]] the latest request per key
    gRep,           \* ghost: [Objs -> Int] present value carried by the last notification sent for the object
    gq,             \* ghost: [Objs -> 0..2] the current burst contains a qualifying change: 2 = yes, 0 = no,
                    \*        1 = undetermined (written while nobody was subscribed: nothing had been reported)
    act             \* the step that produced this state

dvars == <<now, pv, fl, det, lastRep, trig, subs, dq, stuck, out, alist, alen>>
gvars == <<want, gRep, gq, act>>
vars  == <<dvars, gvars>>

NONE == -1
Keys == Subs \X Procs \X Objs
NoOut == [s \in Subs |-> <<>>]
Ack == [t |-> "ack", p |-> 0, o |-> 0, pv |-> 0, fl |-> 0, tr |-> 0, conf |-> FALSE]
ToSet(s) == {s[i] : i \in 1..Len(s)}
Abs(x) == IF x < 0 THEN -x ELSE x

----------------------------------------------------------------------------
\* int(cov.taskTime - current_time): truncation toward zero, in seconds
Trunc(a) == IF a >= 0 THEN a \div TPS ELSE -((-a) \div TPS)
\* send_cov_notifications / ActiveCOVSubscriptions.ReadProperty: "if not cov.lifetime: 0 else int(...) or 1"
TR(r, n) == IF r.life = 0 THEN 0 ELSE LET d == Trunc(r.exp - n) IN IF d = 0 THEN 1 ELSE d
\* a stored expiry time is meaningless when the task is not armed and the lifetime is indefinite
Norm(r) == IF ~r.armed /\ r.life = 0 THEN [r EXCEPT !.exp = NONE] ELSE r

RECURSIVE Find(_, _, _, _)
Find(list, s, p, i) == IF i > Len(list) THEN 0 ELSE IF list[i].s = s /\ list[i].p = p THEN i ELSE Find(list, s, p, i + 1)
RemoveAt(list, i) == SubSeq(list, 1, i - 1) \o SubSeq(list, i + 1, Len(list))

\* the mutable design state as a record, so that the event-loop pass can be written as a function
St == [det |-> det, lastRep |-> lastRep, trig |-> trig, subs |-> subs, dq |-> dq, stuck |-> stuck, out |-> NoOut]

\* cov_notification -> IOCB -> per-address queue -> encode -> vlan.  A negative time remaining cannot be encoded
\* (Unsigned): the request is dropped; a confirmed one leaves its IOCB active for ever, which blocks the queue.
Emit(st, r) ==
    LET tr == TR(r, now) IN
    IF r.s \in st.stuck THEN st
    ELSE IF tr < 0 THEN (IF r.conf THEN [st EXCEPT !.stuck = @ \cup {r.s}] ELSE st)
    ELSE [st EXCEPT !.out[r.s] = Append(@, [t |-> "note", p |-> r.p, o |-> r.o, pv |-> pv[r.o], fl |-> fl[r.o],
                                              tr |-> tr, conf |-> r.conf])]

RECURSIVE EmitAll(_, _, _)
EmitAll(st, list, i) == IF i > Len(list) THEN st ELSE EmitAll(Emit(st, list[i]), list, i + 1)

Reported(st, o) == IF o \in Analog THEN [st EXCEPT !.lastRep[o] = pv[o]] ELSE st

\* DetectionAlgorithm._execute -> send_cov_notifications(): one notification per subscription of the object
RunExec(st, o) ==
    IF ~st.det[o] THEN st
    ELSE [EmitAll(Reported(st, o), st.subs[o], 1) EXCEPT !.trig[o] = FALSE]

\* deferred(send_cov_notifications, cov): the initial notification of a new or renewed subscription
RunInit(st, e) ==
    LET i == Find(st.subs[e.o], e.s, e.p, 1) IN
    IF i = 0 THEN st ELSE Emit(Reported(st, e.o), st.subs[e.o][i])

RECURSIVE DrainAll(_)
DrainAll(st) ==
    IF st.dq = <<>> THEN st
    ELSE LET e == Head(st.dq)
             r == [st EXCEPT !.dq = Tail(@)]
         IN  DrainAll(IF e.k = "exec" THEN RunExec(r, e.o) ELSE RunInit(r, e))

\* ChangeOfValueServices.cancel_subscription: last subscription gone -> unbind and forget the detection
Teardown(st, o) ==
    IF st.subs[o] # <<>> THEN st
    ELSE [st EXCEPT !.det[o] = FALSE, !.lastRep[o] = NONE, !.trig[o] = FALSE,
                    !.dq = SelectSeq(@, LAMBDA e : ~(e.k = "exec" /\ e.o = o))]

DoSubscribe(st, s, p, o, c, l, dev) ==
    LET i     == Find(st.subs[o], s, p, 1)
        fresh == [s |-> s, p |-> p, o |-> o, conf |-> c, life |-> l, exp |-> IF l # 0 THEN now + l * TPS ELSE NONE,
                  armed |-> l # 0]
        old   == st.subs[o][i]
        kept  == Norm([old EXCEPT !.exp = IF l # 0 THEN now + l * TPS ELSE @, !.armed = l # 0])
        list  == IF i = 0 THEN Append(st.subs[o], fresh)
                 ELSE [st.subs[o] EXCEPT ![i] = IF dev THEN kept ELSE fresh]
    IN  [st EXCEPT !.subs[o] = list, !.det[o] = TRUE,
                   !.out[s] = Append(@, Ack),
                   !.dq = Append(@, [k |-> "init", o |-> o, s |-> s, p |-> p])]

DoCancel(st, s, p, o) ==
    LET i == Find(st.subs[o], s, p, 1)
        a == [st EXCEPT !.out[s] = Append(@, Ack)]
    IN  IF i = 0 THEN [a EXCEPT !.det[o] = TRUE]      \* the handler binds a detection before it looks for the record
        ELSE Teardown([a EXCEPT !.subs[o] = RemoveAt(@, i)], o)

DoExpire(st, s, p, o) ==
    LET i == Find(st.subs[o], s, p, 1) IN Teardown([st EXCEPT !.subs[o] = RemoveAt(@, i)], o)

AllRecs(S) == UNION {ToSet(S[o]) : o \in Objs}
NoDue == \A r \in AllRecs(subs) : ~(r.armed /\ r.exp <= now)

Commit(st) ==
    /\ det' = st.det /\ lastRep' = st.lastRep /\ trig' = st.trig /\ subs' = st.subs /\ dq' = st.dq
    /\ stuck' = st.stuck /\ out' = st.out

----------------------------------------------------------------------------
\* ghosts: functions of inputs and outputs only
Blank == [op |-> "init", s |-> 0, p |-> 0, o |-> 0, c |-> FALSE, l |-> 0, v |-> 0, dr |-> {}, dm |-> {}]
NoWant == [on |-> FALSE, conf |-> FALSE, life |-> 0, at |-> 0]
Drained == {o \in Objs : gq[o] = 2}
DrainedMaybe == {o \in Objs : gq[o] = 1}
Expiry(w) == w.at + w.life * TPS
Live(k) == want[k].on /\ (want[k].life = 0 \/ now < Expiry(want[k]))       \* certainly subscribed
MaybeLive(k) == want[k].on /\ (want[k].life = 0 \/ now <= Expiry(want[k])) \* ... or at the very instant of expiry
AnyMaybeLive(o) == \E k \in Keys : k[3] = o /\ MaybeLive(k)

\* a step that runs the event loop reports the pending bursts: their values become the last reported ones
G_Loop(a, reported) ==
    /\ gq' = [o \in Objs |-> 0]
    /\ gRep' = [o \in Objs |-> IF o \in Drained \cup reported THEN pv[o] ELSE gRep[o]]
    /\ act' = [a EXCEPT !.dr = Drained, !.dm = DrainedMaybe]
G_Subscribe(s, p, o, c, l) ==
    /\ want' = [want EXCEPT ![<<s, p, o>>] = [on |-> TRUE, conf |-> c, life |-> l, at |-> now]]
    /\ G_Loop([Blank EXCEPT !.op = "sub", !.s = s, !.p = p, !.o = o, !.c = c, !.l = l], {o})
G_Cancel(s, p, o) ==
    /\ want' = [want EXCEPT ![<<s, p, o>>] = NoWant]
    /\ G_Loop([Blank EXCEPT !.op = "cancel", !.s = s, !.p = p, !.o = o], {})
\* the lifetime task of a key ran (a scheduler step the harness sees): from then on the key is certainly not
\* subscribed any more -- but only if the requested lifetime has really elapsed
G_Expire(s, p, o) ==
    /\ LET w == want[<<s, p, o>>] IN
       want' = IF w.on /\ w.life # 0 /\ now >= Expiry(w) THEN [want EXCEPT ![<<s, p, o>>] = NoWant] ELSE want
    /\ G_Loop([Blank EXCEPT !.op = "expire", !.s = s, !.p = p, !.o = o], {})
G_Drain == UNCHANGED want /\ G_Loop([Blank EXCEPT !.op = "drain"], {})
G_Stranger(o) == UNCHANGED want /\ G_Loop([Blank EXCEPT !.op = "stranger", !.o = o], {o})
G_Read(s) == UNCHANGED want /\ G_Loop([Blank EXCEPT !.op = "read", !.s = s], {})
G_Tick(d) == UNCHANGED <<want, gRep, gq>> /\ act' = [Blank EXCEPT !.op = "tick", !.v = d]
\* for analog objects: a change of at least the increment since the last reported value; for others: any change
Mark(o, qualifies) == [gq EXCEPT ![o] = IF AnyMaybeLive(o) THEN (IF qualifies THEN 2 ELSE @) ELSE (IF @ = 2 THEN 2 ELSE 1)]
G_WritePV(o, v) ==
    /\ gq' = Mark(o, IF o \in Analog THEN Abs(v - gRep[o]) >= Inc[o] ELSE v # pv[o])
    /\ UNCHANGED <<want, gRep>> /\ act' = [Blank EXCEPT !.op = "wpv", !.o = o, !.v = v]
G_WriteFlags(o, f) ==
    /\ gq' = Mark(o, f # fl[o])
    /\ UNCHANGED <<want, gRep>> /\ act' = [Blank EXCEPT !.op = "wfl", !.o = o, !.v = f]

----------------------------------------------------------------------------
Init ==
    /\ now = 0 /\ pv = InitPV /\ fl = [o \in Objs |-> 0]
    /\ det = [o \in Objs |-> FALSE] /\ lastRep = [o \in Objs |-> NONE] /\ trig = [o \in Objs |-> FALSE]
    /\ subs = [o \in Objs |-> <<>>] /\ dq = <<>> /\ stuck = {} /\ out = NoOut /\ alist = {} /\ alen = NONE
    /\ want = [k \in Keys |-> NoWant]
    /\ gRep = [o \in Objs |-> NONE] /\ gq = [o \in Objs |-> 0] /\ act = Blank

NoRead == alist' = {} /\ alen' = NONE

SubscribeD(s, p, o, c, l, dev) ==
    /\ NoDue /\ Commit(DrainAll(DoSubscribe(St, s, p, o, c, l, dev)))
    /\ NoRead /\ UNCHANGED <<now, pv, fl>> /\ G_Subscribe(s, p, o, c, l)
Subscribe(s, p, o, c, l) == SubscribeD(s, p, o, c, l, Dev_RenewKeepsOldParams)

Cancel(s, p, o) ==
    /\ NoDue /\ Commit(DrainAll(DoCancel(St, s, p, o)))
    /\ NoRead /\ UNCHANGED <<now, pv, fl>> /\ G_Cancel(s, p, o)

Expire(s, p, o) ==
    /\ \E r \in ToSet(subs[o]) : r.s = s /\ r.p = p /\ r.armed /\ r.exp <= now
    /\ Commit(DrainAll(DoExpire(St, s, p, o)))
    /\ NoRead /\ UNCHANGED <<now, pv, fl>> /\ G_Expire(s, p, o)

Drain ==
    /\ NoDue /\ Commit(DrainAll(St))
    /\ NoRead /\ UNCHANGED <<now, pv, fl>> /\ G_Drain

\* a station that is none of the subscribers subscribes to a property of o with SubscribeCOVProperty and cancels again at
\* once, while others are subscribed to o: that is its own business -- for everybody else the step is a pass of the loop
\* (its initial notification reports the current value like anybody's: the object-level "last reported value" follows)
Stranger(o) ==
    /\ NoDue /\ det[o] /\ subs[o] # <<>>
    /\ Commit(Reported(DrainAll(St), o))
    /\ NoRead /\ UNCHANGED <<now, pv, fl>> /\ G_Stranger(o)

Read(s) ==
    /\ NoDue
    /\ LET st == DrainAll(St)
           es == {[s |-> r.s, p |-> r.p, o |-> r.o, conf |-> r.conf, tr |-> TR(r, now)] : r \in AllRecs(st.subs)}
       IN  /\ Commit(st)
           /\ IF \E e \in es : e.tr < 0 THEN alist' = {} /\ alen' = -2       \* the answer cannot be encoded: error
              ELSE alist' = es /\ alen' = Cardinality(es)
    /\ UNCHANGED <<now, pv, fl>> /\ G_Read(s)

Tick(d) ==
    /\ d > 0 /\ NoDue /\ \A r \in AllRecs(subs) : r.armed => now + d <= r.exp
    /\ now' = now + d /\ out' = NoOut /\ NoRead
    /\ UNCHANGED <<pv, fl, det, lastRep, trig, subs, dq, stuck>> /\ G_Tick(d)

\* Property.WriteProperty: store, then call the monitors with (old, new)
Monitor(o, qualifies, lr) ==
    IF det[o] /\ ~trig[o]
    THEN /\ lastRep' = [lastRep EXCEPT ![o] = lr]
         /\ IF qualifies THEN trig' = [trig EXCEPT ![o] = TRUE] /\ dq' = Append(dq, [k |-> "exec", o |-> o, s |-> 0, p |-> 0])
                         ELSE UNCHANGED <<trig, dq>>
    ELSE UNCHANGED <<lastRep, trig, dq>>

WritePV(o, v) ==
    /\ pv' = [pv EXCEPT ![o] = v]
    /\ IF o \in Analog
       THEN LET lr == IF lastRep[o] = NONE THEN pv[o] ELSE lastRep[o] IN      \* "first time around": the old value
            Monitor(o, v <= lr - Inc[o] \/ v >= lr + Inc[o], lr)
       ELSE Monitor(o, v # pv[o], lastRep[o])
    /\ out' = NoOut /\ NoRead /\ UNCHANGED <<now, fl, det, subs, stuck>> /\ G_WritePV(o, v)

WriteFlags(o, f) ==
    /\ fl' = [fl EXCEPT ![o] = f]
    /\ Monitor(o, f # fl[o], lastRep[o])
    /\ out' = NoOut /\ NoRead /\ UNCHANGED <<now, pv, det, subs, stuck>> /\ G_WriteFlags(o, f)

Next ==
    \/ \E s \in Subs, p \in Procs, o \in Objs :
          \/ \E c \in Confs, l \in Lifetimes : Subscribe(s, p, o, c, l)
          \/ Cancel(s, p, o) \/ Expire(s, p, o)
    \/ \E o \in Objs : (\E v \in Vals[o] : WritePV(o, v)) \/ (\E f \in FlagVals : WriteFlags(o, f))
    \/ Drain
    \/ \E d \in TickSteps : Tick(d)
    \/ Read(1)         \* who reads does not matter
    \/ (Strangers /\ \E o \in Objs : Stranger(o))

Spec == Init /\ [][Next]_vars
Bound == TLCGet("level") <= MaxLevel
\* the observations of the last step (out, alist, alen, act) do not influence the future: model checking identifies
\* states that differ only there and checks the step properties below on every transition (P_* action properties)
View == <<now, pv, fl, det, lastRep, trig, subs, dq, stuck, want, gRep, gq>>

----------------------------------------------------------------------------
\* Properties (C16).  All of them speak about the step recorded in act, the outputs of that step (out, alist),
\* the inputs (now, pv, fl) and the ghosts.
Looped == act.op \in {"sub", "cancel", "expire", "drain", "read", "stranger"}
IsInit(k) == act.op = "sub" /\ k = <<act.s, act.p, act.o>>
NotesOf(k) == SelectSeq(out[k[1]], LAMBDA n : n.t = "note" /\ n.p = k[2] /\ n.o = k[3])
Cnt(k) == Len(NotesOf(k))
B(x) == IF x THEN 1 ELSE 0
\* remaining lifetime in whole seconds; the code truncates and never reports 0 for a finite lifetime: allow
\* any rounding of the true remainder, at least 1
TrOK(tr, w) == IF w.life = 0 THEN tr = 0
               ELSE LET rem == Expiry(w) - now IN
                    tr >= 1 /\ tr * TPS > rem - TPS /\ (tr * TPS < rem + TPS \/ tr = 1)

\* a subscribe or cancel request is acknowledged first; a subscription is followed by a notification of its own
\* that carries the current values
AckThenInitial ==
    /\ act.op \in {"sub", "cancel"} => out[act.s] # <<>> /\ out[act.s][1] = Ack
    /\ act.op = "sub" => LET ns == NotesOf(<<act.s, act.p, act.o>>) IN
                         ns # <<>> /\ ns[Len(ns)].pv = pv[act.o] /\ ns[Len(ns)].fl = fl[act.o]
\* every burst with a qualifying change gives exactly one notification to every live subscription (and nothing
\* is sent outside steps that run the event loop); notifications carry the values current when they are sent
OnePerBurstPerSubscription ==
    /\ Looped => \A k \in Keys :
                    /\ k[3] \in act.dr /\ Live(k) => Cnt(k) >= 1 + B(IsInit(k))
                    /\ k[3] \in act.dr \cup act.dm => Cnt(k) >= B(IsInit(k)) /\ Cnt(k) <= B(MaybeLive(k)) + B(IsInit(k))
    /\ \A s \in Subs : \A i \in 1..Len(out[s]) : out[s][i].t = "note" =>
            out[s][i].pv = pv[out[s][i].o] /\ out[s][i].fl = fl[out[s][i].o]
\* no qualifying change, no notification (other than the initial one)
NoneForSubThreshold ==
    /\ Looped => \A k \in Keys : k[3] \notin act.dr \cup act.dm => Cnt(k) = B(IsInit(k))
    /\ ~Looped => out = NoOut
NothingAfterCancelOrExpiry == \A k \in Keys : ~MaybeLive(k) => Cnt(k) = 0
ConfirmedAsRequested == \A k \in Keys : \A n \in ToSet(NotesOf(k)) : n.conf = want[k].conf
TimeRemaining == \A k \in Keys : \A n \in ToSet(NotesOf(k)) : TrOK(n.tr, want[k])
\* never two records (or two lifetime tasks) for one key; the record is re-timed by the latest request
RenewReplaces ==
    /\ \A o \in Objs : \A i, j \in 1..Len(subs[o]) :
            i # j => <<subs[o][i].s, subs[o][i].p>> # <<subs[o][j].s, subs[o][j].p>>
    /\ \A r \in AllRecs(subs) : LET w == want[<<r.s, r.p, r.o>>] IN
            w.on /\ r.armed = (w.life # 0) /\ (r.armed => r.exp = Expiry(w))
ActiveListExact ==
    act.op = "read" =>
        /\ alen = Cardinality(alist)
        /\ \A a, b \in alist : (a.s = b.s /\ a.p = b.p /\ a.o = b.o) => a = b
        /\ \A k \in Keys : Live(k) => \E a \in alist : <<a.s, a.p, a.o>> = k
        /\ \A a \in alist : /\ <<a.s, a.p, a.o>> \in Keys /\ MaybeLive(<<a.s, a.p, a.o>>)
                            /\ a.conf = want[<<a.s, a.p, a.o>>].conf /\ TrOK(a.tr, want[<<a.s, a.p, a.o>>])
\* sanity of the design state itself (not part of C16)
DesignSane ==
    /\ stuck = {}
    /\ \A o \in Objs : (subs[o] # <<>> => det[o]) /\ (trig[o] => det[o])
    /\ Looped => dq = <<>> /\ \A o \in Objs : ~trig[o]

P_AckThenInitial             == [][AckThenInitial']_vars
P_OnePerBurstPerSubscription == [][OnePerBurstPerSubscription']_vars
P_NoneForSubThreshold        == [][NoneForSubThreshold']_vars
P_NothingAfterCancelOrExpiry == [][NothingAfterCancelOrExpiry']_vars
P_ConfirmedAsRequested       == [][ConfirmedAsRequested']_vars
P_TimeRemaining              == [][TimeRemaining']_vars
P_RenewReplaces              == [][RenewReplaces']_vars
P_ActiveListExact            == [][ActiveListExact']_vars
P_DesignSane                 == [][DesignSane']_vars
=============================================================================
