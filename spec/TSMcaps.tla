------------------------------ MODULE TSMcaps ------------------------------
(***************************************************************************)
(* Capability negotiation of a confirmed transaction (appservice.py:       *)
(* ClientSSM.indication, ServerSSM.idle / confirmation; app.DeviceInfoCache*)
(* fed by the peer's I-Am): which of "send unsegmented / send segmented /  *)
(* tell the requester it cannot be sent" applies to the request and to the *)
(* response, with how many segments of which size, and which window sizes  *)
(* appear on the wire.  This is a function of the two devices' settings,   *)
(* of what the client knows about the server, and of the payload lengths;  *)
(* the segment exchange itself is TSM.tla.                                 *)
(*                                                                         *)
(* Decide(c) is the intended design (clause 5.2/5.4 and 20.1.2.4/5).  The  *)
(* C12 clauses (ApduFits, SegmentedOnlyIfAllowed, AbortInsteadOfOversize,  *)
(* WindowRange) are stated on an observation record `o` of what was seen   *)
(* on the wire, so that TLC evaluates them both on Decide's own output     *)
(* (design satisfies the property) and on records of the real code.        *)
(***************************************************************************)
EXTENDS Naturals, Integers, Sequences, FiniteSets, TLC

Sizes == {50, 128, 206, 480, 1024, 1476}
SegSupport == {"segmentedBoth", "segmentedTransmit", "segmentedReceive", "noSegmentation"}
CanTx(s) == s \in {"segmentedBoth", "segmentedTransmit"}
CanRx(s) == s \in {"segmentedBoth", "segmentedReceive"}
Min(a, b) == IF a < b THEN a ELSE b
CeilDiv(a, b) == (a + b - 1) \div b
Unspec == 0     \* max-segments "unspecified" (code 0) or "more than 64" (code 7): no numeric limit

\* header octets (clause 20.1.2 / 20.1.5)
HdrReqUnseg == 4
HdrReqSeg == 6
HdrAckUnseg == 3
HdrAckSeg == 5

\* max-segments as carried in the request header: the largest code whose meaning <= capability (C07)
SegsOnWire(n) == IF n = Unspec THEN Unspec ELSE IF n > 64 THEN Unspec
                 ELSE IF n >= 64 THEN 64 ELSE IF n >= 32 THEN 32 ELSE IF n >= 16 THEN 16
                 ELSE IF n >= 8 THEN 8 ELSE IF n >= 4 THEN 4 ELSE IF n >= 2 THEN 2 ELSE Unspec

\* A case: c = [cSeg, cMax, cSegs, cPW, sSeg, sMax, sSegs, sPW, known, lq, lr]
\*   known = TRUE: the client has the server's I-Am (max APDU and segmentation support; an I-Am has no max-segments)

\* ---- the request -----------------------------------------------------------------------
ReqLimit(c) == IF c.known THEN c.sMax ELSE c.cMax       \* what one request APDU may measure
ReqPlan(c) ==
    IF c.lq + HdrReqUnseg <= ReqLimit(c) THEN [how |-> "unseg", n |-> 1, size |-> c.lq + HdrReqUnseg]
    ELSE IF ~CanTx(c.cSeg) THEN [how |-> "abort", n |-> 0, size |-> 0]
    ELSE IF c.known /\ ~CanRx(c.sSeg) THEN [how |-> "abort", n |-> 0, size |-> 0]
    ELSE LET chunk == ReqLimit(c) - HdrReqSeg IN
         [how |-> "seg", n |-> CeilDiv(c.lq, chunk), size |-> ReqLimit(c)]

\* the server refuses a segmented request it cannot receive (abort segmentationNotSupported reaches the requester)
ReqAccepted(c) == ReqPlan(c).how = "unseg" \/ (ReqPlan(c).how = "seg" /\ CanRx(c.sSeg))

\* ---- the response ----------------------------------------------------------------------
\* what the request header announces
AnnSA(c) == CanRx(c.cSeg)
AnnMaxResp(c) == c.cMax                  \* the six standard sizes are code points: no rounding
AnnMaxSegs(c) == SegsOnWire(c.cSegs)
RespLimit(c) == AnnMaxResp(c)      \* what the requester announced (the server's own receive limit does not bound what it sends)
RespPlan(c) ==
    IF c.lr + HdrAckUnseg <= RespLimit(c) THEN [how |-> "unseg", n |-> 1, size |-> c.lr + HdrAckUnseg]
    ELSE IF ~CanTx(c.sSeg) \/ ~AnnSA(c) THEN [how |-> "abort", n |-> 0, size |-> 0]
    ELSE LET chunk == RespLimit(c) - HdrAckSeg
             n == CeilDiv(c.lr, chunk) IN
         IF AnnMaxSegs(c) # Unspec /\ n > AnnMaxSegs(c) THEN [how |-> "abort", n |-> 0, size |-> 0]
         ELSE [how |-> "seg", n |-> n, size |-> RespLimit(c)]

Decide(c) ==
    LET q == ReqPlan(c)
        r == RespPlan(c) IN
    [req |-> q.how,
     \* a server that cannot receive segments aborts on the first one: only that one is ever seen
     reqN |-> IF q.how = "seg" /\ ~CanRx(c.sSeg) THEN 1 ELSE q.n, reqMax |-> q.size,
     resp |-> IF ReqAccepted(c) THEN r.how ELSE "none", respN |-> IF ReqAccepted(c) THEN r.n ELSE 0,
     respMax |-> IF ReqAccepted(c) THEN r.size ELSE 0,
     outcome |-> IF q.how = "abort" THEN "abort_local"
                 ELSE IF ~ReqAccepted(c) THEN "abort_peer"
                 ELSE IF r.how = "abort" THEN "abort_peer" ELSE "ack",
     \* windows seen on the wire: offered by the sender of the first segment, answered by the receiver
     reqWinOffer |-> IF q.how = "seg" THEN c.cPW ELSE 0,
     reqWinActual |-> IF q.how = "seg" /\ CanRx(c.sSeg) THEN Min(c.cPW, c.sPW) ELSE 0,
     respWinOffer |-> IF ReqAccepted(c) /\ r.how = "seg" THEN c.sPW ELSE 0,
     \* (ClientSSM.await_confirmation takes the window the server proposes as it is)
     respWinActual |-> IF ReqAccepted(c) /\ r.how = "seg" THEN c.sPW ELSE 0]

\* ---- C12 on an observation o of one transaction ------------------------------------------------
\* o = [reqSegd, reqN, reqMax, respSegd, respN, respMax, outcome, sa, annMaxResp, annMaxSegs,
\*      reqWinOffer, reqWinActual, respWinOffer, respWinActual, served]
\*   reqMax / respMax = longest request / response APDU seen (octets, header included), 0 if none
\*   sa, annMaxResp, annMaxSegs = what the request header(s) on the wire announced (decoded); served = the application saw the request
ApduFits(c, o) ==
    /\ (c.known /\ o.reqMax > 0) => o.reqMax <= c.sMax          \* requests: what the peer's I-Am announced
    /\ (o.respMax > 0) => o.respMax <= o.annMaxResp             \* responses: what the request announced
SegmentedOnlyIfAllowed(c, o) ==
    /\ o.respSegd => (o.sa /\ (o.annMaxSegs = Unspec \/ o.respN <= o.annMaxSegs))
    /\ o.reqSegd => (~c.known \/ CanRx(c.sSeg))
\* when the request / response cannot be sent within the limits the requester is told so with an abort
CannotSendReq(c) == c.lq + HdrReqUnseg > ReqLimit(c) /\ (~CanTx(c.cSeg) \/ (c.known /\ ~CanRx(c.sSeg)))
CannotSendResp(c) == LET r == RespPlan(c) IN ReqAccepted(c) /\ r.how = "abort"
AbortInsteadOfOversize(c, o) ==
    /\ CannotSendReq(c) => (o.outcome \in {"abort_local", "abort_peer"} /\ o.reqMax = 0 /\ ~o.served)
    /\ (o.served /\ CannotSendResp(c)) => (o.outcome \in {"abort_local", "abort_peer"} /\ o.respMax = 0)
WindowRange(c, o) ==
    /\ o.reqWinOffer # 0 => o.reqWinOffer \in 1..127
    /\ o.respWinOffer # 0 => o.respWinOffer \in 1..127
    /\ o.reqWinActual # 0 => (o.reqWinActual \in 1..127 /\ o.reqWinActual <= o.reqWinOffer)
    /\ o.respWinActual # 0 => (o.respWinActual \in 1..127 /\ o.respWinActual <= o.respWinOffer)
\* a transaction that can be carried within the limits is carried (no gratuitous abort)
NoGratuitousAbort(c, o) == Decide(c).outcome = "ack" => o.outcome = "ack"

\* the observation the intended design itself would produce
ObsOfDecide(c) ==
    LET d == Decide(c) IN
    [reqSegd |-> d.req = "seg", reqN |-> d.reqN, reqMax |-> d.reqMax, respSegd |-> d.resp = "seg", respN |-> d.respN,
     respMax |-> d.respMax, outcome |-> d.outcome,
     \* nothing is announced if no request leaves the client
     sa |-> d.req # "abort" /\ AnnSA(c), annMaxResp |-> IF d.req = "abort" THEN 0 ELSE AnnMaxResp(c),
     annMaxSegs |-> IF d.req = "abort" THEN 0 ELSE AnnMaxSegs(c),
     reqWinOffer |-> d.reqWinOffer, reqWinActual |-> d.reqWinActual, respWinOffer |-> d.respWinOffer,
     respWinActual |-> d.respWinActual, served |-> ReqAccepted(c)]

All(c, o) == ApduFits(c, o) /\ SegmentedOnlyIfAllowed(c, o) /\ AbortInsteadOfOversize(c, o) /\ WindowRange(c, o)
=============================================================================
