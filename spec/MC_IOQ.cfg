\* static copy of the exhaustive configuration of IOQ.tla (harness/ioqcheck.py generates its own)
SPECIFICATION Spec
CONSTANTS K = {1, 2, 3} D = {1, 2}
INVARIANT AtMostOneCompletion
INVARIANT DoneIffCompletion
INVARIANT OneActivePerDestination
INVARIANT PendingAreQueued
INVARIANT NoStall
INVARIANT NoResidue
PROPERTY Monotone
PROPERTY EventuallyAllDone
CHECK_DEADLOCK FALSE
