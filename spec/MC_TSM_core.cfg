SPECIFICATION Spec
CONSTANTS NQ = 3 NR = 3 RK = "ack" PWC = 2 PWS = 2 Retries = 1 Tapdu = 6 Tseg = 1 Tapp = 3 AppDelay = 0 DelayBy = 1
  RecvMult = 4 SeqMod = 256 ResendSeg0OnNoWin = TRUE IndexFromSeq = FALSE IgnoreStaleAck = TRUE
  MaxDrop = 1 MaxDup = 1 MaxDelay = 1 MaxNow = 1000
INVARIANT AtMostOneOutcome
INVARIANT ExactlyOneAtQuiescence
INVARIANT OutcomeKind
INVARIANT NoResidue
INVARIANT BoundedTime
INVARIANT ResponseIntegrity
INVARIANT RequestIntegrity
INVARIANT MoreFollows
INVARIANT SeqMatchesIndex
INVARIANT WindowBound
INVARIANT WindowRange
PROPERTY SilenceAfterOutcome
PROPERTY AbortOnlyAfterAllRetries
PROPERTY NoDoubleIndicationWhileBusy
CHECK_DEADLOCK FALSE
