\* static copy of the main exhaustive configuration of TSM.tla (the drivers c04/c05 generate theirs from tsmlib.consts)
SPECIFICATION Spec
CONSTANTS
  NQ = 3
  NR = 3
  RK = "ack"
  PWC = 2
  PWS = 2
  Retries = 1
  Tapdu = 6
  Tseg = 1
  Tapp = 3
  AppDelay = 0
  DelayBy = 1
  SeqMod = 256
  MaxDrop = 1
  MaxDup = 1
  MaxDelay = 1
  MaxNow = 1000000
  MaxShrink = 0
  RecvMult = 4
  ResendSeg0OnNoWin = TRUE
  IndexFromSeq = FALSE
  IgnoreStaleAck = TRUE
  FinalAckAnyInWindow = FALSE
  EchoClientAbort = FALSE
  IdleAcceptsAnySeq = FALSE
INVARIANT AtMostOneOutcome
INVARIANT ExactlyOneAtQuiescence
INVARIANT OutcomeKind
INVARIANT NoResidue
INVARIANT BoundedTime
INVARIANT ResponseIntegrity
INVARIANT RequestIntegrity
INVARIANT MoreFollows
INVARIANT SeqMatchesIndex
INVARIANT WindowBound
INVARIANT WindowRange
INVARIANT ClientRxIsPrefix
INVARIANT SingleFaultRepaired
INVARIANT FaultFreeSucceeds
PROPERTY SilenceAfterOutcome
PROPERTY AbortOnlyAfterAllRetries
PROPERTY NoDoubleIndicationWhileBusy
PROPERTY WindowRespectsAck
CHECK_DEADLOCK FALSE
