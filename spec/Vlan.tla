-------------------------------- MODULE Vlan --------------------------------
(***************************************************************************)
(* X06 -- the in-process virtual network every multi-node test and         *)
(* simulation of the library stands on  (code: vlan.py  Network, Node,     *)
(* IPNetwork, IPNode, IPRouterNode, IPRouter; delivery is the zero-delay   *)
(* task  Node.indication -> task.OneShotFunction(lan.process_pdu, pdu)).   *)
(*                                                                         *)
(* Top = TopoAt(topo) (topo never changes) is the set of objects that were *)
(* constructed:                                                            *)
(*   Top.node[n]  [addr, plen, ip, prom, spoof, raises]                    *)
(*                 addr: a sequence of integers -- <<k>> for a node of a   *)
(*                 plain Network, <<a,b,c,d,port>> for an IPNode built from*)
(*                 Address("a.b.c.d/plen:port"); prom / spoof: the flags of*)
(*                 the Node; raises: what is bound on top of the node      *)
(*                 raises an exception out of its confirmation()           *)
(*   Top.net[k]   [ip, bcast, drop]  ip: an IPNetwork; bcast: the          *)
(*                 broadcast address a plain Network was constructed with; *)
(*                 drop: drop_percent (integer 0..100)                     *)
(*   Top.router   the IPRouterNodes of the one IPRouter in add_network     *)
(*                 order (their Node objects are Top.node entries with     *)
(*                 prom = spoof = TRUE, attached from the start, for good) *)
(*   Top.member   the attachment lists the run starts with                 *)
(* State: member (the list Network.nodes of every network, in order),      *)
(* bcast (Network.broadcast_address: an IPNetwork takes it from the first  *)
(* node that joins it while it is empty), flight (the scheduled            *)
(* process_pdu calls, oldest first: one entry per frame on its way), rin   *)
(* (frames an IPRouterNode has been handed that the IPRouter has not       *)
(* looked at yet), rcv (per node: what came out on top of it, in order),   *)
(* wire (per network: what its traffic_log was called with).  History:     *)
(* sent (the accepted requests: frame id = position), lost (frames the     *)
(* drop_percent lottery took), act (the last action), cnt (actions taken). *)
(*                                                                         *)
(* Actions: Send(n, dst, claim, pl)  a client calls request(pdu) on node n *)
(*            (claim = NoAddr: pduSource left unset)                       *)
(*          Deliver(draw)  the oldest scheduled process_pdu call runs      *)
(*            (draw: what random.random() returned, in 1/8192, or -1 when  *)
(*            the network has drop_percent 0 and does not draw); the       *)
(*            members of the network AT THAT MOMENT are served             *)
(*          Forward        the IPRouter looks at one frame (urgent: nothing*)
(*            else happens while rin is non-empty; in the code it is a     *)
(*            synchronous call from inside the delivery)                   *)
(*          AddNode(n, k) / RemoveNode(n)   Network.add_node / remove_node *)
(*          Mutate(id, pl) the sender changes the PDU object it has handed *)
(*            to request() for frame id                                    *)
(*                                                                         *)
(* Design decisions that follow the code and are NOT deviations: a unicast *)
(* goes to every attached node that is promiscuous or has the destination  *)
(* address -- the sender is no exception (a promiscuous sender hears its   *)
(* own unicast, a node may write to itself); the members at delivery time  *)
(* count, not those at send time.                                          *)
(*                                                                         *)
(* Named deviations (all FALSE in the intended design; each describes what *)
(* the pinned code does and makes TLC find a violation):                   *)
(*   SendByReference         the frame in flight IS the caller's PDU object *)
(*                           what the caller does to it after request()    *)
(*                           returned is what gets delivered               *)
(*   BcastExcludesByAddress  a broadcast is withheld from every node whose *)
(*                           address equals the frame's SOURCE ADDRESS, not*)
(*                           from the node that sent it: with a claimed    *)
(*                           source (spoofing node, IPRouterNode forwarding*)
(*                           a directed broadcast) the sender gets its own *)
(*                           frame back and the node whose address was     *)
(*                           claimed gets nothing                          *)
(*   RaiseCutsDelivery       an exception out of one receiver ends the     *)
(*                           delivery loop: the receivers behind it in the *)
(*                           list (and the router) never see the frame     *)
(***************************************************************************)
EXTENDS Integers, Sequences, FiniteSets, TLC

CONSTANTS
    TopoAt(_), NTopos,                      \* the topologies of a configuration: TopoAt(1) .. TopoAt(NTopos)
    SendNodes, Dests, Claims, Payloads,     \* alphabets of Send
    MutPayloads,                            \* what Mutate writes
    ChurnNodes,                             \* nodes AddNode / RemoveNode may take
    Draws,                                  \* outcomes of random.random() (in 1/8192) on a lossy network
    MaxSends, MaxChurn, MaxMut,
    SendByReference, BcastExcludesByAddress, RaiseCutsDelivery

VARIABLES topo, member, bcast, flight, rin, rcv, wire, sent, lost, act, cnt
vars == <<topo, member, bcast, flight, rin, rcv, wire, sent, lost, act, cnt>>

NoAddr == <<>>
Top == TopoAt(topo)                                 \* the topology of this behaviour (topo is its index, never changes)
Nodes == 1..Len(Top.node)
Nets == 1..Len(Top.net)
NodeCfg(n) == Top.node[n]
NetCfg(k) == Top.net[k]
Addr(n) == Top.node[n].addr
Prom(n) == Top.node[n].prom
Spoof(n) == Top.node[n].spoof
Raises(n) == Top.node[n].raises

Min2(a, b) == IF a < b THEN a ELSE b
Max2(a, b) == IF a > b THEN a ELSE b
InSeq(x, s) == \E i \in 1..Len(s) : s[i] = x
Occ(x, s) == Cardinality({i \in 1..Len(s) : s[i] = x})
IsPrefix(s, t) == Len(s) <= Len(t) /\ SubSeq(t, 1, Len(s)) = s
IsRouterNode(n) == InSeq(n, Top.router)
NetOfIn(m, n) == IF \E k \in DOMAIN m : InSeq(n, m[k]) THEN CHOOSE k \in DOMAIN m : InSeq(n, m[k]) ELSE 0
NetOf(n) == NetOfIn(member, n)

\* ---- IP arithmetic (what pdu.Address derives from "a.b.c.d/plen" and IPRouter.process_pdu tests), octet by octet
KeepBits(i, plen) == Max2(0, Min2(8, plen - 8 * (i - 1)))       \* network bits in octet i
Low(i, plen) == 2 ^ (8 - KeepBits(i, plen))                     \* size of the host part of octet i
NetPart(o, i, plen) == (o \div Low(i, plen)) * Low(i, plen)
SubnetOf(a, plen) == <<NetPart(a[1], 1, plen), NetPart(a[2], 2, plen), NetPart(a[3], 3, plen), NetPart(a[4], 4, plen)>>
BcastOf(a, plen) ==
    <<NetPart(a[1], 1, plen) + Low(1, plen) - 1, NetPart(a[2], 2, plen) + Low(2, plen) - 1,
      NetPart(a[3], 3, plen) + Low(3, plen) - 1, NetPart(a[4], 4, plen) + Low(4, plen) - 1, a[5]>>
InSubnet(d, a, plen) == Len(d) = 5 /\ SubnetOf(d, plen) = SubnetOf(a, plen)        \* the port plays no part
NodeBcast(n) == BcastOf(Addr(n), Top.node[n].plen)

\* ---- frames
Frame(id, k, snd, src, dst, pl) == [id |-> id, net |-> k, snd |-> snd, src |-> src, dst |-> dst, pl |-> pl]
Rec(f) == [id |-> f.id, src |-> f.src, dst |-> f.dst, pl |-> f.pl]                  \* what a receiver sees
RIn(r, f) == [node |-> r, id |-> f.id, src |-> f.src, dst |-> f.dst, pl |-> f.pl]  \* what the router is handed
IsOrig(f) == f.id \in 1..Len(sent) /\ f.snd = sent[f.id].node                      \* the caller's object (not a router's copy)

NoAct == [op |-> "init", n |-> 0, net |-> 0, dst |-> NoAddr, src |-> NoAddr, pl |-> 0, res |-> "", draw |-> -1, id |-> 0]
Count(op) == cnt' = [cnt EXCEPT ![op] = @ + 1]
Cnt0 == [send |-> 0, deliver |-> 0, forward |-> 0, add |-> 0, remove |-> 0, mutate |-> 0]

\* ---- Node.indication
SendRes(n, claim) ==                                \* (ConfigurationError "unbound node" / RuntimeError "spoofing address conflict")
    IF NetOf(n) = 0 THEN "refused"
    ELSE IF claim # NoAddr /\ claim # Addr(n) /\ ~Spoof(n) THEN "refused"
    ELSE "ok"

Send(n, dst, claim, pl) ==
    LET k == NetOf(n)
        res == SendRes(n, claim)
        id == Len(sent) + 1
        src == IF claim = NoAddr THEN Addr(n) ELSE claim
    IN  /\ rin = <<>>
        /\ ~IsRouterNode(n)
        /\ sent' = IF res = "ok" THEN Append(sent, [node |-> n, net |-> k, src |-> src, dst |-> dst, pl |-> pl]) ELSE sent
        /\ flight' = IF res = "ok" THEN Append(flight, Frame(id, k, n, src, dst, pl)) ELSE flight
        /\ act' = [NoAct EXCEPT !.op = "send", !.n = n, !.net = k, !.dst = dst, !.src = claim, !.pl = pl, !.res = res,
                                !.id = IF res = "ok" THEN id ELSE 0]
        /\ Count("send")
        /\ UNCHANGED <<topo, member, bcast, rin, rcv, wire, lost>>

\* ---- Network.process_pdu
Lossy(k) == Top.net[k].drop > 0
\* random() * 100.0 < drop_percent with random() = draw / 8192 (exact in binary floating point)
DropRule(k, draw) == Lossy(k) /\ draw >= 0 /\ draw * 25 < Top.net[k].drop * 2048
Eligible(f, n) ==
    IF f.dst = bcast[f.net]
    THEN IF BcastExcludesByAddress THEN Addr(n) # f.src ELSE n # f.snd
    ELSE Prom(n) \/ Addr(n) = f.dst
UpToFirstRaiser(s) ==
    LET idx == {i \in 1..Len(s) : Raises(s[i])}
    IN  IF idx = {} THEN s ELSE SubSeq(s, 1, CHOOSE i \in idx : \A j \in idx : i <= j)
Served(f) ==
    LET Test(n) == Eligible(f, n)
        elig == SelectSeq(member[f.net], Test)
    IN  IF RaiseCutsDelivery THEN UpToFirstRaiser(elig) ELSE elig
RouterPart(s, f) ==                                 \* the router nodes among the receivers, as router input
    LET rs == SelectSeq(s, IsRouterNode) IN [i \in 1..Len(rs) |-> RIn(rs[i], f)]

Deliver(draw) ==
    /\ flight # <<>> /\ rin = <<>> /\ Head(flight).net \in Nets
    /\ LET f == Head(flight)
           k == f.net
           got == IF DropRule(k, draw) THEN <<>> ELSE Served(f)
       IN  /\ IF Lossy(k) THEN draw >= 0 ELSE draw = -1
           /\ rcv' = [n \in Nodes |-> IF InSeq(n, got) /\ ~IsRouterNode(n) THEN Append(rcv[n], Rec(f)) ELSE rcv[n]]
           /\ rin' = rin \o RouterPart(got, f)
           /\ wire' = [wire EXCEPT ![k] = Append(@, f.id)]
           /\ lost' = IF DropRule(k, draw) THEN lost \cup {<<f.id, k>>} ELSE lost
           /\ flight' = Tail(flight)
           /\ act' = [NoAct EXCEPT !.op = "deliver", !.n = f.snd, !.net = k, !.dst = f.dst, !.src = f.src, !.pl = f.pl,
                                   !.draw = draw, !.id = f.id]
    /\ Count("deliver")
    /\ UNCHANGED <<topo, member, bcast, sent>>

\* ---- IPRouter.process_pdu: to every OTHER attached network whose subnet contains the destination
Targets(x) ==
    LET Test(o) == o # x.node /\ InSubnet(x.dst, Addr(o), Top.node[o].plen)
    IN  SelectSeq(Top.router, Test)
Forwarded(x) ==
    LET ts == Targets(x) IN [i \in 1..Len(ts) |-> Frame(x.id, NetOf(ts[i]), ts[i], x.src, x.dst, x.pl)]

Forward ==
    /\ rin # <<>>
    /\ LET x == Head(rin) IN
        /\ flight' = flight \o Forwarded(x)
        /\ rin' = Tail(rin)
        /\ act' = [NoAct EXCEPT !.op = "forward", !.n = x.node, !.net = NetOf(x.node), !.dst = x.dst, !.src = x.src,
                                !.pl = x.pl, !.id = x.id]
    /\ Count("forward")
    /\ UNCHANGED <<topo, member, bcast, rcv, wire, sent, lost>>

\* ---- Network.add_node / IPNetwork.add_node / remove_node
AddRes(n, k) ==
    IF Top.net[k].ip /\ member[k] # <<>> /\ NodeBcast(n) # bcast[k] THEN "mismatch" ELSE "ok"

AddNode(n, k) ==
    /\ rin = <<>>
    /\ NetOf(n) = 0 /\ ~IsRouterNode(n) /\ Top.node[n].ip = Top.net[k].ip
    /\ LET res == AddRes(n, k) IN
        /\ member' = IF res = "ok" THEN [member EXCEPT ![k] = Append(@, n)] ELSE member
        /\ bcast' = IF res = "ok" /\ Top.net[k].ip /\ member[k] = <<>> THEN [bcast EXCEPT ![k] = NodeBcast(n)] ELSE bcast
        /\ act' = [NoAct EXCEPT !.op = "add", !.n = n, !.net = k, !.res = res]
    /\ Count("add")
    /\ UNCHANGED <<topo, flight, rin, rcv, wire, sent, lost>>

RemoveNode(n) ==
    /\ rin = <<>>
    /\ NetOf(n) # 0 /\ ~IsRouterNode(n)
    /\ LET k == NetOf(n)
           Keep(x) == x # n
       IN  /\ member' = [member EXCEPT ![k] = SelectSeq(@, Keep)]
           /\ act' = [NoAct EXCEPT !.op = "remove", !.n = n, !.net = k, !.res = "ok"]
    /\ Count("remove")
    /\ UNCHANGED <<topo, bcast, flight, rin, rcv, wire, sent, lost>>

\* ---- the sender touches the object it sent
Mutate(id, pl) ==
    /\ rin = <<>>
    /\ \E i \in 1..Len(flight) : flight[i].id = id /\ IsOrig(flight[i]) /\ flight[i].pl # pl
    /\ LET i == CHOOSE j \in 1..Len(flight) : flight[j].id = id /\ IsOrig(flight[j]) IN
        /\ flight' = IF SendByReference THEN [flight EXCEPT ![i].pl = pl] ELSE flight
        /\ act' = [NoAct EXCEPT !.op = "mutate", !.n = flight[i].snd, !.net = flight[i].net, !.pl = pl, !.id = id]
    /\ Count("mutate")
    /\ UNCHANGED <<topo, member, bcast, rin, rcv, wire, sent, lost>>

Bcast0(t) ==
    [k \in 1..Len(t.net) |->
        IF t.net[k].ip
        THEN IF t.member[k] = <<>> THEN NoAddr ELSE BcastOf(t.node[t.member[k][1]].addr, t.node[t.member[k][1]].plen)
        ELSE t.net[k].bcast]

InitWith(i) ==
    LET t == TopoAt(i) IN
    /\ topo = i /\ member = t.member /\ bcast = Bcast0(t)
    /\ flight = <<>> /\ rin = <<>> /\ rcv = [n \in 1..Len(t.node) |-> <<>>] /\ wire = [k \in 1..Len(t.net) |-> <<>>]
    /\ sent = <<>> /\ lost = {} /\ act = NoAct /\ cnt = Cnt0

Init == \E i \in 1..NTopos : InitWith(i)

Next ==
    \/ /\ cnt.send < MaxSends
       /\ \E n \in SendNodes \cap Nodes, d \in Dests, c \in Claims, p \in Payloads : Send(n, d, c, p)
    \/ \E dr \in Draws \cup {-1} : Deliver(dr)
    \/ Forward
    \/ /\ cnt.add + cnt.remove < MaxChurn
       /\ \E n \in ChurnNodes \cap Nodes : RemoveNode(n) \/ \E k \in Nets : AddNode(n, k)
    \/ /\ cnt.mutate < MaxMut
       /\ \E id \in 1..Len(sent), p \in MutPayloads : Mutate(id, p)

Spec == Init /\ [][Next]_vars

(***************************************************************************)
(* The property.  Step formulas over the state before and after one action  *)
(* (act' names it); none of them looks at a deviation flag.  TLC checks     *)
(* [][M]_vars on the design; Trace_Vlan evaluates the same M on every       *)
(* recorded step of the implementation.                                     *)
(***************************************************************************)
IsDeliver == act'.op = "deliver" /\ flight # <<>> /\ Head(flight).net \in Nets
F == Head(flight)                                   \* the frame a deliver step is about
K == F.net
Dropped == DropRule(K, act'.draw)
Delivering == IsDeliver /\ ~Dropped
IsBcast == F.dst = bcast[K]
On(n) == InSeq(n, member[K])
New(n) == SubSeq(rcv'[n], Len(rcv[n]) + 1, Len(rcv'[n]))
RinNew == SubSeq(rin', Len(rin) + 1, Len(rin'))
Got(n) == IF IsRouterNode(n) THEN Cardinality({i \in 1..Len(RinNew) : RinNew[i].node = n})
          ELSE Len(rcv'[n]) - Len(rcv[n])
Known(id) == id \in 1..Len(sent')

\* -- who gets a frame
UnicastToAddressed  == (Delivering /\ ~IsBcast) => \A n \in Nodes : (On(n) /\ Addr(n) = F.dst) => Got(n) = 1
UnicastNotToOthers  == (Delivering /\ ~IsBcast) => \A n \in Nodes : (On(n) /\ Addr(n) # F.dst /\ ~Prom(n)) => Got(n) = 0
PromiscuousSeesOnce == Delivering => \A n \in Nodes : (On(n) /\ Prom(n) /\ ~(IsBcast /\ n = F.snd)) => Got(n) = 1
BroadcastToAllOthers == (Delivering /\ IsBcast) => \A n \in Nodes : (On(n) /\ n # F.snd) => Got(n) = 1
BroadcastNotToSender == (Delivering /\ IsBcast /\ F.snd \in Nodes) => Got(F.snd) = 0
OnlyMembersReceive  == IsDeliver => \A n \in Nodes : ~On(n) => Got(n) = 0          \* a removed node hears nothing more
DroppedReachesNobody == (IsDeliver /\ Dropped) => \A n \in Nodes : Got(n) = 0
ReceptionOnlyOnDelivery == ~IsDeliver => (\A n \in Nodes : rcv'[n] = rcv[n]) /\ (act'.op = "forward" \/ rin' = rin)
HistoryOnlyGrows    == \A n \in Nodes : IsPrefix(rcv[n], rcv'[n])

\* -- what a receiver gets
CopyIsFrame ==
    IsDeliver => /\ IsPrefix(rin, rin')
                 /\ \A n \in Nodes : \A i \in 1..Len(New(n)) : New(n)[i] = Rec(F)
                 /\ \A i \in 1..Len(RinNew) : RinNew[i] = RIn(RinNew[i].node, F)
OnlySentFramesArrive == \A n \in Nodes : \A i \in 1..Len(New(n)) : Known(New(n)[i].id)
SourceIsSender ==
    \A n \in Nodes : \A i \in 1..Len(New(n)) :
        LET r == New(n)[i] IN Known(r.id) => (Spoof(sent'[r.id].node) \/ r.src = Addr(sent'[r.id].node))
PayloadIsWhatWasSent ==
    \A n \in Nodes : \A i \in 1..Len(New(n)) :
        LET r == New(n)[i] IN Known(r.id) => (r.pl = sent'[r.id].pl /\ r.dst = sent'[r.id].dst /\ r.src = sent'[r.id].src)
AtMostOnce ==
    \A n \in Nodes : /\ Len(New(n)) <= 1
                     /\ \A i \in 1..Len(New(n)), j \in 1..Len(rcv[n]) : rcv[n][j].id # New(n)[i].id
PerSenderFifo ==
    \A n \in Nodes : \A i \in 1..Len(New(n)), j \in 1..Len(rcv[n]) :
        LET r == New(n)[i]
            q == rcv[n][j]
        IN  (Known(r.id) /\ Known(q.id) /\ sent'[r.id].node = sent'[q.id].node) => q.id < r.id

\* -- requests
IsSend == act'.op = "send"
UnboundRefused == (IsSend /\ NetOf(act'.n) = 0) => act'.res = "refused"
SpoofRefusedUnlessEnabled ==
    (IsSend /\ NetOf(act'.n) # 0) =>
        (act'.res = "refused" <=> (act'.src # NoAddr /\ act'.src # Addr(act'.n) /\ ~Spoof(act'.n)))
RefusedSendsNothing == (IsSend /\ act'.res # "ok") => (flight' = flight /\ sent' = sent)
AcceptedSendInFlight ==
    (IsSend /\ act'.res = "ok") =>
        flight' = Append(flight, Frame(Len(sent) + 1, NetOf(act'.n), act'.n,
                                       IF act'.src = NoAddr THEN Addr(act'.n) ELSE act'.src, act'.dst, act'.pl))
OnlySendsAndForwardsEmit ==
    (act'.op \notin {"send", "forward", "deliver"}) =>
        (Len(flight') = Len(flight) /\ \A i \in 1..Len(flight) : [flight'[i] EXCEPT !.pl = 0] = [flight[i] EXCEPT !.pl = 0])
FlightKeepsPayload ==                                  \* a frame on its way is no longer the sender's to change
    (act'.op \notin {"deliver"}) => (Len(flight') >= Len(flight) /\ \A i \in 1..Len(flight) : flight'[i].pl = flight[i].pl)

\* -- the wire
OldestFirst == act'.op = "deliver" => (flight # <<>> /\ flight' = Tail(flight))
FlightWellFormed ==                                    \* every scheduled call is for a network of the topology and holds a frame
    \A i \in 1..Len(flight') : flight'[i].net \in Nets /\ flight'[i].snd \in Nodes /\ flight'[i].id >= 1
WireLogsEveryFrame ==
    IF IsDeliver THEN wire' = [wire EXCEPT ![K] = Append(@, F.id)] ELSE wire' = wire
NoLoop == IsDeliver => ~InSeq(F.id, wire[K])           \* a frame crosses a network at most once

\* -- the router
IsForward == act'.op = "forward" /\ rin # <<>>
ForwardToContainingNet ==
    IsForward =>
        LET x == Head(rin)
            new == SubSeq(flight', Len(flight) + 1, Len(flight'))
        IN  /\ IsPrefix(flight, flight') /\ rin' = Tail(rin)
            /\ \A o \in Nodes :
                  IsRouterNode(o) =>
                      Cardinality({i \in 1..Len(new) : new[i].snd = o}) =
                          (IF o # x.node /\ InSubnet(x.dst, Addr(o), Top.node[o].plen) THEN 1 ELSE 0)
            /\ \A i \in 1..Len(new) :
                  /\ IsRouterNode(new[i].snd) /\ new[i].net = NetOf(new[i].snd)
                  /\ new[i].net # NetOf(x.node)                                    \* never back where it came from
                  /\ Rec(new[i]) = [id |-> x.id, src |-> x.src, dst |-> x.dst, pl |-> x.pl]

\* -- membership
AddOutcome ==
    act'.op = "add" =>
        LET n == act'.n
            k == act'.net
            clash == Top.net[k].ip /\ member[k] # <<>> /\ NodeBcast(n) # bcast[k]
        IN  /\ act'.res = (IF clash THEN "mismatch" ELSE "ok")
            /\ member' = (IF clash THEN member ELSE [member EXCEPT ![k] = Append(@, n)])
            /\ bcast' = (IF ~clash /\ Top.net[k].ip /\ member[k] = <<>> THEN [bcast EXCEPT ![k] = NodeBcast(n)] ELSE bcast)
RemoveOutcome ==
    act'.op = "remove" =>
        LET Keep(x) == x # act'.n IN
        member' = [member EXCEPT ![act'.net] = SelectSeq(@, Keep)] /\ bcast' = bcast
MembershipOnlyByAddRemove == (act'.op \notin {"add", "remove"}) => (member' = member /\ bcast' = bcast)

(***************************************************************************)
(* State formulas for the moments at which nothing is on its way.           *)
(***************************************************************************)
Quiet == flight = <<>> /\ rin = <<>>
RouterOn(k) == \E i \in 1..Len(Top.router) : InSeq(Top.router[i], Top.member[k])
RouterNodeOn(k) == CHOOSE o \in Nodes : IsRouterNode(o) /\ InSeq(o, Top.member[k])
\* a frame sent on a network the router is attached to, to an address inside the subnet of ANOTHER attached network,
\* crosses that network exactly once (unless the lottery took it on the way), and no third network ever
NotRoutedOnce ==
    {id \in 1..Len(sent) : \E k \in Nets :
        LET s == sent[id] IN
        /\ k # s.net /\ s.net \in Nets
        /\ Occ(id, wire[k]) #
                (IF /\ RouterOn(s.net) /\ RouterOn(k) /\ <<id, s.net>> \notin lost
                    /\ InSubnet(s.dst, Addr(RouterNodeOn(k)), Top.node[RouterNodeOn(k)].plen)
                 THEN 1 ELSE 0)}
RoutedExactlyOnce == Quiet => NotRoutedOnce = {}
EverySendOnItsOwnWire == Quiet => \A id \in 1..Len(sent) : sent[id].net \in Nets /\ Occ(id, wire[sent[id].net]) = 1

Shape ==
    /\ DOMAIN rcv = Nodes /\ DOMAIN wire = Nets /\ DOMAIN member = Nets /\ DOMAIN bcast = Nets
    /\ \A n \in Nodes : Cardinality({k \in Nets : InSeq(n, member[k])}) <= 1 /\ \A k \in Nets : Occ(n, member[k]) <= 1
    /\ \A i \in 1..Len(Top.router) : NetOf(Top.router[i]) # 0
    /\ Len(rin) <= 1

P_UnicastToAddressed == [][UnicastToAddressed]_vars
P_UnicastNotToOthers == [][UnicastNotToOthers]_vars
P_PromiscuousSeesOnce == [][PromiscuousSeesOnce]_vars
P_BroadcastToAllOthers == [][BroadcastToAllOthers]_vars
P_BroadcastNotToSender == [][BroadcastNotToSender]_vars
P_OnlyMembersReceive == [][OnlyMembersReceive]_vars
P_DroppedReachesNobody == [][DroppedReachesNobody]_vars
P_ReceptionOnlyOnDelivery == [][ReceptionOnlyOnDelivery]_vars
P_HistoryOnlyGrows == [][HistoryOnlyGrows]_vars
P_CopyIsFrame == [][CopyIsFrame]_vars
P_OnlySentFramesArrive == [][OnlySentFramesArrive]_vars
P_SourceIsSender == [][SourceIsSender]_vars
P_PayloadIsWhatWasSent == [][PayloadIsWhatWasSent]_vars
P_AtMostOnce == [][AtMostOnce]_vars
P_PerSenderFifo == [][PerSenderFifo]_vars
P_UnboundRefused == [][UnboundRefused]_vars
P_SpoofRefusedUnlessEnabled == [][SpoofRefusedUnlessEnabled]_vars
P_RefusedSendsNothing == [][RefusedSendsNothing]_vars
P_AcceptedSendInFlight == [][AcceptedSendInFlight]_vars
P_OnlySendsAndForwardsEmit == [][OnlySendsAndForwardsEmit]_vars
P_FlightKeepsPayload == [][FlightKeepsPayload]_vars
P_OldestFirst == [][OldestFirst]_vars
P_FlightWellFormed == [][FlightWellFormed]_vars
P_WireLogsEveryFrame == [][WireLogsEveryFrame]_vars
P_NoLoop == [][NoLoop]_vars
P_ForwardToContainingNet == [][ForwardToContainingNet]_vars
P_AddOutcome == [][AddOutcome]_vars
P_RemoveOutcome == [][RemoveOutcome]_vars
P_MembershipOnlyByAddRemove == [][MembershipOnlyByAddRemove]_vars
=============================================================================
