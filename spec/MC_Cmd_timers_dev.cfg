CONSTANTS
  Values = {"a", "b"}
  RDefs = {"a", "b"}
  Prios = {0, 1, 6, 8, 16}
  BadPrios = {0, 17}
  MinTimes = {0, 1, 2, 3}
  Ticks = {1, 2, 3}
  Dev_MinOnOffSwapped = TRUE
SPECIFICATION Spec
CHECK_DEADLOCK FALSE
INVARIANT TypeOK
INVARIANT PVIsHighest
INVARIANT SlotIsLastCommand
INVARIANT BadWriteRefused
INVARIANT MinOnOffHold
INVARIANT TimerIsHold
PROPERTY BadWriteChangesNothing
