-------------------------------- MODULE DCC --------------------------------
(***************************************************************************)
(* X01 -- Device Communication Control (BACnet 135 clause 16.1).           *)
(*                                                                         *)
(* One device.  Its communication state is switched by                      *)
(* DeviceCommunicationControl requests (service.device                      *)
(* .DeviceCommunicationControlServices), and enforced by two gates in       *)
(* appservice.StateMachineAccessPoint:                                      *)
(*    PassUp    = confirmation()     APDUs coming up from the network       *)
(*    PassDown  = sap_indication()   requests of the local application      *)
(* Responses of the application (sap_confirmation) are not gated.           *)
(*                                                                         *)
(* Time: `now` counts ticks, TPM ticks per minute.  A timed request arms    *)
(* `deadline`; when the clock reaches it the enable task fires (Expire,     *)
(* urgent: nothing else happens at an instant where it is due).             *)
(*                                                                         *)
(* Observations (what a peer / a sniffer sees of one event):                *)
(*    resp  "ack" | "pwfail" | "iam" | "none" | "other"  what the           *)
(*          requesting client received                                      *)
(*    sent  the device put at least one frame on the medium                 *)
(*    up    the request reached the device's application (conformance only) *)
(*                                                                         *)
(* Ghost `g`: the communication state the device OUGHT to be in, a function *)
(* of the inputs alone (requests, passwords, clock).  Every monitor M_*     *)
(* relates the ghost before an event to the observations of that event, so  *)
(* it can be evaluated on recorded executions without trusting any          *)
(* projected internal state.                                                *)
(***************************************************************************)
EXTENDS Integers, Sequences, FiniteSets, TLC

CONSTANTS
    Durations,                  \* time durations (minutes) a request may carry; 0 = absent = indefinite
    TPM,                        \* ticks per minute
    MaxNow,                     \* the clock stops here (bounds the model)
    CfgPws,                     \* password configurations examined: subset of {"none", "set"}
    ReqPws,                     \* password carried by a request: subset of {"none", "good", "bad"}
    Dev_SwallowBlocksQueue,     \* deviation: a confirmed request swallowed by the gate is never completed and
                                \* blocks every later confirmed request to that peer (ApplicationIOController)
    Dev_UnsolicitedIAmPasses    \* deviation: disableInitiation lets every I-Am pass, not only answers to Who-Is

NONE == -1
Modes    == {"enable", "disable", "disableInitiation"}
InKinds  == {"conf", "whois", "reinit"}     \* confirmed request of another service, Who-Is, ReinitializeDevice
OutKinds == {"conf", "unconf", "iam"}       \* what the device's own application tries to send
Resps    == {"ack", "pwfail", "iam", "none", "other"}

VARIABLES now, mode, deadline, cfgpw, blocked, g, act, resp, sent, up
vars == <<now, mode, deadline, cfgpw, blocked, g, act, resp, sent, up>>

Ev(op, k, m, d, pw) == [op |-> op, k |-> k, m |-> m, d |-> d, pw |-> pw]
G0 == [mode |-> "enable", until |-> NONE, via |-> "init"]

TypeOK ==
    /\ now \in 0..MaxNow /\ mode \in Modes /\ deadline \in {NONE} \cup Nat
    /\ cfgpw \in {"none", "set"} /\ blocked \in BOOLEAN
    /\ g.mode \in Modes /\ g.until \in {NONE} \cup Nat /\ g.via \in {"init", "request", "expiry"}
    /\ resp \in Resps /\ sent \in BOOLEAN /\ up \in BOOLEAN

Init ==
    /\ now = 0 /\ mode = "enable" /\ deadline = NONE /\ cfgpw \in CfgPws /\ blocked = FALSE
    /\ g = G0 /\ act = Ev("start", "", "", 0, "") /\ resp = "none" /\ sent = FALSE /\ up = FALSE

----------------------------------------------------------------------------
(* the two gates, shaped like the code *)

\* StateMachineAccessPoint.confirmation
PassUp(m, k) ==
    CASE m = "enable"            -> TRUE
      [] m = "disable"           -> k \in {"dcc", "reinit", "whois"}
      [] m = "disableInitiation" -> TRUE

\* StateMachineAccessPoint.sap_indication; `solicited`: an I-Am issued by the Who-Is procedure
PassDown(m, k, solicited, devIAm) ==
    CASE m = "enable"            -> TRUE
      [] m = "disable"           -> FALSE
      [] m = "disableInitiation" -> k = "iam" /\ (solicited \/ devIAm)

PwOK(pw) == cfgpw = "none" \/ pw = "good"
ExpireDue == deadline # NONE /\ deadline <= now
Until(m, d) == IF m # "enable" /\ d > 0 THEN now + d * TPM ELSE NONE

----------------------------------------------------------------------------
(* the ghost: a function of the inputs *)
GhostDCC(m, d, pw) == IF PwOK(pw) THEN [mode |-> m, until |-> Until(m, d), via |-> "request"] ELSE g
GhostTick(newnow) == IF g.until # NONE /\ newnow >= g.until
                        THEN [mode |-> "enable", until |-> NONE, via |-> "expiry"] ELSE g

----------------------------------------------------------------------------
(* actions *)

\* do_DeviceCommunicationControlRequest
DCCRequest(m, d, pw) ==
    /\ ~ExpireDue
    /\ IF PwOK(pw)
          THEN /\ mode' = m /\ deadline' = Until(m, d) /\ resp' = "ack"
          ELSE /\ UNCHANGED <<mode, deadline>> /\ resp' = "pwfail"
    /\ sent' = TRUE /\ up' = TRUE
    /\ g' = GhostDCC(m, d, pw)
    /\ act' = Ev("dcc", "", m, d, pw)
    /\ UNCHANGED <<now, cfgpw, blocked>>

\* a request of a peer arrives
Incoming(k) ==
    /\ ~ExpireDue
    /\ up' = PassUp(mode, k)
    /\ resp' = IF ~PassUp(mode, k) THEN "none"
               ELSE IF k = "whois" THEN (IF PassDown(mode, "iam", TRUE, FALSE) THEN "iam" ELSE "none")
               ELSE "ack"
    /\ sent' = (resp' # "none")
    /\ act' = Ev("in", k, "", 0, "")
    /\ UNCHANGED <<now, mode, deadline, cfgpw, blocked, g>>

\* the device's own application tries to send something
InitiateD(k, devBlock, devIAm) ==
    /\ ~ExpireDue
    /\ LET pass == PassDown(mode, k, FALSE, devIAm) IN
        /\ sent' = IF k = "conf" THEN (pass /\ ~blocked) ELSE pass
        /\ blocked' = IF k = "conf" /\ ~pass /\ devBlock THEN TRUE ELSE blocked
    /\ resp' = "none" /\ up' = FALSE
    /\ act' = Ev("init", k, "", 0, "")
    /\ UNCHANGED <<now, mode, deadline, cfgpw, g>>

Initiate(k) == InitiateD(k, Dev_SwallowBlocksQueue, Dev_UnsolicitedIAmPasses)

Tick ==
    /\ ~ExpireDue /\ now < MaxNow
    /\ now' = now + 1
    /\ g' = GhostTick(now + 1)
    /\ resp' = "none" /\ sent' = FALSE /\ up' = FALSE
    /\ act' = Ev("tick", "", "", 0, "")
    /\ UNCHANGED <<mode, deadline, cfgpw, blocked>>

\* _dcc_enable_task fires: enable_communications
Expire ==
    /\ ExpireDue
    /\ mode' = "enable" /\ deadline' = NONE
    /\ resp' = "none" /\ sent' = FALSE /\ up' = FALSE
    /\ act' = Ev("expire", "", "", 0, "")
    /\ UNCHANGED <<now, cfgpw, blocked, g>>

Next ==
    \/ \E m \in Modes, d \in Durations, pw \in ReqPws : DCCRequest(m, d, pw)
    \/ \E k \in InKinds : Incoming(k)
    \/ \E k \in OutKinds : Initiate(k)
    \/ Tick
    \/ Expire

Spec == Init /\ [][Next]_vars

----------------------------------------------------------------------------
(* the design follows the ghost *)
DesignSane == ~ExpireDue => (mode = g.mode /\ deadline = g.until)

(* Monitors: antecedent A_x over the ghost BEFORE the event and the event, consequent C_x over the observations
   of the event.  M_x == A_x => C_x is an action formula.                                                     *)
Expected(k) == IF k = "whois" THEN "iam" ELSE "ack"
e_ == act'

A_CorrectPasswordAcked == e_.op = "dcc" /\ PwOK(e_.pw)
C_CorrectPasswordAcked == resp' = "ack"

A_WrongPasswordRefused == e_.op = "dcc" /\ ~PwOK(e_.pw)
C_WrongPasswordRefused == resp' = "pwfail"

A_DisableSilent == g.mode = "disable" /\ e_.op = "in" /\ e_.k \in {"conf", "whois"}
C_DisableSilent == resp' = "none" /\ ~sent'

A_DisableAnswersReinit == g.mode = "disable" /\ e_.op = "in" /\ e_.k = "reinit"
C_DisableAnswersReinit == resp' = "ack"

A_DisableInitiatesNothing == g.mode = "disable" /\ e_.op = "init"
C_DisableInitiatesNothing == ~sent'

A_DisInitResponds == g.mode = "disableInitiation" /\ e_.op = "in"
C_DisInitResponds == resp' = Expected(e_.k)

A_DisInitInitiatesNothing == g.mode = "disableInitiation" /\ e_.op = "init"
C_DisInitInitiatesNothing == ~sent'

A_EnableNormal == g.mode = "enable" /\ e_.op \in {"in", "init"}
C_EnableNormal == IF e_.op = "in" THEN resp' = Expected(e_.k) ELSE sent'

M_CorrectPasswordAcked    == A_CorrectPasswordAcked    => C_CorrectPasswordAcked
M_WrongPasswordRefused    == A_WrongPasswordRefused    => C_WrongPasswordRefused
M_DisableSilent           == A_DisableSilent           => C_DisableSilent
M_DisableAnswersReinit    == A_DisableAnswersReinit    => C_DisableAnswersReinit
M_DisableInitiatesNothing == A_DisableInitiatesNothing => C_DisableInitiatesNothing
M_DisInitResponds         == A_DisInitResponds         => C_DisInitResponds
M_DisInitInitiatesNothing == A_DisInitInitiatesNothing => C_DisInitInitiatesNothing
M_EnableNormal            == A_EnableNormal            => C_EnableNormal

\* design-level only (internal state): a refused request changes nothing; a request re-times
M_RefusedChangesNothing == A_WrongPasswordRefused => UNCHANGED <<mode, deadline>>
M_LaterRequestReplaces  == A_CorrectPasswordAcked => (mode' = e_.m /\ deadline' = Until(e_.m, e_.d))
M_ReturnsOnTime         == \* the state is back to enable exactly when the duration has run out, never before
    /\ (e_.op = "expire" => (deadline = now /\ mode' = "enable"))
    /\ ((mode # "enable" /\ mode' = "enable") => (e_.op = "expire" \/ (e_.op = "dcc" /\ e_.m = "enable")))

P_CorrectPasswordAcked    == [][M_CorrectPasswordAcked]_vars
P_WrongPasswordRefused    == [][M_WrongPasswordRefused]_vars
P_DisableSilent           == [][M_DisableSilent]_vars
P_DisableAnswersReinit    == [][M_DisableAnswersReinit]_vars
P_DisableInitiatesNothing == [][M_DisableInitiatesNothing]_vars
P_DisInitResponds         == [][M_DisInitResponds]_vars
P_DisInitInitiatesNothing == [][M_DisInitInitiatesNothing]_vars
P_EnableNormal            == [][M_EnableNormal]_vars
P_RefusedChangesNothing   == [][M_RefusedChangesNothing]_vars
P_LaterRequestReplaces    == [][M_LaterRequestReplaces]_vars
P_ReturnsOnTime           == [][M_ReturnsOnTime]_vars
=============================================================================
