-------------------------------- MODULE APCI --------------------------------
(***************************************************************************)
(* Fixed headers (APCI) of the eight BACnet APDU types, ANSI/ASHRAE 135     *)
(* clause 20.1.2 - 20.1.9, as two operators over octet sequences           *)
(*                                                                         *)
(*      Enc(r)  header record  -> sequence of octets                       *)
(*      Dec(s)  sequence of octets -> header record | Err                  *)
(*                                                                         *)
(* and the two code tables of 20.1.2.4 (max-segments-accepted) and         *)
(* 20.1.2.5 (max-APDU-length-accepted) as total functions in both          *)
(* directions.  Pure functions - no state.  Transcribed from the layout    *)
(* figures of the standard (bit 7 = most significant bit of an octet):     *)
(*                                                                         *)
(*  20.1.2 Confirmed-Request   | 0 0 0 0 |SEG|MOR| SA| 0 |                 *)
(*                             | 0 | max segs  |   max resp    |           *)
(*                             | invoke ID                     |           *)
(*                             | sequence number               | iff SEG   *)
(*                             | proposed window size          | iff SEG   *)
(*                             | service choice                |           *)
(*                             | service request ...           |           *)
(*  20.1.3 Unconfirmed-Request | 0 0 0 1 | 0 0 0 0 | service choice | ...  *)
(*  20.1.4 SimpleACK           | 0 0 1 0 | 0 0 0 0 | invoke | service      *)
(*  20.1.5 ComplexACK          | 0 0 1 1 |SEG|MOR| 0 | 0 | invoke          *)
(*                             | sequence number | window | iff SEG        *)
(*                             | service ack choice | service ack ...      *)
(*  20.1.6 SegmentACK          | 0 1 0 0 | 0 | 0 |NAK|SRV| invoke          *)
(*                             | sequence number | actual window size      *)
(*  20.1.7 Error               | 0 1 0 1 | 0 0 0 0 | invoke | error choice *)
(*                             | error ...                                 *)
(*  20.1.8 Reject              | 0 1 1 0 | 0 0 0 0 | invoke | reject reason*)
(*  20.1.9 Abort               | 0 1 1 1 | 0 | 0 | 0 |SRV| invoke | reason *)
(*                                                                         *)
(* Header records: every record has `type` and `data` (the octets after    *)
(* the fixed header: service request / ack / error production; clause 20.1 *)
(* defines none for SimpleACK, SegmentACK, Reject and Abort - a well-formed*)
(* record of those types has data = <<>>, and Dec hands back whatever      *)
(* follows the header so that no octet is ever dropped or invented).       *)
(* Fields that exist only in a segmented PDU (seq, win) are NONE otherwise.*)
(* Reserved bits are sent as zero and ignored on reception.                *)
(***************************************************************************)
EXTENDS Naturals, Integers, Sequences, FiniteSets, TLC

NONE  == -1
Octet == 0..255
Err   == [type |-> "DecodingError"]

Types == {"ConfirmedRequest", "UnconfirmedRequest", "SimpleAck", "ComplexAck",
          "SegmentAck", "Error", "Reject", "Abort"}

\* PDU type = upper nibble of the first octet (20.1.2.1 ... 20.1.9.1)
TypeCode(t) ==
    CASE t = "ConfirmedRequest"   -> 0
      [] t = "UnconfirmedRequest" -> 1
      [] t = "SimpleAck"          -> 2
      [] t = "ComplexAck"         -> 3
      [] t = "SegmentAck"         -> 4
      [] t = "Error"              -> 5
      [] t = "Reject"             -> 6
      [] t = "Abort"              -> 7

----------------------------------------------------------------------------
\* bit helpers: W is the weight of a bit (128, 64, ..., 1)
Put(flag, W) == IF flag THEN W ELSE 0
Bit(o, W)    == (o \div W) % 2 = 1
Rest(s, n)   == SubSeq(s, n, Len(s))          \* octets n.. of s (<<>> when n = Len(s)+1)

----------------------------------------------------------------------------
\* well-formed header records
IsOctets(d) == /\ DOMAIN d = 1..Len(d)
               /\ \A i \in 1..Len(d) : d[i] \in Octet

SegFieldsOK(r) == IF r.seg THEN r.seq \in Octet /\ r.win \in Octet
                           ELSE r.seq = NONE /\ r.win = NONE

WF(r) ==
    /\ r.type \in Types
    /\ IsOctets(r.data)
    /\ CASE r.type = "ConfirmedRequest" ->
              /\ DOMAIN r = {"type", "seg", "mor", "sa", "maxsegs", "maxresp", "invoke", "seq", "win", "service", "data"}
              /\ r.seg \in BOOLEAN /\ r.mor \in BOOLEAN /\ r.sa \in BOOLEAN
              /\ r.maxsegs \in 0..7 /\ r.maxresp \in 0..15
              /\ r.invoke \in Octet /\ r.service \in Octet /\ SegFieldsOK(r)
         [] r.type = "UnconfirmedRequest" ->
              /\ DOMAIN r = {"type", "service", "data"}
              /\ r.service \in Octet
         [] r.type = "SimpleAck" ->
              /\ DOMAIN r = {"type", "invoke", "service", "data"}
              /\ r.invoke \in Octet /\ r.service \in Octet
         [] r.type = "ComplexAck" ->
              /\ DOMAIN r = {"type", "seg", "mor", "invoke", "seq", "win", "service", "data"}
              /\ r.seg \in BOOLEAN /\ r.mor \in BOOLEAN
              /\ r.invoke \in Octet /\ r.service \in Octet /\ SegFieldsOK(r)
         [] r.type = "SegmentAck" ->
              /\ DOMAIN r = {"type", "nak", "srv", "invoke", "seq", "win", "data"}
              /\ r.nak \in BOOLEAN /\ r.srv \in BOOLEAN
              /\ r.invoke \in Octet /\ r.seq \in Octet /\ r.win \in Octet
         [] r.type = "Error" ->
              /\ DOMAIN r = {"type", "invoke", "service", "data"}
              /\ r.invoke \in Octet /\ r.service \in Octet
         [] r.type = "Reject" ->
              /\ DOMAIN r = {"type", "invoke", "reason", "data"}
              /\ r.invoke \in Octet /\ r.reason \in Octet
         [] r.type = "Abort" ->
              /\ DOMAIN r = {"type", "srv", "invoke", "reason", "data"}
              /\ r.srv \in BOOLEAN /\ r.invoke \in Octet /\ r.reason \in Octet

\* a header record as clause 20.1 knows it (no octets behind a header-only PDU)
HeaderOnly(t) == t \in {"SimpleAck", "SegmentAck", "Reject", "Abort"}
Standard(r)   == WF(r) /\ (HeaderOnly(r.type) => r.data = <<>>)

----------------------------------------------------------------------------
\* Enc
SegOctets(r) == IF r.seg THEN <<r.seq, r.win>> ELSE <<>>

EncHeader(r) ==
    CASE r.type = "ConfirmedRequest" ->
              << 0 * 16 + Put(r.seg, 8) + Put(r.mor, 4) + Put(r.sa, 2),
                 r.maxsegs * 16 + r.maxresp,
                 r.invoke >> \o SegOctets(r) \o << r.service >>
      [] r.type = "UnconfirmedRequest" ->
              << 1 * 16, r.service >>
      [] r.type = "SimpleAck" ->
              << 2 * 16, r.invoke, r.service >>
      [] r.type = "ComplexAck" ->
              << 3 * 16 + Put(r.seg, 8) + Put(r.mor, 4), r.invoke >> \o SegOctets(r) \o << r.service >>
      [] r.type = "SegmentAck" ->
              << 4 * 16 + Put(r.nak, 2) + Put(r.srv, 1), r.invoke, r.seq, r.win >>
      [] r.type = "Error" ->
              << 5 * 16, r.invoke, r.service >>
      [] r.type = "Reject" ->
              << 6 * 16, r.invoke, r.reason >>
      [] r.type = "Abort" ->
              << 7 * 16 + Put(r.srv, 1), r.invoke, r.reason >>

Enc(r) == EncHeader(r) \o r.data

----------------------------------------------------------------------------
\* Dec
\* length of the fixed header announced by the first octet (0 = not an APDU type)
HeaderLen(o1) ==
    LET t == o1 \div 16 IN
    CASE t = 0 -> IF Bit(o1, 8) THEN 6 ELSE 4
      [] t = 1 -> 2
      [] t = 2 -> 3
      [] t = 3 -> IF Bit(o1, 8) THEN 5 ELSE 3
      [] t = 4 -> 4
      [] t = 5 -> 3
      [] t = 6 -> 3
      [] t = 7 -> 3
      [] OTHER -> 0

DecBody(s) ==
    LET o1 == s[1]
        t  == o1 \div 16
        n  == HeaderLen(o1)
        d  == Rest(s, n + 1)
    IN
    CASE t = 0 -> LET seg == Bit(o1, 8) IN
                  [type |-> "ConfirmedRequest", seg |-> seg, mor |-> Bit(o1, 4), sa |-> Bit(o1, 2),
                   maxsegs |-> (s[2] \div 16) % 8, maxresp |-> s[2] % 16, invoke |-> s[3],
                   seq |-> IF seg THEN s[4] ELSE NONE, win |-> IF seg THEN s[5] ELSE NONE,
                   service |-> s[n], data |-> d]
      [] t = 1 -> [type |-> "UnconfirmedRequest", service |-> s[2], data |-> d]
      [] t = 2 -> [type |-> "SimpleAck", invoke |-> s[2], service |-> s[3], data |-> d]
      [] t = 3 -> LET seg == Bit(o1, 8) IN
                  [type |-> "ComplexAck", seg |-> seg, mor |-> Bit(o1, 4), invoke |-> s[2],
                   seq |-> IF seg THEN s[3] ELSE NONE, win |-> IF seg THEN s[4] ELSE NONE,
                   service |-> s[n], data |-> d]
      [] t = 4 -> [type |-> "SegmentAck", nak |-> Bit(o1, 2), srv |-> Bit(o1, 1), invoke |-> s[2],
                   seq |-> s[3], win |-> s[4], data |-> d]
      [] t = 5 -> [type |-> "Error", invoke |-> s[2], service |-> s[3], data |-> d]
      [] t = 6 -> [type |-> "Reject", invoke |-> s[2], reason |-> s[3], data |-> d]
      [] t = 7 -> [type |-> "Abort", srv |-> Bit(o1, 1), invoke |-> s[2], reason |-> s[3], data |-> d]

Dec(s) ==
    IF Len(s) = 0 THEN Err
    ELSE IF HeaderLen(s[1]) = 0 THEN Err              \* PDU types 8..15 are not defined
    ELSE IF Len(s) < HeaderLen(s[1]) THEN Err         \* truncated header
    ELSE DecBody(s)

\* the reserved bits of the header octets (sent as zero, ignored on reception)
Reserved1(o1) ==
    LET t == o1 \div 16 IN
    CASE t = 0 -> 1  [] t = 1 -> 15 [] t = 2 -> 15 [] t = 3 -> 3
      [] t = 4 -> 12 [] t = 5 -> 15 [] t = 6 -> 15 [] t = 7 -> 14 [] OTHER -> 0
\* o with the bits of `mask` (a subset of the low nibble) cleared
ClearLow(o, mask) ==
    o - ( Put(Bit(mask, 8) /\ Bit(o, 8), 8) + Put(Bit(mask, 4) /\ Bit(o, 4), 4)
        + Put(Bit(mask, 2) /\ Bit(o, 2), 2) + Put(Bit(mask, 1) /\ Bit(o, 1), 1) )
Canon(s) ==
    [i \in 1..Len(s) |->
        IF i = 1 THEN ClearLow(s[1], Reserved1(s[1]))
        ELSE IF i = 2 /\ s[1] \div 16 = 0 THEN s[2] % 128
        ELSE s[i]]

----------------------------------------------------------------------------
(***************************************************************************)
(* 20.1.2.4 max-segments-accepted  (3 bits)                                *)
(*    B'000' unspecified number of segments accepted                       *)
(*    B'001' 2   B'010' 4   B'011' 8   B'100' 16   B'101' 32   B'110' 64   *)
(*    B'111' greater than 64 segments accepted                             *)
(* 20.1.2.5 max-APDU-length-accepted  (4 bits)                             *)
(*    B'0000' up to MinimumMessageSize (50 octets)                         *)
(*    B'0001' up to 128    B'0010' up to 206 (LonTalk frame)               *)
(*    B'0011' up to 480 (ARCNET)    B'0100' up to 1024                     *)
(*    B'0101' up to 1476 (ISO 8802-3 frame)                                *)
(*    B'0110' .. B'1111' reserved by ASHRAE                                *)
(***************************************************************************)
SegCodes  == 0..7
ApduCodes == 0..15
NoCode    == NONE                      \* "no code point expresses this capability"

SegTable  == <<2, 4, 8, 16, 32, 64>>                 \* codes 1..6
ApduTable == <<50, 128, 206, 480, 1024, 1476>>       \* codes 0..5  (index code+1)

\* meaning of a code point.  kind "n": exactly/up to n;  the others carry no number
SegMeaning(c) ==
    CASE c = 0      -> [kind |-> "unspecified"]
      [] c \in 1..6 -> [kind |-> "n", n |-> SegTable[c]]
      [] c = 7      -> [kind |-> "morethan", n |-> 64]
ApduMeaning(c) ==
    IF c \in 0..5 THEN [kind |-> "n", n |-> ApduTable[c + 1]] ELSE [kind |-> "reserved"]

\* a code is *truthful* for a local capability when it does not promise more than the capability
SegTruthful(c, cap) ==
    CASE c = 0      -> TRUE
      [] c \in 1..6 -> SegTable[c] <= cap
      [] c = 7      -> cap > 64
ApduTruthful(c, cap) == c \in 0..5 /\ ApduTable[c + 1] <= cap

(***************************************************************************)
(* capability -> code: the largest code that is truthful ("round down,     *)
(* never up").  Capability = number of segments / octets the device can    *)
(* take; for segments, capability 0 stands for "not stated" and is sent as *)
(* B'000'.  A device that can take exactly one segment has nothing to      *)
(* announce (every numeric code would promise at least two): NoCode.       *)
(* A device that cannot take MinimumMessageSize octets is not a BACnet     *)
(* device: NoCode.  Written as threshold cascades; RoundsDown below states *)
(* the same thing with quantifiers and TLC checks that they agree.         *)
(***************************************************************************)
SegCode(cap) ==
    IF cap = 0 THEN 0
    ELSE IF cap > 64 THEN 7
    ELSE IF cap >= 64 THEN 6
    ELSE IF cap >= 32 THEN 5
    ELSE IF cap >= 16 THEN 4
    ELSE IF cap >= 8 THEN 3
    ELSE IF cap >= 4 THEN 2
    ELSE IF cap >= 2 THEN 1
    ELSE NoCode

ApduCode(cap) ==
    IF cap >= 1476 THEN 5
    ELSE IF cap >= 1024 THEN 4
    ELSE IF cap >= 480 THEN 3
    ELSE IF cap >= 206 THEN 2
    ELSE IF cap >= 128 THEN 1
    ELSE IF cap >= 50 THEN 0
    ELSE NoCode

\* the property clause, stated on an arbitrary (capability, code) pair
SegRoundsDown(cap, c) ==
    IF cap = 0 THEN c = 0
    ELSE IF \E x \in 1..7 : SegTruthful(x, cap)
         THEN /\ c \in 1..7 /\ SegTruthful(c, cap)                        \* never up
              /\ \A x \in 1..7 : SegTruthful(x, cap) => x <= c           \* no further down than needed
         ELSE c = NoCode
ApduRoundsDown(cap, c) ==
    IF \E x \in 0..5 : ApduTruthful(x, cap)
    THEN /\ ApduTruthful(c, cap)
         /\ \A x \in 0..5 : ApduTruthful(x, cap) => x <= c
    ELSE c = NoCode

=============================================================================
