-------------------------------- MODULE BBMD --------------------------------
(***************************************************************************)
(* BACnet/IP broadcast management (ANSI/ASHRAE 135 Annex J.4, J.5) as      *)
(* implemented by bacpypes bvllservice.BIPSimple / BIPBBMD / BIPForeign on  *)
(* the in-process IP subnets + IP router of vlan.py.   Property C13.        *)
(*                                                                         *)
(* One action per critical section of the code (DESIGN.md A.4):            *)
(*   Originate(n, mid)  BIP*.indication with a local-broadcast destination  *)
(*   Rx(c)              BIP*.confirmation for ONE received copy of a frame, *)
(*                      one sub-case per role x BVLL function               *)
(*   BBMDTick(b)        BIPBBMD.process_task (one-second ageing)            *)
(*   FDRegister / FDRenew / FDExpired / FDUnregister / FDStopRenew          *)
(*                      BIPForeign.register / process_task /                *)
(*                      _registration_expired / unregister / suspend_task   *)
(*                      (the FDAck of A.4 is the Rx sub-case Result@foreign)*)
(*   ReadFDT, DeleteEntry   a management node sends the request frame       *)
(*   Tick(d)            discrete-event clock (only when nothing is in       *)
(*                      flight and no timer is due)                         *)
(*                                                                         *)
(* The IP layer is abstract: a unicast datagram reaches the node that owns  *)
(* the address wherever it is, a local broadcast every other node of the    *)
(* sender's subnet, a directed broadcast every node of the target subnet    *)
(* (what IPNetwork + IPRouter do).  `net` holds one COPY per receiver.      *)
(*                                                                         *)
(* Time: `now` counts clock units, Res units per second.  A BBMD ages its   *)
(* table at whole seconds.                                                  *)
(*                                                                         *)
(* Observation variables: up (what was handed to the network layer above    *)
(* each node), sap (what the B/IP service access point handed to a          *)
(* management application: results and Read-FDT replies), fdt (the tables), *)
(* fd[f].st (the device's own registration status).                         *)
(* History variables (property bookkeeping, no influence on the protocol):  *)
(*   h[f]  registration history of foreign device f                         *)
(*   bc    broadcasts originated at the current instant with the sets of    *)
(*         nodes that must / must never receive them                        *)
(***************************************************************************)
EXTENDS Naturals, Integers, Sequences, FiniteSets, Bags, TLC

CONSTANTS
    N,            \* nodes are 1..N; a node's id stands for its B/IP address
    Role,         \* <<..>> : "simple" | "bbmd" | "foreign"
    Subnet,       \* <<..>> : subnet number of each node
    BBMDof,       \* <<..>> : for a foreign device the BBMD it registers with, else 0
    TTL,          \* <<..>> : time-to-live in seconds (foreign devices), else 0
    BDT,          \* <<..>> : for a BBMD the set of entries [peer |-> BBMD, direct |-> BOOLEAN]
                  \*          direct = TRUE : mask of the peer's subnet (directed broadcast, one hop)
                  \*          direct = FALSE: mask 255.255.255.255 (unicast to the peer, two hops)
                  \*          the own entry is [peer |-> self, ...]; {} for other roles
    Managers,     \* non-foreign nodes that may send Read-FDT / Delete-FDT-Entry
    Res,          \* clock units per second
    BGrace,       \* seconds a BBMD adds to the TTL (code: 5)
    FGrace,       \* seconds past the TTL after which a foreign device gives up on its own (code: 30)
    PGrace,       \* the grace period of the property (the standard's 30 s); BGrace <= PGrace
    StickyUnreg,  \* named deviation: BIPForeign.register() leaves registrationStatus = -2 after unregister()
    MaxNow, MaxB, MaxEnv, MaxStep,  \* exploration bounds (model checking only)
    Reduce        \* partial-order reduction in Next: NPDU copies for ordinary nodes are delivered first (such a
                  \* step only adds to `up`, commutes with every other step and disables none)

Nodes == 1..N
IsS(n) == Role[n] = "simple"
IsB(n) == Role[n] = "bbmd"
IsF(n) == Role[n] = "foreign"
BBMDs == {n \in Nodes : IsB(n)}
FDs == {n \in Nodes : IsF(n)}
NONE == -1
Absent == [ttl |-> 0, rem |-> 0]
NotFoundCode == 80            \* X'0050' Delete-Foreign-Device-Table-Entry NAK

ASSUME /\ BGrace >= 1 /\ Res >= 1          \* (the property holds for BGrace <= PGrace: see the sanity configuration)
       /\ \A f \in FDs : BBMDof[f] \in BBMDs /\ TTL[f] >= 1
       /\ \A b \in BBMDs : \A e \in BDT[b] : e.peer \in BBMDs
       /\ Managers \subseteq Nodes \ FDs

VARIABLES now, fdt, fd, tk, net, up, sap, act, h, bc, cnt
pvars == <<now, fdt, fd, tk, net, up, sap>>       \* protocol + observation
vars == <<now, fdt, fd, tk, net, up, sap, act, h, bc, cnt>>

\* ---- datagrams --------------------------------------------------------------------------------------
\* fn: "OB" Original-Broadcast-NPDU, "FW" Forwarded-NPDU, "DB" Distribute-Broadcast-To-Network,
\*     "RG" Register-Foreign-Device, "RS" BVLC-Result, "RF" Read-Foreign-Device-Table,
\*     "FA" Read-Foreign-Device-Table-Ack, "DF" Delete-Foreign-Device-Table-Entry
\* to: receiver of this copy; src: IP source; bc: received on the broadcast address;
\* orig: originating-device field (FW); mid: identity of the NPDU (OB/FW/DB);
\* arg: TTL (RG) / result code (RS) / address to delete (DF); tab: table (FA) as a sequence of <<f, ttl, rem>>
D(fn, src, orig, mid, arg, tab) ==
    [to |-> 0, fn |-> fn, src |-> src, bc |-> FALSE, orig |-> orig, mid |-> mid, arg |-> arg, tab |-> tab]
NPDUFn == {"OB", "FW", "DB"}

Uni(dst, d) == IF dst \in Nodes THEN {[d EXCEPT !.to = dst, !.bc = FALSE]} ELSE {}
SubnetBc(s, d) == {[d EXCEPT !.to = m, !.bc = TRUE] : m \in {x \in Nodes : Subnet[x] = s /\ x # d.src}}
LocalBc(d) == SubnetBc(Subnet[d.src], d)

SelfInBDT(b) == \E e \in BDT[b] : e.peer = b
Listed(f) == fdt[BBMDof[f]][f].rem > 0
TableOf(b) == {f \in FDs : fdt[b][f].rem > 0}

\* Forwarded-NPDU to every peer of the table: directed broadcast or unicast according to the mask
PeerFW(b, d) == UNION {IF e.direct THEN SubnetBc(Subnet[e.peer], d) ELSE Uni(e.peer, d)
                       : e \in {x \in BDT[b] : x.peer # b}}
\* Forwarded-NPDU to every entry of the foreign device table (except ex)
FDFW(b, d, ex) == UNION {Uni(f, d) : f \in TableOf(b) \ ex}
\* Distribute-Broadcast fan-out: the own entry means a local broadcast
DistFW(b, d) == UNION {IF e.peer = b THEN LocalBc(d)
                       ELSE IF e.direct THEN SubnetBc(Subnet[e.peer], d) ELSE Uni(e.peer, d) : e \in BDT[b]}

RECURSIVE SetToSortedSeq(_)
SetToSortedSeq(S) == IF S = {} THEN <<>>
                     ELSE LET m == CHOOSE x \in S : \A y \in S : x <= y IN <<m>> \o SetToSortedSeq(S \ {m})
TableSeq(b) == LET s == SetToSortedSeq(TableOf(b)) IN [i \in 1..Len(s) |-> <<s[i], fdt[b][s[i]].ttl, fdt[b][s[i]].rem>>]

Send(S) == net (+) SetToBag(S)
Take(c, S) == (net (-) SetToBag({c})) (+) SetToBag(S)

\* ---- history (property bookkeeping) ------------------------------------------------------------------
\* h[f]: reg   instant the BBMD last received a Register with TTL > 0 from f (NONE: not since the last kill)
\*       ack   instant f last received the acknowledgement of a registration still standing (NONE: none)
\*       live  same, restricted to the current period of f being actively renewing
\*       kill  "none" | "del" (table entry deleted) | "unreg" (f unregistered), killAt its instant
\*       active  register() was called and neither unregister() nor a stop of the renewals since
\*       prom  the earliest instant by which a Read-FDT reply promised the entry to be purged (remaining seconds as
\*             reported, counted in whole-second boundaries); void on re-registration / deletion
H0 == [reg |-> NONE, ack |-> NONE, live |-> NONE, kill |-> "none", killAt |-> NONE, active |-> FALSE, prom |-> NONE,
       infl |-> -1]    \* registrations (TTL > 0) of the device still under way when it unregistered: those may overtake
                       \* (-1: it has not unregistered since it last registered)
RECURSIVE Promise(_, _, _, _, _)
Promise(hh, b, tab, i, t) ==
    IF i > Len(tab) THEN hh
    ELSE LET f == tab[i][1]  p == (t \div Res + tab[i][3]) * Res IN
         Promise(IF f \in FDs /\ BBMDof[f] = b
                   THEN [hh EXCEPT ![f].prom = IF @ = NONE \/ p < @ THEN p ELSE @] ELSE hh, b, tab, i + 1, t)

MustServe(hh, f, t) == hh[f].ack # NONE /\ hh[f].kill = "none" /\ t <= hh[f].ack + TTL[f] * Res
Expired(hh, f, t) == hh[f].reg # NONE /\ t >= hh[f].reg + (TTL[f] + PGrace) * Res
WhyNot(hh, f, t) ==
    IF hh[f].kill = "del" THEN "del"
    ELSE IF hh[f].kill = "unreg" /\ t >= hh[f].killAt + PGrace * Res THEN "unreg"
    ELSE IF hh[f].reg = NONE /\ hh[f].kill = "none" THEN "never"
    ELSE IF hh[f].kill = "none" /\ Expired(hh, f, t) THEN "expired"
    ELSE "-"
MustNotServe(hh, f, t) == WhyNot(hh, f, t) # "-"

\* declarative reach of a broadcast (independent of the datagram mechanics below)
LocalNF(n) == {m \in Nodes \ {n} : Subnet[m] = Subnet[n] /\ ~IsF(m)}
HomeB(n) == {b \in BBMDs : Subnet[b] = Subnet[n]}
ReachEntry(b, e) ==
    IF e.peer = b THEN LocalNF(b)
    ELSE IF e.direct THEN {m \in Nodes : Subnet[m] = Subnet[e.peer] /\ ~IsF(m)}
    ELSE {e.peer} \cup (IF SelfInBDT(e.peer) THEN LocalNF(e.peer) ELSE {})
Peers(b) == {e.peer : e \in BDT[b]} \ {b}
ReachNF(o) ==                                  \* non-foreign nodes a broadcast of o is due at
    IF IsF(o) THEN {BBMDof[o]} \cup UNION {ReachEntry(BBMDof[o], e) : e \in BDT[BBMDof[o]]}
    ELSE (LocalNF(o) \cup UNION {UNION {ReachEntry(b, e) : e \in {x \in BDT[b] : x.peer # b}} : b \in HomeB(o)}) \ {o}
FanB(o) ==                                     \* BBMDs that fan it out to their foreign devices
    IF IsF(o) THEN {BBMDof[o]} \cup Peers(BBMDof[o])
    ELSE UNION {{b} \cup Peers(b) : b \in HomeB(o)}

NewBc(hh, o, t) ==
    LET own == IsF(o) => MustServe(hh, o, t)         \* a foreign originator is owed service only while registered
        nf == ReachNF(o)
        fm == {f \in FDs \ {o} : BBMDof[f] \in FanB(o) /\ MustServe(hh, f, t)}
        fn == {f \in FDs \ {o} : BBMDof[f] \notin FanB(o) \/ MustNotServe(hh, f, t)}
    IN [o |-> o,
        must |-> IF own THEN nf \cup fm ELSE {},
        never |-> ((Nodes \ FDs) \ (nf \cup {o})) \cup fn,
        why |-> [f \in fn |-> IF BBMDof[f] \notin FanB(o) THEN "unreachable" ELSE WhyNot(hh, f, t)]]

RECURSIVE Sum(_, _)
Sum(f, S) == IF S = {} THEN 0 ELSE LET x == CHOOSE y \in S : TRUE IN f[x] + Sum(f, S \ {x})

HUpd(hh, a, t) ==
    CASE a.n = "Rx" ->
            LET c == a.c IN
            IF c.fn = "RG" /\ IsB(c.to) /\ IsF(c.src) /\ BBMDof[c.src] = c.to /\ c.arg > 0
                 /\ hh[c.src].kill = "unreg" /\ hh[c.src].infl = 0
              \* a registration the device sent when or after it unregistered (none was under way then): the obligation
              \* to stop within the grace period stands, whatever the BBMD makes of the frame
              THEN hh
            ELSE IF c.fn = "RG" /\ IsB(c.to) /\ IsF(c.src) /\ BBMDof[c.src] = c.to /\ c.arg > 0
              THEN [hh EXCEPT ![c.src].reg = t, ![c.src].kill = "none", ![c.src].killAt = NONE, ![c.src].prom = NONE,
                              ![c.src].infl = IF @ > 0 THEN @ - 1 ELSE @]
            ELSE IF c.fn = "RG" /\ IsB(c.to) /\ IsF(c.src) /\ BBMDof[c.src] = c.to /\ c.arg = 0
              \* the BBMD processes an unregistration (possibly overtaken by a renewal still under way)
              THEN [hh EXCEPT ![c.src].kill = "unreg", ![c.src].killAt = IF hh[c.src].kill = "unreg" THEN @ ELSE t,
                              ![c.src].ack = NONE, ![c.src].live = NONE, ![c.src].prom = NONE]
            ELSE IF c.fn = "DF" /\ IsB(c.to) /\ c.arg \in FDs /\ BBMDof[c.arg] = c.to
              THEN [hh EXCEPT ![c.arg].kill = "del", ![c.arg].killAt = t, ![c.arg].ack = NONE, ![c.arg].live = NONE,
                              ![c.arg].reg = NONE, ![c.arg].prom = NONE]
            ELSE IF c.fn = "RS" /\ IsF(c.to) /\ c.src = BBMDof[c.to] /\ c.arg = 0 /\ hh[c.to].active
                    /\ hh[c.to].kill = "none" /\ hh[c.to].reg # NONE
              THEN [hh EXCEPT ![c.to].ack = t, ![c.to].live = t]
            ELSE IF c.fn = "RF" /\ IsB(c.to) THEN Promise(hh, c.to, a.rt, 1, t)
            ELSE hh
      [] a.n = "FDUnregister" -> [hh EXCEPT ![a.who].kill = "unreg", ![a.who].killAt = t, ![a.who].ack = NONE,
                                            ![a.who].live = NONE, ![a.who].active = FALSE,
                                            ![a.who].infl = Sum(net, {c \in BagToSet(net) : c.fn = "RG" /\ c.src = a.who /\ c.arg > 0})]
      [] a.n = "FDRegister"   -> [hh EXCEPT ![a.who].active = TRUE, ![a.who].live = NONE, ![a.who].infl = -1]    \* registers again: anything it sends from now on counts
      [] a.n = "FDStopRenew"  -> [hh EXCEPT ![a.who].active = FALSE, ![a.who].live = NONE]
      [] OTHER -> hh

\* obligations of the broadcasts still under way follow what happens to a registration meanwhile
BUpd(bb, hh, a, t) ==
    CASE a.n = "Originate" -> (a.mid :> NewBc(hh, a.who, t)) @@ bb
      [] a.n = "Tick" -> <<>>
      [] a.n = "Rx" /\ a.c.fn = "DF" -> [m \in DOMAIN bb |-> [bb[m] EXCEPT !.must = @ \ {a.c.arg}]]
      [] a.n = "Rx" /\ a.c.fn = "RG" /\ a.c.arg > 0 -> [m \in DOMAIN bb |-> [bb[m] EXCEPT !.never = @ \ {a.c.src}]]
      \* (a Register with TTL 0 lists the device for the BBMD's grace seconds)
      [] a.n = "Rx" /\ a.c.fn = "RG" /\ a.c.arg = 0 ->
            [m \in DOMAIN bb |-> [bb[m] EXCEPT !.must = @ \ {a.c.src}, !.never = @ \ {a.c.src}]]
      [] a.n = "FDUnregister" -> [m \in DOMAIN bb |-> [bb[m] EXCEPT !.must = @ \ {a.who}]]
      [] OTHER -> bb

History == h' = HUpd(h, act', now) /\ bc' = BUpd(bc, h, act', now)

A(n, who) == [n |-> n, who |-> who, mid |-> 0, d |-> 0]

\* ---- initial state -----------------------------------------------------------------------------------
\* BIPForeign.__init__ creates its expiry tracker with OneShotFunction, which schedules it at once: track = 0
FD0 == [st |-> -1, renew |-> NONE, track |-> 0, cfg |-> FALSE]
Init ==
    /\ now = 0
    /\ fdt = [b \in BBMDs |-> [f \in FDs |-> Absent]]
    /\ fd = [f \in FDs |-> FD0]
    /\ tk = [b \in BBMDs |-> TRUE]
    /\ net = EmptyBag /\ up = EmptyBag /\ sap = EmptyBag
    /\ act = A("Init", 0)
    /\ h = [f \in FDs |-> H0] /\ bc = <<>>
    /\ cnt = [b |-> 0, env |-> 0]

\* ---- Originate: BIP*.indication(local broadcast) -------------------------------------------------------
Originate(n, mid) ==
    /\ mid \notin DOMAIN bc
    /\ LET ob == D("OB", n, 0, mid, 0, <<>>)
           fw == D("FW", n, n, mid, 0, <<>>)
           db == D("DB", n, 0, mid, 0, <<>>)
       IN net' = Send(CASE IsS(n) -> LocalBc(ob)
                        [] IsB(n) -> LocalBc(ob) \cup PeerFW(n, fw) \cup FDFW(n, fw, {})
                        [] IsF(n) -> IF fd[n].st = 0 THEN Uni(BBMDof[n], db) ELSE {})
    /\ act' = [A("Originate", n) EXCEPT !.mid = mid]
    /\ UNCHANGED <<now, fdt, fd, tk, up, sap>>

\* ---- Rx: one copy handed to BIP*.confirmation -----------------------------------------------------------
Up(c, src) == up' = up (+) SetToBag({<<c.to, c.mid, src>>})
Sap(c, kind) == sap' = sap (+) SetToBag({<<c.to, kind, c.arg, c.tab>>})

RxSimple(c) ==
    /\ UNCHANGED <<fdt, fd>> /\ net' = Take(c, {})
    /\ CASE c.fn = "OB" -> Up(c, c.src) /\ UNCHANGED sap
         [] c.fn = "FW" -> Up(c, c.orig) /\ UNCHANGED sap
         [] c.fn = "RS" -> Sap(c, "R") /\ UNCHANGED up
         [] c.fn = "FA" -> Sap(c, "T") /\ UNCHANGED up
         [] OTHER -> FALSE

RxForeign(c) ==
    LET f == c.to IN
    /\ UNCHANGED <<fdt, sap>> /\ net' = Take(c, {})
    /\ CASE c.fn = "RS" ->
              /\ UNCHANGED up
              /\ IF fd[f].st = -2 \/ ~fd[f].cfg \/ c.src # BBMDof[f] THEN UNCHANGED fd
                 ELSE fd' = [fd EXCEPT ![f].st = c.arg,
                                       ![f].track = IF c.arg = 0 THEN now + (TTL[f] + FGrace) * Res ELSE @]
         [] c.fn = "FW" ->
              /\ UNCHANGED fd
              /\ IF fd[f].st = 0 /\ c.src = BBMDof[f] THEN Up(c, c.orig) ELSE UNCHANGED up
         [] c.fn = "OB" -> UNCHANGED <<fd, up>>
         [] OTHER -> FALSE

RxBBMD(c) ==
    LET b == c.to
        fw(o) == D("FW", b, o, c.mid, 0, <<>>)
    IN CASE c.fn = "OB" ->
              /\ Up(c, c.src) /\ UNCHANGED <<fdt, fd, sap>>
              /\ net' = Take(c, PeerFW(b, fw(c.src)) \cup FDFW(b, fw(c.src), {}))
         [] c.fn = "FW" ->
              /\ Up(c, c.orig) /\ UNCHANGED <<fdt, fd, sap>>
              /\ net' = Take(c, (IF ~c.bc /\ SelfInBDT(b) THEN LocalBc(fw(c.orig)) ELSE {}) \cup FDFW(b, fw(c.orig), {}))
         [] c.fn = "DB" ->
              /\ Up(c, c.src) /\ UNCHANGED <<fdt, fd, sap>>
              /\ net' = Take(c, DistFW(b, fw(c.src)) \cup FDFW(b, fw(c.src), {c.src}))
         [] c.fn = "RG" ->
              /\ c.src \in FDs
              /\ fdt' = [fdt EXCEPT ![b][c.src] = [ttl |-> c.arg, rem |-> c.arg + BGrace]]
              /\ net' = Take(c, Uni(c.src, D("RS", b, 0, 0, 0, <<>>)))
              /\ UNCHANGED <<fd, up, sap>>
         [] c.fn = "RF" ->
              /\ net' = Take(c, Uni(c.src, D("FA", b, 0, 0, 0, TableSeq(b))))
              /\ UNCHANGED <<fdt, fd, up, sap>>
         [] c.fn = "DF" ->
              /\ LET hit == c.arg \in TableOf(b) IN
                   /\ fdt' = IF hit THEN [fdt EXCEPT ![b][c.arg] = Absent] ELSE fdt
                   /\ net' = Take(c, Uni(c.src, D("RS", b, 0, 0, IF hit THEN 0 ELSE NotFoundCode, <<>>)))
              /\ UNCHANGED <<fd, up, sap>>
         [] c.fn = "RS" -> Sap(c, "R") /\ net' = Take(c, {}) /\ UNCHANGED <<fdt, fd, up>>
         [] c.fn = "FA" -> Sap(c, "T") /\ net' = Take(c, {}) /\ UNCHANGED <<fdt, fd, up>>
         [] OTHER -> FALSE

Rx(c) ==
    /\ BagIn(c, net)
    /\ CASE IsS(c.to) -> RxSimple(c) [] IsB(c.to) -> RxBBMD(c) [] IsF(c.to) -> RxForeign(c)
    \* rt: the table carried by the Read-FDT-Ack this step sends (observable on the wire)
    /\ act' = [n |-> "Rx", who |-> c.to, mid |-> c.mid, d |-> 0, c |-> c,
               rt |-> IF c.fn = "RF" /\ IsB(c.to) THEN TableSeq(c.to) ELSE <<>>]
    /\ UNCHANGED <<now, tk>>

\* ---- BBMDTick: BIPBBMD.process_task ----------------------------------------------------------------------
BBMDTick(b) ==
    /\ ~tk[b]
    /\ tk' = [tk EXCEPT ![b] = TRUE]
    /\ fdt' = [fdt EXCEPT ![b] = [f \in FDs |-> IF fdt[b][f].rem - 1 <= 0 THEN Absent
                                               ELSE [fdt[b][f] EXCEPT !.rem = @ - 1]]]
    /\ act' = A("BBMDTick", b)
    /\ UNCHANGED <<now, fd, net, up, sap>>

\* ---- the foreign device --------------------------------------------------------------------------------
FDRegister(f) ==          \* BIPForeign.register(addr, ttl): the request itself leaves in process_task (FDRenew)
    /\ fd' = [fd EXCEPT ![f].renew = 0, ![f].track = NONE, ![f].cfg = TRUE,
                        ![f].st = IF ~StickyUnreg /\ @ = -2 THEN -1 ELSE @]
    /\ act' = A("FDRegister", f)
    /\ UNCHANGED <<now, fdt, tk, net, up, sap>>

FDRenew(f) ==             \* BIPForeign.process_task
    /\ fd[f].renew # NONE /\ fd[f].renew <= now
    /\ net' = Send(Uni(BBMDof[f], D("RG", f, 0, 0, TTL[f], <<>>)))
    /\ fd' = [fd EXCEPT ![f].renew = now + TTL[f] * Res]
    /\ act' = A("FDRenew", f)
    /\ UNCHANGED <<now, fdt, tk, up, sap>>

FDExpired(f) ==           \* BIPForeign._registration_expired
    /\ fd[f].track # NONE /\ fd[f].track <= now
    /\ fd' = [fd EXCEPT ![f].st = -1, ![f].track = NONE]
    /\ act' = A("FDExpired", f)
    /\ UNCHANGED <<now, fdt, tk, net, up, sap>>

FDUnregister(f) ==        \* BIPForeign.unregister
    /\ fd[f].cfg
    /\ net' = Send(Uni(BBMDof[f], D("RG", f, 0, 0, 0, <<>>)))
    /\ fd' = [fd EXCEPT ![f] = [st |-> -2, renew |-> NONE, track |-> NONE, cfg |-> FALSE]]
    /\ act' = A("FDUnregister", f)
    /\ UNCHANGED <<now, fdt, tk, up, sap>>

FDStopRenew(f) ==         \* the device stops renewing (suspend_task) but keeps listening
    /\ fd[f].renew # NONE
    /\ fd' = [fd EXCEPT ![f].renew = NONE]
    /\ act' = A("FDStopRenew", f)
    /\ UNCHANGED <<now, fdt, tk, net, up, sap>>

\* ---- management requests ---------------------------------------------------------------------------------
ReadFDT(m, b) ==
    /\ net' = Send(Uni(b, D("RF", m, 0, 0, 0, <<>>)))
    /\ act' = [A("ReadFDT", m) EXCEPT !.d = b]
    /\ UNCHANGED <<now, fdt, fd, tk, up, sap>>

DeleteEntry(m, b, f) ==
    /\ net' = Send(Uni(b, D("DF", m, 0, 0, f, <<>>)))
    /\ act' = [A("DeleteEntry", m) EXCEPT !.d = b, !.mid = f]
    /\ UNCHANGED <<now, fdt, fd, tk, up, sap>>

\* ---- time ----------------------------------------------------------------------------------------------
Deadlines == {fd[f].renew : f \in FDs} \cup {fd[f].track : f \in FDs}
NextSecond == (now \div Res + 1) * Res
Tick(d) ==
    /\ d >= 1
    /\ net = EmptyBag
    /\ \A t \in Deadlines : t = NONE \/ t >= now + d
    /\ \A b \in BBMDs : TableOf(b) # {} => (tk[b] /\ now + d <= NextSecond)
    /\ now' = now + d
    /\ tk' = [b \in BBMDs |-> (now + d) % Res # 0]
    /\ up' = EmptyBag /\ sap' = EmptyBag
    /\ act' = [A("Tick", 0) EXCEPT !.d = d]
    /\ UNCHANGED <<fdt, fd, net>>

\* ---- exploration (model checking) ------------------------------------------------------------------------
BcInFlight == \E c \in BagToSet(net) : c.fn \in NPDUFn
Env(a) == a /\ cnt.env < MaxEnv /\ cnt' = [cnt EXCEPT !.env = @ + 1]
EasyRx == {c \in BagToSet(net) : IsS(c.to) /\ c.fn \in NPDUFn}
Next ==
    /\ IF Reduce /\ EasyRx # {} THEN Rx(CHOOSE c \in EasyRx : TRUE) /\ UNCHANGED cnt ELSE
       \/ \E n \in Nodes : /\ ~BcInFlight /\ cnt.b < MaxB /\ \A m \in DOMAIN bc : bc[m].o # n
                           /\ Originate(n, Cardinality(DOMAIN bc) + 1) /\ cnt' = [cnt EXCEPT !.b = @ + 1]
       \/ \E c \in BagToSet(net) : Rx(c) /\ UNCHANGED cnt
       \/ \E b \in BBMDs : BBMDTick(b) /\ UNCHANGED cnt
       \/ \E f \in FDs : \/ Env(FDRegister(f) /\ fd[f].renew = NONE)
                         \/ Env(FDUnregister(f))
                         \/ Env(FDStopRenew(f))
                         \/ (FDRenew(f) /\ UNCHANGED cnt)
                         \/ (FDExpired(f) /\ UNCHANGED cnt)
       \/ \E m \in Managers, b \in BBMDs : \/ Env(ReadFDT(m, b))
                                           \/ \E f \in FDs : Env(DeleteEntry(m, b, f) /\ BBMDof[f] = b)
       \/ \E d \in 1..MaxStep : Tick(d) /\ now + d <= MaxNow /\ cnt' = [cnt EXCEPT !.b = 0]
    /\ History
Spec == Init /\ [][Next]_vars

\* ---- the property (C13) -------------------------------------------------------------------------------------
Count(n, mid) == Sum(up, {u \in BagToSet(up) : u[1] = n /\ u[2] = mid})
Settled(mid) == \A c \in BagToSet(net) : ~(c.fn \in NPDUFn /\ c.mid = mid)
Mids == DOMAIN bc

\* every other node exactly once (nodes that the tables do not reach: never)
OncePerNode ==
    \A mid \in Mids : \A n \in Nodes \ {bc[mid].o} :
        /\ Count(n, mid) <= 1
        /\ (n \in bc[mid].never /\ (IsF(n) => bc[mid].why[n] \in {"unreachable", "never"})) => Count(n, mid) = 0
        /\ (n \in bc[mid].must /\ ~IsF(n) /\ Settled(mid)) => Count(n, mid) = 1
NeverToOriginator == \A mid \in Mids : Count(bc[mid].o, mid) = 0
TrueSource == \A u \in BagToSet(up) : u[2] \in Mids /\ u[3] = bc[u[2]].o

\* served (listed, forwarded to, and accepting) from the acknowledgement for at least the time-to-live
ServedAtLeastTTL ==
    /\ \A f \in FDs : MustServe(h, f, now) => (Listed(f) /\ fd[f].st = 0)
    /\ \A mid \in Mids : \A f \in bc[mid].must \cap FDs : Settled(mid) => Count(f, mid) = 1
NotServed(reason) ==
    /\ \A f \in FDs : WhyNot(h, f, now) = reason => ~Listed(f)
    /\ \A mid \in Mids : \A f \in bc[mid].never \cap FDs : bc[mid].why[f] = reason => Count(f, mid) = 0
GoneAfterGrace == NotServed("expired")
DeleteIsImmediate == NotServed("del")
UnregisterWithinGrace == NotServed("unreg")
\* an actively renewing device never lets its registration lapse
RenewsBeforeExpiry ==
    \A f \in FDs : (h[f].active /\ h[f].live # NONE /\ h[f].kill = "none")
                   => (Listed(f) /\ now < h[f].live + (TTL[f] + PGrace) * Res)
\* a Read-FDT reply lists exactly the live registrations, with consistent times
ReplyOK(b, tab) ==
    LET lst == {tab[i][1] : i \in 1..Len(tab)} IN
    /\ \A f \in FDs : (BBMDof[f] = b /\ MustServe(h, f, now)) => f \in lst
    /\ \A i \in 1..Len(tab) :
        LET f == tab[i][1] ttl == tab[i][2] rem == tab[i][3] IN
        /\ f \in FDs /\ BBMDof[f] = b /\ ~MustNotServe(h, f, now)
        /\ ttl \in {0, TTL[f]} /\ rem >= 1 /\ rem <= ttl + PGrace
        /\ (MustServe(h, f, now) /\ h[f].reg # NONE) =>
              (/\ ttl = TTL[f]
               /\ rem * Res >= h[f].reg + TTL[f] * Res - now
               /\ rem <= TTL[f] + PGrace - ((now - h[f].reg) \div Res))
ListedIffLive ==
    /\ (act.n = "Rx" /\ act.c.fn = "RF" /\ IsB(act.who)) => ReplyOK(act.who, act.rt)
    \* a reported remaining time is honoured: without re-registration the entry is gone once it has run out
    /\ \A f \in FDs : (h[f].prom # NONE /\ now > h[f].prom) => ~Listed(f)

TypeOK == /\ now \in Nat /\ \A f \in FDs : fd[f].st \in {-2, -1, 0}
=============================================================================
