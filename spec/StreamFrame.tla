---------------------------- MODULE StreamFrame ----------------------------
(***************************************************************************)
(* X05 -- packet-length ("framing") functions used with tcp.StreamToPacket  *)
(*                                                                          *)
(* A framing function looks at a buffer of octets and either says "no       *)
(* complete packet yet" or cuts the first packet off:                       *)
(*      fn(buffer) -> None | (packet, rest)                                 *)
(* (code: the `fn` given to tcp.StreamToPacket.__init__; the one of the     *)
(* library is bsllservice._Packetize).  Pure operators only, no variables.  *)
(*                                                                          *)
(* Framings:                                                                *)
(*   "tl"    2-octet header <<tag, n>>, n body octets          (model size)  *)
(*   "lp"    2-octet header = body length, big endian                        *)
(*   "bsll"  BACnet streaming link layer (bsll.BSLCI): 4-octet header        *)
(*           <<16_83, function, total length hi, lo>>, the length counts the *)
(*           header; octets in front of the first 16_83 are garbage and are  *)
(*           skipped when a packet is cut off (bsllservice._Packetize)       *)
(*                                                                          *)
(* Named deviation (FALSE in the intended design):                           *)
(*   ShortLengthStalls  a BSLL header whose length field is below 4 (the     *)
(*       header length) is cut off as a "packet" of that many octets -- for  *)
(*       a length field of 0 an empty packet and the unchanged buffer, so    *)
(*       the caller's loop never ends.  Intended: such a header cannot start *)
(*       a frame, its type octet is garbage like any other octet.            *)
(***************************************************************************)
EXTENDS Integers, Sequences, FiniteSets, TLC

CONSTANT ShortLengthStalls

BSLLType == 131                                  \* 16_83
Take(s, n) == SubSeq(s, 1, n)
Drop(s, n) == SubSeq(s, n + 1, Len(s))
IsPrefix(s, t) == Len(s) <= Len(t) /\ s = SubSeq(t, 1, Len(s))
Last(s) == s[Len(s)]

RECURSIVE Flatten(_)
Flatten(pks) == IF pks = <<>> THEN <<>> ELSE Head(pks) \o Flatten(Tail(pks))

NoFrame == [ok |-> FALSE, pkt |-> <<>>, rest |-> <<>>]
Cut(b, n) == [ok |-> TRUE, pkt |-> Take(b, n), rest |-> Drop(b, n)]

\* ---- the reference reading of a header: how long is the header, and how long the packet that a complete header announces
HeadLen(f) == IF f = "bsll" THEN 4 ELSE 2
\* total length announced by the header at the front of b (b has at least HeadLen(f) octets)
TotalLen(f, b) ==
    CASE f = "tl"   -> 2 + b[2]
      [] f = "lp"   -> 2 + 256 * b[1] + b[2]
      [] f = "bsll" -> 256 * b[3] + b[4]
\* a header that can start a packet
GoodHead(f, b) == f = "bsll" => (b[1] = BSLLType /\ TotalLen(f, b) >= 4)
\* b starts with a complete well-formed packet / b is a proper part of one
StartsWithPacket(f, b) == Len(b) >= HeadLen(f) /\ GoodHead(f, b) /\ Len(b) >= TotalLen(f, b)
ProperPartOfPacket(f, b) ==
    \/ Len(b) < HeadLen(f) /\ ((f = "bsll" /\ Len(b) >= 1) => b[1] = BSLLType)
    \/ Len(b) >= HeadLen(f) /\ GoodHead(f, b) /\ Len(b) < TotalLen(f, b)

\* ---- the framing functions
FrameSimple(f, b) ==
    IF Len(b) < HeadLen(f) \/ Len(b) < TotalLen(f, b) THEN NoFrame ELSE Cut(b, TotalLen(f, b))

\* position of the first type octet at or after position i (0: none)
RECURSIVE FindType(_, _)
FindType(b, i) == IF i > Len(b) THEN 0 ELSE IF b[i] = BSLLType THEN i ELSE FindType(b, i + 1)

RECURSIVE FrameBsllFrom(_, _)
FrameBsllFrom(b, i) ==
    LET s == FindType(b, i) IN
    IF s = 0 THEN NoFrame
    ELSE LET d == Drop(b, s - 1) IN
         IF Len(d) < 4 THEN NoFrame
         ELSE LET n == 256 * d[3] + d[4] IN
              IF n < 4 /\ ~ShortLengthStalls THEN FrameBsllFrom(b, s + 1)      \* not a header: go on looking
              ELSE IF Len(d) < n THEN NoFrame
              ELSE Cut(d, n)

Frame(f, b) == IF f = "bsll" THEN FrameBsllFrom(b, 1) ELSE FrameSimple(f, b)

\* ---- the caller's loop (StreamToPacket.packetize/chop): cut packets off while there are any, at most k of them.
\* (A framing result that does not shorten the buffer would loop for ever; the model stops there, FrameProgress is the
\* formula that forbids it.)
RECURSIVE ExtractN(_, _, _)
ExtractN(f, b, k) ==
    LET r == Frame(f, b) IN
    IF k = 0 \/ ~r.ok \/ Len(r.rest) >= Len(b) THEN <<<<>>, b>>
    ELSE LET x == ExtractN(f, r.rest, k - 1) IN << <<r.pkt>> \o x[1], x[2] >>
Extract(f, b) == ExtractN(f, b, Len(b) + 1)

(***************************************************************************)
(* The properties of a framing function, as formulas over one evaluation    *)
(* (f, b, r) with r the result.  TLC checks them for r = Frame(f, b) over   *)
(* every small buffer (MC_StreamFrame) and Trace_StreamFrame evaluates the  *)
(* same formulas on results recorded from the real functions.               *)
(***************************************************************************)
\* cutting a packet off shortens the buffer (so the caller's loop ends)
FrameProgress(f, b, r) == r.ok => Len(r.rest) < Len(b)
\* nothing is invented or reordered: skipped garbage, the packet and the rest make up the buffer; only "bsll" skips
FrameSplits(f, b, r) ==
    r.ok => LET g == Len(b) - Len(r.pkt) - Len(r.rest) IN          \* octets skipped in front of the packet
            /\ g >= 0
            /\ b = Take(b, g) \o r.pkt \o r.rest
            /\ (f # "bsll" => g = 0)
\* a buffer that starts with a complete well-formed packet yields exactly that packet; a proper part of one yields nothing
FrameExact(f, b, r) ==
    /\ StartsWithPacket(f, b) => (r.ok /\ r.pkt = Take(b, TotalLen(f, b)) /\ r.rest = Drop(b, TotalLen(f, b)))
    /\ ProperPartOfPacket(f, b) => ~r.ok
\* what "bsll" hands on is a frame: type octet, length field equal to its length
FrameIsFrame(f, b, r) ==
    (r.ok /\ f = "bsll") => (Len(r.pkt) >= 4 /\ r.pkt[1] = BSLLType /\ 256 * r.pkt[3] + r.pkt[4] = Len(r.pkt))
\* the caller's loop takes everything there is: what it leaves contains no complete packet, and (no garbage skipped)
\* packets and remainder make up the buffer
ExtractExhausts(f, b) ==
    LET x == Extract(f, b) IN
    /\ ~Frame(f, x[2]).ok
    /\ (f # "bsll" => Flatten(x[1]) \o x[2] = b)
=============================================================================
