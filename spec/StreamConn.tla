----------------------------- MODULE StreamConn -----------------------------
(***************************************************************************)
(* X05 -- connection bookkeeping of the TCP directors                       *)
(* (code: py34/bacpypes/tcp.py TCPClientDirector + TCPClientActor,          *)
(* TCPServerDirector + TCPServerActor, StreamToPacketSAP; the socket layer  *)
(* is an environment: it says how a connection attempt goes, when a socket  *)
(* becomes writable, when octets or an end-of-stream arrive).               *)
(*                                                                          *)
(* One director (cf.role = "client" or "server") with a StreamToPacket above   *)
(* it ("tl" framing of StreamFrame.tla) and a StreamToPacketSAP as its      *)
(* service element.  State:                                                 *)
(*   cl[p]    the actor for peer p: on (in the director's table), conn      *)
(*            (connection established), q (octets queued for the socket),   *)
(*            wire (octets written to the socket so far)                    *)
(*   part[p]  what StreamToPacket has buffered upstream for p               *)
(*   hasbuf   peers for which the StreamToPacket buffer tables have keys    *)
(*   rc[p]    reconnect delay kept for p (0: none)                          *)
(*   tasks    the scheduler's entries that belong to the director, in       *)
(*            installation order: [k |-> "ct" | "it" | "rc", p, due]        *)
(*            (connect timeout, idle timeout, reconnect)                    *)
(* Observations of one step: note (what the service element was told:       *)
(* <<"add"|"del", p>>), up (packets handed to the client above              *)
(* StreamToPacket, with their source), refused (the call raised).           *)
(* History: wanted[p] (the application asked for / used the connection and  *)
(* has not disconnected it since), born[p] / last[p] (time the present     *)
(* actor was made / of its last traffic, initially = born), lost[p] (time the last actor of p went       *)
(* away), acc[p] (octets accepted for sending by the present actor).        *)
(*                                                                          *)
(* Time is discrete (seconds).  Tick runs ONE due task (earliest due time,  *)
(* then installation order -- the order of task.TaskManager); Wait lets a   *)
(* second pass when nothing is due.                                         *)
(*                                                                          *)
(* Named deviations (FALSE in the intended design; what the pinned code     *)
(* does):                                                                   *)
(*   DisconnectKeepsPendingReconnect   disconnect(p) while p is waiting to  *)
(*        be reconnected does nothing: the reconnect entry and the pending  *)
(*        task stay, the connection comes back                              *)
(*   ImmediateConnectKeepsTimeout      when connect_ex() succeeds at once   *)
(*        the connect timeout stays armed and later closes the healthy      *)
(*        connection (handle_connect returns early: "already connected")    *)
(***************************************************************************)
EXTENDS StreamFrame

CONSTANTS
    Peers,
    Configs,                    \* model checking: the set of director configurations [role, connT, idle]
    Delays, Hows, Packets, Chunks, MaxTime, MaxOps,      \* model checking: alphabets and bounds
    DisconnectKeepsPendingReconnect, ImmediateConnectKeepsTimeout

VARIABLES cf,                   \* the director: [role |-> "client" | "server", connT, idle] (timeouts in seconds, 0: none); never changes
          now, cl, part, hasbuf, rc, tasks, wanted, born, last, lost, acc, note, up, refused, act, nops
vars == <<cf, now, cl, part, hasbuf, rc, tasks, wanted, born, last, lost, acc, note, up, refused, act, nops>>

Off == [on |-> FALSE, conn |-> FALSE, q |-> <<>>, wire |-> <<>>]
Act(op, p, r, how, data) == [op |-> op, p |-> p, r |-> r, how |-> how, data |-> data]
Remove(ts, Bad(_)) == SelectSeq(ts, LAMBDA t : ~Bad(t))
Due(ts) == {i \in 1..Len(ts) : ts[i].due <= now}
\* the task that runs next: earliest due time, then installation order
NextTask(ts) == CHOOSE i \in Due(ts) : \A j \in Due(ts) : ts[i].due < ts[j].due \/ (ts[i].due = ts[j].due /\ i <= j)

Role == cf.role
ConnT == cf.connT
Idle == cf.idle

Init ==
    /\ cf \in Configs
    /\ now = 0
    /\ cl = [p \in Peers |-> Off] /\ part = [p \in Peers |-> <<>>] /\ hasbuf = {}
    /\ rc = [p \in Peers |-> 0] /\ tasks = <<>>
    /\ wanted = [p \in Peers |-> FALSE] /\ born = [p \in Peers |-> 0] /\ last = [p \in Peers |-> 0] /\ lost = [p \in Peers |-> 0]
    /\ acc = [p \in Peers |-> <<>>]
    /\ note = <<>> /\ up = <<>> /\ refused = FALSE /\ act = Act("init", "", 0, "", <<>>) /\ nops = 0

\* ---- building blocks: a new actor / an actor going away
TimersOfNew(p, how) ==
    (IF Role = "client" /\ ConnT > 0 /\ (how # "now" \/ ImmediateConnectKeepsTimeout)
     THEN <<[k |-> "ct", p |-> p, due |-> now + ConnT]>> ELSE <<>>)
    \o (IF Idle > 0 THEN <<[k |-> "it", p |-> p, due |-> now + Idle]>> ELSE <<>>)
NewActor(how) == [on |-> TRUE, conn |-> (how = "now"), q |-> <<>>, wire |-> <<>>]
IdleRearmed(ts, p) ==
    IF Idle > 0 THEN Remove(ts, LAMBDA t : t.p = p /\ t.k = "it") \o <<[k |-> "it", p |-> p, due |-> now + Idle]>> ELSE ts
\* the tasks after the actor of p has gone away, with reconnect delay r in force
TasksAfterClose(ts, p, r) ==
    Remove(ts, LAMBDA t : t.p = p /\ t.k \in {"ct", "it"})
    \o (IF r > 0 THEN <<[k |-> "rc", p |-> p, due |-> now + r]>> ELSE <<>>)

Quiet == note' = <<>> /\ up' = <<>> /\ refused' = FALSE

\* ---- the application's calls
\* director.connect(p, reconnect = r); the socket layer answers the attempt with `how`
Connect(p, r, how) ==
    /\ Role = "client"
    /\ act' = Act("connect", p, r, how, <<>>) /\ nops' = nops + 1
    /\ wanted' = [wanted EXCEPT ![p] = TRUE]
    /\ up' = <<>> /\ refused' = FALSE
    /\ IF cl[p].on
       THEN /\ note' = <<>>
            /\ UNCHANGED <<cf, now, cl, part, hasbuf, rc, tasks, born, last, lost, acc>>
       ELSE /\ cl' = [cl EXCEPT ![p] = NewActor(how)]
            /\ tasks' = tasks \o TimersOfNew(p, how)
            /\ rc' = IF r > 0 THEN [rc EXCEPT ![p] = r] ELSE rc
            /\ hasbuf' = hasbuf \cup {p} /\ part' = [part EXCEPT ![p] = <<>>]
            /\ born' = [born EXCEPT ![p] = now]
            /\ last' = [last EXCEPT ![p] = now] /\ acc' = [acc EXCEPT ![p] = <<>>]
            /\ note' = << <<"add", p>> >>
            /\ UNCHANGED <<cf, now, lost>>

\* director.disconnect(p)
Disconnect(p) ==
    /\ Role = "client"
    /\ act' = Act("disconnect", p, 0, "", <<>>) /\ nops' = nops + 1
    /\ wanted' = [wanted EXCEPT ![p] = FALSE]
    /\ up' = <<>> /\ refused' = FALSE
    /\ IF cl[p].on
       THEN /\ cl' = [cl EXCEPT ![p] = Off]
            /\ rc' = [rc EXCEPT ![p] = 0]
            /\ tasks' = TasksAfterClose(tasks, p, 0)
            /\ hasbuf' = hasbuf \ {p} /\ part' = [part EXCEPT ![p] = <<>>]
            /\ lost' = [lost EXCEPT ![p] = now]
            /\ note' = << <<"del", p>> >>
            /\ UNCHANGED <<cf, now, born, last, acc>>
       ELSE /\ rc' = IF DisconnectKeepsPendingReconnect THEN rc ELSE [rc EXCEPT ![p] = 0]
            /\ note' = <<>>
            /\ UNCHANGED <<cf, now, cl, part, hasbuf, tasks, born, last, lost, acc>>

\* a packet for p from above (client.request -> StreamToPacket.indication -> director.indication); a client director
\* makes a connection if there is none, a server director refuses
Send(p, pk, how) ==
    /\ act' = Act("send", p, 0, how, pk) /\ nops' = nops + 1
    /\ up' = <<>>
    /\ IF cl[p].on
       THEN /\ cl' = [cl EXCEPT ![p].q = @ \o pk]
            /\ tasks' = IdleRearmed(tasks, p)
            /\ last' = [last EXCEPT ![p] = now] /\ acc' = [acc EXCEPT ![p] = @ \o pk]
            /\ wanted' = [wanted EXCEPT ![p] = TRUE]
            /\ note' = <<>> /\ refused' = FALSE
            /\ UNCHANGED <<cf, now, part, hasbuf, rc, born, lost>>
       ELSE IF Role = "client"
       THEN /\ cl' = [cl EXCEPT ![p] = [NewActor(how) EXCEPT !.q = pk]]
            /\ tasks' = IdleRearmed(tasks \o TimersOfNew(p, how), p)
            /\ hasbuf' = hasbuf \cup {p} /\ part' = [part EXCEPT ![p] = <<>>]
            /\ born' = [born EXCEPT ![p] = now]
            /\ last' = [last EXCEPT ![p] = now] /\ acc' = [acc EXCEPT ![p] = pk]
            /\ wanted' = [wanted EXCEPT ![p] = TRUE]
            /\ note' = << <<"add", p>> >> /\ refused' = FALSE
            /\ UNCHANGED <<cf, now, rc, lost>>
       ELSE /\ refused' = TRUE /\ note' = <<>>
            /\ UNCHANGED <<cf, now, cl, part, hasbuf, rc, tasks, wanted, born, last, lost, acc>>

\* ---- the socket layer's events
\* a connection is accepted from p (server)
Accept(p) ==
    /\ Role = "server" /\ ~cl[p].on
    /\ act' = Act("accept", p, 0, "", <<>>) /\ nops' = nops + 1
    /\ cl' = [cl EXCEPT ![p] = NewActor("now")]
    /\ tasks' = tasks \o TimersOfNew(p, "now")
    /\ hasbuf' = hasbuf \cup {p} /\ part' = [part EXCEPT ![p] = <<>>]
    /\ born' = [born EXCEPT ![p] = now]
    /\ last' = [last EXCEPT ![p] = now] /\ acc' = [acc EXCEPT ![p] = <<>>]
    /\ wanted' = [wanted EXCEPT ![p] = TRUE]
    /\ note' = << <<"add", p>> >> /\ up' = <<>> /\ refused' = FALSE
    /\ UNCHANGED <<cf, now, rc, lost>>

\* the socket of p is writable: a pending connection is established, what is queued is written
Writable(p) ==
    /\ cl[p].on
    /\ act' = Act("writable", p, 0, "", <<>>) /\ nops' = nops + 1
    /\ cl' = [cl EXCEPT ![p].conn = TRUE, ![p].wire = @ \o cl[p].q, ![p].q = <<>>]
    /\ tasks' = IF cl[p].conn THEN tasks ELSE Remove(tasks, LAMBDA t : t.p = p /\ t.k = "ct")
    /\ Quiet
    /\ UNCHANGED <<cf, now, part, hasbuf, rc, wanted, born, last, lost, acc>>

\* octets arrive from p; StreamToPacket hands complete packets up
Receive(p, data) ==
    /\ cl[p].on /\ cl[p].conn
    /\ act' = Act("receive", p, 0, "", data) /\ nops' = nops + 1
    /\ LET x == Extract("tl", part[p] \o data) IN
        /\ part' = [part EXCEPT ![p] = x[2]]
        /\ up' = [i \in 1..Len(x[1]) |-> [data |-> x[1][i], src |-> p]]
    /\ tasks' = IdleRearmed(tasks, p)
    /\ last' = [last EXCEPT ![p] = now]
    /\ note' = <<>> /\ refused' = FALSE
    /\ UNCHANGED <<cf, now, cl, hasbuf, rc, wanted, born, lost, acc>>

\* the actor of p goes away (end of stream from the peer, or a timeout): shared by PeerClose and Tick
Gone(p) ==
    /\ cl' = [cl EXCEPT ![p] = Off]
    /\ tasks' = TasksAfterClose(tasks, p, rc[p])
    /\ hasbuf' = hasbuf \ {p} /\ part' = [part EXCEPT ![p] = <<>>]
    /\ lost' = [lost EXCEPT ![p] = now]
    /\ note' = << <<"del", p>> >> /\ up' = <<>> /\ refused' = FALSE

PeerClose(p) ==
    /\ cl[p].on /\ cl[p].conn
    /\ act' = Act("peerclose", p, 0, "", <<>>) /\ nops' = nops + 1
    /\ Gone(p)
    /\ UNCHANGED <<cf, now, rc, wanted, born, last, acc>>

\* ---- time
\* one due task runs; a reconnect task makes a new actor (the socket layer answers with `how`)
Tick(how) ==
    /\ Due(tasks) # {}
    /\ LET i == NextTask(tasks)
           t == tasks[i]
           rest == [j \in 1..(Len(tasks) - 1) |-> IF j < i THEN tasks[j] ELSE tasks[j + 1]]
       IN  /\ act' = Act("tick", t.p, 0, IF t.k = "rc" THEN how ELSE "", <<>>) /\ nops' = nops
           /\ IF t.k \in {"ct", "it"}
              THEN /\ cl[t.p].on                                   \* (a timer of an actor that is gone: no such state)
                   /\ Gone(t.p)
                   /\ UNCHANGED <<cf, now, rc, wanted, born, last, acc>>
              ELSE IF ~cl[t.p].on /\ (rc[t.p] > 0 \/ DisconnectKeepsPendingReconnect)
              THEN /\ cl' = [cl EXCEPT ![t.p] = NewActor(how)]
                   /\ tasks' = rest \o TimersOfNew(t.p, how)
                   /\ hasbuf' = hasbuf \cup {t.p} /\ part' = [part EXCEPT ![t.p] = <<>>]
                   /\ born' = [born EXCEPT ![t.p] = now]
                   /\ last' = [last EXCEPT ![t.p] = now] /\ acc' = [acc EXCEPT ![t.p] = <<>>]
                   /\ note' = << <<"add", t.p>> >> /\ up' = <<>> /\ refused' = FALSE
                   /\ UNCHANGED <<cf, now, rc, wanted, lost>>
              ELSE /\ tasks' = rest /\ Quiet
                   /\ UNCHANGED <<cf, now, cl, part, hasbuf, rc, wanted, born, last, lost, acc>>

Wait ==
    /\ Due(tasks) = {} /\ now < MaxTime
    /\ now' = now + 1
    /\ act' = Act("wait", "", 0, "", <<>>) /\ nops' = nops
    /\ Quiet
    /\ UNCHANGED <<cf, cl, part, hasbuf, rc, tasks, wanted, born, last, lost, acc>>

Next ==
    \/ Wait
    \/ \E how \in Hows : Tick(how)
    \/ /\ nops < MaxOps
       /\ \E p \in Peers :
            \/ \E r \in Delays, how \in Hows : Connect(p, r, how)
            \/ Disconnect(p)
            \/ \E pk \in Packets, how \in Hows : Send(p, pk, how)
            \/ Accept(p) \/ Writable(p) \/ PeerClose(p)
            \/ \E c \in Chunks : Receive(p, c)

Spec == Init /\ [][Next]_vars

(***************************************************************************)
(* The property                                                             *)
(***************************************************************************)
TasksOf(p, k) == {i \in 1..Len(tasks) : tasks[i].p = p /\ tasks[i].k = k}

\* the service element is told of exactly the changes of the table, as they happen
NotesMatchTable ==
    LET added == {p \in Peers : cl'[p].on /\ ~cl[p].on}
        gone  == {p \in Peers : ~cl'[p].on /\ cl[p].on}
    IN  /\ {note'[i] : i \in 1..Len(note')} = {<<"add", p>> : p \in added} \cup {<<"del", p>> : p \in gone}
        /\ Len(note') = Cardinality(added) + Cardinality(gone)

\* timers belong to actors that exist; the connect timeout runs only while the connection is being made; the idle
\* timeout is due exactly Idle after the last traffic
TimersBelongToActors ==
    \A p \in Peers :
        /\ ~cl[p].on => (TasksOf(p, "ct") = {} /\ TasksOf(p, "it") = {})
        /\ (cl[p].on /\ cl[p].conn) => TasksOf(p, "ct") = {}
        /\ (cl[p].on /\ Idle > 0) => \E i \in TasksOf(p, "it") : TasksOf(p, "it") = {i} /\ tasks[i].due = last[p] + Idle
        /\ (cl[p].on /\ ~cl[p].conn /\ ConnT > 0 /\ Role = "client") => Cardinality(TasksOf(p, "ct")) = 1

\* an actor goes away only for a reason: the application disconnected it, the peer ended the stream, it did not get
\* connected in time, or it was idle for the configured time
ClosedForAReason ==
    \A p \in Peers : (cl[p].on /\ ~cl'[p].on) =>
        \/ act'.op \in {"disconnect", "peerclose"} /\ act'.p = p
        \/ act'.op = "tick" /\ act'.p = p /\
            \/ ~cl[p].conn /\ ConnT > 0 /\ now >= born[p] + ConnT
            \/ Idle > 0 /\ now >= last[p] + Idle

\* no connection to a peer the application has disconnected
DisconnectIsFinal == \A p \in Peers : ~wanted[p] => ~cl[p].on

\* a connection that is to be kept and was lost comes back: the reconnect is pending and due in time
KeptAlive ==
    \A p \in Peers : (wanted[p] /\ rc[p] > 0 /\ ~cl[p].on) => \E i \in TasksOf(p, "rc") : tasks[i].due <= lost[p] + rc[p]

\* what is written to the socket is what was accepted for sending, in order
SentInOrder == \A p \in Peers : cl[p].on => cl[p].wire \o cl[p].q = acc[p]

\* StreamToPacket has buffers for exactly the peers that have an actor (StreamToPacketSAP), so a new connection
\* starts on an empty buffer
BuffersFollowTable == hasbuf = {p \in Peers : cl[p].on} /\ \A p \in Peers : ~cl[p].on => part[p] = <<>>

\* what arrives goes up with the peer as source
ReceivedGoesUp == \A i \in 1..Len(up') : act'.op = "receive" /\ up'[i].src = act'.p

\* octets that arrive are neither lost nor invented on their way up: what StreamToPacket had + what arrived = the
\* packets handed up + what it has now
ReceivedConserved ==
    act'.op = "receive" =>
        part[act'.p] \o act'.data = Flatten([i \in 1..Len(up') |-> up'[i].data]) \o part'[act'.p]

\* nothing is overdue when time passes (a property of the model's clock, not of the directors)
NothingOverdue == act'.op = "wait" => \A i \in 1..Len(tasks) : tasks[i].due > now

P_NotesMatchTable == [][NotesMatchTable]_vars
P_ClosedForAReason == [][ClosedForAReason]_vars
P_ReceivedGoesUp == [][ReceivedGoesUp]_vars
P_ReceivedConserved == [][ReceivedConserved]_vars
P_NothingOverdue == [][NothingOverdue]_vars
=============================================================================
