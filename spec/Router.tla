------------------------------- MODULE Router -------------------------------
(***************************************************************************)
(* BACnet network layer of bacpypes: netservice.NetworkServiceAccessPoint   *)
(* (indication, process_npdu) and netservice.NetworkServiceElement          *)
(* (Who-Is-Router-To-Network, I-Am-Router-To-Network) on virtual LANs.      *)
(*                                                                         *)
(* One action per critical section of the code:                            *)
(*   Send(n,k,dnet,dmac,hops,re)  NSAP.indication of station n (local       *)
(*        station / local broadcast / global fan-out / remote mapped to     *)
(*        local / parked behind pending / cache hit / park + Who-Is-Router) *)
(*   Rx(l,i)   one receiver's copy of a frame on LAN l is handed to         *)
(*        NetworkAdapter.confirmation -> NSAP.process_npdu (SADR spoof      *)
(*        check + learning, the DADR cases -> processLocally /              *)
(*        forwardMessage, APDU up, network message to the NSE, router       *)
(*        check, hop check/decrement, SADR stamping, global fan-out except  *)
(*        the arrival adapter, last leg, cache hit, discovery) and, inside  *)
(*        it, NSE.WhoIsRouterToNetwork / NSE.IAmRouterToNetwork             *)
(*   Reply(s,j) = Send to the source shown with the j-th APDU s received    *)
(* The topology is data: Topos is a sequence of topology records and the    *)
(* variable ti (constant along a behaviour) says which one is in force, so  *)
(* a family of topologies is explored from Init and recorded executions on  *)
(* arbitrary topologies are validated with the same actions.                *)
(*   topology = [nodes |-> Seq([ads |-> Seq([lan, net, mac]), app]),        *)
(*               lans  |-> Seq(Seq(<<node, adapter index>>))]               *)
(*   lan = the LAN the port sits on (= its true network number), net = the  *)
(*   network number the node was configured with (0: unknown), lans[l] =    *)
(*   the ports on LAN l in delivery order.  Adapter order = bind order; the *)
(*   last bound adapter is NSAP.local_adapter.                              *)
(* The routing cache (RouterInfoCache.path_info) is the set of              *)
(* <<snet, dnet, next-hop mac>>, a function of (snet, dnet).                *)
(***************************************************************************)
EXTENDS Naturals, Integers, Sequences, FiniteSets, TLC

CONSTANTS
    Topos,      \* sequence of topology records
    Order,      \* "lan": each LAN is a FIFO of receiver copies; "rcv": FIFO per (LAN, receiver) only
    MaxSteps,   \* bound used by Terminates
    SendHops,   \* hop counts the scenario may start a message with (the library: always 255)
    Modes,      \* subset of {"cold", "warm"}: empty caches / every node knows every next hop
    Replies,    \* BOOLEAN: explore one reply to the shown source after the first message
    Ghost,      \* BOOLEAN: also address a network that does not exist
    Burst,      \* BOOLEAN: the source may submit a second message right behind the first (before anything is delivered)
    Kinds,      \* destination kinds the scenario may use: subset of {"ls", "lb", "gb", "rs", "rb"}
    Dev         \* "none" = the design (and the code).  Named deviations, used to show that the invariants are
                \* not vacuous: "fanout_all" (global fan-out includes the arrival adapter), "no_decrement",
                \* "keep_dadr" (last leg keeps the DADR), "no_sadr" (first hop does not stamp the SADR)

VARIABLES
    ti,         \* index into Topos
    lan,        \* [lan -> Seq([to |-> <<node, ai>>, f |-> frame])]  copies in flight
    cache,      \* [node -> set of <<snet, dnet, mac>>]
    pending,    \* [node -> Seq([dnet, dk, dmac, id, hops])]  NSAP.pending_nets, in arrival order
    up,         \* observation: [node -> Seq([id, snet, smac, dk])] APDUs handed to the layer above
    msgs,       \* history: messages submitted so far; the message id is the index
    tx,         \* observation: frames put on LANs by the last step, in order: Seq([lan, f])
    act,        \* the step that produced this state
    nsteps      \* number of steps so far

vars == <<ti, lan, cache, pending, up, msgs, tx, act, nsteps>>

FullHops == 255
T == Topos[ti]
Nodes == 1..Len(T.nodes)
Lans == 1..Len(T.lans)
NAd(n) == Len(T.nodes[n].ads)
Ad(n, i) == T.nodes[n].ads[i]
LocalAd(n) == NAd(n)                     \* bind(): every adapter with an address becomes local_adapter
IsRouter(n) == NAd(n) > 1
HasApp(n) == T.nodes[n].app
CfgNets(n) == {Ad(n, i).net : i \in 1..NAd(n)}         \* keys of NSAP.adapters (0 = None)
AdForNet(n, net) == CHOOSE i \in 1..NAd(n) : Ad(n, i).net = net
LansOf(n) == {Ad(n, i).lan : i \in 1..NAd(n)}
Stations == {n \in Nodes : HasApp(n)}
LanOf(s) == Ad(s, 1).lan
MacOf(s) == Ad(s, 1).mac
Knows(s) == Ad(s, 1).net # 0
SetOf(s) == {s[i] : i \in 1..Len(s)}
DropAt(s, i) == SubSeq(s, 1, i - 1) \o SubSeq(s, i + 1, Len(s))
RECURSIVE Flatten(_)
Flatten(ss) == IF ss = <<>> THEN <<>> ELSE Head(ss) \o Flatten(Tail(ss))

----------------------------------------------------------------------------
\* frames: LAN source / destination (0 = broadcast), NPCI (DADR kind/net/mac, SADR net/mac, hop count), body
NoD == <<"none", 0, 0>>
NoS == <<0, 0>>
Fr(src, dst, D, S, hops, B) ==
    [src |-> src, dst |-> dst, dk |-> D[1], dnet |-> D[2], dmac |-> D[3], snet |-> S[1], smac |-> S[2],
     hops |-> IF D[1] = "none" THEN 0 ELSE hops,        \* the hop count is on the wire only with a DADR
     t |-> B[1], id |-> B[2], nets |-> B[3]]
NoFrame == Fr(0, 0, NoD, NoS, 0, <<"none", 0, <<>>>>)
NoMsg == [src |-> 0, k |-> "none", dnet |-> 0, dmac |-> 0, hops |-> 0, re |-> 0]
Tx(n, i, dst, D, S, hops, B) == [lan |-> Ad(n, i).lan, f |-> Fr(Ad(n, i).mac, dst, D, S, hops, B)]
OtherAds(n, i) == SelectSeq([j \in 1..NAd(n) |-> j], LAMBDA j : j # i)

\* the medium (vlan.Network.process_pdu): one copy per receiver, in the LAN's node order
Receivers(l, f) == SelectSeq(T.lans[l], LAMBDA r : IF f.dst = 0 THEN Ad(r[1], r[2]).mac # f.src
                                                    ELSE Ad(r[1], r[2]).mac = f.dst)
Copies(l, f) == LET R == Receivers(l, f) IN [i \in 1..Len(R) |-> [to |-> R[i], f |-> f]]
RECURSIVE PutAll(_, _)
PutAll(ln, out) == IF out = <<>> THEN ln
                   ELSE PutAll([ln EXCEPT ![out[1].lan] = @ \o Copies(out[1].lan, out[1].f)], Tail(out))

\* routing cache = RouterInfoCache.path_info; update_router_info: the newest announcement wins
Lookup(c, snet, dnet) == {e \in c : e[1] = snet /\ e[2] = dnet}
Update(c, snet, mac, dnets) == {e \in c : ~(e[1] = snet /\ e[2] \in dnets)} \cup {<<snet, d, mac>> : d \in dnets}
\* "for snet, snet_adapter in self.adapters.items(): get_router_info(snet, dnet)": first adapter with a path
RECURSIVE FirstPath(_, _, _, _)
FirstPath(c, n, dnet, i) == IF i > NAd(n) THEN 0
                            ELSE IF Lookup(c, Ad(n, i).net, dnet) # {} THEN i ELSE FirstPath(c, n, dnet, i + 1)
RouterMac(c, n, i, dnet) == (CHOOSE e \in Lookup(c, Ad(n, i).net, dnet) : TRUE)[3]

----------------------------------------------------------------------------
\* NetworkServiceAccessPoint.indication -- returns [out, pend]
SendRes(n, k, dnet, dmac, hops, id) ==
    LET la == LocalAd(n)
        B == <<"app", id, <<>>>>
        same(o) == [out |-> o, pend |-> pending[n]]
    IN  CASE k = "ls" -> same(<<Tx(n, la, dmac, NoD, NoS, hops, B)>>)
          [] k = "lb" -> same(<<Tx(n, la, 0, NoD, NoS, hops, B)>>)
          [] k = "gb" -> same([j \in 1..NAd(n) |-> Tx(n, j, 0, <<"gb", 0, 0>>, NoS, hops, B)])
          [] OTHER ->       \* "rs", "rb"
             IF dnet = Ad(n, la).net
             THEN same(<<Tx(n, la, IF k = "rs" THEN dmac ELSE 0, NoD, NoS, hops, B)>>)      \* it's local
             ELSE LET D == <<k, dnet, IF k = "rs" THEN dmac ELSE 0>>
                      parked == [dnet |-> dnet, dk |-> k, dmac |-> D[3], id |-> id, hops |-> hops]
                      waiting == \E i \in 1..Len(pending[n]) : pending[n][i].dnet = dnet
                      p == FirstPath(cache[n], n, dnet, 1)
                  IN  IF waiting THEN [out |-> <<>>, pend |-> Append(pending[n], parked)]
                      ELSE IF p # 0 THEN same(<<Tx(n, p, RouterMac(cache[n], n, p, dnet), D, NoS, hops, B)>>)
                      ELSE [out |-> [j \in 1..NAd(n) |-> Tx(n, j, 0, NoD, NoS, 0, <<"wirtn", 0, <<dnet>>>>)],
                            pend |-> Append(pending[n], parked)]

Send(n, k, dnet, dmac, hops, re) ==
    LET id == Len(msgs) + 1
        r == SendRes(n, k, dnet, dmac, hops, id)
        m == [src |-> n, k |-> k, dnet |-> dnet, dmac |-> dmac, hops |-> hops, re |-> re]
    IN  /\ lan' = PutAll(lan, r.out)
        /\ pending' = [pending EXCEPT ![n] = r.pend]
        /\ msgs' = Append(msgs, m)
        /\ tx' = r.out
        /\ act' = [n |-> "Send", node |-> n, ai |-> 0, l |-> 0, i |-> 0, f |-> NoFrame, m |-> m]
        /\ nsteps' = nsteps + 1
        /\ UNCHANGED <<ti, cache, up>>

----------------------------------------------------------------------------
\* NetworkAdapter.confirmation -> NSAP.process_npdu (+ the NSE handlers) -- returns [out, cache, pend, up]
RxRes(n, ai, f) ==
    LET ad == Ad(n, ai)
        la == Ad(n, LocalAd(n))
        c0 == cache[n]
        hasS == f.snet # 0
        spoof == hasS /\ f.snet \in CfgNets(n)                    \* path error (1): nothing at all happens
        c1 == IF hasS THEN Update(c0, ad.net, f.src, {f.snet}) ELSE c0     \* SADR learning
        isNet == f.t # "app"
        pathErr == f.dk \in {"rs", "rb"} /\ f.dnet = ad.net       \* path errors (2), (3): after the learning
        pl == CASE f.dk = "none" -> (ai = LocalAd(n)) \/ isNet
                [] f.dk = "rb"   -> f.dnet = la.net
                [] f.dk = "rs"   -> f.dnet = la.net /\ f.dmac = la.mac
                [] f.dk = "gb"   -> TRUE
        fw == CASE f.dk = "none" -> FALSE
                [] f.dk = "rb"   -> TRUE
                [] f.dk = "rs"   -> ~pl
                [] f.dk = "gb"   -> TRUE
        \* APDU to the layer above (single-adapter branch: the source is the SADR or the LAN source)
        shown == [id |-> f.id, snet |-> f.snet, smac |-> IF hasS THEN f.smac ELSE f.src,
                  dk |-> IF f.dk = "gb" THEN "gb" ELSE IF f.dst = 0 THEN "lb" ELSE "ls"]
        up1 == IF ~isNet /\ pl /\ HasApp(n) THEN Append(up[n], shown) ELSE up[n]
        \* network layer messages handed to the NetworkServiceElement
        nse == IF ~(isNet /\ pl) THEN [out |-> <<>>, cache |-> c1, pend |-> pending[n]]
               ELSE IF f.t = "wirtn" THEN
                 LET dnet == f.nets[1]
                     reply == <<Tx(n, ai, f.src, NoD, NoS, 0, <<"iartn", 0, <<dnet>>>>)>>
                     p == FirstPath(c1, n, dnet, 1)
                     S == IF hasS THEN <<f.snet, f.smac>> ELSE <<ad.net, f.src>>
                     o == IF ~IsRouter(n) THEN <<>>
                          ELSE IF dnet \in CfgNets(n) THEN (IF AdForNet(n, dnet) = ai THEN <<>> ELSE reply)
                          ELSE IF p # 0 THEN (IF p = ai THEN <<>> ELSE reply)
                          ELSE [k \in 1..Len(OtherAds(n, ai)) |->
                                   Tx(n, OtherAds(n, ai)[k], 0, NoD, S, 0, <<"wirtn", 0, <<dnet>>>>)]
                 IN  [out |-> o, cache |-> c1, pend |-> pending[n]]
               ELSE \* "iartn"
                 LET nets == f.nets
                     c2 == Update(c1, ad.net, f.src, SetOf(nets))
                     fwd == IF ~IsRouter(n) THEN <<>>
                            ELSE [k \in 1..Len(OtherAds(n, ai)) |->
                                     Tx(n, OtherAds(n, ai)[k], 0, NoD, NoS, 0, <<"iartn", 0, nets>>)]
                     rel == Flatten([k \in 1..Len(nets) |-> SelectSeq(pending[n], LAMBDA q : q.dnet = nets[k])])
                     keep == SelectSeq(pending[n], LAMBDA q : q.dnet \notin SetOf(nets))
                     relOut == [k \in 1..Len(rel) |->
                                  Tx(n, ai, f.src, <<rel[k].dk, rel[k].dnet, rel[k].dmac>>, NoS, rel[k].hops,
                                     <<"app", rel[k].id, <<>>>>)]
                 IN  [out |-> fwd \o relOut, cache |-> c2, pend |-> keep]
        \* forwarding
        S2 == IF hasS THEN <<f.snet, f.smac>> ELSE IF Dev = "no_sadr" THEN NoS ELSE <<ad.net, f.src>>
        h2 == IF Dev = "no_decrement" THEN f.hops ELSE f.hops - 1
        fan == IF Dev = "fanout_all" THEN [j \in 1..NAd(n) |-> j] ELSE OtherAds(n, ai)
        D == <<f.dk, f.dnet, f.dmac>>
        B == <<f.t, f.id, f.nets>>
        fwdOut ==
            IF ~fw \/ ~IsRouter(n) \/ f.hops = 0 THEN <<>>
            ELSE IF f.dk = "gb"
              THEN [k \in 1..Len(fan) |-> Tx(n, fan[k], 0, D, S2, h2, B)]
            ELSE LET dnet == f.dnet
                     p == FirstPath(nse.cache, n, dnet, 1)
                 IN  IF dnet \in CfgNets(n)
                       THEN LET x == AdForNet(n, dnet) IN
                            IF x = ai THEN <<>>
                            ELSE <<Tx(n, x, IF f.dk = "rb" THEN 0 ELSE f.dmac,
                                      IF Dev = "keep_dadr" THEN D ELSE NoD, S2, h2, B)>>                \* last leg
                     ELSE IF p # 0 THEN <<Tx(n, p, RouterMac(nse.cache, n, p, dnet), D, S2, h2, B)>>
                     ELSE [k \in 1..Len(OtherAds(n, ai)) |->
                              Tx(n, OtherAds(n, ai)[k], 0, NoD, NoS, 0, <<"wirtn", 0, <<dnet>>>>)]
    IN  IF spoof THEN [out |-> <<>>, cache |-> c0, pend |-> pending[n], up |-> up[n]]
        ELSE IF pathErr THEN [out |-> <<>>, cache |-> c1, pend |-> pending[n], up |-> up[n]]
        ELSE [out |-> nse.out \o fwdOut, cache |-> nse.cache, pend |-> nse.pend, up |-> up1]

CanRx(l, i) ==
    /\ i \in 1..Len(lan[l])
    /\ Order = "lan" => i = 1
    /\ Order = "rcv" => \A j \in 1..(i - 1) : lan[l][j].to # lan[l][i].to

Rx(l, i) ==
    /\ CanRx(l, i)
    /\ LET cp == lan[l][i]
           n == cp.to[1]
           r == RxRes(n, cp.to[2], cp.f)
       IN  /\ lan' = PutAll([lan EXCEPT ![l] = DropAt(@, i)], r.out)
           /\ cache' = [cache EXCEPT ![n] = r.cache]
           /\ pending' = [pending EXCEPT ![n] = r.pend]
           /\ up' = [up EXCEPT ![n] = r.up]
           /\ tx' = r.out
           /\ act' = [n |-> "Rx", node |-> n, ai |-> cp.to[2], l |-> l, i |-> i, f |-> cp.f, m |-> NoMsg]
    /\ nsteps' = nsteps + 1
    /\ UNCHANGED <<ti, msgs>>

\* a recipient answers to the source address it was shown
Reply(s, j) ==
    /\ j \in 1..Len(up[s])
    /\ LET e == up[s][j] IN Send(s, IF e.snet = 0 THEN "ls" ELSE "rs", e.snet, e.smac, FullHops, e.id)

----------------------------------------------------------------------------
\* warm caches: every node knows, on the attached network(s) nearest to the destination, the next hop towards
\* every other network -- the router on that network that is strictly closer to the destination (in a tree:
\* exactly what discovery teaches)
RoutersOn(l) == {n \in Nodes : IsRouter(n) /\ l \in LansOf(n)}
RECURSIVE Within(_, _)
Within(d, k) == IF k = 0 THEN {d}
                ELSE LET W == Within(d, k - 1) IN W \cup {l \in Lans : \E r \in RoutersOn(l) : LansOf(r) \cap W # {}}
Reachable(l, d) == l \in Within(d, Len(T.lans))
LanDist(l, d) == CHOOSE k \in 0..Len(T.lans) : l \in Within(d, k) /\ (k = 0 \/ l \notin Within(d, k - 1))
MinOf(S) == CHOOSE x \in S : \A y \in S : x <= y
Via(r, s, d) == MinOf({LanDist(l2, d) : l2 \in {x \in LansOf(r) \ {s} : Reachable(x, d)}} \cup {1000})
MacOn(r, s) == Ad(r, CHOOSE i \in 1..NAd(r) : Ad(r, i).lan = s).mac
Warm(n) ==
    UNION {LET s == Ad(n, i).lan IN
           {<<Ad(n, i).net, d, MacOn(r, s)>> : <<d, r>> \in
               {x \in (Lans \ LansOf(n)) \X (RoutersOn(s) \ {n}) :
                   /\ Reachable(s, x[1]) /\ Via(x[2], s, x[1]) + 1 = LanDist(s, x[1])
                   /\ \A l2 \in LansOf(n) : Reachable(l2, x[1]) => LanDist(s, x[1]) <= LanDist(l2, x[1])
                   /\ \A r2 \in RoutersOn(s) \ {n} : Via(r2, s, x[1]) + 1 = LanDist(s, x[1]) => x[2] <= r2}}
           : i \in 1..NAd(n)}

Init ==
    /\ ti \in 1..Len(Topos)
    /\ \E mode \in Modes : cache = [n \in Nodes |-> IF mode = "cold" THEN {} ELSE Warm(n)]
    /\ lan = [l \in Lans |-> <<>>]
    /\ pending = [n \in Nodes |-> <<>>]
    /\ up = [n \in Nodes |-> <<>>]
    /\ msgs = <<>> /\ tx = <<>> /\ nsteps = 0
    /\ act = [n |-> "Init", node |-> 0, ai |-> 0, l |-> 0, i |-> 0, f |-> NoFrame, m |-> NoMsg]

\* the scenarios the property quantifies over: every (source, kind, destination)
GhostNet == Len(T.lans) + 1
CanSend(n, k, dnet, dmac) ==
    /\ n \in Stations
    /\ CASE k = "ls" -> dnet = 0 /\ \E s \in Stations \ {n} : LanOf(s) = LanOf(n) /\ MacOf(s) = dmac
         [] k \in {"lb", "gb"} -> dnet = 0 /\ dmac = 0
         [] k = "rs" -> /\ dnet \in Lans /\ (dnet = LanOf(n) => Knows(n))
                        /\ \E s \in Stations \ {n} : LanOf(s) = dnet /\ MacOf(s) = dmac
         [] k = "rb" -> /\ dmac = 0
                        /\ \/ dnet \in Lans /\ (dnet = LanOf(n) => Knows(n))
                           \/ Ghost /\ dnet = GhostNet
Macs == {MacOf(s) : s \in Stations}
Quiescent == \A l \in Lans : lan[l] = <<>>

Next ==
    \/ /\ msgs = <<>> \/ (Burst /\ Len(msgs) = 1 /\ act.n = "Send")
       /\ \E n \in Stations, k \in Kinds, dnet \in 0..GhostNet, dmac \in Macs \cup {0},
             h \in SendHops : /\ CanSend(n, k, dnet, dmac) /\ (msgs # <<>> => n = msgs[1].src)
                              /\ Send(n, k, dnet, dmac, h, 0)
    \/ \E l \in Lans : \E i \in 1..Len(lan[l]) : Rx(l, i)
    \/ /\ Replies /\ Quiescent /\ Len(msgs) >= 1 /\ \A k \in 1..Len(msgs) : msgs[k].re = 0
       /\ \E s \in Stations : \E j \in 1..Len(up[s]) : Reply(s, j)

Spec == Init /\ [][Next]_vars

----------------------------------------------------------------------------
\* Properties (C06).  All of them are phrased over observations: up, tx, act (the frame just received), msgs.
Count(s, id) == Cardinality({j \in 1..Len(up[s]) : up[s][j].id = id})
\* who must see message id (the sender never sees its own message)
Want(id) ==
    LET m == msgs[id] IN
    IF m.re # 0 THEN {msgs[m.re].src}                   \* a reply: the originator of the message answered
    ELSE CASE m.k = "ls" -> {s \in Stations \ {m.src} : LanOf(s) = LanOf(m.src) /\ MacOf(s) = m.dmac}
           [] m.k = "lb" -> {s \in Stations \ {m.src} : LanOf(s) = LanOf(m.src)}
           [] m.k = "gb" -> Stations \ {m.src}
           [] m.k = "rs" -> {s \in Stations \ {m.src} : LanOf(s) = m.dnet /\ MacOf(s) = m.dmac}
           [] m.k = "rb" -> {s \in Stations \ {m.src} : LanOf(s) = m.dnet}
           [] OTHER -> {}
Ids == 1..Len(msgs)
\* never twice, never to a station that is not addressed (at every instant)
NoDuplicate == \A s \in Stations : \A id \in Ids : Count(s, id) <= 1
NotToOthers == \A s \in Stations : \A j \in 1..Len(up[s]) : up[s][j].id \in Ids /\ s \in Want(up[s][j].id)
\* once the internetwork is quiet every addressed station has the message
Missing == {<<id, s>> \in Ids \X Stations : s \in Want(id) /\ Count(s, id) = 0}
ExactlyOnceKinds(K) ==
    Quiescent => \A id \in Ids : msgs[id].re = 0 /\ msgs[id].hops = FullHops /\ msgs[id].k \in K
                     => \A s \in Stations : Count(s, id) = IF s \in Want(id) THEN 1 ELSE 0
ExactlyOnce == ExactlyOnceKinds({"ls", "lb", "gb", "rs", "rb"})
UnicastExactlyOnce == ExactlyOnceKinds({"ls", "rs"})
RemoteBroadcastExactlyOnce == ExactlyOnceKinds({"rb"})
GlobalBroadcastExactlyOnce == ExactlyOnceKinds({"gb"})
LocalBroadcastStays == ExactlyOnceKinds({"lb"})
\* a reply addressed to the shown source arrives at the originator and nowhere else
ReplyRoutable ==
    Quiescent => \A id \in Ids : msgs[id].re # 0
                     => \A s \in Stations : Count(s, id) = IF s = msgs[msgs[id].re].src THEN 1 ELSE 0
\* what a router emits because of the frame it has just received
Forwards == IF act.n = "Rx" /\ IsRouter(act.node) THEN {j \in 1..Len(tx) : tx[j].f.t = act.f.t} ELSE {}
\* each hop lowers the count by one; a frame whose count is exhausted is not forwarded
HopDecrement ==
    act.n = "Rx" /\ act.f.t = "app" =>
        \A j \in Forwards : /\ act.f.dk # "none" /\ act.f.hops >= 1
                            /\ tx[j].f.id = act.f.id
                            /\ tx[j].f.dk # "none" => tx[j].f.hops = act.f.hops - 1
\* nothing (data, Who-Is-Router, I-Am-Router) is forwarded onto the network it came from
NeverBackOnArrivalNet == \A j \in Forwards : tx[j].lan # act.l
\* forwarding terminates
Terminates == nsteps <= MaxSteps
\* the model's cache is a function
CacheIsFunction == \A n \in Nodes : \A e1, e2 \in cache[n] : (e1[1] = e2[1] /\ e1[2] = e2[2]) => e1 = e2
=============================================================================
