CONSTANTS
  Peers = {"p1", "p2"}
  Addrs = {"p1", "p2", "L"}
  Scen <- c_Pair
  MaxPk = 0
  MaxBody = 0
  Frs = {"tl"}
  MinChunk = 1
  MaxChunk = 100
  Fails = {0}
  Others <- c_WithLocal
  BothKeys = FALSE
  LoseChunkOnRaise = FALSE
  ShortLengthStalls = FALSE
SPECIFICATION Spec
CHECK_DEADLOCK FALSE
INVARIANT Shape
INVARIANT OutputIsPrefixOfPackets
INVARIANT NoEarlyEmission
INVARIANT BufferIsRemainder
INVARIANT NothingHeldBack
INVARIANT Complete
PROPERTY P_Independent
PROPERTY P_AddressesPropagated
PROPERTY P_OctetsConserved
