-------------------------- MODULE Trace_ObjStore --------------------------
(***************************************************************************)
(* Trace validation for ObjStore.tla.  Each line of TRACE_FILE is one      *)
(* execution recorded from a real device stack, driven by a real client    *)
(* stack over a VLAN (every request and response decoded from the wire):   *)
(*   {"tid":n, "schema":{obj:{"order":[..],"d":{prop:{kind,ty,opt,mut,fix, *)
(*    dflt}}}}, "st0":{obj:{prop:{"st":..,"e":[..]}}},                      *)
(*    "evs":[{"op":"write","o":..,"p":..,"i":-1,"x":{"e":[..],"ty":..,     *)
(*            "n":-1},"pr":0,"refs":[],"res":{k,c,e,n},"rb":{..},          *)
(*            "out":[{g,o,p,i,r,rp}],"ch":[{"o":..,"p":..,"c":cell}]}]}    *)
(* op/o/p/i/x/pr/refs is the operation in the abstract vocabulary (values  *)
(* tokenised by the hex of their encoded tag list), res/rb/out what the    *)
(* device answered, ch the cells of the projected store that differ from   *)
(* the previous full read-back (one ReadProperty per declared property of  *)
(* every object of the device after EVERY operation; st0 is the first      *)
(* one).  For every step TLC decides (a) conformance: is the logged step a *)
(* step of the ObjStore action named by the event (rej = first step that   *)
(* is not) and (b) the C15 monitors -- the step formulas M_* of            *)
(* ObjStore.tla -- on the logged step (viol).  One verdict record per      *)
(* trace is printed ("@@" prefix); nothing halts the run.                  *)
(***************************************************************************)
EXTENDS ObjStore, Json, IOUtils, TLCExt

Traces == ndJsonDeserialize(IOEnv.TRACE_FILE)
VARIABLES tid, l, rej, viol
tvars == <<tid, l, rej, viol>>
T == Traces[tid].evs

TInit ==
    /\ tid \in 1..Len(Traces) /\ l = 1 /\ rej = 0 /\ viol = {}
    /\ val = Traces[tid].st0 /\ sch = Traces[tid].schema
    /\ act = [op |-> "init", o |-> "", p |-> "", i |-> NoIdx, x |-> NoVal, pr |-> 0, refs |-> <<>>]
    /\ res = NoRes /\ rb = NoRes /\ out = <<>>

Act(e) ==
    CASE e.op = "read"  -> Read(e.o, e.p, e.i)
      [] e.op = "write" -> Write(e.o, e.p, e.i, e.x, e.pr)
      [] e.op = "rpm"   -> RPM(e.refs)
      [] e.op = "scan"  -> Scan(e.o, e.p)
      [] OTHER          -> FALSE

\* the store after the step: the previous read-back with the logged differences applied
RECURSIVE Apply(_, _, _)
Apply(v, ch, j) == IF j > Len(ch) THEN v ELSE Apply([v EXCEPT ![ch[j].o][ch[j].p] = ch[j].c], ch, j + 1)

Bind(e) ==
    /\ val' = Apply(val, e.ch, 1)
    /\ act' = [op |-> e.op, o |-> e.o, p |-> e.p, i |-> e.i, x |-> e.x, pr |-> e.pr, refs |-> e.refs]
    /\ res' = e.res /\ rb' = e.rb /\ out' = e.out
    /\ UNCHANGED sch

Failing ==
    (IF M_ReadYourWrite THEN {} ELSE {"ReadYourWrite"}) \cup
    (IF M_RefusalChangesNothing THEN {} ELSE {"RefusalChangesNothing"}) \cup
    (IF M_MatchingError THEN {} ELSE {"MatchingError"}) \cup
    (IF M_ArrayIndexing THEN {} ELSE {"ArrayIndexing"}) \cup
    (IF M_RPMEqualsRP THEN {} ELSE {"RPMEqualsRP"})

Step ==
    /\ l <= Len(T)
    /\ LET e == T[l] IN
        /\ Bind(e)
        /\ rej' = IF rej = 0 /\ ~ENABLED (Act(e) /\ Bind(e)) THEN l ELSE rej
        /\ viol' = viol \cup {<<m, l>> : m \in Failing}
    /\ l' = l + 1 /\ UNCHANGED tid

Done ==
    /\ l = Len(T) + 1
    /\ PrintT(<<"@@", [tid |-> Traces[tid].tid, rej |-> rej, viol |-> viol]>>)
    /\ l' = l + 1 /\ UNCHANGED <<vars, tid, rej, viol>>

TNext == Step \/ Done
TSpec == TInit /\ [][TNext]_<<vars, tvars>>
=============================================================================
