------------------------------ MODULE MC_DCC ------------------------------
(* Exhaustive configuration of DCC.tla (X01): every request (3 states x durations {absent, 1, 2} min x
   {no, right, wrong} password), both password configurations, every incoming / initiated kind, the clock in
   half-minutes up to 3 minutes.  Deviations off: the intended design.                                       *)
EXTENDS DCC
=============================================================================
