SPECIFICATION Spec
CONSTANT Full = TRUE
INVARIANT CaseWellFormed
INVARIANT RoundTrip
INVARIANT Layout
INVARIANT Emit
CHECK_DEADLOCK FALSE
