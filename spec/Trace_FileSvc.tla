--------------------------- MODULE Trace_FileSvc ---------------------------
(***************************************************************************)
(* Trace validation for FileSvc.tla.  Each line of TRACE_FILE is one        *)
(* execution recorded from a real client stack talking to a real device     *)
(* stack (FileServices + local file objects) over a VLAN:                   *)
(*   {"tid":n, "files":[{"access":"stream","ro":false,"content":[..]},..],  *)
(*    "size":[..],                                                          *)
(*    "evs":[{"op":"rs","f":1,"start":0,"count":2,"data":[],                *)
(*            "res":{decoded answer}, "files":[..after..], "size":[..]}]}   *)
(* Stream contents are sequences of octet values, record contents sequences *)
(* of records (each a sequence of octet values).                            *)
(* For every step TLC decides (a) conformance: is the logged answer and     *)
(* post-state what the FileSvc action named by the event yields from the    *)
(* logged pre-state, and (b) the X03 step formulas on the logged states.    *)
(* One verdict record per trace ("@@" prefix); nothing halts the run.       *)
(***************************************************************************)
EXTENDS FileSvc, Json, IOUtils, TLCExt

Traces == ndJsonDeserialize(IOEnv.TRACE_FILE)
VARIABLES tid, l, rej, viol
tvars == <<tid, l, rej, viol>>
T == Traces[tid].evs

TInit ==
    /\ tid \in 1..Len(Traces) /\ l = 1 /\ rej = 0 /\ viol = {}
    /\ files = Traces[tid].files /\ size = Traces[tid].size
    /\ res = NoRes /\ act = InitAct /\ lvl = 0

Act(e) ==
    CASE e.op = "rs" -> ReadStream(e.f, e.start, e.count)
      [] e.op = "rr" -> ReadRecord(e.f, e.start, e.count)
      [] e.op = "ws" -> WriteStream(e.f, e.start, e.data)
      [] e.op = "wr" -> WriteRecord(e.f, e.start, e.data)
      [] OTHER       -> FALSE

\* the projection logged by the harness after the step
Bind(e) ==
    /\ files' = e.files /\ size' = e.size /\ res' = e.res
    /\ act' = [op |-> e.op, f |-> e.f, start |-> e.start, count |-> e.count, data |-> e.data]
    /\ lvl' = lvl + 1

Failing ==
    (IF RefusalIffInvalid THEN {} ELSE {"RefusalIffInvalid"}) \cup
    (IF ReadIsSlice THEN {} ELSE {"ReadIsSlice"}) \cup
    (IF EofExact THEN {} ELSE {"EofExact"}) \cup
    (IF WriteExact THEN {} ELSE {"WriteExact"}) \cup
    (IF WriteThenRead THEN {} ELSE {"WriteThenRead"}) \cup
    (IF RefusalChangesNothing THEN {} ELSE {"RefusalChangesNothing"}) \cup
    (IF ReadsChangeNothing THEN {} ELSE {"ReadsChangeNothing"}) \cup
    (IF SizeTracksContent THEN {} ELSE {"SizeTracksContent"})

\* every failing (monitor, step) is reported (the harness groups them into classes)
Step ==
    /\ l <= Len(T)
    /\ LET e == T[l] IN
        /\ Bind(e)
        /\ rej' = IF rej = 0 /\ ~ENABLED (Act(e) /\ Bind(e)) THEN l ELSE rej
        /\ viol' = viol \cup {<<m, l>> : m \in Failing}
    /\ l' = l + 1 /\ UNCHANGED tid

Done ==
    /\ l = Len(T) + 1
    /\ PrintT(<<"@@", [tid |-> Traces[tid].tid, rej |-> rej, viol |-> viol]>>)
    /\ l' = l + 1 /\ UNCHANGED <<vars, tid, rej, viol>>

TNext == Step \/ Done
TSpec == TInit /\ [][TNext]_<<vars, tvars>>
=============================================================================
