----------------------------- MODULE MC_Router -----------------------------
(***************************************************************************)
(* Model-checking configurations of Router.tla.                            *)
(* Family = every loop-free internetwork of 2..MaxNets networks (labelled)  *)
(* joined by routers with 2..MaxPorts ports, with the station patterns      *)
(* PatsFor(N) on the networks; TLC picks the topology, cold / warm caches   *)
(* and the (source, kind, destination) of the message in Init / Next.       *)
(* Cyc = small internetworks with a cycle, for termination.                 *)
(***************************************************************************)
EXTENDS Router, SequencesExt

CONSTANTS MinNets, MaxNets, MaxPorts, PatChoice, Shapes

\* ---- building a topology record -------------------------------------------------------------
\* routers: Seq(Seq(lan)) in bind order; pats: Seq over lans of Seq(BOOLEAN) (one station per entry: knows its net?)
MkTopo(routers, pats) ==
    LET N == Len(pats)
        st == Flatten([l \in 1..N |-> [j \in 1..Len(pats[l]) |->
                  [ads |-> <<[lan |-> l, net |-> IF pats[l][j] THEN l ELSE 0, mac |-> j]>>, app |-> TRUE]]])
        rt == [k \in 1..Len(routers) |->
                  [ads |-> [p \in 1..Len(routers[k]) |-> [lan |-> routers[k][p], net |-> routers[k][p], mac |-> 10 + k]],
                   app |-> FALSE]]
        nodes == st \o rt
        ports(n) == [a \in 1..Len(nodes[n].ads) |-> <<n, a>>]
        lanseq(l) == Flatten([n \in 1..Len(nodes) |-> SelectSeq(ports(n), LAMBDA x : nodes[n].ads[x[2]].lan = l)])
    IN  [nodes |-> nodes, lans |-> [l \in 1..N |-> lanseq(l)]]

\* ---- all trees --------------------------------------------------------------------------------
RECURSIVE SumSizes(_)
SumSizes(R) == IF R = {} THEN 0 ELSE LET r == CHOOSE x \in R : TRUE IN Cardinality(r) - 1 + SumSizes(R \ {r})
RECURSIVE Grow(_, _, _)
Grow(R, S, k) == IF k = 0 THEN S ELSE Grow(R, S \cup UNION {r \in R : r \cap S # {}}, k - 1)
Candidates(N) == {S \in SUBSET (1..N) : Cardinality(S) \in 2..MaxPorts}
TreeSets(N) == {R \in SUBSET Candidates(N) : SumSizes(R) = N - 1 /\ Grow(R, {1}, N) = 1..N}
RECURSIVE SortedSeq(_)
SortedSeq(S) == IF S = {} THEN <<>> ELSE LET m == MinOf(S) IN <<m>> \o SortedSeq(S \ {m})
Key(r) == LET s == SortedSeq(r) IN s[1] * 100 + s[2] * 10 + (IF Len(s) > 2 THEN s[3] ELSE 0)
RECURSIVE SortRouters(_)
SortRouters(R) == IF R = {} THEN <<>>
                  ELSE LET m == CHOOSE x \in R : \A y \in R : Key(x) <= Key(y) IN <<SortedSeq(m)>> \o SortRouters(R \ {m})
\* one representative per shape (up to renaming of networks) for four networks: line, star of two-port routers,
\* a three-port router with a two-port router behind it; plus the reversed bind order of the line
Canon4 == { << <<1, 2>>, <<2, 3>>, <<3, 4>> >>, << <<1, 2>>, <<1, 3>>, <<1, 4>> >>, << <<1, 2, 3>>, <<3, 4>> >>,
            << <<4, 3>>, <<3, 2>>, <<2, 1>> >>, << <<2, 4>>, <<3, 2, 1>> >> }
\* five networks: line, two three-port routers, a four-port router with a two-port router behind it, a star of a
\* three-port and two two-port routers
Canon5 == { << <<1, 2>>, <<2, 3>>, <<3, 4>>, <<4, 5>> >>, << <<1, 2, 3>>, <<3, 4, 5>> >>, << <<1, 2, 3, 4>>, <<4, 5>> >>,
            << <<2, 1>>, <<5, 3, 2>>, <<2, 4>> >> }
RouterSeqs(N) == IF N = 4 /\ Shapes = "canon" THEN Canon4 ELSE IF N = 5 /\ Shapes = "canon" THEN Canon5
                 ELSE {SortRouters(R) : R \in TreeSets(N)}

K == <<TRUE>>
U == <<FALSE>>
KU == <<TRUE, FALSE>>
UK == <<FALSE, TRUE>>
PatsFor(N) ==
    CASE PatChoice = "all" -> [1..N -> {K, U, KU}]
      [] PatChoice = "few" -> {[l \in 1..N |-> KU], [l \in 1..N |-> IF l % 2 = 1 THEN K ELSE U],
                               [l \in 1..N |-> IF l % 2 = 1 THEN U ELSE UK]}
      [] PatChoice = "one" -> {[l \in 1..N |-> IF l % 2 = 1 THEN KU ELSE U]}

Family == UNION {{MkTopo(r, p) : r \in RouterSeqs(N), p \in PatsFor(N)} : N \in MinNets..MaxNets}
mcTopos == SetToSeq(Family)

\* ---- cyclic internetworks ---------------------------------------------------------------------
Triangle == MkTopo(<< <<1, 2>>, <<2, 3>>, <<3, 1>> >>, <<KU, K, U>>)
Parallel == MkTopo(<< <<1, 2>>, <<1, 2>> >>, <<KU, K>>)
Square == MkTopo(<< <<1, 2>>, <<2, 3>>, <<3, 4>>, <<4, 1>> >>, <<K, U, K, U>>)
\* a network hanging off a triangle: the cycle does not contain the source network, so only the hop count stops a
\* broadcast (on the other three the routers of the source network drop what comes back: SADR spoof check)
Lollipop == MkTopo(<< <<1, 2>>, <<2, 3>>, <<3, 4>>, <<4, 2>> >>, <<K, U, K, U>>)
mcCyc == <<Triangle, Parallel, Lollipop>>
mcTri == <<Triangle>>
mcCycBig == <<Triangle, Parallel, Lollipop, Square>>

\* ---- one fixed internetwork for replay (line of three networks, as in the design spike) --------
Line3 == MkTopo(<< <<1, 2>>, <<2, 3>> >>, <<K, K, KU>>)
Tee == MkTopo(<< <<1, 2, 3>>, <<3, 4>> >>, <<K, U, K, U>>)
mcReplay == <<Line3, Tee>>
=============================================================================
