---------------------------- MODULE Trace_AddrPool ----------------------------
(***************************************************************************)
(* Validation of what ==, !=, hash(), dict and set lookup of the real      *)
(* pdu.Address said about every pair of a pool of spellings.  TRACE_FILE   *)
(* has one line {"ds":[descriptors], "eq":[[..]], "ne":..., "hasheq":...,  *)
(* "indict":..., "inset":...}.  One state per row of the matrices; a       *)
(* verdict record is printed for each failing row.                         *)
(***************************************************************************)
EXTENDS Addr, Json, IOUtils

P == ndJsonDeserialize(IOEnv.TRACE_FILE)[1]
N == Len(P.ds)
VARIABLE i

BadEq(r) == {j \in 1..N : \/ P.eq[r][j] # P.eq[j][r] \/ P.ne[r][j] # ~P.eq[r][j] \/ P.eq[r][j] # Equiv(P.ds[r], P.ds[j])
                          \/ (P.eq[r][j] /\ \E k \in 1..N : P.eq[j][k] /\ ~P.eq[r][k])}
BadHash(r) == {j \in 1..N : (P.eq[r][j] \/ Equiv(P.ds[r], P.ds[j])) /\ ~(P.hasheq[r][j] /\ P.indict[r][j] /\ P.inset[r][j])}
Verdict(r) ==
    /\ (EqIsEquivalence(P, r) /\ BadEq(r) = {}) \/ PrintT(<<"@@", [row |-> r, failing |-> "EqIsEquivalence", cols |-> BadEq(r) \cup (IF P.eq[r][r] THEN {} ELSE {r})]>>)
    /\ (EqualImpliesHashEqual(P, r) /\ BadHash(r) = {}) \/ PrintT(<<"@@", [row |-> r, failing |-> "EqualImpliesHashEqual", cols |-> BadHash(r)]>>)

Init == i \in 1..N /\ Verdict(i)
Next == UNCHANGED i
=============================================================================
