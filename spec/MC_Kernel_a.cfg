SPECIFICATION Spec
CONSTANTS
  K = {1, 2, 3}
  Rec = {}
  Interval <- c_Interval
  Offset <- c_Offset
  TaskRaisesSets = {{}, {2}}
  TaskDefers <- c_TaskDefers
  F = {1, 2, 3}
  FnRaisesSets = {{}, {2}, {1, 2}}
  FnDefers <- c_FnDefers
  Times = {1, 2}
  Deltas = {0, 1}
  Steps = {0, 1, 2}
  MaxLevel = 6
  DropBatchOnRaise = FALSE
CONSTRAINT Bound
INVARIANT Sorted
INVARIANT AtMostOneEntryPerTask
INVARIANT SchedIffQueued
INVARIANT NeverEarly
INVARIANT FireOrderTime
INVARIANT FireOrderVsQueued
INVARIANT OncePerInstall
INVARIANT RecurringSlots
INVARIANT DeferredExactlyOnceInOrder
INVARIANT NothingDueLeftUnlessRaise
PROPERTY FiresOnlyScheduled
PROPERTY FifoAmongEquals
CHECK_DEADLOCK FALSE
