-------------------------------- MODULE BVLL --------------------------------
(***************************************************************************)
(* BACnet Virtual Link Layer for BACnet/IP (ANSI/ASHRAE 135 Annex J.2).     *)
(* Pure functions: Enc(record) -> octets, Dec(octets) -> record | marker.   *)
(*                                                                         *)
(* Every BVLL message starts with the BVLCI                                 *)
(*     octet 1   BVLC Type      X'81' (BVLL for BACnet/IP)                  *)
(*     octet 2   BVLC Function  X'00'..X'0B'                                *)
(*     octet 3-4 BVLC Length    length in octets of the ENTIRE message,     *)
(*                              header included, most significant first     *)
(* followed by the function specific part:                                  *)
(*   00 BVLC-Result                        2-octet result code              *)
(*   01 Write-Broadcast-Distribution-Table N x (6-octet B/IP address,       *)
(*                                               4-octet distribution mask) *)
(*   02 Read-Broadcast-Distribution-Table  nothing                          *)
(*   03 Read-Broadcast-Distribution-Table-Ack   as 01                       *)
(*   04 Forwarded-NPDU                     6-octet B/IP address of the      *)
(*                                         originating device, NPDU         *)
(*   05 Register-Foreign-Device            2-octet time-to-live (seconds)   *)
(*   06 Read-Foreign-Device-Table          nothing                          *)
(*   07 Read-Foreign-Device-Table-Ack      N x (6-octet B/IP address,       *)
(*                                         2-octet TTL, 2-octet remaining)  *)
(*   08 Delete-Foreign-Device-Table-Entry  6-octet B/IP address             *)
(*   09 Distribute-Broadcast-To-Network    NPDU                             *)
(*   0A Original-Unicast-NPDU              NPDU                             *)
(*   0B Original-Broadcast-NPDU            NPDU                             *)
(* A B/IP address is the 4-octet IPv4 address followed by the 2-octet UDP   *)
(* port, both most significant octet first (J.1.2).                         *)
(*                                                                         *)
(* Abstract records (integers above 2^31 do not exist in TLC, so IPv4       *)
(* addresses and masks are 4-octet sequences):                              *)
(*   [fn |-> 0, code |-> 0..65535]                                          *)
(*   [fn |-> 1|3, bdt |-> Seq([ip, port, mask])]                            *)
(*   [fn |-> 2|6]                                                           *)
(*   [fn |-> 4, addr |-> [ip, port], npdu |-> Seq(Octet)]                   *)
(*   [fn |-> 5, ttl |-> 0..65535]                                           *)
(*   [fn |-> 7, fdt |-> Seq([ip, port, ttl, rem])]                          *)
(*   [fn |-> 8, addr |-> [ip, port]]                                        *)
(*   [fn |-> 9|10|11, npdu |-> Seq(Octet)]                                  *)
(***************************************************************************)
EXTENDS Naturals, Sequences

Octet == 0..255
Short == 0..65535
Hi(n) == (n \div 256) % 256
Lo(n) == n % 256
U16(n) == <<Hi(n), Lo(n)>>
RdU16(o, i) == o[i] * 256 + o[i + 1]

BVLLType == 129                       \* X'81'
HeaderLen == 4
MaxFrame == 65535

FnResult == 0
FnWriteBDT == 1
FnReadBDT == 2
FnReadBDTAck == 3
FnForwarded == 4
FnRegisterFD == 5
FnReadFDT == 6
FnReadFDTAck == 7
FnDeleteFDTEntry == 8
FnDistribute == 9
FnOrigUnicast == 10
FnOrigBroadcast == 11
KnownFunctions == 0..11

\* ---- markers --------------------------------------------------------------------------------------
DecodingError == [err |-> "DecodingError"]
UnknownFunction(f) == [err |-> "UnknownFunction", fn |-> f]
IsErr(x) == "err" \in DOMAIN x

\* ---- well-formed records ---------------------------------------------------------------------------
IsOctets(s, n) == Len(s) = n /\ \A i \in 1..n : s[i] \in Octet
IsAddr(a) == IsOctets(a.ip, 4) /\ a.port \in Short
IsBDTE(e) == IsAddr(e) /\ IsOctets(e.mask, 4)
IsFDTE(e) == IsAddr(e) /\ e.ttl \in Short /\ e.rem \in Short

\* ---- encoding --------------------------------------------------------------------------------------
RECURSIVE Cat(_)
Cat(ss) == IF ss = <<>> THEN <<>> ELSE Head(ss) \o Cat(Tail(ss))

EncAddr(a) == a.ip \o U16(a.port)
EncBDTE(e) == EncAddr(e) \o e.mask
EncFDTE(e) == EncAddr(e) \o U16(e.ttl) \o U16(e.rem)

Body(r) ==
    CASE r.fn = FnResult          -> U16(r.code)
      [] r.fn \in {FnWriteBDT, FnReadBDTAck} -> Cat([j \in 1..Len(r.bdt) |-> EncBDTE(r.bdt[j])])
      [] r.fn \in {FnReadBDT, FnReadFDT}     -> <<>>
      [] r.fn = FnForwarded       -> EncAddr(r.addr) \o r.npdu
      [] r.fn = FnRegisterFD      -> U16(r.ttl)
      [] r.fn = FnReadFDTAck      -> Cat([j \in 1..Len(r.fdt) |-> EncFDTE(r.fdt[j])])
      [] r.fn = FnDeleteFDTEntry  -> EncAddr(r.addr)
      [] r.fn \in {FnDistribute, FnOrigUnicast, FnOrigBroadcast} -> r.npdu

\* the frame for function code fn (any octet) with function specific part `body`
Frame(fn, body) == <<BVLLType, fn>> \o U16(Len(body) + HeaderLen) \o body

Enc(r) == Frame(r.fn, Body(r))

WF(r) ==
    /\ r.fn \in KnownFunctions
    /\ CASE r.fn = FnResult          -> r.code \in Short
         [] r.fn \in {FnWriteBDT, FnReadBDTAck} -> \A j \in 1..Len(r.bdt) : IsBDTE(r.bdt[j])
         [] r.fn \in {FnReadBDT, FnReadFDT}     -> TRUE
         [] r.fn = FnForwarded       -> IsAddr(r.addr) /\ \A i \in 1..Len(r.npdu) : r.npdu[i] \in Octet
         [] r.fn = FnRegisterFD      -> r.ttl \in Short
         [] r.fn = FnReadFDTAck      -> \A j \in 1..Len(r.fdt) : IsFDTE(r.fdt[j])
         [] r.fn = FnDeleteFDTEntry  -> IsAddr(r.addr)
         [] OTHER                    -> \A i \in 1..Len(r.npdu) : r.npdu[i] \in Octet
    /\ Len(Body(r)) + HeaderLen <= MaxFrame

\* ---- decoding --------------------------------------------------------------------------------------
LengthField(o) == RdU16(o, 3)

\* type or length field disagrees with the datagram (a datagram shorter than a header cannot agree)
BadFrame(o) == Len(o) < HeaderLen \/ o[1] # BVLLType \/ LengthField(o) # Len(o)

DecAddr(b, i) == [ip |-> SubSeq(b, i, i + 3), port |-> RdU16(b, i + 4)]
DecBDTE(b, i) == [ip |-> SubSeq(b, i, i + 3), port |-> RdU16(b, i + 4), mask |-> SubSeq(b, i + 6, i + 9)]
DecFDTE(b, i) == [ip |-> SubSeq(b, i, i + 3), port |-> RdU16(b, i + 4), ttl |-> RdU16(b, i + 6), rem |-> RdU16(b, i + 8)]
Table(b, D(_, _)) == SubSeq([j \in 1..(Len(b) \div 10) |-> D(b, 10 * (j - 1) + 1)], 1, Len(b) \div 10)

\* Dev_TrailingIgnored (named deviation): Annex J fixes the length of functions 00, 02, 05, 06, 08
\* (X'0006', X'0004', X'0006', X'0004', X'000A'); a longer frame is not a frame of that function.  An
\* implementation that reads the fixed part and ignores what follows is described by lenient = TRUE.
DecBody(fn, b, lenient) ==
    LET n == Len(b)
        fixed(k) == n = k \/ (lenient /\ n > k)
    IN CASE fn = FnResult          -> IF fixed(2) THEN [fn |-> fn, code |-> RdU16(b, 1)] ELSE DecodingError
         [] fn \in {FnWriteBDT, FnReadBDTAck} ->
                IF n % 10 = 0 THEN [fn |-> fn, bdt |-> Table(b, DecBDTE)] ELSE DecodingError
         [] fn \in {FnReadBDT, FnReadFDT}     -> IF fixed(0) THEN [fn |-> fn] ELSE DecodingError
         [] fn = FnForwarded       -> IF n >= 6 THEN [fn |-> fn, addr |-> DecAddr(b, 1), npdu |-> SubSeq(b, 7, n)]
                                                ELSE DecodingError
         [] fn = FnRegisterFD      -> IF fixed(2) THEN [fn |-> fn, ttl |-> RdU16(b, 1)] ELSE DecodingError
         [] fn = FnReadFDTAck      -> IF n % 10 = 0 THEN [fn |-> fn, fdt |-> Table(b, DecFDTE)] ELSE DecodingError
         [] fn = FnDeleteFDTEntry  -> IF fixed(6) THEN [fn |-> fn, addr |-> DecAddr(b, 1)] ELSE DecodingError
         [] fn \in {FnDistribute, FnOrigUnicast, FnOrigBroadcast} -> [fn |-> fn, npdu |-> b]
         [] OTHER                  -> UnknownFunction(fn)

DecX(o, lenient) ==
    IF BadFrame(o) THEN DecodingError ELSE DecBody(o[2], SubSeq(o, HeaderLen + 1, Len(o)), lenient)

Dec(o) == DecX(o, FALSE)              \* Annex J
DecLenient(o) == DecX(o, TRUE)        \* Annex J + Dev_TrailingIgnored

\* the generic header view (what a BVLPDU is before the function is looked up)
DecHeader(o) == IF BadFrame(o) THEN DecodingError
                ELSE [type |-> o[1], fn |-> o[2], length |-> LengthField(o), body |-> SubSeq(o, HeaderLen + 1, Len(o))]

\* ---- the clauses of C09 as predicates over (record, octets) pairs ------------------------------------
\* used on the model (o = Enc(r)) and on recorded executions of the implementation (o = what it produced)
LengthFieldExact(o) == Len(o) >= HeaderLen /\ o[1] = BVLLType /\ LengthField(o) = Len(o)
OctetsEqualSpec(r, o) == o = Enc(r)
HeaderCarriesFunction(r, o) == Len(o) >= HeaderLen /\ o[2] = r.fn
RoundTrip(r) == ~IsErr(Dec(Enc(r))) /\ Dec(Enc(r)) = r
WrongTypeOrLengthRefused(o, refused) == BadFrame(o) => refused
=============================================================================
