------------------------------ MODULE MC_Prims ------------------------------
(***************************************************************************)
(* Function-evaluation configurations for Prims.tla (C01).                 *)
(*   Grid : the boundary grid of DESIGN C01 (defined here) plus the cases  *)
(*          generated from the working tree (CASE_FILE: every name/number  *)
(*          of every Enumerated subclass, named bits of BitString          *)
(*          subclasses, object types by name).  Invariant = the theorems.  *)
(*          POSTCONDITION WriteGrid writes, per case, Representable /      *)
(*          WithinCapacity and the expected octets for the application tag *)
(*          and for context tags (OUT_FILE).                               *)
(*   Rec  : records {id, ty, n, v, o, d} from the implementation: value v  *)
(*          was encoded with tagging n to octets o, which it decoded to d. *)
(***************************************************************************)
EXTENDS Prims, Json, IOUtils, SequencesExt

CONSTANTS CtxAll,       \* context numbers the theorems are checked for
          CtxEmit,      \* context numbers expected octets are written for (every case)
          CtxEnum       \* ... for the generated enumeration cases
VARIABLE c
\* (cases are spread over NChains arithmetic progressions so that TLC's workers share them; initial states alone
\*  are evaluated by one thread)
NChains == 64

\* ---- integers: 0, 1, 2^k - 1, 2^k, 2^k + 1 ---------------------------------------------------------------------
Ks == {7, 8, 15, 16, 23, 24, 31, 32, 63, 64}
Rep(x, n) == [i \in 1..n |-> x]
P2(k) == <<2 ^ (k % 8)>> \o Rep(0, k \div 8)
P2m1(k) == (IF k % 8 = 0 THEN <<>> ELSE <<2 ^ (k % 8) - 1>>) \o Rep(255, k \div 8)
P2p1(k) == IF k < 8 THEN <<2 ^ k + 1>> ELSE <<2 ^ (k % 8)>> \o Rep(0, k \div 8 - 1) \o <<1>>
Mags == {<<>>, <<1>>, <<2>>} \cup {OctetsMag(P2(k)) : k \in Ks} \cup {OctetsMag(P2m1(k)) : k \in Ks} \cup {OctetsMag(P2p1(k)) : k \in Ks}
Case(ty, v) == [ty |-> ty, v |-> v]
IntCases ==
    {Case(ty, <<0>> \o m) : ty \in {"Unsigned", "Enumerated", "Integer"}, m \in Mags}
    \cup {Case(ty, <<1>> \o m) : ty \in {"Unsigned", "Enumerated", "Integer"}, m \in Mags \ {<<>>}}      \* negative: only Integer has them
    \cup {Case(ty, <<0>> \o m) : ty \in {"Unsigned8", "Unsigned16"}, m \in {<<>>, <<1>>, <<127>>, <<128>>, <<255>>, <<256>>, <<65535>>, <<0, 1>>, <<1, 1>>}}
    \cup {Case(ty, <<1, 1>>) : ty \in {"Unsigned8", "Unsigned16"}}

\* ---- bit strings: every length 0..64 x {zeros, ones, alternating (both phases), a single one first / last} ------
BitCases ==
    UNION {{Case("BitString", Rep(0, n)), Case("BitString", Rep(1, n)),
            Case("BitString", [i \in 1..n |-> i % 2]), Case("BitString", [i \in 1..n |-> (i + 1) % 2]),
            Case("BitString", [i \in 1..n |-> IF i = n THEN 1 ELSE 0]), Case("BitString", [i \in 1..n |-> IF i = 1 THEN 1 ELSE 0]),
            Case("BitString", [i \in 1..n |-> IF i = (n + 1) \div 2 THEN 1 ELSE 0])} : n \in 0..64}
    \cup {Case("BitString", <<2>>), Case("BitString", <<0, 1, -1>>)}

\* ---- object identifiers -----------------------------------------------------------------------------------------
OidCases ==
    {Case("ObjectIdentifier", <<t, i>>) : t \in {0, 1, 3, 4, 127, 128, 255, 256, 511, 512, 1022, 1023},
                                          i \in {0, 1, 255, 256, 65535, 65536, 4194302, 4194303}}
    \cup {Case("ObjectIdentifier", v) : v \in {<<1024, 0>>, <<0, 4194304>>, <<1023, 4194304>>, <<2000, 5>>, <<-1, 0>>, <<0, -1>>, <<4096, 1>>}}

\* ---- floats: sign x exponent classes x mantissa classes -----------------------------------------------------------
RealCases ==
    {Case("Real", <<s, e, m[1], m[2]>>) : s \in {0, 1}, e \in {0, 1, 2, 126, 127, 128, 150, 254, 255},
                                          m \in {<<0, 0>>, <<0, 1>>, <<64, 0>>, <<32, 0>>, <<127, 65535>>, <<127, 65534>>, <<1, 0>>, <<0, 65535>>, <<73, 4059>>}}
DoubleCases ==
    {Case("Double", <<s, e, m[1], m[2], m[3], m[4]>>) : s \in {0, 1}, e \in {0, 1, 2, 1022, 1023, 1024, 1075, 2046, 2047},
        m \in {<<0, 0, 0, 0>>, <<0, 0, 0, 1>>, <<8, 0, 0, 0>>, <<4, 0, 0, 0>>, <<15, 65535, 65535, 65535>>, <<15, 65535, 65535, 65534>>,
               <<0, 0, 1, 0>>, <<0, 1, 0, 0>>, <<1, 0, 0, 0>>, <<9, 8699, 21572, 11544>>}}
    \cup {Case("RealFromDouble", <<s, e, 0, 0, 0, 0>>) : s \in {0, 1}, e \in {0, 1023, 1150, 1152, 1400, 2046, 2047}}

\* ---- strings across the length escapes ----------------------------------------------------------------------------
Hostile == <<255, 254, 15, 14, 5, 253>>
Content(L) == IF L <= 6 THEN SubSeq(Hostile, 1, L) ELSE <<0 - L>>
StrCases ==
    {Case("OctetString", Content(L)) : L \in {0, 1, 2, 3, 4, 5, 6, 252, 253, 254, 255, 256, 65534, 65535, 65536, 70000}}
    \cup {Case("CharacterString", <<e>> \o Content(L)) : e \in {0, 5, 255}, L \in {0, 1, 3, 4, 5, 252, 253, 254, 65534, 65535, 65536}}
    \cup {Case("CharacterString", <<4, 0, 65, 32, 172>>), Case("CharacterString", <<3, 0, 0, 0, 65, 0, 1, 244, 0>>), Case("CharacterString", <<4>>)}
    \cup {Case("Utf8String", Content(0)), Case("Utf8String", <<-3>>), Case("Utf8String", <<-4>>), Case("Utf8String", <<-252>>),
          Case("Utf8String", <<-253>>), Case("Utf8String", <<-65534>>), Case("Utf8String", <<-65535>>), Case("Utf8String", <<-70000>>)}
    \cup {Case("Utf8String", <<x>>) : x \in {0, 65, 127, 128, 255, 2047, 2048, 55295, 57344, 65533, 65535, 65536, 1114111}}
    \cup {Case("Utf8String", <<66, x, 67>>) : x \in {55296, 56320, 57343}}                       \* lone surrogates: not characters
    \cup {Case("Utf8String", <<-2, 233, -249>>), Case("Utf8String", <<-250, 8364>>), Case("Utf8String", <<-65532, 128512>>),
          Case("Utf8String", <<72, 233, 8364, 128512, 1488>>)}

\* ---- the rest -------------------------------------------------------------------------------------------------
MiscCases ==
    {Case("Null", <<>>), Case("Boolean", <<0>>), Case("Boolean", <<1>>)}
    \cup {Case(ty, v) : ty \in {"Date", "Time"}, v \in {<<0, 0, 0, 0>>, <<255, 255, 255, 255>>, <<124, 12, 31, 7>>, <<255, 13, 32, 255>>,
                                                        <<23, 59, 59, 99>>, <<1, 2, 3, 4>>, <<256, 1, 1, 1>>, <<0, 0, 0, 256>>, <<-1, 1, 1, 1>>, <<1, 1, 1, 300>>}}

Fixed == IntCases \cup BitCases \cup OidCases \cup RealCases \cup DoubleCases \cup StrCases \cup MiscCases
Gen == ndJsonDeserialize(IOEnv.CASE_FILE)          \* {id, ty, v, ...} generated from the working tree
FixedSeq == SetToSeq(Fixed)
NF == Len(FixedSeq)
CaseAt(i) == IF i <= NF THEN FixedSeq[i] ELSE Case(Gen[i - NF].ty, Gen[i - NF].v)

InitGrid == c \in 1..NChains /\ c <= NF + Len(Gen)
NextGrid == c + NChains <= NF + Len(Gen) /\ c' = c + NChains
InvGrid ==
    LET ty == CaseAt(c).ty
        v == CaseAt(c).v
    IN  (Representable(ty, v) /\ Encodable(ty)) =>
        /\ CanonicalP(ty, v)
        /\ \A n \in {-1} \cup CtxAll :
            /\ RoundTripP(n, ty, v)
            /\ WFTag(Tagged(n, ty, v))
            /\ RoundTrip(<<Tagged(n, ty, v)>>)
            /\ (n >= 0 => CtxVsApp(n, ty, v))
\* the grid separates values: different representable values of a type never share an encoding
Injective ==
    \A i, j \in 1..NF :
        LET a == FixedSeq[i]
            b == FixedSeq[j]
        IN  (a.ty = b.ty /\ a.v # b.v /\ Encodable(a.ty) /\ Representable(a.ty, a.v) /\ Representable(b.ty, b.v))
            => Contents(a.ty, a.v) # Contents(b.ty, b.v)

Expect(i) ==
    LET ty == CaseAt(i).ty
        v == CaseAt(i).v
        rep == Representable(ty, v)
        enc == rep /\ Encodable(ty)
        ns == SetToSeq(IF i <= NF THEN CtxEmit \cup {(7 * i) % 255} ELSE CtxEnum \cup {(7 * i) % 255})
    IN  [i |-> i, gen |-> IF i <= NF THEN 0 ELSE Gen[i - NF].id, ty |-> ty, v |-> v, rep |-> rep,
         cap |-> IF enc THEN WithinCapacity(ty, v) ELSE FALSE,
         nan |-> (ty = "Real" /\ rep /\ RealNaN(v)) \/ (ty = "Double" /\ rep /\ DoubleNaN(v)),
         app |-> IF enc THEN Enc(-1, ty, v) ELSE <<>>,
         ctx |-> IF enc THEN [k \in 1..Len(ns) |-> <<ns[k]>> \o Enc(ns[k], ty, v)] ELSE <<>>]
WriteGrid == Injective /\ ndJsonSerialize(IOEnv.OUT_FILE, [i \in 1..(NF + Len(Gen)) |-> Expect(i)])

\* ---- Rec --------------------------------------------------------------------------------------------------------
Recs == ndJsonDeserialize(IOEnv.TRACE_FILE)
InitRec == c \in 1..NChains /\ c <= Len(Recs)
NextRec == c + NChains <= Len(Recs) /\ c' = c + NChains
Small(x) == IF Len(x) <= 80 THEN x ELSE <<>>
ImplRec ==
    LET r == Recs[c]
        rep == Representable(r.ty, r.v)
        e == IF rep THEN Enc(r.n, r.ty, r.v) ELSE <<>>
        why == (IF ~rep THEN {"unrepresentable"} ELSE {})
               \cup (IF rep /\ ~EncOK(r.n, r.ty, r.v, r.o) THEN {"enc"} ELSE {})
               \cup (IF ~Same(r.ty, Dec(r.n, r.ty, r.o), r.d) THEN {"dec"} ELSE {})
               \cup (IF ~Same(r.ty, r.d, r.v) THEN {"roundtrip"} ELSE {})
    IN  why = {} \/ PrintT(<<"@@", [id |-> r.id, why |-> why, exp |-> Small(e), dec |-> Small(Dec(r.n, r.ty, r.o))]>>)
=============================================================================
