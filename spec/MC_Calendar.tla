----------------------------- MODULE MC_Calendar -----------------------------
(***************************************************************************)
(* Function-evaluation configuration for Calendar.tla.  One state per      *)
(* (year, month); for every pattern of the month's pattern grid TLC prints *)
(* the set of days of that month the pattern denotes, as a bit mask        *)
(* (bit d-1 = day d).  The harness evaluates the same patterns with the    *)
(* real matchers on every day of the month and compares the masks.         *)
(* A printed row is                                                        *)
(*   <<"@@", yo, m, dim, {<<kind, a, b, c, d, e, f, mask, maskD>>, ...}, "$$">> *)
(* kind 1 date <<a,b,c,d>>; 2 range <<a,b,c>>..<<d,e,f>>; 3 week-n-day     *)
(* <<a,b,c>>; 4/5/6 the same three wrapped in a BACnetCalendarEntry.       *)
(* The invariant CalendarSane is the design obligation on the arithmetic.  *)
(***************************************************************************)
EXTENDS Calendar, TLC

CONSTANT Years          \* set of year octets (year - 1900)
VARIABLES yo, m

U == <<ANY, ANY, ANY>>

Pad(t) == IF Len(t) = 3 THEN <<t[1], t[2], t[3], 0, 0, 0>> ELSE IF Len(t) = 4 THEN <<t[1], t[2], t[3], t[4], 0, 0>> ELSE t

\* neighbours, when they exist in the 1900..2154 window (else an unspecified bound)
PrevMonth(d) == IF m > 1 THEN <<yo, m - 1, d>> ELSE IF yo > 0 THEN <<yo - 1, 12, d>> ELSE U
NextMonth(d) == IF m < 12 THEN <<yo, m + 1, d>> ELSE IF yo < 254 THEN <<yo + 1, 1, d>> ELSE U
PrevYear(d) == IF yo > 0 THEN <<yo - 1, m, d>> ELSE U
NextYear(d) == IF yo < 254 THEN <<yo + 1, m, d>> ELSE U
OtherYear == IF yo < 254 THEN yo + 1 ELSE yo - 1
OtherMonth == (m % 12) + 1
Dim == DaysInMonth(1900 + yo, m)

DatePats ==
    {<<y, mm, ANY, ANY>> : y \in {ANY, yo, OtherYear}, mm \in {ANY, 13, 14, m, OtherMonth}}
    \cup {<<ANY, mm, dd, ww>> : mm \in {ANY, 13, 14, m}, dd \in {ANY, 32, 33, 34, 1, 15, 28, 29, 30, 31}, ww \in {ANY, 3}}
    \cup {<<ANY, ANY, ANY, ww>> : ww \in 1..7}
    \cup {<<yo, m, 32, ww>> : ww \in {ANY, 7}}
    \cup {<<yo, m, Dim, ANY>>, <<OtherYear, m, 32, ANY>>, <<yo, 14, 34, 5>>, <<yo, 13, 33, 1>>}

RangePats ==
    { <<U, U>>, <<<<yo, m, 10>>, <<yo, m, 20>>>>, <<U, <<yo, m, 15>>>>, <<<<yo, m, 15>>, U>>,
      <<<<yo, m, 20>>, <<yo, m, 10>>>>, <<<<yo, m, 1>>, <<yo, m, 1>>>>, <<<<yo, m, Dim>>, <<yo, m, Dim>>>>,
      <<PrevMonth(20), <<yo, m, 5>>>>, <<<<yo, m, 25>>, NextMonth(5)>>, <<PrevYear(15), NextYear(15)>>,
      <<PrevMonth(28), NextMonth(2)>>, <<PrevYear(28), <<yo, m, 3>>>>, <<<<yo, m, 27>>, NextYear(2)>>,
      <<IF yo > 0 THEN <<yo - 1, 12, 31>> ELSE U, <<yo, m, 3>>>>,
      <<<<yo, m, 26>>, IF yo < 254 THEN <<yo + 1, 1, 1>> ELSE U>>,
      <<NextMonth(1), NextMonth(28)>>, <<PrevMonth(1), PrevMonth(28)>>, <<<<0, 1, 1>>, <<254, 12, 31>>>> }

WndPats ==
    {<<mm, ANY, ANY>> : mm \in {ANY, 13, 14, m, OtherMonth}}
    \cup {<<ANY, wk, ww>> : wk \in 1..9, ww \in {ANY} \cup 1..7}
    \cup {<<mm, wk, ww>> : mm \in {m, 13, 14}, wk \in {5, 6, 9}, ww \in {ANY, 5}}

EntryDatePats == {<<ANY, ANY, 32, ANY>>, <<ANY, 14, 34, 5>>, <<yo, m, 29, ANY>>, <<ANY, ANY, ANY, 1>>}
EntryRangePats == {<<U, <<yo, m, 15>>>>, <<<<yo, m, 15>>, U>>, <<<<yo, m, 10>>, <<yo, m, 20>>>>, <<U, U>>}
EntryWndPats == {<<ANY, 6, ANY>>, <<m, 2, 3>>, <<13, 5, ANY>>, <<ANY, 9, 7>>}

Pats ==
    {<<1>> \o Pad(p) : p \in DatePats} \cup {<<2>> \o (r[1] \o r[2]) : r \in RangePats} \cup {<<3>> \o Pad(p) : p \in WndPats}
    \cup {<<4>> \o Pad(p) : p \in EntryDatePats} \cup {<<5>> \o (r[1] \o r[2]) : r \in EntryRangePats}
    \cup {<<6>> \o Pad(p) : p \in EntryWndPats}

Hit(date, q) ==
    CASE q[1] = 1 -> MatchDate(date, <<q[2], q[3], q[4], q[5]>>)
      [] q[1] = 2 -> MatchRange(date, <<q[2], q[3], q[4]>>, <<q[5], q[6], q[7]>>)
      [] q[1] = 3 -> MatchWeekNDay(date, <<q[2], q[3], q[4]>>)
      [] q[1] = 4 -> InCalendarEntry(date, [kind |-> "date", p |-> <<q[2], q[3], q[4], q[5]>>])
      [] q[1] = 5 -> InCalendarEntry(date, [kind |-> "range", s |-> <<q[2], q[3], q[4]>>, e |-> <<q[5], q[6], q[7]>>])
      [] q[1] = 6 -> InCalendarEntry(date, [kind |-> "wnd", p |-> <<q[2], q[3], q[4]>>])

RECURSIVE Mask(_, _)
Mask(q, d) == IF d = 0 THEN 0 ELSE (IF Hit(<<yo, m, d>>, q) THEN 2 ^ (d - 1) ELSE 0) + Mask(q, d - 1)

\* the same under the named deviation Calendar!MatchRangeD (only used to label a disagreement as the known finding)
HitD(date, q) ==
    IF q[1] = 2 THEN MatchRangeD(TRUE, date, <<q[2], q[3], q[4]>>, <<q[5], q[6], q[7]>>)
    ELSE InCalendarEntryD(TRUE, date, [kind |-> "range", s |-> <<q[2], q[3], q[4]>>, e |-> <<q[5], q[6], q[7]>>])
RECURSIVE MaskD(_, _)
MaskD(q, d) == IF d = 0 THEN 0 ELSE (IF HitD(<<yo, m, d>>, q) THEN 2 ^ (d - 1) ELSE 0) + MaskD(q, d - 1)
Row(q) == LET mk == Mask(q, Dim) IN q \o <<mk, IF q[1] \in {2, 5} THEN MaskD(q, Dim) ELSE mk>>

\* two-level fan-out (root -> year -> month) so that the per-month work is spread over TLC's workers
Init == yo = -1 /\ m = 0
Next ==
    \/ yo = -1 /\ yo' \in Years /\ m' = 0
    \/ yo >= 0 /\ m = 0 /\ m' \in 1..12 /\ yo' = yo

\* design obligations on the arithmetic itself (anchored on known dates, then inductive over the month)
CalendarSane == m = 0 \/
    /\ DayNo(<<0, 1, 1>>) = 0 /\ DayOfWeek(<<0, 1, 1>>) = 1              \* 1900-01-01 Monday
    /\ DayOfWeek(<<70, 1, 1>>) = 4                                      \* 1970-01-01 Thursday
    /\ DayOfWeek(<<100, 1, 1>>) = 6 /\ DayOfWeek(<<124, 2, 29>>) = 4    \* 2000-01-01 Saturday, 2024-02-29 Thursday
    /\ ~IsLeap(1900) /\ IsLeap(2000) /\ ~IsLeap(2100) /\ IsLeap(2024)
    /\ \A d \in 1..Dim :
         LET a == <<yo, m, d>>
             b == NextDay(a)
         IN  /\ ValidDate(a)
             /\ (yo = 254 /\ m = 12 /\ d = 31) \/
                  ( /\ ValidDate(b) /\ DayNo(b) = DayNo(a) + 1
                    /\ DayOfWeek(b) = (DayOfWeek(a) % 7) + 1
                    /\ (d = Dim <=> b[3] = 1) )
    /\ Dim \in 28..31 /\ (Dim = 29 <=> (m = 2 /\ IsLeap(1900 + yo)))
    \* the week-of-month codes 1..5 partition the month, and so do 6..9 together with the leading rest
    /\ \A d \in 1..Dim : Cardinality({wk \in 1..5 : MatchWeek(<<yo, m, d>>, wk)}) = 1
    /\ \A d \in 1..Dim : Cardinality({wk \in 6..9 : MatchWeek(<<yo, m, d>>, wk)}) = (IF d > Dim - 28 THEN 1 ELSE 0)

Emit == m = 0 \/ PrintT(<<"@@", yo, m, Dim, {Row(q) : q \in Pats}, "$$">>)
=============================================================================
