\* Static configuration of MC_Router.tla for running TLC by hand (the driver harness/drivers/c06.py generates its
\* configurations; this is its "trees<=3_allpats_lan"): every loop-free internetwork of 2..3 networks, all station
\* patterns, cold and warm caches, every (source, kind, destination), every reply.
SPECIFICATION Spec
CONSTANTS
  Topos <- mcTopos
  Order = "lan"
  MaxSteps = 400
  SendHops = {255}
  Modes = {"cold", "warm"}
  Replies = TRUE
  Ghost = TRUE
  Burst = FALSE
  Kinds = {"ls", "lb", "gb", "rs", "rb"}
  Dev = "none"
  MinNets = 2
  MaxNets = 3
  MaxPorts = 3
  PatChoice = "all"
  Shapes = "all"
INVARIANT NoDuplicate
INVARIANT NotToOthers
INVARIANT UnicastExactlyOnce
INVARIANT RemoteBroadcastExactlyOnce
INVARIANT GlobalBroadcastExactlyOnce
INVARIANT LocalBroadcastStays
INVARIANT ReplyRoutable
INVARIANT HopDecrement
INVARIANT NeverBackOnArrivalNet
INVARIANT Terminates
INVARIANT CacheIsFunction
CHECK_DEADLOCK FALSE
