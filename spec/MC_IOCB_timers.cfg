\* timers and callbacks: 2 IOCBs, delays 1/2, up to 2 callbacks each (added before and after completion), wait_time 0/1
CONSTANTS
  B = {1, 2}
  C = {}
  G = {}
  PrioMaps <- c_Prio2
  KindMaps <- c_Kind2
  Waits = {0, 1}
  Delays = {1, 2}
  EncFails = {FALSE}
  DecFails = {FALSE}
  MaxCb = 2
  MaxTrig = 2
  MaxFire = 3
  CbOn = {1, 2}
  TimerOn = {1, 2}
  Ops = {"request", "complete", "abort", "cabort", "qabort", "gabort", "settle"}
  AddCallbackRefires = FALSE
  CompleteOverridesDone = FALSE
  GroupAbortUnguarded = FALSE
  QueueAbortRaises = FALSE
  AbortIdleNoop = FALSE
  IdleBypass = FALSE
SPECIFICATION Spec
VIEW view
CHECK_DEADLOCK FALSE
INVARIANT TypeOK
INVARIANT OneCompletion
INVARIANT GroupDoneIffMembers
INVARIANT OneActive
INVARIANT QueueOrder
INVARIANT PendingIffQueued
INVARIANT QueuedAreBound
INVARIANT NotEmptyEvent
INVARIANT NoStall
INVARIANT NoResidue
INVARIANT ChainLinked
PROPERTY P_Absorbing
PROPERTY P_CallbackPerCompletion
PROPERTY P_TimerCancelled
PROPERTY P_StartInOrder
PROPERTY P_TriggerProgress
PROPERTY P_AbortRemovesPending
PROPERTY P_AbortFreesController
PROPERTY P_AbortAllPending
PROPERTY P_NoException
PROPERTY P_RefusalChangesNothing
PROPERTY P_TimeoutAborts
PROPERTY P_GroupAbort
PROPERTY P_ChainOutcome
