---------------------------- MODULE Trace_Device ----------------------------
(***************************************************************************)
(* Code -> spec validation for C10.  Each line of TRACE_FILE is one        *)
(* execution of the real bacpypes device stack recorded by                 *)
(* harness/drivers/c10.py (octets as sequences of 0..255):                 *)
(*                                                                         *)
(*  {"id":n, "cfg":{"tapp":ms,"tseg":ms,"tapdu":ms,"retries":k},           *)
(*   "batch":[ {"d":[..],"src":s,"role":"g"}                  garbage      *)
(*           | {"d":[..],"src":s,"role":"rp","inv":i,"ot":t,"oi":n,"val":[4 octets]}   valid ReadProperty(present-value) *)
(*           | {"d":[..],"src":s,"role":"whois"} ],           valid Who-Is *)
(*      -- all ingested as deferred calls at one instant, drained by core.run_once                              *)
(*   "out0":[{"d":[..],"to":s}], "res0":{"srv":[[s,i],..],"ntx":n,"cli":n,"timers":n,"deferred":n},             *)
(*      -- datagrams sent / state held right after the batch                                                     *)
(*   "elapsed":ms, "out1":[..], "res1":{..},  -- after virtual time advanced past every protocol timeout         *)
(*   "reenabled":BOOL, "fu":[{"d":..,"src":s,"role":"dcc","inv":i} , {.. "role":"rp" ..}], "fuout":[..], "res2":{..}} *)
(*      -- the follow-up: (a DeviceCommunicationControl enable when the device had been switched off, then)      *)
(*         a valid ReadProperty                                                                                   *)
(*                                                                         *)
(* TLC classifies every datagram with the codec specifications             *)
(* (Device!Class = BVLL.Dec, NPCI.Dec, APCI.Dec), reads every datagram the *)
(* device sent the same way (Device!View), builds the observation and      *)
(* evaluates the C10 monitors of Device.tla on it.  One "##" line per      *)
(* record (how many antecedents were exercised), one "@@" verdict per      *)
(* record that fails a monitor or is malformed.  Nothing halts the run.    *)
(***************************************************************************)
EXTENDS Device, Json, IOUtils

Recs == ndJsonDeserialize(IOEnv.TRACE_FILE)
VARIABLE i

Apdu(d) == LET l == Link(d) IN IF l.k \in {"ucast", "bcast"} THEN Net(l.npdu).apdu ELSE <<>>

Want(b) == CASE b.role = "rp"  -> RPAck(b.inv, b.ot, b.oi, b.val)
             [] b.role = "dcc" -> SimpleAck(b.inv, 17)
             [] OTHER          -> <<>>
Elem(b) == [c |-> Class(b.d), src |-> b.src, role |-> b.role, want |-> Want(b)]
Out(o) == [to |-> o.to, v |-> View(o.d)]
Res(r) == [srv |-> {<<r.srv[k][1], r.srv[k][2]>> : k \in 1..Len(r.srv)}, ntx |-> r.ntx, cli |-> r.cli, timers |-> r.timers,
           deferred |-> r.deferred]
Map(s, F(_)) == [k \in 1..Len(s) |-> F(s[k])]

Obs(t) == [batch |-> Map(t.batch, Elem), out0 |-> Map(t.out0, Out), out1 |-> Map(t.out1, Out),
           res0 |-> Res(t.res0), res1 |-> Res(t.res1), res2 |-> Res(t.res2),
           fu |-> Map(t.fu, Elem), fuout |-> Map(t.fuout, Out), reenabled |-> t.reenabled]

\* the harness's own requests are what they claim to be, and it waited long enough
GoodValid(b) ==
    LET c == Class(b.d) IN
    CASE b.role = "rp"    -> Required(c) /\ c.link = "ucast" /\ c.net = "local"
                             /\ \E flags \in {0, 2} : Apdu(b.d) = RPRequest(flags, Apdu(b.d)[2], b.inv, b.ot, b.oi)
                             /\ c.maxresp \in 0..5 /\ Len(b.val) = 4
      [] b.role = "dcc"   -> Required(c) /\ c.svc = 17 /\ c.inv = b.inv
      [] b.role = "whois" -> c.link \in {"ucast", "bcast"} /\ c.net \in {"local", "global"} /\ c.app = "ureq" /\ c.svc = WhoIsService
      [] b.role = "g"     -> TRUE
      [] b.role = "last"  -> c.link = "ucast" /\ c.net = "local" /\ c.app = "cseg" /\ c.inv = b.inv /\ ~c.routed
      [] OTHER            -> FALSE
\* role "last": the harness claims that this datagram is the final segment of a request all of whose segments came before
\* it in the batch, in order, from the same station and with no other use of that invoke ID -- TLC reads the segments itself
SegOf(d) == LET a == A!Dec(Apdu(d)) IN
            IF a = A!Err THEN [seq |-> NONE, mor |-> FALSE]
            ELSE IF a.type = "ConfirmedRequest" /\ a.seg THEN [seq |-> a.seq, mor |-> a.mor] ELSE [seq |-> NONE, mor |-> FALSE]
LastOK(t, k) ==
    LET b    == t.batch[k]
        same == SelectSeq([j \in 1..Len(t.batch) |-> j],
                          LAMBDA j : t.batch[j].src = b.src /\ LET c == Class(t.batch[j].d) IN Permitted(c) /\ c.inv \in {b.inv, NONE})
    IN /\ Len(same) >= 2 /\ same[Len(same)] = k
       /\ \A m \in 1..Len(same) : LET sg == SegOf(t.batch[same[m]].d) IN sg.seq = m - 1 /\ sg.mor = (m < Len(same))
WellFormedCase(t) ==
    /\ \A k \in 1..Len(t.batch) : GoodValid(t.batch[k])
    /\ \A k \in 1..Len(t.batch) : t.batch[k].role = "last" => LastOK(t, k)
    /\ \A k \in 1..Len(t.fu) : t.fu[k].role \in {"rp", "dcc"} /\ GoodValid(t.fu[k])
    /\ Len(t.fu) >= 1 /\ t.fu[Len(t.fu)].role = "rp"
    /\ t.elapsed >= Quiet(t.cfg)

Count(o, P(_, _)) == Cardinality({k \in 1..Len(o.batch) : P(o, k)})
Companion(o, k) == o.batch[k].role \in {"rp", "whois"} /\ ~Exempt(o, k)
Segmented(o, k) == Permitted(o.batch[k].c) /\ o.batch[k].c.app = "cseg"

TInit == i \in 1..Len(Recs) /\ batch = <<>> /\ pc = 0 /\ phase = "trace" /\ txs = {} /\ out0 = <<>> /\ out1 = <<>>
        /\ fuout = <<>> /\ now = 0 /\ dcc = "enable" /\ res0 = NoSnap /\ res1 = NoSnap /\ res2 = NoSnap
        /\ reenabled = FALSE /\ escaped = 0
TNext == UNCHANGED <<i, vars>>

Report ==
    LET t == Recs[i]
        o == Obs(t)
        f == Failing(o)
        ok == WellFormedCase(t)
        u == Unsolicited(o)
    IN /\ PrintT(<<"##", t.id, Count(o, Demanding), Count(o, Subject), Count(o, Companion), Count(o, Segmented), Cardinality(u)>>)
       /\ \/ (f = {} /\ ok /\ u = {})
          \/ PrintT(<<"@@", [id |-> t.id, why |-> f, malformed |-> ~ok, unsolicited |-> u,
                             cls |-> [k \in 1..Len(o.batch) |-> o.batch[k].c],
                             sent |-> [k \in 1..Len(AllOut(o)) |-> [to |-> AllOut(o)[k].to, k |-> AllOut(o)[k].v.k, inv |-> AllOut(o)[k].v.inv]]]>>)
=============================================================================
