------------------------- MODULE Trace_RouteCache -------------------------
(***************************************************************************)
(* Trace validation for RouteCache.tla.  Each line of TRACE_FILE is one    *)
(* execution recorded from a real netservice.RouterInfoCache -- driven      *)
(* directly through its methods, or sitting inside a real                  *)
(* NetworkServiceAccessPoint that is fed with network-layer frames:        *)
(*   {"tid":n, "attached0":[1,2],                                          *)
(*    "evs":[{"op":"update","s":1,"a":2,"ds":[1,3],"x":0,"exc":"",         *)
(*            "st":{"routers":[[s,a,[[d,status],..]],..],                  *)
(*                  "path":[[s,d,a,ghost],..], "attached":[..]},           *)
(*            "probe":[[["data",1,2]], .. one entry per dnet]}]}           *)
(*   probe entry: the frames the node emitted for a packet to that dnet,   *)
(*   each [kind, network it was sent on, destination MAC (0 = broadcast)]  *)
(* ("probe": [] when no probe traffic was sent after the step; ghost = 1:  *)
(* the lookup returned a record that is not the one the router index holds *)
(* for that address -- same address, separate bookkeeping).                *)
(* For every step TLC decides (a) conformance: is the logged post-state    *)
(* the successor of the logged pre-state under the RouteCache action named *)
(* by the event, and (b) the C19 monitors on the logged states.  Steps     *)
(* whose pre-state is already incoherent are not judged (`skipped`): the   *)
(* step that broke it has been blamed.  One verdict record per trace.      *)
(***************************************************************************)
EXTENDS RouteCache, Sequences, Json, IOUtils, TLCExt

Traces == ndJsonDeserialize(IOEnv.TRACE_FILE)
VARIABLES tid, l, rej, viol, skipped, ghost
tvars == <<tid, l, rej, viol, skipped, ghost>>
T == Traces[tid].evs
ToSet(q) == {q[i] : i \in 1..Len(q)}

\* logged projection -> abstract state
RoutersFrom(q) ==
    [s \in SNets \cup {q[i][1] : i \in 1..Len(q)} |->
        LET I == {i \in 1..Len(q) : q[i][1] = s} IN
        [a \in {q[i][2] : i \in I} |->
            LET dl == q[CHOOSE i \in I : q[i][2] = a][3] IN
            [d \in {dl[j][1] : j \in 1..Len(dl)} |-> dl[CHOOSE j \in 1..Len(dl) : dl[j][1] = d][2]]]]
PathFrom(q) ==
    [k \in {<<q[i][1], q[i][2]>> : i \in 1..Len(q)} |-> q[CHOOSE i \in 1..Len(q) : <<q[i][1], q[i][2]>> = k][3]]

TInit ==
    /\ tid \in 1..Len(Traces) /\ l = 1 /\ rej = 0 /\ viol = {} /\ skipped = {} /\ ghost = FALSE
    /\ routers = [s \in SNets |-> <<>>] /\ path = <<>>
    /\ attached = ToSet(Traces[tid].attached0)
    /\ act = Act("init", 0, 0, {}, 0)

ActOf(e) ==
    CASE e.op = "update"     -> Update(e.s, e.a, ToSet(e.ds), e.x)
      [] e.op = "del_router" -> DeleteRouter(e.s, e.a)
      [] e.op = "del_dnets"  -> DeleteDnets(e.s, e.a, ToSet(e.ds))
      [] e.op = "renumber"   -> Renumber(e.s, e.x)
      [] e.op = "status"     -> UpdateStatus(e.s, e.a, e.x)
      [] OTHER               -> FALSE

\* the projection logged by the harness after the step
Bind(e) ==
    /\ routers' = RoutersFrom(e.st.routers) /\ path' = PathFrom(e.st.path)
    /\ attached' = ToSet(e.st.attached)
    /\ act' = Act(e.op, e.s, e.a, ToSet(e.ds), e.x)

\* Traffic sent afterwards follows the current knowledge: a packet for destination network d goes -- once --
\* to the router that the lookup via one of the attached networks names, on that network; when no lookup
\* succeeds the node asks Who-Is-Router-To-Network(d) on every attached network instead and sends nothing else.
\* (att, pth: the attached networks and the lookup index of the state the probe was sent in)
\* parked[d] = 1: an earlier packet for d was still waiting for an answer to a Who-Is-Router when the probe was sent
\* ("parked" rig); with no route known the probe then queues behind it without asking again.  With a route known
\* the probe must go out whatever is parked: traffic sent afterwards follows the current knowledge.
TrafficFollowsKnowledge(probe, parked, att, pth) ==
    \A d \in DNets :
        LET em   == ToSet(probe[d])
            srcs == {s \in att : <<s, d>> \in DOMAIN pth}
        IN  /\ Cardinality(em) = Len(probe[d])
            /\ IF srcs # {}
               THEN \E s \in srcs : em = {<<"data", s, pth[<<s, d>>]>>}
               ELSE IF parked[d] = 1 THEN em = {}
               ELSE em = {<<"whois", s, 0>> : s \in att}

\* A node with two ports forwards: a packet for destination network d arriving on network tin goes -- once -- to the router
\* the lookup via one of its networks names; when no lookup succeeds it asks Who-Is-Router on the other network and the
\* packet is dropped.  (tr.em = <<>>: no transit probe in this rig / a node with one port)
TransitFollowsKnowledge(tr, att, pth) ==
    tr.em = <<>> \/
    \A d \in DNets :
        LET em   == ToSet(tr.em[d])
            srcs == {s \in att : <<s, d>> \in DOMAIN pth}
        IN  /\ Cardinality(em) = Len(tr.em[d])
            /\ IF srcs # {}
               THEN \E s \in srcs : em = {<<"data", s, pth[<<s, d>>]>>}
               ELSE em = {<<"whois", s, 0>> : s \in att \ {tr.tin}}

\* An announcement that makes a destination reachable releases what was parked for it: packets that waited for a
\* path to d go to the announcing router, nothing stays parked for a network the announcement listed ("parked" rig;
\* pk.before / pk.waiting: a packet for d was parked before / is still parked after the operation, pk.released: the
\* parked packets for d the node put on the wire while it handled the frame)
ParkedReleased(e) ==
    \/ e.pk.before = <<>> \/ e.op # "update" \/ e.via \notin {"iam", "iam-unicast"} \/ e.exc # ""
    \/ \A d \in ToSet(e.ds) :
          /\ e.pk.waiting[d] = 0
          /\ e.pk.before[d] = 1 => \E i \in 1..Len(e.pk.released[d]) : e.pk.released[d][i] = <<"data", e.s, e.a>>

\* "leads to that router": the record a lookup returns is the router index's own record
Ghosts(e) == \E i \in 1..Len(e.st.path) : e.st.path[i][4] = 1

Failing(e) ==
    (IF TypeOK' THEN {} ELSE {"TypeOK"}) \cup
    (IF Ghosts(e) THEN {"Coherent:SameRecord"} ELSE {}) \cup
    (IF OneNextHop' THEN {} ELSE {"Coherent:OneNextHop"}) \cup
    (IF LookupsLead' THEN {} ELSE {"Coherent:LookupsLead"}) \cup
    (IF NothingElse' THEN {} ELSE {"Coherent:NothingElse"}) \cup
    (IF OnlyAttached' THEN {} ELSE {"Coherent:OnlyAttached"}) \cup
    (IF NoEmptyRouter /\ ~NoEmptyRouter' THEN {"NoEmptyRouter"} ELSE {}) \cup
    (IF e.op = "update" /\ e.exc # "" THEN {"NewestWins:raised"} ELSE
     IF A_NewestWins THEN {} ELSE {"NewestWins"}) \cup
    (IF e.op \in {"del_router", "del_dnets"} /\ e.exc # "" THEN {"DeleteExact:raised"} ELSE
     IF A_DeleteExact THEN {} ELSE {"DeleteExact"}) \cup
    \* (judged against coherent knowledge only: otherwise the step is blamed for the incoherence)
    (IF ParkedReleased(e) THEN {} ELSE {"TrafficFollowsKnowledge:ParkedReleased"}) \cup
    (IF e.probe = <<>> \/ ~(TypeOK' /\ Coherent') \/ Ghosts(e) THEN {}
     ELSE IF TrafficFollowsKnowledge(e.probe, e.parked, attached', path') /\ TransitFollowsKnowledge(e.tr, attached', path')
          THEN {} ELSE {"TrafficFollowsKnowledge"})

Step ==
    /\ l <= Len(T)
    /\ LET e   == T[l]
           pre == TypeOK /\ Coherent /\ ~ghost
       IN  /\ Bind(e)
           /\ rej' = IF rej = 0 /\ pre /\ (e.exc # "" \/ ~ENABLED (ActOf(e) /\ Bind(e))) THEN l ELSE rej
           /\ viol' = IF pre THEN viol \cup {<<m, l>> : m \in Failing(e)} ELSE viol
           /\ skipped' = IF pre THEN skipped ELSE skipped \cup {l}
           /\ ghost' = Ghosts(e)
    /\ l' = l + 1 /\ UNCHANGED tid

Done ==
    /\ l = Len(T) + 1
    /\ PrintT(<<"@@", [tid |-> Traces[tid].tid, rej |-> rej, viol |-> viol, skipped |-> skipped]>>)
    /\ l' = l + 1 /\ UNCHANGED <<vars, tid, rej, viol, skipped, ghost>>

TNext == Step \/ Done
TSpec == TInit /\ [][TNext]_<<vars, tvars>>
=============================================================================
