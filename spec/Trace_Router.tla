--------------------------- MODULE Trace_Router ---------------------------
(***************************************************************************)
(* Trace validation for Router.tla.  Each line of TRACE_FILE is one        *)
(* execution of REAL NetworkServiceAccessPoint routers and stations on      *)
(* vlan.Networks recorded by harness/routerrig.py:                          *)
(*   {"tid":n, "tree":bool, "livelock":bool, "nodes":[..], "lans":[..],     *)
(*    "cache0":[per node [[snet,dnet,mac]..]], "pend0":[per node [..]],     *)
(*    "evs":[{"n":"Send"|"Rx", node, ai, l, i, f, k, dnet, dmac, hops, re,   *)
(*            tx, cache, pend, up, oth, exc}]}                              *)
(* tx = the frames the step put on LANs (independently decoded), cache /   *)
(* pend / up = projection of the acting node after the step, oth = other   *)
(* nodes whose projection changed (must be none).                          *)
(* Per step TLC decides (a) conformance: the logged step is the Router      *)
(* action named by the event, taken from the current state, and produces    *)
(* the logged frames and node state (until the first rejected step, after   *)
(* which the trace is only monitored), and (b) the C06 monitors = the       *)
(* invariants of Router.tla evaluated on the logged observations.  The      *)
(* delivery monitors are judged on loop-free internetworks only.            *)
(* One verdict record per trace is printed; nothing halts the run.          *)
(***************************************************************************)
EXTENDS Router, Json, IOUtils, TLCExt

Traces == ndJsonDeserialize(IOEnv.TRACE_FILE)
TraceTopos == Traces          \* a trace record carries the topology fields (nodes, lans) itself
VARIABLES pos, rej, viol
tvars == <<pos, rej, viol>>
TR == Traces[ti]
E == TR.evs

TInit ==
    /\ ti \in 1..Len(Traces) /\ pos = 1 /\ rej = 0 /\ viol = {}
    /\ cache = [n \in Nodes |-> SetOf(TR.cache0[n])]
    /\ pending = [n \in Nodes |-> TR.pend0[n]]
    /\ lan = [l \in Lans |-> <<>>]
    /\ up = [n \in Nodes |-> <<>>]
    /\ msgs = <<>> /\ tx = <<>> /\ nsteps = 0
    /\ act = [n |-> "Init", node |-> 0, ai |-> 0, l |-> 0, i |-> 0, f |-> NoFrame, m |-> NoMsg]

\* the copy the rig delivered is the copy the model has at that place
Pre(e) == e.n = "Rx" => /\ e.l \in Lans /\ e.i \in 1..Len(lan[e.l])
                        /\ lan[e.l][e.i].to = <<e.node, e.ai>> /\ lan[e.l][e.i].f = e.f
Act(e) ==
    CASE e.n = "Send" -> Send(e.node, e.k, e.dnet, e.dmac, e.hops, e.re)
      [] e.n = "Rx"   -> Pre(e) /\ Rx(e.l, e.i)
      [] OTHER        -> FALSE

Sel(p, d) == SelectSeq(p, LAMBDA q : q.dnet = d)
PendEq(p, q) == Len(p) = Len(q) /\ \A d \in {p[k].dnet : k \in 1..Len(p)} : Sel(p, d) = Sel(q, d)
\* conformance: frames emitted and the acting node's state agree with the log; nobody else changed
Match(e) ==
    /\ tx' = e.tx
    /\ cache'[e.node] = SetOf(e.cache)
    /\ PendEq(pending'[e.node], e.pend)
    /\ up'[e.node] = e.up
    /\ e.oth = <<>>

\* monitor mode: the observations are bound to the logged values; the medium is the harness's own
Bind(e) ==
    /\ lan' = PutAll(IF e.n = "Rx" /\ e.l \in Lans /\ e.i \in 1..Len(lan[e.l])
                       THEN [lan EXCEPT ![e.l] = DropAt(@, e.i)] ELSE lan, e.tx)
    /\ cache' = [cache EXCEPT ![e.node] = SetOf(e.cache)]
    /\ pending' = [pending EXCEPT ![e.node] = e.pend]
    /\ up' = [up EXCEPT ![e.node] = e.up]
    /\ msgs' = IF e.n = "Send" THEN Append(msgs, [src |-> e.node, k |-> e.k, dnet |-> e.dnet, dmac |-> e.dmac,
                                                   hops |-> e.hops, re |-> e.re]) ELSE msgs
    /\ tx' = e.tx
    /\ act' = [n |-> e.n, node |-> e.node, ai |-> e.ai, l |-> e.l, i |-> e.i, f |-> e.f,
               m |-> IF e.n = "Send" THEN msgs'[Len(msgs')] ELSE NoMsg]
    /\ nsteps' = nsteps + 1
    /\ UNCHANGED ti

\* the monitors of C06 on the step just taken (primed = logged observations)
Failing ==
    (IF HopDecrement' THEN {} ELSE {"HopDecrement"}) \cup
    (IF NeverBackOnArrivalNet' THEN {} ELSE {"NeverBackOnArrivalNet"}) \cup
    (IF ~TR.tree THEN {} ELSE
        (IF NoDuplicate' THEN {} ELSE {"NoDuplicate"}) \cup
        (IF NotToOthers' THEN {} ELSE {"NotToOthers"}) \cup
        (IF UnicastExactlyOnce' THEN {} ELSE {"ExactlyOnce.unicast"}) \cup
        (IF RemoteBroadcastExactlyOnce' THEN {} ELSE {"ExactlyOnce.remote_broadcast"}) \cup
        (IF GlobalBroadcastExactlyOnce' THEN {} ELSE {"ExactlyOnce.global_broadcast"}) \cup
        (IF LocalBroadcastStays' THEN {} ELSE {"ExactlyOnce.local_broadcast"}) \cup
        (IF ReplyRoutable' THEN {} ELSE {"ReplyRoutable"}))

Step ==
    /\ pos <= Len(E)
    /\ LET e == E[pos] IN
        /\ IF rej = 0 /\ ENABLED (Act(e) /\ Match(e))
             THEN Act(e) /\ Match(e) /\ rej' = rej
             ELSE Bind(e) /\ rej' = IF rej = 0 THEN pos ELSE rej
        /\ viol' = viol \cup {<<m, pos>> : m \in {x \in Failing : \A v \in viol : v[1] # x}}
    /\ pos' = pos + 1

Final == IF TR.livelock THEN {"Terminates"} ELSE IF Quiescent THEN {} ELSE {"NotQuiescentAtEnd"}
Done ==
    /\ pos = Len(E) + 1
    /\ PrintT(<<"@@", [tid |-> TR.tid, rej |-> rej, viol |-> viol, final |-> Final,
                       missing |-> IF TR.tree /\ Quiescent THEN Missing ELSE {}, steps |-> nsteps]>>)
    /\ pos' = pos + 1 /\ UNCHANGED <<vars, rej, viol>>

TNext == Step \/ Done
TSpec == TInit /\ [][TNext]_<<vars, tvars>>
=============================================================================
