SPECIFICATION Spec
INVARIANT Reported
CHECK_DEADLOCK FALSE
