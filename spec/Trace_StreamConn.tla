-------------------------- MODULE Trace_StreamConn --------------------------
(***************************************************************************)
(* Trace validation for StreamConn.tla.  Each line of TRACE_FILE is one     *)
(* execution recorded from a real TCPClientDirector / TCPServerDirector     *)
(* (socket layer stubbed by the harness) under a StreamToPacket with a      *)
(* StreamToPacketSAP as service element:                                    *)
(*   {"tid":n, "cfg":{"role":"client","connT":2,"idle":3},                  *)
(*    "evs":[{"op":"connect","p":"p1","r":2,"how":"inprogress",             *)
(*       "data":[], "note":[["add","p1"]], "up":[], "refused":false,        *)
(*       "st":{"now":0, "cl":{"p1":{"on":true,"conn":false,"q":[],          *)
(*             "wire":[]},..}, "part":{..}, "hasbuf":["p1"], "rc":{..},     *)
(*             "tasks":[{"k":"ct","p":"p1","due":2},..]}}]}                 *)
(* st is the projection after the step; the history variables (wanted, born, last,    *)
(* lost, acc) are functions of the events and of the logged table.  For     *)
(* every step TLC decides conformance and the X05 connection formulas; one  *)
(* verdict record per trace ("@@" prefix); nothing halts the run.           *)
(***************************************************************************)
EXTENDS StreamConn, Json, IOUtils, TLCExt

Traces == ndJsonDeserialize(IOEnv.TRACE_FILE)
VARIABLES tid, l, rej, viol
tvars == <<tid, l, rej, viol>>
T == Traces[tid].evs
ToSet(s) == {s[i] : i \in 1..Len(s)}

TInit ==
    /\ tid \in 1..Len(Traces) /\ l = 1 /\ rej = 0 /\ viol = {}
    /\ cf = Traces[tid].cfg
    /\ now = 0
    /\ cl = [p \in Peers |-> Off] /\ part = [p \in Peers |-> <<>>] /\ hasbuf = {}
    /\ rc = [p \in Peers |-> 0] /\ tasks = <<>>
    /\ wanted = [p \in Peers |-> FALSE] /\ born = [p \in Peers |-> 0] /\ last = [p \in Peers |-> 0]
    /\ lost = [p \in Peers |-> 0] /\ acc = [p \in Peers |-> <<>>]
    /\ note = <<>> /\ up = <<>> /\ refused = FALSE /\ act = Act("init", "", 0, "", <<>>) /\ nops = 0

ActOf(e) ==
    CASE e.op = "connect"    -> Connect(e.p, e.r, e.how)
      [] e.op = "disconnect" -> Disconnect(e.p)
      [] e.op = "send"       -> Send(e.p, e.data, e.how)
      [] e.op = "accept"     -> Accept(e.p)
      [] e.op = "writable"   -> Writable(e.p)
      [] e.op = "receive"    -> Receive(e.p, e.data)
      [] e.op = "peerclose"  -> PeerClose(e.p)
      [] e.op = "tick"       -> Tick(e.how)
      [] e.op = "wait"       -> Wait
      [] OTHER               -> FALSE

Bind(e) ==
    LET made(p) == e.st.cl[p].on /\ ~cl[p].on
        went(p) == cl[p].on /\ ~e.st.cl[p].on
        sends(p) == p = e.p /\ e.op = "send" /\ ~e.refused
    IN
    /\ UNCHANGED cf
    /\ now' = e.st.now /\ cl' = e.st.cl /\ part' = e.st.part /\ hasbuf' = ToSet(e.st.hasbuf)
    /\ rc' = e.st.rc /\ tasks' = e.st.tasks
    /\ note' = e.note /\ up' = e.up /\ refused' = e.refused
    /\ act' = Act(e.op, e.p, e.r, e.how, e.data)
    /\ nops' = IF e.op \in {"tick", "wait"} THEN nops ELSE nops + 1
    /\ wanted' = [p \in Peers |->
                    IF p # e.p THEN wanted[p]
                    ELSE IF e.op \in {"connect", "accept"} \/ sends(p) THEN TRUE
                    ELSE IF e.op = "disconnect" THEN FALSE ELSE wanted[p]]
    /\ born' = [p \in Peers |-> IF made(p) THEN e.st.now ELSE born[p]]
    /\ last' = [p \in Peers |-> IF made(p) \/ sends(p) \/ (p = e.p /\ e.op = "receive") THEN e.st.now ELSE last[p]]
    /\ lost' = [p \in Peers |-> IF went(p) THEN e.st.now ELSE lost[p]]
    /\ acc' = [p \in Peers |-> IF made(p) THEN (IF sends(p) THEN e.data ELSE <<>>)
                               ELSE IF sends(p) THEN acc[p] \o e.data ELSE acc[p]]

Failing ==
    (IF TimersBelongToActors' THEN {} ELSE {"TimersBelongToActors"}) \cup
    (IF DisconnectIsFinal' THEN {} ELSE {"DisconnectIsFinal"}) \cup
    (IF KeptAlive' THEN {} ELSE {"KeptAlive"}) \cup
    (IF SentInOrder' THEN {} ELSE {"SentInOrder"}) \cup
    (IF BuffersFollowTable' THEN {} ELSE {"BuffersFollowTable"}) \cup
    (IF NotesMatchTable THEN {} ELSE {"NotesMatchTable"}) \cup
    (IF ClosedForAReason THEN {} ELSE {"ClosedForAReason"}) \cup
    (IF ReceivedGoesUp THEN {} ELSE {"ReceivedGoesUp"}) \cup
    (IF ReceivedConserved THEN {} ELSE {"ReceivedConserved"})

Step ==
    /\ l <= Len(T)
    /\ LET e == T[l] IN
        /\ Bind(e)
        /\ rej' = IF rej = 0 /\ ~ENABLED (ActOf(e) /\ Bind(e)) THEN l ELSE rej
        /\ viol' = viol \cup {<<m, l>> : m \in {x \in Failing : \A v \in viol : v[1] # x}}
    /\ l' = l + 1 /\ UNCHANGED tid

Done ==
    /\ l = Len(T) + 1
    /\ PrintT(<<"@@", [tid |-> Traces[tid].tid, rej |-> rej, viol |-> viol]>>)
    /\ l' = l + 1 /\ UNCHANGED <<vars, tid, rej, viol>>

TNext == Step \/ Done
TSpec == TInit /\ [][TNext]_<<vars, tvars>>
=============================================================================
