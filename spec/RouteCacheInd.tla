--------------------------- MODULE RouteCacheInd ---------------------------
(***************************************************************************)
(* Inductive-invariant check of C19's `Coherent` with Apalache, for        *)
(* histories of any length (TLC checks RouteCache.tla to a level bound).    *)
(* Same actions as RouteCache.tla, stated on the two relations that its    *)
(* operators Credited and Named extract from the indexes:                  *)
(*   credited  <<s, a, d>>  router a on network s is credited with d       *)
(*   named     <<s, a, d>>  the lookup of d via s names a                  *)
(* (router records without destinations and the per-destination status do  *)
(* not occur in Coherent and are abstracted away).                         *)
(*   apalache-mc check --init=Init    --inv=IndInv --length=0 ...          *)
(*   apalache-mc check --init=IndInit --inv=IndInv --length=1 ...          *)
(***************************************************************************)
EXTENDS Integers, FiniteSets

SNets == {1, 2}
Addrs == {1, 2, 3}
DNets == {1, 2, 3, 4}
NoAddr == 0

VARIABLES
    \* @type: Set(<<Int, Int, Int>>);
    credited,
    \* @type: Set(<<Int, Int, Int>>);
    named,
    \* @type: Set(Int);
    attached

Triples == SNets \X Addrs \X DNets

Init ==
    /\ credited = {} /\ named = {}
    /\ attached \in SUBSET SNets

\* @type: (Int, Int, Set(Int)) => Bool;
Update(s, a, D) ==
    /\ s \in attached
    /\ credited' = {x \in credited : ~(x[1] = s /\ x[3] \in D)} \cup {<<s, a, d>> : d \in D}
    /\ named' = {x \in named : ~(x[1] = s /\ x[3] \in D)} \cup {<<s, a, d>> : d \in D}
    /\ UNCHANGED attached

\* @type: (Int, Int) => Bool;
DeleteRouter(s, a) ==
    /\ s \in attached
    /\ credited' = {x \in credited : ~(x[1] = s /\ x[2] = a)}
    /\ named' = {x \in named : ~(x[1] = s /\ x[2] = a)}
    /\ UNCHANGED attached

\* @type: (Int, Int, Set(Int)) => Bool;
DeleteDnets(s, x, D) ==
    /\ s \in attached
    /\ LET victims == {d \in D : \E y \in named : y[1] = s /\ y[3] = d /\ (x = NoAddr \/ y[2] = x)} IN
        /\ credited' = {y \in credited : ~(y[1] = s /\ y[3] \in victims)}
        /\ named' = {y \in named : ~(y[1] = s /\ y[3] \in victims)}
    /\ UNCHANGED attached

\* @type: (Int, Int) => Bool;
Renumber(old, new) ==
    /\ old \in attached /\ new \in SNets \ attached
    /\ credited' = {<<IF x[1] = old THEN new ELSE x[1], x[2], x[3]>> : x \in credited}
    /\ named' = {<<IF x[1] = old THEN new ELSE x[1], x[2], x[3]>> : x \in named}
    /\ attached' = (attached \ {old}) \cup {new}

Next ==
    \/ \E s \in SNets, a \in Addrs, D \in SUBSET DNets : Update(s, a, D)
    \/ \E s \in SNets, a \in Addrs : DeleteRouter(s, a)
    \/ \E s \in SNets, x \in Addrs \cup {NoAddr}, D \in SUBSET DNets : DeleteDnets(s, x, D)
    \/ \E old \in SNets, new \in SNets : Renumber(old, new)

TypeOK == credited \in SUBSET Triples /\ named \in SUBSET Triples /\ attached \in SUBSET SNets
OneNextHop   == \A x \in credited \cup named : \A y \in credited \cup named : (x[1] = y[1] /\ x[3] = y[3]) => x[2] = y[2]
LookupsLead  == credited \subseteq named
NothingElse  == named \subseteq credited
OnlyAttached == \A x \in credited \cup named : x[1] \in attached
Coherent == OneNextHop /\ LookupsLead /\ NothingElse /\ OnlyAttached

IndInv == TypeOK /\ Coherent
IndInit == TypeOK /\ Coherent
=============================================================================
