------------------------------- MODULE MC_Addr -------------------------------
(***************************************************************************)
(* Case grids for C18 and the theorems of Addr.tla over them.              *)
(*   Grid     = which grid this run enumerates                             *)
(*   Thorough = FALSE: boundary sample, TRUE: the full cross products      *)
(* Function-evaluation idiom: one initial state per case, no transitions;  *)
(* "distinct states" = number of cases evaluated.  When OUT_FILE is set    *)
(* every case is written there as one JSON line                            *)
(*   {"d": descriptor, "den": Denotes(d), "pr": Printed(Denotes(d))}         *)
(* for the harness to run on the real pdu.Address.                         *)
(***************************************************************************)
EXTENDS Addr, Json, IOUtils, SequencesExt, FiniteSets

CONSTANTS Grid, Thorough

VARIABLE c

(* Every grid is a SEQUENCE OF PARTS, each part a set of descriptors of one   *)
(* shape (TLC compares records of different shapes slowly, so big sets are *)
(* kept homogeneous); grids take a dummy parameter so that TLC does not    *)
(* evaluate the ones a run does not use.                                   *)
Ctor2(n, A) == {[form |-> "ctor2", net |-> n, arg |-> a] : a \in A}
LocalSt(A) == {[form |-> "LocalStation", arg |-> a] : a \in A}
RemoteSt(n, A) == {[form |-> "RemoteStation", net |-> n, arg |-> a] : a \in A}

\* ---- stations: all 256 station numbers and what lies just beyond, in every notation that carries one
StationNos == 0..255 \cup {256, 257, 300, 1000, 65535}
IntArgs(S) == {[form |-> "station_int", st |-> s] : s \in S}
StrArgs(S) == {[form |-> "station", st |-> s] : s \in S}
Raw1(S) == {[form |-> "raw", octets |-> <<s>>, spell |-> sp] : s \in S \cap 0..255, sp \in {"bytes", "bytearray"}}
G_stations(th) ==
    << {[form |-> "station", st |-> s, lz |-> z] : s \in StationNos, z \in {0, 2}},
       IntArgs(StationNos \cup {-1}),
       Raw1(StationNos),
       {[form |-> "net_station", net |-> 1, st |-> s] : s \in StationNos},
       {[form |-> f, octets |-> <<s>>, net |-> n] : f \in {"hex", "xquote"}, s \in 0..255, n \in {NoNet, 1}},
       Ctor2(1, IntArgs(StationNos \cup {-1})), Ctor2(1, Raw1(StationNos)), Ctor2(1, StrArgs(StationNos)),
       LocalSt(IntArgs(StationNos \cup {-1})), LocalSt(Raw1(StationNos)),
       RemoteSt(1, IntArgs(StationNos \cup {-1})), RemoteSt(1, Raw1(StationNos)) >>

\* ---- networks at the range edges, in every notation that carries a network number
Nets == {0, 1, 65534, 65535, 65536, 70000}
IntNets == Nets \cup {-1}              \* the constructors take an int, which can be negative (NoNet = -1: never a network)
SomeIP == <<10, 0, 1, 2>>
LocalArgs ==
    {[form |-> "station_int", st |-> 5], [form |-> "station", st |-> 5], [form |-> "station_int", st |-> 256],
     [form |-> "raw", octets |-> <<5>>, spell |-> "bytes"], [form |-> "raw", octets |-> SomeIP \o <<186, 192>>, spell |-> "bytes"],
     [form |-> "raw", octets |-> <<1, 2, 3>>, spell |-> "bytearray"],
     [form |-> "hex", octets |-> <<1, 2>>, net |-> NoNet], [form |-> "xquote", octets |-> <<1, 2>>, net |-> NoNet],
     [form |-> "ip", a |-> SomeIP, mask |-> NoMask, port |-> NoPort, net |-> NoNet],
     [form |-> "ip", a |-> SomeIP, mask |-> 24, port |-> 47809, net |-> NoNet],
     [form |-> "tuple", a |-> SomeIP, port |-> 47808, spell |-> "str"],
     [form |-> "local_bcast"]}
NonLocalArgs ==     \* Address(net, x) with x already remote / global: refused whatever the network
    {[form |-> "net_station", net |-> 2, st |-> 5], [form |-> "net_bcast", net |-> 2], [form |-> "global_bcast"],
     [form |-> "hex", octets |-> <<1, 2>>, net |-> 2], [form |-> "ip", a |-> SomeIP, mask |-> NoMask, port |-> NoPort, net |-> 2]}
G_nets(th) ==
    << {[form |-> "net_station", net |-> n, st |-> s, nlz |-> z] : n \in Nets, s \in {0, 5, 255, 256}, z \in {0, 1}},
       {[form |-> "net_bcast", net |-> n, nlz |-> z] : n \in Nets, z \in {0, 1}},
       {[form |-> f, octets |-> o, net |-> n] : f \in {"hex", "xquote"}, o \in {<<5>>, <<1, 2>>, SomeIP \o <<186, 192>>}, n \in Nets},
       {[form |-> "ip", a |-> SomeIP, mask |-> m, port |-> p, net |-> n] : m \in {NoMask, 24}, p \in {NoPort, 47809}, n \in Nets},
       UNION {Ctor2(n, LocalArgs \cup NonLocalArgs) : n \in IntNets},
       UNION {RemoteSt(n, {x \in LocalArgs : x.form \in {"station_int", "raw"}}) : n \in IntNets},
       {[form |-> "RemoteBroadcast", net |-> n] : n \in IntNets},
       {[form |-> "local_bcast"], [form |-> "global_bcast"], [form |-> "LocalBroadcast"], [form |-> "GlobalBroadcast"]} >>

\* ---- IPv4 boundary octets x all 33 mask lengths x port boundaries
Edge == {0, 1, 127, 128, 254, 255}
AddrsQuick ==
    {<<0, 0, 0, 0>>, <<255, 255, 255, 255>>, <<1, 2, 3, 4>>, <<10, 0, 1, 2>>, <<127, 0, 0, 1>>, <<128, 0, 0, 0>>,
     <<192, 168, 1, 255>>, <<254, 1, 128, 127>>, <<0, 255, 0, 255>>, <<255, 0, 255, 0>>, <<1, 0, 0, 0>>, <<0, 0, 0, 1>>,
     <<127, 255, 255, 255>>, <<128, 128, 128, 128>>, <<172, 16, 254, 1>>, <<169, 254, 0, 129>>, <<85, 170, 85, 170>>}
AddrsAll == {<<a, b, x, y>> : a \in Edge, b \in Edge, x \in Edge, y \in Edge}
Masks == {NoMask} \cup 0..32
Ports == {0, 47807, 47808, 47823, 47824, 65535}
BadPorts == {65536, 70000}
IPCases(A, M, P, N) == {[form |-> "ip", a |-> a, mask |-> m, port |-> p, net |-> n] : a \in A, m \in M, p \in P, n \in N}
TupleCases(A, P) == {[form |-> "tuple", a |-> a, port |-> p, spell |-> sp] : a \in A, p \in P, sp \in {"str", "int"}}
Raw6Cases(A, P) == {[form |-> "raw", octets |-> a \o PortOctets(p), spell |-> "bytes"] : a \in A, p \in P}
G_ip(th) ==      \* (big sets are separate parts: TLC's union of two big sets is quadratic)
    << IPCases(AddrsQuick, Masks, Ports \cup {NoPort}, {NoNet, 1}),
       IPCases({<<1, 2, 3, 4>>, <<255, 255, 255, 255>>}, {NoMask, 0, 24}, BadPorts, {NoNet, 1}),       \* port does not fit 16 bits
       IPCases({<<1, 2, 3, 4>>, <<255, 255, 255, 255>>}, {33, 34, 64}, {NoPort, 47808}, {NoNet, 1}),    \* no such mask
       IPCases({<<1, 2, 3, 256>>, <<256, 0, 0, 1>>, <<1, 300, 0, 1>>}, {NoMask, 24}, {NoPort}, {NoNet, 1}), \* not an octet
       TupleCases(AddrsQuick, Ports),
       TupleCases({<<1, 2, 3, 4>>}, BadPorts \cup {-1}),
       {[form |-> "tuple", a |-> <<0, 0, 0, 0>>, port |-> p, spell |-> "empty"] : p \in Ports},
       Ctor2(1, TupleCases({<<10, 0, 1, 2>>}, Ports \cup BadPorts)),
       Raw6Cases(AddrsQuick, Ports),
       IF th THEN IPCases(AddrsAll \ AddrsQuick, 0..32, {NoPort}, {NoNet}) ELSE {},
       IF th THEN IPCases(AddrsAll \ AddrsQuick, {NoMask}, Ports, {NoNet, 65534}) ELSE {},
       IF th THEN TupleCases(AddrsAll \ AddrsQuick, {47808, 65535}) ELSE {},
       IF th THEN Raw6Cases(AddrsAll \ AddrsQuick, {47808, 47824}) ELSE {} >>

\* ---- octet strings of length 1..7 as raw octets, 0x.., X'..', with and without network, through every constructor
RECURSIVE Strings(_, _)
Strings(S, n) == IF n = 0 THEN {<<>>} ELSE {<<x>> \o s : x \in S, s \in Strings(S, n - 1)}
OctetStrings(th) ==
    (UNION {Strings({0, 255}, n) : n \in 1..7}) \cup
    {<<1>>, <<1, 2>>, <<1, 2, 3>>, <<1, 2, 3, 4>>, <<1, 2, 3, 4, 5>>, <<1, 2, 3, 4, 5, 6>>, <<1, 2, 3, 4, 5, 6, 7>>} \cup
    {<<10, 0, 1, 2>> \o PortOctets(p) : p \in {47807, 47808, 47809, 47823, 47824}} \cup         \* the printer's dotted / hex edge
    {<<0>> \o <<10, 0, 1, 2>> \o PortOctets(47808), <<10, 0, 1>> \o PortOctets(47808), <<186, 192>>, <<7, 186, 192>>} \cup
    (IF th THEN (UNION {Strings({0, 127, 186, 192, 255}, n) : n \in 1..4}) \cup Strings({0, 186, 255}, 7) \cup
                {<<10, 0, 1, 2, x, y>> : x, y \in {0, 185, 186, 187, 191, 192, 207, 208, 255}}
     ELSE {})
RawOf(O, sp) == {[form |-> "raw", octets |-> o, spell |-> sp] : o \in O}
G_octets(th) ==
    LET O == OctetStrings(th) IN
    << RawOf(O, "bytes"), RawOf(O, "bytearray"),
       {[form |-> f, octets |-> o, net |-> n, uc |-> u] : f \in {"hex", "xquote"}, o \in O, n \in {NoNet, 65534}, u \in {0, 1}},
       Ctor2(1, RawOf(O, "bytes")),
       Ctor2(1, {[form |-> "hex", octets |-> o, net |-> NoNet] : o \in O}),
       LocalSt(RawOf(O, "bytes")),
       RemoteSt(1, RawOf(O, "bytearray")) >>

\* ---- pool of equivalent spellings: <<group, descriptor>>; two members are meant to be the same address
\*      exactly when their groups are equal
R(o) == [form |-> "raw", octets |-> o, spell |-> "bytes"]
RA(o) == [form |-> "raw", octets |-> o, spell |-> "bytearray"]
I(s) == [form |-> "station_int", st |-> s]
IPs(a, m, p, n) == [form |-> "ip", a |-> a, mask |-> m, port |-> p, net |-> n]
LocalSpellings(s) ==        \* the one-octet local station s
    {[form |-> "station", st |-> s, lz |-> 0], [form |-> "station", st |-> s, lz |-> 2], I(s), R(<<s>>), RA(<<s>>),
     [form |-> "hex", octets |-> <<s>>, net |-> NoNet, uc |-> 0], [form |-> "xquote", octets |-> <<s>>, net |-> NoNet, uc |-> 1],
     [form |-> "LocalStation", arg |-> I(s)], [form |-> "LocalStation", arg |-> R(<<s>>)]}
RemoteSpellings(n, s) ==
    {[form |-> "net_station", net |-> n, st |-> s], [form |-> "net_station", net |-> n, st |-> s, nlz |-> 1, lz |-> 1],
     [form |-> "hex", octets |-> <<s>>, net |-> n, uc |-> 0], [form |-> "xquote", octets |-> <<s>>, net |-> n, uc |-> 0],
     [form |-> "ctor2", net |-> n, arg |-> I(s)], [form |-> "ctor2", net |-> n, arg |-> [form |-> "station", st |-> s]],
     [form |-> "ctor2", net |-> n, arg |-> R(<<s>>)], [form |-> "ctor2", net |-> n, arg |-> [form |-> "xquote", octets |-> <<s>>, net |-> NoNet]],
     [form |-> "RemoteStation", net |-> n, arg |-> I(s)], [form |-> "RemoteStation", net |-> n, arg |-> RA(<<s>>)]}
LocalIPSpellings(a, p) ==
    {IPs(a, NoMask, p, NoNet), IPs(a, 32, p, NoNet), IPs(a, 24, p, NoNet), IPs(a, 0, p, NoNet),
     [form |-> "tuple", a |-> a, port |-> p, spell |-> "str"], [form |-> "tuple", a |-> a, port |-> p, spell |-> "int"],
     R(a \o PortOctets(p)), RA(a \o PortOctets(p)),
     [form |-> "hex", octets |-> a \o PortOctets(p), net |-> NoNet, uc |-> 1],
     [form |-> "xquote", octets |-> a \o PortOctets(p), net |-> NoNet, uc |-> 0],
     [form |-> "LocalStation", arg |-> R(a \o PortOctets(p))]} \cup
    (IF p = DefaultPort THEN {IPs(a, NoMask, NoPort, NoNet), IPs(a, 16, NoPort, NoNet)} ELSE {})
RemoteIPSpellings(n, a, p) ==
    {IPs(a, NoMask, p, n), IPs(a, 8, p, n),
     [form |-> "hex", octets |-> a \o PortOctets(p), net |-> n, uc |-> 0],
     [form |-> "ctor2", net |-> n, arg |-> IPs(a, NoMask, p, NoNet)],
     [form |-> "ctor2", net |-> n, arg |-> [form |-> "tuple", a |-> a, port |-> p, spell |-> "str"]],
     [form |-> "ctor2", net |-> n, arg |-> R(a \o PortOctets(p))],
     [form |-> "RemoteStation", net |-> n, arg |-> R(a \o PortOctets(p))]}
OctetSpellings(o) ==
    {R(o), RA(o), [form |-> "hex", octets |-> o, net |-> NoNet, uc |-> 0], [form |-> "hex", octets |-> o, net |-> NoNet, uc |-> 1],
     [form |-> "xquote", octets |-> o, net |-> NoNet, uc |-> 0], [form |-> "LocalStation", arg |-> RA(o)]}
Tag(g, S) == {<<g, d>> : d \in S}
PoolQuick ==
    Tag(1, LocalSpellings(5)) \cup Tag(2, LocalSpellings(6)) \cup Tag(3, LocalSpellings(0)) \cup
    Tag(4, RemoteSpellings(1, 5)) \cup Tag(5, RemoteSpellings(2, 5)) \cup Tag(6, RemoteSpellings(1, 6)) \cup
    Tag(7, RemoteSpellings(0, 5)) \cup
    Tag(8, {[form |-> "local_bcast"], [form |-> "LocalBroadcast"]}) \cup
    Tag(9, {[form |-> "net_bcast", net |-> 1], [form |-> "net_bcast", net |-> 1, nlz |-> 2], [form |-> "RemoteBroadcast", net |-> 1],
            [form |-> "ctor2", net |-> 1, arg |-> [form |-> "local_bcast"]]}) \cup
    Tag(10, {[form |-> "net_bcast", net |-> 2], [form |-> "RemoteBroadcast", net |-> 2]}) \cup
    Tag(11, {[form |-> "net_bcast", net |-> 0], [form |-> "RemoteBroadcast", net |-> 0]}) \cup
    Tag(12, {[form |-> "global_bcast"], [form |-> "GlobalBroadcast"]}) \cup
    Tag(13, LocalIPSpellings(<<10, 0, 1, 2>>, 47808)) \cup Tag(14, LocalIPSpellings(<<10, 0, 1, 2>>, 47809)) \cup
    Tag(15, LocalIPSpellings(<<10, 0, 1, 3>>, 47808)) \cup
    Tag(16, RemoteIPSpellings(1, <<10, 0, 1, 2>>, 47808)) \cup Tag(17, RemoteIPSpellings(2, <<10, 0, 1, 2>>, 47808)) \cup
    Tag(18, OctetSpellings(<<0, 5>>)) \cup Tag(19, OctetSpellings(<<5, 0>>)) \cup Tag(20, OctetSpellings(<<1, 2, 3, 4, 5, 6, 7>>)) \cup
    Tag(21, LocalIPSpellings(<<0, 0, 0, 0>>, 47808) \cup {[form |-> "tuple", a |-> <<0, 0, 0, 0>>, port |-> 47808, spell |-> "empty"]})
PoolMore ==
    Tag(30, LocalSpellings(255)) \cup Tag(31, RemoteSpellings(65534, 255)) \cup Tag(32, RemoteSpellings(65534, 5)) \cup
    Tag(33, LocalIPSpellings(<<255, 255, 255, 255>>, 65535)) \cup Tag(34, LocalIPSpellings(<<10, 0, 1, 2>>, 0)) \cup
    Tag(35, RemoteIPSpellings(65534, <<255, 255, 255, 255>>, 65535)) \cup Tag(36, RemoteIPSpellings(1, <<10, 0, 1, 2>>, 47823)) \cup
    Tag(37, OctetSpellings(<<5, 5>>)) \cup Tag(38, OctetSpellings(<<10, 0, 1, 2, 186>>)) \cup
    Tag(39, {[form |-> "net_bcast", net |-> 65534], [form |-> "RemoteBroadcast", net |-> 65534],
             [form |-> "ctor2", net |-> 65534, arg |-> [form |-> "local_bcast"]]}) \cup
    Tag(40, OctetSpellings(<<0>> \o <<10, 0, 1, 2>> \o PortOctets(47808))) \cup Tag(41, LocalSpellings(1))
Pool == IF Thorough THEN PoolQuick \cup PoolMore ELSE PoolQuick
PoolSeq == SetToSeq(Pool)
PoolKeys == [k \in 1..Len(PoolSeq) |-> Key(Denotes(PoolSeq[k][2]))]
G_pool(th) == << {p[2] : p \in Pool} >>

Parts == CASE Grid = "stations" -> G_stations(Thorough)
           [] Grid = "nets"     -> G_nets(Thorough)
           [] Grid = "ip"       -> G_ip(Thorough)
           [] Grid = "octets"   -> G_octets(Thorough)
           [] Grid = "pool"     -> G_pool(Thorough)

Vector(x) == [d |-> x, den |-> Denotes(x), pr |-> IF IsRefused(Denotes(x)) THEN [form |-> "none"] ELSE Printed(Denotes(x))]
PartVectors(S) == SetToSeq({Vector(x) : x \in S})
RECURSIVE AllVectors(_)
AllVectors(k) == IF k = 0 THEN <<>> ELSE AllVectors(k - 1) \o PartVectors(Parts[k])
ASSUME "OUT_FILE" \in DOMAIN IOEnv => ndJsonSerialize(IOEnv.OUT_FILE, AllVectors(Len(Parts)))
\* the pool keeps its grouping: one line per member, [g, d]
ASSUME (Grid = "pool" /\ "POOL_FILE" \in DOMAIN IOEnv) =>
           ndJsonSerialize(IOEnv.POOL_FILE, [k \in 1..Len(PoolSeq) |-> [g |-> PoolSeq[k][1], d |-> PoolSeq[k][2]]])

\* in the pool grid the state is the index of a pool member, elsewhere the descriptor itself
Init == IF Grid = "pool" THEN c \in 1..Len(PoolSeq) ELSE \E k \in 1..Len(Parts) : c \in Parts[k]
Next == UNCHANGED c
Case == IF Grid = "pool" THEN PoolSeq[c][2] ELSE c

TheoremsHold == Theorems(Case)
\* "Equiv(d1, d2) <=> Denotes equal" is an equivalence relation (reflexive, symmetric, transitive), it is the
\* intended grouping of the pool, and equivalent spellings have the same hash key
PoolEquivalence ==
    Grid = "pool" =>
        LET n == Len(PoolSeq)
            E(a, b) == PoolKeys[a] = PoolKeys[b]
        IN  /\ ~IsRefused(Denotes(Case))
            /\ E(c, c) /\ Equiv(Case, Case)
            /\ \A j \in 1..n :
                  /\ E(c, j) = E(j, c)
                  /\ E(c, j) = Equiv(Case, PoolSeq[j][2])
                  /\ E(c, j) = (PoolSeq[c][1] = PoolSeq[j][1])
                  /\ E(c, j) => (HashKey(Denotes(Case)) = HashKey(Denotes(PoolSeq[j][2])))
                  /\ E(c, j) => (\A k \in 1..n : (E(j, k) => E(c, k)))
=============================================================================
