----------------------------- MODULE MC_Device -----------------------------
(***************************************************************************)
(* Constants for the design model of Device.tla: every abstract input      *)
(* class (link x network x application header x what the parameters lead   *)
(* to) alone and interleaved with valid requests in the same deferred      *)
(* batch.  The cfg files switch the named deviations on one at a time.     *)
(***************************************************************************)
EXTENDS Device

Cl(l, n, a, inv, svc, mr) == [link |-> l, net |-> n, app |-> a, inv |-> inv, svc |-> svc, maxresp |-> mr, sa |-> FALSE, routed |-> FALSE]
G(c, body, dis) == [c |-> c, src |-> 1, role |-> "g", want |-> <<"g">>, body |-> body, dis |-> dis]
PassUp == {"ucast", "bcast", "fwd"}
Reach == {"local", "global"}
Invs == {1, 2}
Bodies == {"ok", "err", "rej", "unk", "raises"}

c_Inputs ==
         {G(Cl(l, "na", "na", NONE, NONE, NONE), "ok", FALSE) : l \in {"bad", "unknown", "other"}}
    \cup {G(Cl(l, n, "na", NONE, NONE, NONE), "ok", FALSE) : l \in PassUp, n \in {"bad", "unspec", "netmsg"}}
    \cup {G(Cl(l, "remote", a, 1, 12, 5), "ok", FALSE) : l \in PassUp, a \in {"creq", "cseg"}}
    \cup {G(Cl(l, n, a, NONE, NONE, NONE), "ok", FALSE) : l \in PassUp, n \in Reach, a \in {"bad", "resp"}}
    \cup {G(Cl(l, n, "ureq", NONE, s, NONE), b, FALSE) : l \in PassUp, n \in Reach, s \in {WhoIsService, 2}, b \in {"ok", "rej", "raises"}}
    \cup {G(Cl(l, n, "cseg", i, 12, mr), "ok", FALSE) : l \in PassUp, n \in Reach, i \in Invs, mr \in {5, 9}}
    \cup {G(Cl(l, n, "creq", i, 12, mr), b, FALSE) : l \in PassUp, n \in Reach, i \in Invs, mr \in {5, 9}, b \in Bodies}
    \cup {G(Cl(l, n, "creq", i, 17, mr), b, d) : l \in PassUp, n \in Reach, i \in Invs, mr \in {5, 9}, b \in {"ok", "raises"}, d \in BOOLEAN}

RP(src, inv) == [c |-> Cl("ucast", "local", "creq", inv, 12, 5), src |-> src, role |-> "rp", want |-> <<"value", src, inv>>,
                 body |-> "ok", dis |-> FALSE]
WhoIs(src) == [c |-> Cl("bcast", "global", "ureq", NONE, WhoIsService, NONE), src |-> src, role |-> "whois", want |-> <<>>,
               body |-> "ok", dis |-> FALSE]
c_Companions == {RP(1, 1), RP(1, 3), RP(2, 1), WhoIs(1)}
c_Shapes == {<<"g">>, <<"g", "v">>, <<"v", "g">>, <<"v", "g", "v">>, <<"g", "g", "v">>}
=============================================================================
