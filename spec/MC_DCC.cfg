SPECIFICATION Spec
CHECK_DEADLOCK FALSE
CONSTANTS
  Durations = {0, 1, 2}
  TPM = 2
  MaxNow = 6
  CfgPws = {"none", "set"}
  ReqPws = {"none", "good", "bad"}
  Dev_SwallowBlocksQueue = FALSE
  Dev_UnsolicitedIAmPasses = FALSE
INVARIANT TypeOK
INVARIANT DesignSane
PROPERTY P_CorrectPasswordAcked
PROPERTY P_WrongPasswordRefused
PROPERTY P_DisableSilent
PROPERTY P_DisableAnswersReinit
PROPERTY P_DisableInitiatesNothing
PROPERTY P_DisInitResponds
PROPERTY P_DisInitInitiatesNothing
PROPERTY P_EnableNormal
PROPERTY P_RefusedChangesNothing
PROPERTY P_LaterRequestReplaces
PROPERTY P_ReturnsOnTime
